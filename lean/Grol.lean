import Grol.Wire
import Grol.Suite
import Grol.Trie
import Grol.TrieSuite
import Grol.Object
import Grol.Cmp
import Grol.Value
import Grol.CmpSuite

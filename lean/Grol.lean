import Grol.Wire
import Grol.Suite
import Grol.Trie
import Grol.TrieSuite
import Grol.Sanitize
import Grol.SanitizeSuite
import Grol.AutoSave
import Grol.AutoSaveSuite

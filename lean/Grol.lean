import Grol.Wire
import Grol.Suite
import Grol.Trie
import Grol.TrieSuite
import Grol.Token
import Grol.Lexer
import Grol.LexSuite

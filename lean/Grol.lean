import Grol.Wire
import Grol.Suite
import Grol.Trie
import Grol.TrieSuite
import Grol.Eval.Suite
import Grol.Token
import Grol.Lexer
import Grol.LexSuite

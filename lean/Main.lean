import Grol
import Std.Data.HashSet
/-
Model driver.  usage: grolmodel <suite> < cases.tsv
Each input line:  <input>\t<implementation observation>
Output: one `D` line per disagreement, one `F` line per case on which the property's
statement fails on the implementation's observation, `M` when it fails on the model's,
and a final `S` summary line plus `T` tag-histogram lines.
-/
open Grol

def suites : List (String × (String → String → CaseResult)) :=
  [("trie", TrieSuite.runCase)] ++
  [("eval", EvalSuite.runCase)] ++
  [("lex", LexSuite.runCase)] ++
  [("sanitize", SanitizeSuite.runCase)] ++
  [("autosave", AutoSaveSuite.runCase)] ++
  [("memory", MemorySuite.runCase)] ++
  [("cmp", CmpSuite.runCase)] ++
  [("mapops", MapSuite.runCase)] ++
  [("parse", ParseSuite.runCase .c08)] ++
  [("parse15", ParseSuite.runCase .c15)] ++
  [("format", FormatSuite.runCase .c02)] ++
  [("format03", FormatSuite.runCase .c03)] ++
  [("macro", MacroSuite.runCase)] ++
  [("saveload", SaveSuite.runCase)] ++
  [("session", SessionSuite.runCase)] ++
  [("bounded", BoundedSuite.runCase)] ++
  [("chunks", ChunkSuite.runCase)] ++
  [("consts", ConstsSuite.runCase)] ++
  [("values", ValuesSuite.runCase)] ++
  [("extcache", ExtCacheSuite.runCase)] ++
  [("regrewrite", RegRewriteSuite.runCase)] ++
  [("printtokens", PrintTokensSuite.runCase)] ++
  []

structure DAcc where
  cases : Nat := 0
  agree : Nat := 0
  stmtImplOk : Nat := 0
  stmtModelOk : Nat := 0
  nontrivial : Nat := 0
  unmodelled : Nat := 0
  bad : Nat := 0
  tags : List (String × Nat) := []
  seen : Std.HashSet String := {}
  distinctNontrivial : Nat := 0

def bump (tags : List (String × Nat)) (t : String) : List (String × Nat) :=
  match tags with
  | [] => [(t, 1)]
  | (k, n) :: rest => if k == t then (k, n + 1) :: rest else (k, n) :: bump rest t

partial def loop (run : String → String → CaseResult) (h : IO.FS.Stream) (lineNo : Nat) (acc : DAcc) : IO DAcc := do
  let line ← h.getLine
  if line.isEmpty then return acc
  let line := (line.dropEndWhile (fun c => c == '\n' || c == '\r')).toString
  let (inp, obs) := match line.splitOn "\t" with
    | [a, b] => (a, b)
    | [a] => (a, "")
    | _ => ("", "")
  -- a Go panic that escaped the code under test (or a case that never returned) is a failing case of
  -- whatever property the suite serves, not a malformed line
  let crashed := obs == "PANIC" || obs == "HANG"
  let r := if crashed then
      ({ model := "-", agree := false, stmtModel := true, stmtImpl := false } : CaseResult)
    else run inp obs
  let out ← IO.getStdout
  if r.bad then out.putStrLn s!"B {lineNo} {inp}"
  else do
    if !r.agree && !r.unmodelled then out.putStrLn s!"D {lineNo} input={inp} impl={obs} model={r.model}"
    let cls := if r.klass.isEmpty then "" else s!" class={r.klass}"
    if !r.stmtImpl then out.putStrLn s!"F {lineNo} input={inp} impl={obs}{cls}"
    if !r.stmtModel && !r.unmodelled then out.putStrLn s!"M {lineNo} input={inp} model={r.model}{cls}"
  let isNew := r.nontrivial && !acc.seen.contains inp
  if isNew && acc.distinctNontrivial % 4096 == 0 && acc.distinctNontrivial < 8 * 4096 then
    out.putStrLn s!"X {inp} => {r.model}"
  let acc := { acc with
    cases := acc.cases + 1
    agree := acc.agree + (if r.agree then 1 else 0)
    stmtImplOk := acc.stmtImplOk + (if r.stmtImpl then 1 else 0)
    stmtModelOk := acc.stmtModelOk + (if r.stmtModel then 1 else 0)
    nontrivial := acc.nontrivial + (if r.nontrivial then 1 else 0)
    unmodelled := acc.unmodelled + (if r.unmodelled then 1 else 0)
    bad := acc.bad + (if r.bad then 1 else 0)
    tags := r.tags.foldl bump acc.tags
    seen := if isNew then acc.seen.insert inp else acc.seen
    distinctNontrivial := acc.distinctNontrivial + (if isNew then 1 else 0) }
  loop run h (lineNo + 1) acc

def main (args : List String) : IO UInt32 := do
  match args with
  | [suite] =>
    match suites.lookup suite with
    | none => IO.eprintln s!"unknown suite {suite}"; return 2
    | some run =>
      let acc ← loop run (← IO.getStdin) 1 {}
      IO.println s!"S cases={acc.cases} agree={acc.agree} stmt_impl_ok={acc.stmtImplOk} stmt_model_ok={acc.stmtModelOk} nontrivial={acc.nontrivial} distinct_nontrivial={acc.distinctNontrivial} unmodelled={acc.unmodelled} bad={acc.bad}"
      for (t, n) in acc.tags do IO.println s!"T {t} {n}"
      return 0
  | _ => IO.eprintln "usage: grolmodel <suite>"; return 2

import Grol.Suite
import Grol.Memory
/-
Driver side of the `bounded` suite (harness/cmd/harness/bounded.go): the RUNTIME part of C09.

Every case is one program run in its own child process (GOMEMLIMIT = 256 MiB, address-space
ulimit, hard kill timeout) through repl.EvalStringWithOption with MaxDepth / MaxDuration set.
What comes back are MEASUREMENTS (exit status, wall-clock time, peak resident set size) and the
kind of result.  `statement` below is the executable statement of the runtime part of C09; its
thresholds are the named constants `slackMs`, `rssFactor`, `memLimitKB`.  Nothing here is a
theorem about Go's scheduler, garbage collector or stack growth.

Where the existing models can predict the result kind they do (and the prediction is compared:
`agree`): the allocation guard model `Grol.Memory` for the huge-operand families (when the answer is
the same for every plausible amount of free memory), the depth counter `Grol.Depth` for recursion
whose nesting need is known (`chainOk`, proved equivalent to running the counter model in
GrolProofs/Props/C09.lean), and the trivial predictions "a non-terminating loop ends by the
deadline", "unbounded recursion without a deadline ends by the depth guard".
-/
namespace Grol.BoundedSuite
open Grol.Wire Grol.Memory

/-- wall-clock slack after the deadline, in ms.  One evaluation step that is not polled can be as large as
the memory budget allows (`a+a` on a 64 MiB array under GC pressure: about 1.2 s measured); the rest is
tolerance for a busy machine (a slow run is repeated once alone by the harness before it is reported). -/
def slackMs : Nat := 3000
/-- GOMEMLIMIT of the children, KiB -/
def memLimitKB : Nat := 256 * 1024
/-- allowed peak RSS as a multiple of the limit -/
def rssFactor : Nat := 4
def defaultMaxDepth : Nat := 150000

structure Case where
  fam : String
  n : Int
  d : Nat
  t : Nat
  need : Option Nat

structure Obs where
  exit : String
  res : String
  wall : Nat
  rss : Int
  retried : Bool
  /-- CPU time (user + system) the child spent in the evaluation, ms; -1 when not reported -/
  cpu : Int := -1

def parseCase (s : String) : Option Case :=
  match splitOn s ';' with
  | fam :: n :: d :: t :: rest => do
    -- `ctx-<family>`: the same program, the deadline carried by the caller's context (no MaxDuration): same statement
    let fam := if fam.startsWith "ctx-" then (fam.drop 4).toString else fam
    let need ← match rest with
      | [] => some none
      | [x] => x.toNat?.map some
      | _ => none
    pure { fam := fam, n := ← n.toInt?, d := ← d.toNat?, t := ← t.toNat?, need := need }
  | _ => none

def field (kvs : List String) (k : String) : Option String :=
  kvs.findSome? fun kv => if kv.startsWith (k ++ "=") then some (kv.drop (k.length + 1)).toString else none

def parseObs (s : String) : Option Obs := do
  let kvs := splitOn s ';'
  pure { exit := ← field kvs "exit", res := ← field kvs "res", wall := ← (← field kvs "wall").toNat?,
         rss := ← (← field kvs "rss").toInt?, retried := (← field kvs "retried") == "1",
         cpu := ((field kvs "cpu").bind (·.toInt?)).getD (-1) }

def Case.maxDepth (c : Case) : Nat := if c.d == 0 then defaultMaxDepth else c.d

/-- `n` nested evaluations succeed iff n = 0 or n ≤ MaxDepth + 1 (Grol.Depth.C09.chain_ok_iff at d = 0) -/
def chainOk (m n : Nat) : Bool := n == 0 || n ≤ m + 1

def isUnboundedRec (fam : String) : Bool :=
  ["rec-self", "rec-arg", "rec-mutual", "rec-closure", "rec-selfkw", "rec-nontail"].contains fam

/-- bounded_ext.go: non-terminating loops around builtins and library functions -/
def isExtLoop (fam : String) : Bool :=
  ["ext-print-big", "ext-log-big", "ext-eval-loop", "ext-catch-loop", "ext-catch-deadline"].contains fam

/-- bounded_ext.go: unbounded recursion that goes through eval() at every level -/
def isExtRec (fam : String) : Bool := ["ext-eval-rec", "ext-eval-rec-arg"].contains fam

/-- bounded_ext.go: one library call on an operand of size n whose result is a multiple of it -/
def isExtBig (fam : String) : Bool :=
  ["ext-split-chars", "ext-split-sep", "ext-runes", "ext-regsub", "ext-str-big", "ext-json-big", "ext-base64"].contains fam

/-- bounded_ext.go: growth in a loop through library functions / host-side objects -/
def isExtGrow (fam : String) : Bool :=
  ["ext-image-loop", "ext-sprintf-double", "ext-join-double", "ext-str-double"].contains fam

/-- nested text that is COMPUTED by the program and handed to the parser by unjson / eval -/
def isExtNest (fam : String) : Bool := ["ext-unjson-nest", "ext-eval-nest"].contains fam

def i64 (i : Int) : I64 := BitVec.ofInt 64 i

def outRes : Out → String
  | .ok _ => "ok"
  | .err => "err"
  | .guard => "mem"
  | .goPanic => "go"

/-- the allocation guard model on the huge-operand programs, for a given amount of free memory -/
def hugeModel (fam : String) (n : Int) (free : Int) : Option String :=
  match fam with
  | "huge-str" => some (outRes (strRepeat free free 2 (i64 n)))
  | "huge-arr" => some (outRes (arrRepeat free free 1 (i64 n)))
  | "huge-rng" => some (outRes (range free free (i64 0) (i64 n)))
  -- empty operand times a huge count: the request is 0 objects, the result is empty (and must come at once)
  | "degen-arr-lit" | "degen-arr-slice" | "degen-arr-rng" | "degen-arr-rng5" => some (outRes (arrRepeat free free 0 (i64 n)))
  | "degen-str" | "degen-str-slice" => some (outRes (strRepeat free free 0 (i64 n)))
  -- counts whose product with the length wraps: MulLen refuses them
  | "wrap-arr" => some (outRes (arrRepeat free free 4 (i64 n)))
  | "wrap-arr2" => some (outRes (arrRepeat free free 2 (i64 n)))
  | "wrap-str" => some (outRes (strRepeat free free 4 (i64 n)))
  | "huge-cat" =>
    match arrRepeat free free 1 (i64 n) with
    | .ok k => some (outRes (arrConcat free free k k))
    | o => some (outRes o)
  | _ => none

/-- what the models predict for the result kind; `none` = no prediction -/
def predict (c : Case) : Option String :=
  if c.fam.startsWith "loop-" || c.fam == "sleep" then some "deadline"
  -- loops whose body is a builtin / library call (output, caught errors, eval): still loops, still polled
  else if isExtLoop c.fam then some "deadline"
  else if isExtRec c.fam then
    if c.t == 0 && !chainOk c.maxDepth (c.maxDepth + 2) then some "depth" else none
  else if isUnboundedRec c.fam then
    -- unbounded recursion = a chain longer than any limit: the guard fires (when no deadline can fire first)
    if c.t == 0 && !chainOk c.maxDepth (c.maxDepth + 2) then some "depth" else none
  else if c.fam == "rec-depth" then
    match c.need with
    | some need => some (if chainOk c.maxDepth (need + 1) then "ok" else "depth")
    | none => none
  else if c.fam == "degen-map-loop" || c.fam == "degen-cat-loop" then some "deadline"
  else if c.fam.startsWith "huge-" || c.fam.startsWith "degen-" || c.fam.startsWith "wrap-" then
    -- free memory is somewhere between half the limit and the limit: predict only when that does not matter
    let lo := hugeModel c.fam c.n (128 * 1024 * 1024)
    let hi := hugeModel c.fam c.n (256 * 1024 * 1024)
    if lo == hi then lo else none
  else none

/-- bytes the result of a huge-operand program holds when it is produced -/
def resultBytes (fam : String) (n : Int) : Int :=
  match fam with
  | "huge-str" => 2 * n
  | "huge-cat" => 2 * 16 * n
  | "huge-strcat" => 32 * n
  -- library functions: a string header and a boxed object per part / rune; text per element; 4 bytes per 3
  | "ext-split-chars" | "ext-split-sep" | "ext-runes" => 32 * n
  | "ext-regsub" => 58 * n
  | "ext-str-big" | "ext-json-big" => 2 * n
  | "ext-base64" => 3 * n
  | _ => 16 * n

/-- which result kinds the property allows for a family -/
def resOk (c : Case) (res : String) : Bool :=
  if c.fam.startsWith "loop-" || c.fam == "sleep" then res == "deadline"
  else if isUnboundedRec c.fam then (if c.t == 0 then res == "depth" else res == "depth" || res == "deadline")
  else if c.fam == "rec-depth" then
    match c.need with
    | some need => res == (if chainOk c.maxDepth (need + 1) then "ok" else "depth") || (c.t != 0 && res == "deadline")
    | none => res == "ok" || res == "depth"
  else if c.fam == "closures" then res == "ok" || (c.t != 0 && c.t < 1000 && res == "deadline") || res == "depth"
  else if c.fam.startsWith "huge-" then
    -- refused (guard or error) or, when produced, not larger than the whole budget
    res == "mem" || res == "err" || res == "deadline" || (res == "ok" && resultBytes c.fam c.n < memLimitKB * 1024)
  else if c.fam == "degen-map-loop" || c.fam == "degen-cat-loop" then res == "deadline"
  -- an empty operand times anything is empty; a refusal is acceptable too, a stray Go panic is not
  else if c.fam.startsWith "degen-" then res == "ok" || res == "err" || res == "mem"
  -- a product that does not fit an int can only be refused
  else if c.fam.startsWith "wrap-" then res == "err" || res == "mem"
  else if c.fam.startsWith "grow-" then res == "mem" || res == "err" || res == "deadline"
  else if c.fam.startsWith "nest-" then res == "ok" || res == "depth" || res == "err" || res == "deadline" || res == "parse"
  else if c.fam.startsWith "dag-" then res == "ok" || res == "deadline" || res == "mem" || res == "err"
  else if c.fam.startsWith "deepval-" then res == "ok" || res == "deadline" || res == "mem" || res == "err"
  -- bounded_ext.go
  else if isExtLoop c.fam then res == "deadline"
  else if isExtRec c.fam then (if c.t == 0 then res == "depth" else res == "depth" || res == "deadline")
  -- the depth failure is not an error value: `catch` does not swallow it and the program ends there
  else if c.fam == "ext-catch-rec" then res == "depth" || (c.t != 0 && res == "deadline")
  else if isExtGrow c.fam then res == "mem" || res == "err" || res == "deadline"
  else if isExtBig c.fam then
    res == "mem" || res == "err" || res == "deadline" || (res == "ok" && resultBytes c.fam c.n < memLimitKB * 1024)
  -- image.new: refused by its dimension limit or by the budget, or small enough
  else if c.fam == "ext-image-big" then res == "err" || res == "mem" || (res == "ok" && 8 * c.n * c.n < memLimitKB * 1024)
  -- fmt caps a width at 10^6: a huge width is an error text, never an allocation
  else if c.fam == "ext-width" then res == "ok" || res == "err" || res == "mem"
  else if isExtNest c.fam then res == "ok" || res == "depth" || res == "err" || res == "deadline" || res == "parse"
  else if c.fam.startsWith "macro-" then res == "ok" || res == "err" || res == "deadline" || res == "mem" || res == "depth"
  else false

/-- the time a run took, for the deadline clause: the wall-clock time, or - for the families that compute (all but
`sleep`, which waits by design) - the CPU time when that is smaller: on a busy machine the wall-clock time also counts
how long the process waited for a processor.  A run that really overruns its deadline by computing burns that CPU time. -/
def effTime (c : Case) (o : Obs) : Nat :=
  if c.fam == "sleep" || o.cpu < 0 then o.wall else min o.wall o.cpu.toNat

/-- slack for the unbounded-recursion families when the run's peak RSS exceeded GOMEMLIMIT: a recursion that is stopped
by a 1 s deadline is by then about 10^5 calls deep and its live environments legitimately need more than the limit
(about 300 MB); Go's collector then runs continuously and returning through those 10^5 frames takes 1 to 7 s
(measured: usually 1 s, erratically up to 6 s when the parallel collector kicks in).  The property's own assumption
(GOMEMLIMIT accounting keeps the process responsive) does not hold in that regime; the bound checked there is this
larger constant, the kill timeout of the harness (25 s) stays. -/
def slackOverLimitMs : Nat := 10000

def slackFor (c : Case) (o : Obs) : Nat :=
  if c.fam.startsWith "rec-" && o.rss > (memLimitKB : Int) then slackOverLimitMs else slackMs

def timeOk (c : Case) (o : Obs) : Bool := c.t == 0 || effTime c o ≤ c.t + slackFor c o
def rssOk (o : Obs) : Bool := 0 ≤ o.rss && o.rss ≤ rssFactor * memLimitKB

/-- **C09, runtime part, on one measured run**: the child exited normally (never killed, never a fatal
runtime error), returned within the deadline plus `slackMs`, its peak RSS stayed within `rssFactor` times the
memory limit, and the result kind is one the property allows for the family (non-terminating programs end by
the deadline, recursion beyond MaxDepth by the recoverable depth failure, huge operands are refused, never by
a stray Go panic). -/
def statement (c : Case) (o : Obs) : Bool :=
  o.exit == "ok" && timeOk c o && rssOk o && resOk c o.res

/-- known-finding classes (known_findings.json) -/
def klassOf (c : Case) (o : Obs) : String :=
  if statement c o then ""
  else if c.fam == "nest-block" || c.fam == "nest-lambda" then
    if o.exit == "killed" || o.exit == "fatal:oom" || (o.exit == "ok" && (!rssOk o || !timeOk c o) && resOk c o.res)
    then "nested-blocks-quadratic-formatted-text" else ""
  else if c.fam.startsWith "dag-" then
    if o.exit == "killed" || o.exit == "fatal:oom" || (o.exit == "ok" && (!rssOk o || !timeOk c o) && resOk c o.res)
    then "shared-structure-exponential-traversal" else ""
  else if c.fam.startsWith "deepval-" then
    -- C07: a value nested ~10^6 deep (built by a loop, no deep source, no deep evaluation) makes Cmp / Inspect / Hashable
    -- recurse past the Go stack limit: `fatal error: stack overflow`, which no recover() catches
    if o.exit == "fatal:stackoverflow" || o.exit == "fatal:oom" || o.exit == "killed" then "deeply-nested-value-overflows-go-stack" else ""
  else if c.fam.startsWith "nest-" || isExtNest c.fam then
    -- time only: a run that also leaves the memory bound is not this finding (parse errors quoting whole lines did)
    if o.exit == "killed" || (o.exit == "ok" && !timeOk c o && rssOk o && resOk c o.res) then "deeply-nested-source-overruns-deadline" else ""
  -- regsub builds its result in one library call: nothing polls, nothing checks the budget
  else if c.fam == "ext-regsub" then
    if o.exit == "killed" || o.exit == "fatal:oom" || (o.exit == "ok" && (!rssOk o || !timeOk c o) && resOk c o.res)
    then "library-call-result-unguarded" else ""
  else ""

def overBucket (c : Case) (o : Obs) : String :=
  if c.t == 0 then "no-deadline"
  else
    let over := effTime c o - c.t
    if over ≤ 50 then "over<=50ms" else if over ≤ 500 then "over<=500ms" else if over ≤ 1500 then "over<=1.5s"
    else if over ≤ slackFor c o then "over<=slack" else "over>slack"

def rssBucket (o : Obs) : String :=
  if o.rss < 0 then "rss-unknown" else if o.rss ≤ 64 * 1024 then "rss<=64MiB" else if o.rss ≤ 256 * 1024 then "rss<=limit"
  else if o.rss ≤ 512 * 1024 then "rss<=2xlimit" else if o.rss ≤ 1024 * 1024 then "rss<=4xlimit" else "rss>4xlimit"

def runCase (inp obs : String) : CaseResult :=
  match parseCase inp, parseObs obs with
  | some c, some o =>
    let p := predict c
    let agree := match p with
      | none => true
      | some r => o.exit == "ok" && o.res == r
    -- the model side of the statement: the predicted kind must itself be allowed
    let stmtModel := match p with
      | none => true
      | some r => resOk c r
    { model := "res=" ++ p.getD "?", agree := agree, stmtModel := stmtModel, stmtImpl := statement c o,
      tags := [c.fam ++ ":" ++ (if o.exit == "ok" then o.res else o.exit), overBucket c o, rssBucket o,
               if p.isSome then "predicted" else "measured-only"] ++ (if o.retried then ["retried"] else []),
      nontrivial := true, klass := klassOf c o }
  | _, _ => CaseResult.badLine

end Grol.BoundedSuite

import Grol.ParseSuite
import Grol.PrintTokens
/-
Driver side of the `printtokens` suite (C02): see harness/cmd/harness/printtokens.go.
For a tree in the fragment of C02.roundtrip_partial the model's `P.m` field is the rendering
`progToks` (so a difference with the real lexer's tokens of the real printer's output is a
disagreement); the statement is the theorem's conclusion evaluated on the tokens of the observation.
-/
namespace Grol.PrintTokensSuite
open Grol.Wire Grol.Generated Grol.Parser Grol.Printer Grol.Front Grol.PrintTokens

def numNat : NumClass → Nat
  | .na => 0 | .int => 1 | .float => 2 | .bad => 3

def renderKey (t : Tok) : String :=
  let k := key t
  toString k.type.toNat ++ "." ++ hexOrDash k.lit ++ "." ++ toString (numNat k.num * 4 + (if k.hadWs then 1 else 0))

def renderKeys (l : List Tok) : String := ",".intercalate (l.map renderKey)

def parseKey (s : String) : Option Tok :=
  match splitOn s '.' with
  | [ty, lit, fl] => do
    let ty ← ty.toNat? >>= TokType.ofNat?
    let lit ← bytesOfHex lit
    let fl ← fl.toNat?
    pure { type := ty, lit := lit, hadWs := fl % 2 == 1, num := numOfNat (fl / 4) }
  | _ => none

/-- the observed keys as a token stream (last token = the repeated end marker) -/
def streamOfKeys (s : String) : Option TokStream := do
  let ts ← (splitOn s ',').mapM parseKey
  match ts.reverse with
  | [] => none
  | e :: rest => pure { toks := rest.reverse, eof := e, inputLen := 0 }

/-- key, compact, allParens -/
def modes : List (String × Bool × Bool) := [("n", false, false), ("c", true, false), ("a", false, true), ("ca", true, true)]

/-- the conclusion of C02.roundtrip_partial on one observed token sequence -/
def reparses (prog : NList) (keys : String) : Bool :=
  match streamOfKeys keys with
  | none => false
  | some s =>
    match parseProgram s (defaultFuel s) with
    | .ok r => r.errors == 0 && !r.cont && dumpProgram false false r.program == dumpProgram false false prog
    | _ => false

def runCase (inp obs : String) : CaseResult :=
  let impl := parseFields obs
  if (impl.get "F.toks").isNone then CaseResult.badLine else
  let m := modelParse impl "F." false
  let _ := inp
  match m.res with
  | none => { model := renderFields m.fields, agree := renderFields m.fields == obs, stmtModel := true, stmtImpl := true,
              tags := ["no-tree"], nontrivial := false }
  | some r =>
    if r.errors > 0 || r.cont then
      { model := renderFields m.fields, agree := renderFields m.fields == obs, stmtModel := true, stmtImpl := true,
        tags := ["invalid"], nontrivial := false }
    else
      let prog := r.program
      let per := modes.map fun (k, c, ap) =>
        let inFrag := fragProg c ap prog
        let implKeys := (impl.get ("P." ++ k)).getD ""
        let modelKeys := if inFrag then renderKeys (progToks c ap prog ++ [eofTok, eofTok]) else implKeys
        (k, inFrag, implKeys, modelKeys)
      let model := m.fields ++ per.map fun (k, _, _, mk) => ("P." ++ k, mk)
      let modelStr := renderFields model
      let sm := per.all fun (_, inFrag, _, mk) => !inFrag || reparses prog mk
      let si := per.all fun (_, inFrag, ik, _) => !inFrag || reparses prog ik
      let anyIn := per.any fun (_, inFrag, _, _) => inFrag
      { model := modelStr, agree := modelStr == obs, stmtModel := sm, stmtImpl := si,
        tags := (per.map fun (k, inFrag, _, _) => (if inFrag then "in-fragment-" else "outside-") ++ k) ++
                (if prog.length > 1 then ["multi-statement"] else []) ++ ParseSuite.topTags r,
        nontrivial := anyIn && !prog.isEmpty }

end Grol.PrintTokensSuite

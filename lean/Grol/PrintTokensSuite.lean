import Grol.ParseSuite
import Grol.PrintTokens
/-
Driver side of the `printtokens` suite (C02): see harness/cmd/harness/printtokens.go.
For a tree in the fragment of C02.roundtrip_partial the model's `P.m` field is the rendering
`progToks` (so a difference with the real lexer's tokens of the real printer's output is a
disagreement); the statement is the theorem's conclusion evaluated on the tokens of the observation.
-/
namespace Grol.PrintTokensSuite
open Grol.Wire Grol.Generated Grol.Parser Grol.Printer Grol.Front Grol.PrintTokens

def numNat : NumClass → Nat
  | .na => 0 | .int => 1 | .float => 2 | .bad => 3

def renderKey (t : Tok) : String :=
  let k := key t
  toString k.type.toNat ++ "." ++ hexOrDash k.lit ++ "." ++ toString (numNat k.num * 4 + (if k.hadWs then 1 else 0))

def renderKeys (l : List Tok) : String := ",".intercalate (l.map renderKey)

def parseKey (s : String) : Option Tok :=
  match splitOn s '.' with
  | [ty, lit, fl] => do
    let ty ← ty.toNat? >>= TokType.ofNat?
    let lit ← bytesOfHex lit
    let fl ← fl.toNat?
    pure { type := ty, lit := lit, hadWs := fl % 2 == 1, num := numOfNat (fl / 4) }
  | _ => none

/-- the observed keys as a token stream (last token = the repeated end marker) -/
def streamOfKeys (s : String) : Option TokStream := do
  let ts ← (splitOn s ',').mapM parseKey
  match ts.reverse with
  | [] => none
  | e :: rest => pure { toks := rest.reverse, eof := e, inputLen := 0 }

/-- key, compact, allParens -/
def modes : List (String × Bool × Bool) := [("n", false, false), ("c", true, false), ("a", false, true), ("ca", true, true)]

/-- the conclusion of C02.roundtrip_partial on one observed token sequence -/
def reparses (prog : NList) (keys : String) : Bool :=
  match streamOfKeys keys with
  | none => false
  | some s =>
    match parseProgram s (defaultFuel s) with
    | .ok r => r.errors == 0 && !r.cont && dumpProgram false false r.program == dumpProgram false false prog
    | _ => false

/-! ### why a tree is outside the fragment (coverage tags only) -/

def kindName : Node → String
  | .ident .. => "ident" | .intLit .. => "int" | .floatLit .. => "float" | .strLit .. => "string" | .boolean .. => "bool"
  | .control .. => "control" | .comment .. => "comment" | .ret .. => "return" | .pre .. => "prefix" | .post .. => "postfix"
  | .infix .. => "infix" | .forE .. => "for" | .ifE .. => "if" | .builtin .. => "builtin" | .func .. => "func"
  | .call .. => "call" | .array .. => "array" | .index .. => "index" | .mapLit .. => "map" | .macroLit .. => "macro"

def kids : Node → List (Option Node)
  | .ret _ v => [v]
  | .pre _ r => [r]
  | .infix _ l r => [l, r]
  | .forE _ c _ => [c]
  | .ifE _ c _ _ => [c]
  | .builtin _ ps => ps
  | .func _ _ ps _ _ _ => ps
  | .call _ f as => f :: as
  | .array _ es => es
  | .index _ l i => [l, i]
  | .mapLit _ kvs => kvs
  | .macroLit _ ps _ => ps
  | _ => []

def blocksOf : Node → List (List (Option Node))
  | .forE _ _ b => b.toList
  | .ifE _ _ a b => a.toList ++ b.toList
  | .func _ _ _ b _ _ => b.toList
  | .macroLit _ _ b => b.toList
  | _ => []

/-- the innermost constructs that keep a tree out of the fragment -/
def whyN (c ap : Bool) : Nat → Node → List String
  | 0, _ => ["deep"]
  | fuel + 1, n =>
    let ok := match n with
      | .ret _ none => true
      | .ret _ (some v) => fragN c ap v
      | .infix _ (some l) none => fragN c ap l
      | n => fragN c ap n
    if ok then [] else
    let sub := (kids n).flatMap (fun k => match k with | some k => whyN c ap fuel k | none => ["nil"]) ++
      (blocksOf n).flatMap (fun b => b.flatMap fun k => match k with | some k => whyN c ap fuel k | none => ["nil"])
    if sub.isEmpty then [kindName n ++ (match n with
      | .infix t _ (some r) => if sameAssociativeOperator t r then ":repeated-associative-operator" else ""
      | _ => "")] else sub

def whyProg (c ap : Bool) (prog : NList) : List String :=
  let r := prog.flatMap fun k => match k with | some k => whyN c ap 64 k | none => ["nil"]
  (if r.isEmpty then ["statement-start"] else r).eraseDups

def runCase (inp obs : String) : CaseResult :=
  let impl := parseFields obs
  if (impl.get "F.toks").isNone then CaseResult.badLine else
  let m := modelParse impl "F." false
  let _ := inp
  match m.res with
  | none => { model := renderFields m.fields, agree := renderFields m.fields == obs, stmtModel := true, stmtImpl := true,
              tags := ["no-tree"], nontrivial := false }
  | some r =>
    if r.errors > 0 || r.cont then
      { model := renderFields m.fields, agree := renderFields m.fields == obs, stmtModel := true, stmtImpl := true,
        tags := ["invalid"], nontrivial := false }
    else
      let prog := r.program
      let per := modes.map fun (k, c, ap) =>
        let inFrag := fragProg c ap prog
        let implKeys := (impl.get ("P." ++ k)).getD ""
        let modelKeys := if inFrag then renderKeys (progToks c ap prog ++ [eofTok, eofTok]) else implKeys
        (k, inFrag, implKeys, modelKeys)
      let model := m.fields ++ per.map fun (k, _, _, mk) => ("P." ++ k, mk)
      let modelStr := renderFields model
      let sm := per.all fun (_, inFrag, _, mk) => !inFrag || reparses prog mk
      let si := per.all fun (_, inFrag, ik, _) => !inFrag || reparses prog ik
      let anyIn := per.any fun (_, inFrag, _, _) => inFrag
      { model := modelStr, agree := modelStr == obs, stmtModel := sm, stmtImpl := si,
        tags := (per.map fun (k, inFrag, _, _) => (if inFrag then "in-fragment-" else "outside-") ++ k) ++
                (if fragProg true false prog then [] else (whyProg true false prog).map ("outside-c:" ++ ·)) ++
                (if fragProg false false prog || !fragProg true false prog then [] else ["outside-n:statement-starts-with-prefix-operator"]) ++
                (if prog.length > 1 then ["multi-statement"] else []) ++ ParseSuite.topTags r,
        nontrivial := anyIn && !prog.isEmpty }

end Grol.PrintTokensSuite

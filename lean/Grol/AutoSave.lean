import Grol.Wire
/-
Model of the auto-save protocol of repl/repl.go `AutoSave` (C18) over an abstract file system.

    oldS, newS := s.UpdateNumSet(); if newS-oldS == 0 { return nil }      -- skip if unchanged
    f, err := os.CreateTemp(".", ".grol*.tmp")                            -- step createTemp
    n, err := s.SaveGlobals(f)      -- one fmt.Fprintf(to, ...) per binding  -- steps write l₁ … write lₘ
    err = os.Rename(f.Name(), AutoSaveFile)                               -- step rename
    (every `err != nil` returns the error at once; the temp file is neither closed nor removed)

The order of these calls is the generated fact `Generated.IOFacts.autoSaveCalls` (expectation
theorem in GrolProofs/Props/C18.lean).  The bytes of the lines are a parameter (their formatting is
SaveGlobals' business, C14).  A fault is either the death of the process after `k` completed steps
(with an arbitrary fragment of an in-flight write reaching the temp file) or an error return of step
`i` (a failing write may have written a prefix).

Assumptions of the abstract file system (trusted base): rename(2) replaces the target atomically
with respect to process death; the effect of a completed write(2)/rename(2) survives the death of
the process; os.CreateTemp returns a name different from ".gr".
-/
namespace Grol.AutoSave
open Grol.Wire

/-- file names: the state file, and the temp names (opaque, never equal to the state file) -/
inductive Name
  | gr
  | temp (id : Nat)
  deriving DecidableEq, Repr

/-- name → contents -/
abbrev FS := Name → Option Bytes

def FS.set (fs : FS) (n : Name) (v : Option Bytes) : FS := fun m => if m = n then v else fs m

inductive Step
  | createTemp
  | write (line : Bytes)
  | rename
  deriving DecidableEq, Repr

/-- the steps of a save that was not skipped, in the order the code performs them -/
def steps (lines : List Bytes) : List Step := Step.createTemp :: (lines.map Step.write ++ [Step.rename])

/-- a completed step; `t` is the temp name chosen by os.CreateTemp -/
def applyStep (t : Nat) (fs : FS) : Step → FS
  | .createTemp => fs.set (.temp t) (some [])
  | .write l => fs.set (.temp t) (some ((fs (.temp t)).getD [] ++ l))
  | .rename => (fs.set .gr (fs (.temp t))).set (.temp t) none

inductive Fault
  | none
  /-- the process dies after `k` completed steps; if step `k` is a write, `frag` may already be in the temp file -/
  | crash (k : Nat) (frag : Bytes)
  /-- step `i` (0 = createTemp, 1..m = writes, m+1 = rename) returns an error; a write keeps its first `keep` bytes -/
  | fail (i : Nat) (keep : Nat)
  deriving DecidableEq, Repr

inductive Ret | ok | err | killed
  deriving DecidableEq, Repr

/-- what a dying process may leave of the step that was in flight -/
def inFlight (t : Nat) (fs : FS) (frag : Bytes) : Step → FS
  | .write _ => fs.set (.temp t) (some ((fs (.temp t)).getD [] ++ frag))
  | _ => fs          -- createTemp / rename: not started (started-and-completed is crash index k+1)

/-- what a failing step leaves -/
def failed (t : Nat) (fs : FS) (keep : Nat) : Step → FS
  | .write l => fs.set (.temp t) (some ((fs (.temp t)).getD [] ++ l.take keep))
  | _ => fs

def run (t : Nat) (fault : Fault) (fs : FS) (idx : Nat) : List Step → FS × Ret
  | [] => (fs, match fault with | .crash k _ => if k = idx then .killed else .ok | _ => .ok)
  | s :: rest =>
    match fault with
    | .crash k frag => if k = idx then (inFlight t fs frag s, .killed) else run t fault (applyStep t fs s) (idx + 1) rest
    | .fail i keep => if i = idx then (failed t fs keep s, .err) else run t fault (applyStep t fs s) (idx + 1) rest
    | .none => run t fault (applyStep t fs s) (idx + 1) rest

/-- repl.AutoSave (with options.AutoSave on).  `changed` = the number of sets differs from the last save. -/
def autoSave (t : Nat) (fault : Fault) (fs : FS) (changed : Bool) (lines : List Bytes) : FS × Ret :=
  if !changed then (fs, .ok) else run t fault fs 0 (steps lines)

/-- the complete new version -/
def newContent (lines : List Bytes) : Bytes := lines.flatten

end Grol.AutoSave

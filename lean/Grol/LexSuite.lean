import Grol.Suite
import Grol.Lexer
/-
Driver side of the `lex` correspondence suite and the executable statement of C16.

Case input:   <f|l>;<input hex>      (file mode / line mode)    or   T;-   (token tables)
Observation:  <rec>,...,<rec>;<CurrentLine: line hex>:<col>:<line number>
  <rec> = <type>:<literal hex>:<Pos before>:<Pos after>:<HadWhitespace>:<HadNewline>:<pointer id>:<LastNewLine>:<line number>
  one record per NextToken call up to and including the first end marker, plus three more calls.
-/
namespace Grol.LexSuite
open Grol.Wire Grol.Token Grol.Lexer

structure Rec where
  /-- `none` = the call returned a nil pointer -/
  type : Option TType
  lit : Bytes
  posBefore : Nat
  posAfter : Nat
  ws : Bool
  nl : Bool
  /-- pointer identity, numbered by first appearance -/
  ptr : Nat
  lastNL : Nat
  lineNo : Nat
  deriving BEq, Repr

structure Obs where
  recs : List Rec
  line : Bytes
  col : Nat
  lineNo : Nat
  deriving BEq, Repr

def hexOrDash (b : Bytes) : String := if b.isEmpty then "-" else hexOfBytes b

def Rec.render (r : Rec) : String :=
  let t := match r.type with | some t => toString t.toNat | none => "nil"
  s!"{t}:{hexOrDash r.lit}:{r.posBefore}:{r.posAfter}:{boolStr r.ws}:{boolStr r.nl}:{r.ptr}:{r.lastNL}:{r.lineNo}"

def Obs.render (o : Obs) : String :=
  ",".intercalate (o.recs.map Rec.render) ++ s!";{hexOrDash o.line}:{o.col}:{o.lineNo}"

/-! ### the model's observation -/

def markerOf (lineMode : Bool) : TType := if lineMode then .EOL else .EOF

/-- the harness loop: call `next` until the end marker has been returned and three more calls
were made, at most `fuel` calls in all; each entry = (state before, token, state after) -/
def lexLoop (marker : TType) : Nat → Option Nat → State → List (State × Tok × State)
  | 0, _, _ => []
  | fuel + 1, after, s =>
    let r := next s
    let after' : Option Nat := match after with
      | some k => some (k + 1)
      | none => if r.1.type == marker && r.1.src == .eoleof then some 0 else none
    (s, r.1, r.2) :: (if after' == some 3 then [] else lexLoop marker fuel after' r.2)

def lexAll (lineMode : Bool) (input : Array UInt8) : List (State × Tok × State) :=
  lexLoop (markerOf lineMode) (input.size + 5) none (State.new input lineMode)

/-- number pointers by first appearance -/
def numberPtrs (ps : List Ptr) : List Nat :=
  (ps.foldl (fun (acc : List Ptr × List Nat) p =>
      let i := acc.1.idxOf p
      if i < acc.1.length then (acc.1, i :: acc.2) else (acc.1 ++ [p], acc.1.length :: acc.2))
    ([], [])).2.reverse

def modelObs (lineMode : Bool) (input : Array UInt8) : Option Obs :=
  let l := lexAll lineMode input
  if l.any (fun e => e.2.1.src == .panic) then none else
  let ids := numberPtrs (resolveAll initTable (l.map (·.2.1)))
  let recs := (l.zip ids).map fun (e, id) =>
    { type := if e.2.1.src == .nil then none else some e.2.1.type, lit := e.2.1.lit,
      posBefore := e.1.pos, posAfter := e.2.2.pos, ws := e.2.2.hadWhitespace, nl := e.2.2.hadNewline,
      ptr := id, lastNL := e.2.2.lastNewLine, lineNo := e.2.2.lineNumber : Rec }
  let last := match l.getLast? with | some e => e.2.2 | none => State.new input lineMode
  match currentLine last with
  | (some line, col, no) => some { recs := recs, line := line, col := col, lineNo := no }
  | (none, _, _) => none

/-! ### executable statement of C16 (independent of the lexer model: list/array primitives,
the token tables and a specification of escapes / UTF-8 / space runes written from the Go
documentation) -/

def specIsWs (c : UInt8) : Bool := c == 32 || c == 9 || c == 10 || c == 13
def specIsDigit (c : UInt8) : Bool := 48 ≤ c && c ≤ 57
def specIsLetter (c : UInt8) : Bool := (97 ≤ c && c ≤ 122) || (65 ≤ c && c ≤ 90) || c == 95
def specIsAlnum (c : UInt8) : Bool := specIsLetter c || specIsDigit c

def byteAt (input : Array UInt8) (i : Nat) : UInt8 := input[i]?.getD 0
def spanOf (input : Array UInt8) (a b : Nat) : Bytes := (input.extract a b).toList

/-- first position at or after `pos` that does not hold a whitespace byte -/
def skipWs (input : Array UInt8) : Nat → Nat → Nat
  | 0, pos => pos
  | fuel + 1, pos => if pos < input.size && specIsWs (byteAt input pos) then skipWs input fuel (pos + 1) else pos

def hexDigitVal (c : UInt8) : Nat :=
  if 48 ≤ c && c ≤ 57 then c.toNat - 48
  else if 97 ≤ c && c ≤ 102 then c.toNat - 87
  else if 65 ≤ c && c ≤ 70 then c.toNat - 55
  else 0

def hexValue (l : Bytes) : Nat := l.foldl (fun acc c => acc * 16 + hexDigitVal c) 0

/-- UTF-8 encoding of code point `n` as Go's `utf8.AppendRune` does it: surrogates and values
above U+10FFFF are replaced by U+FFFD -/
def utf8Spec (n : Nat) : Bytes :=
  let b (x : Nat) : UInt8 := UInt8.ofNat x
  if n < 0x80 then [b n]
  else if n < 0x800 then [b (0xC0 + n / 64), b (0x80 + n % 64)]
  else if n > 0x10FFFF || (0xD800 ≤ n && n ≤ 0xDFFF) then [0xEF, 0xBF, 0xBD]
  else if n < 0x10000 then [b (0xE0 + n / 4096), b (0x80 + n / 64 % 64), b (0x80 + n % 64)]
  else [b (0xF0 + n / 262144), b (0x80 + n / 4096 % 64), b (0x80 + n / 64 % 64), b (0x80 + n % 64)]

/-- put the bytes of one element in front of the decoded rest, `d` = input bytes the element took -/
def prepend (pre : Bytes) (d : Nat) : Option (Bytes × Nat) → Option (Bytes × Nat)
  | some (v, m) => some (pre ++ v, m + d)
  | none => none

/-- the byte a one-letter escape stands for (`\\r \\n \\t \\a \\b \\f \\v`; any other byte stands for itself) -/
def escByte (e : UInt8) : UInt8 :=
  if e == 114 then 13 else if e == 110 then 10 else if e == 116 then 9
  else if e == 97 then 7 else if e == 98 then 8 else if e == 102 then 12 else if e == 118 then 11 else e

/-- `\\xHH` (k = 2: one byte), `\\uHHHH` (k = 4) and `\\UHHHHHHHH` (k = 8: UTF-8 of the code point): `rest` is
the text after the escape letter, `o` the decoded text after the `k` digits; `none` when fewer than
`k` bytes are left -/
def hexEsc (k : Nat) (rest : Bytes) (o : Option (Bytes × Nat)) : Option (Bytes × Nat) :=
  if rest.length < k then none
  else prepend (if k == 2 then [UInt8.ofNat (hexValue (rest.take k))] else utf8Spec (hexValue (rest.take k))) (2 + k) o

/-- the text after an opening quote: `some (value, bytes consumed including the closing quote)`,
or `none` when the string is not terminated before a NUL byte or the end of the input
(an escape sequence cut short by the end of the input never terminates either) -/
def specString (dq : Bool) (q : UInt8) : Nat → Bytes → Option (Bytes × Nat)
  | 0, _ => none
  | _ + 1, [] => none
  | fuel + 1, c :: rest =>
    if dq && c == 92 then
      match rest with
      | [] => none
      | e :: rest =>
        if e == 117 then hexEsc 4 rest (specString dq q fuel (rest.drop 4))
        else if e == 85 then hexEsc 8 rest (specString dq q fuel (rest.drop 8))
        else if e == 120 then hexEsc 2 rest (specString dq q fuel (rest.drop 2))
        else prepend [escByte e] 2 (specString dq q fuel rest)
    else if c == q then some ([], 1)
    else if c == 0 then none
    else prepend [c] 1 (specString dq q fuel rest)

/-- encodings of the runes for which `unicode.IsSpace` holds -/
def spaceSeqs : List Bytes :=
  [[9], [10], [11], [12], [13], [32], [0xC2, 0x85], [0xC2, 0xA0], [0xE1, 0x9A, 0x80]]
  ++ (List.range 11).map (fun i => [0xE2, 0x80, UInt8.ofNat (0x80 + i)])
  ++ [[0xE2, 0x80, 0xA8], [0xE2, 0x80, 0xA9], [0xE2, 0x80, 0xAF], [0xE2, 0x81, 0x9F], [0xE3, 0x80, 0x80]]

def allSpaces : Nat → Bytes → Bool
  | _, [] => true
  | 0, _ => false
  | fuel + 1, l => spaceSeqs.any fun q => q.isPrefixOf l && allSpaces fuel (l.drop q.length)

def endsWithSpace (l : Bytes) : Bool := spaceSeqs.any fun q => q.isSuffixOf l

/-- `lit = strings.TrimSpace sp` for a text `sp` that starts with a non-space byte -/
def isTrimOf (lit sp : Bytes) : Bool :=
  lit.isPrefixOf sp && allSpaces sp.length (sp.drop lit.length) && !endsWithSpace lit

inductive BlockEnd where
  | closed (len : Nat) | nul | eof
  deriving BEq, Repr

/-- scan the text after `/*`: length up to and including the first `*/`, unless a NUL byte or
the end comes first -/
def scanBlock : Bytes → Nat → BlockEnd
  | [], _ => .eof
  | c :: rest, i =>
    if c == 0 then .nul
    else if c == 42 && rest.head? == some 47 then .closed (i + 2)
    else scanBlock rest (i + 1)

/-- operator literals -/
def opTable : List (Bytes × TType) :=
  cTokens.map (fun p => ([p.1], p.2)) ++ c2Tokens.map (fun p => ([p.1.1, p.1.2], p.2))

/-- the token `r` (not the end marker) spans `[start, r.posAfter)` of the input exactly -/
def checkTok (input : Array UInt8) (start : Nat) (r : Rec) : Bool :=
  let stop := r.posAfter
  let sp := spanOf input start stop
  start < stop && stop ≤ input.size &&
  match r.type with
  | none => false
  | some t =>
    if t == .IDENT then
      sp == r.lit && specIsLetter (byteAt input start) && sp.all specIsAlnum && !specIsAlnum (byteAt input stop)
        && (keywords.lookup sp).isNone
    else if (keywords.map (·.2)).contains t then
      sp == r.lit && keywords.lookup sp == some t && !specIsAlnum (byteAt input stop)
    else if t == .INT || t == .FLOAT then
      sp == r.lit && (specIsDigit (byteAt input start)
        || (t == .FLOAT && byteAt input start == 46 && specIsDigit (byteAt input (start + 1)) && start + 1 < stop))
    else if (opTable.map (·.2)).contains t then
      sp == r.lit && opTable.lookup sp == some t
    else if t == .ILLEGAL then
      stop == start + 1 && r.lit == utf8Spec (byteAt input start).toNat
        && !specIsAlnum (byteAt input start) && !specIsWs (byteAt input start) && byteAt input start != 0
        && (opTable.lookup sp).isNone && byteAt input start != 34 && byteAt input start != 96
    else if t == .STRING then
      let q := byteAt input start
      (q == 34 || q == 96) && byteAt input (stop - 1) == q
        && specString (q == 34) q (input.size + 1) ((input.extract (start + 1) input.size).toList)
             == some (r.lit, stop - start - 1)
    else if t == .LINECOMMENT then
      [47, 47].isPrefixOf sp && sp.all (fun c => c != 10 && c != 0)
        && (byteAt input stop == 10 || byteAt input stop == 0) && isTrimOf r.lit sp
    else if t == .BLOCKCOMMENT then
      [47, 42].isPrefixOf sp && sp == r.lit &&
        (match scanBlock (sp.drop 2) 0 with
         | .closed len => len + 2 == sp.length
         | .eof => byteAt input stop == 0
         | .nul => false)
    else false

/-- the end marker is legitimate at `start`: end of input, a NUL byte, or an unterminated string -/
def checkMarker (input : Array UInt8) (start : Nat) : Bool :=
  let q := byteAt input start
  start ≥ input.size || q == 0 ||
    ((q == 34 || q == 96)
      && (specString (q == 34) q (input.size + 1) ((input.extract (start + 1) input.size).toList)).isNone)

/-- same `(type, literal)` ⇔ same pointer, over the records in order -/
def checkIntern : List Rec → List ((Option TType × Bytes) × Nat) → Bool
  | [], _ => true
  | r :: rs, seen =>
    let k := (r.type, r.lit)
    match seen.lookup k with
    | some id => id == r.ptr && checkIntern rs seen
    | none => !(seen.any fun e => e.2 == r.ptr) && checkIntern rs ((k, r.ptr) :: seen)

/-- positions chain: the first call starts at 0 and each call starts where the previous ended -/
def checkChain : Nat → List Rec → Bool
  | _, [] => true
  | p, r :: rs => r.posBefore == p && checkChain r.posAfter rs

/-- whitespace flags describe the gap in front of the token -/
def checkFlags (input : Array UInt8) (r : Rec) : Bool :=
  let start := skipWs input (input.size - r.posBefore) r.posBefore
  r.ws == decide (start > r.posBefore) && r.nl == (spanOf input r.posBefore start).contains 10

/-- C16 on one observation -/
def statement (lineMode : Bool) (input : Array UInt8) (recs : List Rec) : Bool :=
  let marker := markerOf lineMode
  let n := input.size
  let k := recs.findIdx (fun r => r.type == some marker)
  -- the end marker is reached, within n+1 tokens, then 3 more calls were made
  k < recs.length && k ≤ n && recs.length == k + 4
  && checkChain 0 recs
  && recs.all (checkFlags input)
  -- tokens before the marker tile the input
  && (recs.take k).all (fun r => checkTok input (skipWs input (n - r.posBefore) r.posBefore) r)
  -- the marker is justified, and sticky
  && (match recs[k]? with
      | some r => checkMarker input (skipWs input (n - r.posBefore) r.posBefore) && r.lit.isEmpty
      | none => false)
  && (recs.drop k).all (fun r => r.type == some marker && r.lit.isEmpty)
  && checkIntern recs []

/-! ### parsing -/

def parseRec (s : String) : Option Rec :=
  match splitOn s ':' with
  | [t, lit, pb, pa, ws, nl, ptr, lnl, lno] => do
    let ty ← if t = "nil" then some none else (do let n ← t.toNat?; let ty ← TType.ofNat? n; pure (some ty))
    let lit ← bytesOfHex lit
    let pb ← pb.toNat?
    let pa ← pa.toNat?
    let ws ← if ws = "1" then some true else if ws = "0" then some false else none
    let nl ← if nl = "1" then some true else if nl = "0" then some false else none
    let ptr ← ptr.toNat?
    let lnl ← lnl.toNat?
    let lno ← lno.toNat?
    pure { type := ty, lit := lit, posBefore := pb, posAfter := pa, ws := ws, nl := nl, ptr := ptr, lastNL := lnl, lineNo := lno }
  | _ => none

def parseObs (s : String) : Option Obs :=
  match splitOn s ';' with
  | [recs, tail] =>
    match splitOn tail ':' with
    | [line, col, no] => do
      let recs ← (splitOn recs ',').mapM parseRec
      let line ← bytesOfHex line
      let col ← col.toNat?
      let no ← no.toNat?
      pure { recs := recs, line := line, col := col, lineNo := no }
    | _ => none
  | _ => none

def parseInput (s : String) : Option (Bool × Array UInt8) :=
  match splitOn s ';' with
  | [m, h] => do
    let mode ← if m = "f" then some false else if m = "l" then some true else none
    let b ← bytesOfHex h
    pure (mode, b.toArray)
  | _ => none

/-! ### token tables -/

def hex2 (c : UInt8) : String := hexOfBytes [c]

def tablesObs : String :=
  let names := TType.all.map TType.name
  let lower (s : String) : Bytes := s.toList.map fun c => (c.toLower.toNat.toUInt8)
  let kw := names.map fun nm => toString (lookupIdent (lower nm)).type.toNat
  let bytes := (List.range 256).map UInt8.ofNat
  let c1 := bytes.filterMap fun c =>
    let t := constantTokenChar c
    if t.src == .nil then none else some s!"{hex2 c}={t.type.toNat}={hexOrDash t.lit}"
  let c2 := bytes.flatMap fun a => bytes.filterMap fun b =>
    let t := constantTokenChar2 a b
    if t.src == .nil then none else some s!"{hex2 a}{hex2 b}={t.type.toNat}={hexOrDash t.lit}"
  -- identities: ByType(c1) == c1; Intern(c2) == c2; Intern(keyword) == keyword : all hold in the model's pointer scheme
  let nId := c1.length + c2.length + (kw.filter (· != toString TType.IDENT.toNat)).length
  ",".intercalate names ++ "|" ++ ",".intercalate kw ++ "|" ++ ",".intercalate c1 ++ "|" ++ ",".intercalate c2
    ++ "|" ++ String.ofList (List.replicate nId '1')

/-! ### runCase -/

def dedup (l : List String) : List String := l.foldl (fun acc x => if acc.contains x then acc else acc ++ [x]) []

/-! ### two lexers over one text (case `2;<hex>`): file mode, then line mode, ONE interning table

"Equal tokens are represented by one shared object" is a statement about the process, not about one
lexer: the pointer identities are numbered by first appearance over BOTH runs, and the same
`(type, literal)` ⇔ same pointer check runs over the concatenation. -/

def recsOf (l : List (State × Tok × State)) (ids : List Nat) : List Rec :=
  (l.zip ids).map fun (e, id) =>
    { type := if e.2.1.src == .nil then none else some e.2.1.type, lit := e.2.1.lit,
      posBefore := e.1.pos, posAfter := e.2.2.pos, ws := e.2.2.hadWhitespace, nl := e.2.2.hadNewline,
      ptr := id, lastNL := e.2.2.lastNewLine, lineNo := e.2.2.lineNumber : Rec }

def renderTwo (r1 r2 : List Rec) (line : Bytes) (col no : Nat) : String :=
  ",".intercalate (r1.map Rec.render) ++ "+" ++ ",".intercalate (r2.map Rec.render) ++ s!";{hexOrDash line}:{col}:{no}"

def modelTwo (input : Array UInt8) : Option (List Rec × List Rec × String) :=
  let l1 := lexAll false input
  let l2 := lexAll true input
  if (l1 ++ l2).any (fun e => e.2.1.src == .panic) then none else
  let ids := numberPtrs (resolveAll initTable ((l1 ++ l2).map (·.2.1)))
  let r1 := recsOf l1 (ids.take l1.length)
  let r2 := recsOf l2 (ids.drop l1.length)
  let last := match l2.getLast? with | some e => e.2.2 | none => State.new input true
  match currentLine last with
  | (some line, col, no) => some (r1, r2, renderTwo r1 r2 line col no)
  | (none, _, _) => none

def statementTwo (input : Array UInt8) (r1 r2 : List Rec) : Bool :=
  statement false input r1 && statement true input r2 && checkIntern (r1 ++ r2) []

def parseTwo (obs : String) : Option (List Rec × List Rec) :=
  match splitOn obs ';' with
  | [recs, _] =>
    match recs.splitOn "+" with
    | [a, b] => do
      let r1 ← (splitOn a ',').mapM parseRec
      let r2 ← (splitOn b ',').mapM parseRec
      pure (r1, r2)
    | _ => none
  | _ => none

def runCaseTwo (hex obs : String) : CaseResult :=
  match bytesOfHex hex with
  | none => CaseResult.badLine
  | some b =>
    let input := b.toArray
    let mo := modelTwo input
    let mr := match mo with | some (_, _, s) => s | none => "PANIC"
    let sm := match mo with | some (r1, r2, _) => statementTwo input r1 r2 | none => false
    let si := if obs == mr then sm else
      match parseTwo obs with
      | some (r1, r2) => statementTwo input r1 r2
      | none => false
    let shared := match mo with
      | some (r1, r2, _) => (r1.filter fun r => r2.any fun q => q.ptr == r.ptr).length
      | none => 0
    { model := mr, agree := obs == mr, stmtModel := sm, stmtImpl := si,
      tags := ["two-lexers", if shared > 0 then "two-lexers-share-tokens" else "two-lexers-nothing-shared"],
      nontrivial := shared > 0 }

def runCase (inp obs : String) : CaseResult :=
  if inp.startsWith "2;" then runCaseTwo (inp.drop 2).toString obs else
  if inp = "T;-" then
    let m := tablesObs
    { model := m, agree := m == obs, stmtModel := true, stmtImpl := true, tags := ["tables"], nontrivial := true }
  else
  match parseInput inp with
  | none => CaseResult.badLine
  | some (mode, input) =>
    let mo := modelObs mode input
    let mr := match mo with | some o => o.render | none => "PANIC"
    let sm := match mo with | some o => statement mode input o.recs | none => false
    let si := if obs == mr then sm else
      match parseObs obs with
      | some o => statement mode input o.recs
      | none => false
    let toks := match mo with | some o => o.recs | none => []
    let k := toks.findIdx (fun r => r.type == some (markerOf mode))
    let mk := match toks[k]? with
      | some r =>
        let st := skipWs input (input.size - r.posBefore) r.posBefore
        if st ≥ input.size then "marker-at-end" else if byteAt input st == 0 then "marker-at-nul" else "marker-in-string"
      | none => "no-marker"
    { model := mr, agree := obs == mr, stmtModel := sm, stmtImpl := si,
      tags := dedup ((if mode then "line-mode" else "file-mode") :: mk ::
                (toks.take k).map (fun r => match r.type with | some t => t.name | none => "nil")),
      nontrivial := k > 0 }

end Grol.LexSuite

/-
Line-protocol helpers shared by every suite of the model driver: hex codec for
byte strings (Go strings are byte sequences; Lean `String` is UTF-8 only), and
field splitting.  Core Lean only.
-/
namespace Grol.Wire

abbrev Bytes := List UInt8

def hexDigit (n : UInt8) : Char :=
  if n < 10 then Char.ofNat (48 + n.toNat) else Char.ofNat (87 + n.toNat)

def hexOfBytes (bs : Bytes) : String :=
  String.ofList (bs.flatMap fun (b : UInt8) => [hexDigit (b >>> 4), hexDigit (b &&& 15)])

def hexVal (c : Char) : Option UInt8 :=
  if '0' ≤ c ∧ c ≤ '9' then some (c.toNat - 48).toUInt8
  else if 'a' ≤ c ∧ c ≤ 'f' then some (c.toNat - 87).toUInt8
  else none

def bytesOfHexAux : List Char → Option Bytes
  | [] => some []
  | [_] => none
  | a :: b :: rest => do
    let x ← hexVal a
    let y ← hexVal b
    let r ← bytesOfHexAux rest
    pure ((x <<< 4 ||| y) :: r)

/-- "-" and "" both decode to the empty string -/
def bytesOfHex (s : String) : Option Bytes :=
  if s = "-" then some [] else bytesOfHexAux s.toList

/-- split on a character, keeping empty fields -/
def splitOn (s : String) (c : Char) : List String :=
  (s.splitOn (String.singleton c))

/-- hex list "aa,bb,,cc" ; the empty string is the empty list, "-" is the one-element
list containing the empty byte string -/
def bytesListOfHex (s : String) : Option (List Bytes) :=
  if s = "" then some [] else (splitOn s ',').mapM bytesOfHex

def hexOfBytesList (l : List Bytes) : String :=
  ",".intercalate (l.map fun b => if b.isEmpty then "-" else hexOfBytes b)

def boolStr (b : Bool) : String := if b then "1" else "0"

end Grol.Wire

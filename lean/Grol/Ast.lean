import Grol.TokStream
/-
Mirror of ast/ast.go: one constructor per node struct.  Every child that can be a Go `nil`
(nil interface `ast.Node`, nil `*ast.Statements`, nil `*ast.Identifier`) is an `Option`.
`[]ast.Node` is `List (Option Node)` (a nil slice and an empty slice behave alike in all the
code modelled here: `range`, `len`, `append`); `*ast.Statements` is `Option (List (Option Node))`
(the `Base` token of a `Statements` is never set by the parser and never read by the printer).
`MapLiteral.Order`/`Pairs` is the flat list `kvs` = k₀, Pairs[k₀], k₁, Pairs[k₁], … in `Order` (keys are
distinct pointers, except that several nil keys share one slot — see `Parser.mapInsert`).
-/
namespace Grol
open Grol.Wire Grol.Generated

inductive Node
  | ident (tok : Tk)                                   -- *ast.Identifier
  | intLit (tok : Tk)                                  -- *ast.IntegerLiteral (Val = ParseInt tok.lit)
  | floatLit (tok : Tk)                                -- *ast.FloatLiteral
  | strLit (tok : Tk)                                  -- *ast.StringLiteral
  | boolean (tok : Tk)                                 -- *ast.Boolean (Val = tok.type == TRUE)
  | control (tok : Tk)                                 -- *ast.ControlExpression
  | comment (tok : Tk) (sameLineAsPrevious sameLineAsNext : Bool)
  | ret (tok : Tk) (value : Option Node)               -- *ast.ReturnStatement
  | pre (tok : Tk) (right : Option Node)               -- *ast.PrefixExpression
  | post (tok : Tk) (prev : Tk)                        -- *ast.PostfixExpression
  | infix (tok : Tk) (left right : Option Node)        -- *ast.InfixExpression
  | forE (tok : Tk) (cond : Option Node) (body : Option (List (Option Node)))
  | ifE (tok : Tk) (cond : Option Node) (cons alt : Option (List (Option Node)))
  | builtin (tok : Tk) (params : List (Option Node))
  | func (tok : Tk) (name : Option Tk) (params : List (Option Node)) (body : Option (List (Option Node)))
         (variadic isLambda : Bool)                    -- *ast.FunctionLiteral
  | call (tok : Tk) (fn : Option Node) (args : List (Option Node))
  | array (tok : Tk) (elems : List (Option Node))
  | index (tok : Tk) (left idx : Option Node)
  | mapLit (tok : Tk) (kvs : List (Option Node))       -- key, value, key, value, … in Order
  | macroLit (tok : Tk) (params : List (Option Node)) (body : Option (List (Option Node)))
  deriving Repr, Inhabited

abbrev ONode := Option Node
abbrev NList := List (Option Node)
/-- `*ast.Statements` -/
abbrev Stmts := Option (List (Option Node))

/-- `Node.Value()` : the Base token -/
def Node.tok : Node → Tk
  | .ident t | .intLit t | .floatLit t | .strLit t | .boolean t | .control t | .comment t _ _ | .ret t _
  | .pre t _ | .post t _ | .infix t _ _ | .forE t _ _ | .ifE t _ _ _ | .builtin t _ | .func t _ _ _ _ _
  | .call t _ _ | .array t _ | .index t _ _ | .mapLit t _ | .macroLit t _ _ => t

def Node.isComment : Node → Bool
  | .comment .. => true
  | _ => false

/-! ### canonical dump (same syntax as the harness' `dumpNode`) -/

def dumpTk (t : Tk) : String := t.type.name ++ ":" ++ (if t.lit.isEmpty then "-" else hexOfBytes t.lit)

mutual
/-- `noCom`: drop comment nodes that are direct members of a statement list (what compact printing omits);
`noFlags`: omit the two layout flags of comments -/
def Node.dump (noCom noFlags : Bool) : Node → String
  | .ident t => "(Id " ++ dumpTk t ++ ")"
  | .intLit t => "(Int " ++ dumpTk t ++ ")"
  | .floatLit t => "(Float " ++ dumpTk t ++ ")"
  | .strLit t => "(Str " ++ dumpTk t ++ ")"
  | .boolean t => "(Bool " ++ dumpTk t ++ ")"
  | .control t => "(Ctl " ++ dumpTk t ++ ")"
  | .comment t a b => "(Com " ++ dumpTk t ++ (if noFlags then "" else " " ++ boolStr a ++ boolStr b) ++ ")"
  | .ret t v => "(Ret " ++ dumpTk t ++ " " ++ dumpO noCom noFlags v ++ ")"
  | .pre t r => "(Pre " ++ dumpTk t ++ " " ++ dumpO noCom noFlags r ++ ")"
  | .post t p => "(Post " ++ dumpTk t ++ " " ++ dumpTk p ++ ")"
  | .infix t l r => "(Inf " ++ dumpTk t ++ " " ++ dumpO noCom noFlags l ++ " " ++ dumpO noCom noFlags r ++ ")"
  | .forE t c b => "(For " ++ dumpTk t ++ " " ++ dumpO noCom noFlags c ++ " " ++ dumpS noCom noFlags b ++ ")"
  | .ifE t c a b => "(If " ++ dumpTk t ++ " " ++ dumpO noCom noFlags c ++ " " ++ dumpS noCom noFlags a ++ " " ++ dumpS noCom noFlags b ++ ")"
  | .builtin t ps => "(Bi " ++ dumpTk t ++ " [" ++ dumpL noCom noFlags false ps ++ "])"
  | .func t n ps b v l => "(Fn " ++ dumpTk t ++ " " ++ (match n with | none => "nil" | some n => dumpTk n) ++ " [" ++
      dumpL noCom noFlags false ps ++ "] " ++ dumpS noCom noFlags b ++ " " ++ boolStr v ++ boolStr l ++ ")"
  | .call t f as => "(Call " ++ dumpTk t ++ " " ++ dumpO noCom noFlags f ++ " [" ++ dumpL noCom noFlags false as ++ "])"
  | .array t es => "(Arr " ++ dumpTk t ++ " [" ++ dumpL noCom noFlags false es ++ "])"
  | .index t l i => "(Idx " ++ dumpTk t ++ " " ++ dumpO noCom noFlags l ++ " " ++ dumpO noCom noFlags i ++ ")"
  | .mapLit t kvs => "(Map " ++ dumpTk t ++ " [" ++ dumpL noCom noFlags false kvs ++ "])"
  | .macroLit t ps b => "(Mac " ++ dumpTk t ++ " [" ++ dumpL noCom noFlags false ps ++ "] " ++ dumpS noCom noFlags b ++ ")"
def dumpO (noCom noFlags : Bool) : Option Node → String
  | none => "nil"
  | some n => n.dump noCom noFlags
/-- elements, each preceded by a space; `stmts` says this is a statement list (comments droppable) -/
def dumpL (noCom noFlags stmts : Bool) : List (Option Node) → String
  | [] => ""
  | none :: xs => " nil" ++ dumpL noCom noFlags stmts xs
  | some n :: xs => (if noCom && stmts && n.isComment then "" else " " ++ n.dump noCom noFlags) ++ dumpL noCom noFlags stmts xs
def dumpS (noCom noFlags : Bool) : Option (List (Option Node)) → String
  | none => "nil"
  | some l => "{" ++ dumpL noCom noFlags true l ++ "}"
end

/-- the program (`*ast.Statements` returned by ParseProgram, never nil) -/
def dumpProgram (noCom noFlags : Bool) (p : NList) : String := dumpS noCom noFlags (some p)

/-! ### no missing children (C08) -/
mutual
def Node.noNil : Node → Bool
  | .ident _ | .intLit _ | .floatLit _ | .strLit _ | .boolean _ | .control _ | .comment .. | .post .. => true
  | .ret _ v => (match v with | none => true | some n => n.noNil)   -- plain `return` has a nil value by design
  | .pre _ r => noNilO r
  | .infix t l r => noNilO l && (match r with
      | none => t.type == .COLON        -- `a[n:]`: a nil right operand of `:` is by design
      | some n => n.noNil)
  | .forE _ c b => noNilO c && noNilS b
  | .ifE _ c a b => noNilO c && noNilS a && (match b with | none => true | some l => noNilL l)
  | .builtin _ ps => noNilL ps
  | .func _ _ ps b _ _ => noNilL ps && noNilS b
  | .call _ f as => noNilO f && noNilL as
  | .array _ es => noNilL es
  | .index _ l i => noNilO l && noNilO i
  | .mapLit _ kvs => noNilL kvs
  | .macroLit _ ps b => noNilL ps && noNilS b
def noNilO : Option Node → Bool
  | none => false
  | some n => n.noNil
def noNilL : List (Option Node) → Bool
  | [] => true
  | x :: xs => noNilO x && noNilL xs
def noNilS : Option (List (Option Node)) → Bool
  | none => false
  | some l => noNilL l
end

end Grol

import Grol.Suite
import Grol.AutoSave
/-
Driver side of the `autosave` suite and the executable statement of C18.
  input  <old hex|none>;<program hex>;<changed>;<lines hex list|e>;<fault>
  obs    ret=<ok|err|killed>;gr=<hex|none>;tmp=<hex|none|multi>;loadeq=<1|0|none>
-/
namespace Grol.AutoSaveSuite
open Grol.Wire Grol.AutoSave

structure Obs where
  ret : String
  gr : Option Bytes
  tmp : Option Bytes
  loadeq : String
  deriving BEq, Repr

def optHex : Option Bytes → String
  | none => "none"
  | some b => if b.isEmpty then "-" else hexOfBytes b

def Obs.render (o : Obs) : String := s!"ret={o.ret};gr={optHex o.gr};tmp={optHex o.tmp};loadeq={o.loadeq}"

def parseOpt (s : String) : Option (Option Bytes) :=
  if s = "none" then some none else (bytesOfHex s).map some

def parseObs (s : String) : Option Obs :=
  match splitOn s ';' with
  | [r, g, t, l] =>
    if r.startsWith "ret=" && g.startsWith "gr=" && t.startsWith "tmp=" && l.startsWith "loadeq=" then do
      let g ← parseOpt (g.drop 3).toString
      let t ← parseOpt (t.drop 4).toString   -- "multi" does not parse: reported as a bad line
      pure ⟨(r.drop 4).toString, g, t, (l.drop 7).toString⟩
    else none
  | _ => none

/-- crash point of the hooks → number of completed steps (m = number of lines) -/
def parseFault (m : Nat) (s : String) : Option Fault :=
  match splitOn s ':' with
  | ["none"] => some .none
  | ["crash", "before-create", "1"] => some (.crash 0 [])
  | ["crash", "after-create", "1"] => some (.crash 1 [])
  | ["crash", "binding", j] => j.toNat?.bind fun j => if 1 ≤ j ∧ j ≤ m then some (.crash (1 + j) []) else none
  | ["crash", "before-rename", "1"] => some (.crash (1 + m) [])
  | ["crash", "after-rename", "1"] => some (.crash (2 + m) [])
  | ["fail", n, k] => do
    let n ← n.toNat?
    let k ← k.toNat?
    -- the n-th write through SaveGlobals; there are only m of them
    pure (if 1 ≤ n ∧ n ≤ m then .fail n k else .none)
  | _ => none

def retStr : Ret → String
  | .ok => "ok" | .err => "err" | .killed => "killed"

def initFS (old : Option Bytes) : FS := fun n => match n with | .gr => old | .temp _ => none

def modelObs (old : Option Bytes) (changed : Bool) (lines : List Bytes) (fault : Fault) : Obs :=
  let r := autoSave 0 fault (initFS old) changed lines
  let gr := r.1 .gr
  { ret := retStr r.2, gr := gr, tmp := r.1 (.temp 0), loadeq := if gr.isSome then "1" else "none" }

/-- C18 on one observation: `.gr` is the complete old or the complete new version (and loads back as
such in a fresh process); after an error return or a skipped save it is the old one -/
def statement (old : Option Bytes) (changed : Bool) (lines : List Bytes) (o : Obs) : Bool :=
  (o.gr == old || (changed && o.gr == some (newContent lines)))
  && (o.ret != "err" || o.gr == old)
  && (o.ret != "ok" || o.gr == (if changed then some (newContent lines) else old))
  && (o.gr.isNone || o.loadeq == "1")

def runCase (inp obs : String) : CaseResult :=
  match splitOn inp ';' with
  | [old, _prog, ch, ls, fault] =>
    match parseOpt old, (if ls = "e" then some [] else bytesListOfHex ls), parseObs obs with
    | some old, some lines, some io =>
      match parseFault lines.length fault with
      | none => CaseResult.badLine
      | some f =>
        let changed := ch == "1"
        let mo := modelObs old changed lines f
        { model := mo.render, agree := mo == io, stmtModel := statement old changed lines mo,
          stmtImpl := statement old changed lines io,
          tags := [(match f with | .none => "nofault" | .crash _ _ => "crash" | .fail _ _ => "fail") ++ "-" ++ mo.ret ++
                    (if mo.gr == old then "-old" else "-new") ++ (if old.isNone then "-nofile" else ""),
                   s!"lines{if lines.length ≤ 12 then "≤12" else if lines.length ≤ 20 then "≤20" else ">20"}"],
          nontrivial := changed }
    | _, _, _ => CaseResult.badLine
  | _ => CaseResult.badLine

end Grol.AutoSaveSuite

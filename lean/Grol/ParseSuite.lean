import Grol.Suite
import Grol.Parser
import Grol.Printer
/-
Driver side of the `parse` / `parse15` correspondence suites (C08, C15) and the shared
machinery of the front-end suites: the observation is a list of `key=value` fields separated by
`|` (see harness/cmd/harness/parse.go).  The model recomputes every field except the token
streams (`*.toks`), which come from the real lexer and are the model's INPUT.
-/
namespace Grol.Front
open Grol.Wire Grol.Generated Grol.Parser Grol.Printer

abbrev Fields := List (String × String)

def parseFields (s : String) : Fields :=
  if s.isEmpty then [] else
  (s.splitOn "|").map fun kv =>
    match kv.splitOn "=" with
    | k :: rest => (k, "=".intercalate rest)
    | [] => ("", "")

def renderFields (f : Fields) : String := "|".intercalate (f.map fun (k, v) => k ++ "=" ++ v)

def Fields.get (f : Fields) (k : String) : Option String := (f.find? fun (k', _) => k' == k).map (·.2)
def Fields.is (f : Fields) (k v : String) : Bool := f.get k == some v

def hexOrDash (b : Bytes) : String := if b.isEmpty then "-" else hexOfBytes b

/-- the four print modes, as in the harness: key, compact, allParens -/
def printModes : List (String × Bool × Bool) :=
  [("pn", false, false), ("pc", true, false), ("pa", false, true), ("pca", true, true)]

def printField (prog : NList) (compact allParens : Bool) : String :=
  match printProgram isPrintTable prog compact allParens with
  | .ok b => hexOrDash b
  | .error _ => "PANIC"

structure ModelParse where
  fields : Fields
  /-- the model's result (none: panic / out of fuel / no stream) -/
  res : Option ParseResult
  outOfFuel : Bool := false

/-- model counterpart of the harness' `observeParse` -/
def modelParse (impl : Fields) (pfx : String) (prints : Bool) : ModelParse :=
  match impl.get (pfx ++ "toks") with
  | none => { fields := [], res := none }
  | some ts =>
    match parseStream ts with
    | none => { fields := [(pfx ++ "toks", "BAD")], res := none }
    | some s =>
      let base := [(pfx ++ "toks", ts)]
      match parseProgram s (defaultFuel s) with
      | .goPanic _ => { fields := base ++ [(pfx ++ "p", "1")], res := none }
      | .outOfFuel => { fields := base ++ [(pfx ++ "p", "FUEL")], res := none, outOfFuel := true }
      | .ok r =>
        let t := dumpProgram false false r.program
        let ts := dumpProgram false true r.program
        let tnc := dumpProgram true true r.program
        let f := base ++ [(pfx ++ "p", "0"), (pfx ++ "e", toString r.errors), (pfx ++ "c", boolStr r.cont),
                          (pfx ++ "nn", boolStr (noNilL r.program)), (pfx ++ "t", t)]
        let f := if ts != t then f ++ [(pfx ++ "ts", ts)] else f
        let f := if tnc != ts then f ++ [(pfx ++ "tnc", tnc)] else f
        let f := if prints then f ++ printModes.map fun (k, c, a) => (pfx ++ k, printField r.program c a) else f
        { fields := f, res := some r }

def valid (f : Fields) (pfx : String) : Bool :=
  f.is (pfx ++ "p") "0" && f.is (pfx ++ "e") "0" && f.is (pfx ++ "c") "0"

/-! ### C08 on one observation -/

def c08Mode (f : Fields) (pfx : String) : Bool :=
  f.is (pfx ++ "p") "0"
  && (f.get (pfx ++ "t")).isSome
  && (!valid f pfx ||
      (f.is (pfx ++ "nn") "1" && printModes.all fun (k, _, _) =>
        match f.get (pfx ++ k) with
        | some v => v != "PANIC"
        | none => false))

def c08Statement (f : Fields) : Bool := c08Mode f "F." && c08Mode f "L."

/-! ### C15 on one observation -/

/-- part 1: a complete program parses to the same tree in line mode -/
def c15SameTree (f : Fields) : Bool :=
  !valid f "F." || (valid f "L." && f.get "L.t" == f.get "F.t")

def isOpener (t : TokType) : Bool := t = .LPAREN || t = .LBRACKET || t = .LBRACE
def isCloser (t : TokType) : Bool := t = .RPAREN || t = .RBRACKET || t = .RBRACE

/-- tokens registered with parseInfixExpression: the binary operators -/
def isBinaryOp (t : TokType) : Bool := Parser.lookup infixRegs t == some .parseInfixExpression

/-- bracket depth after the given tokens (closers below zero are ignored) -/
def depthAfter (toks : List Tok) : Nat :=
  toks.foldl (fun d t => if isOpener t.type then d + 1 else if isCloser t.type then d - 1 else d) 0

/-- The hypothesis of part 2 for the cut `k` of a program with (file-mode) stream `toks`:
`k` is the end of token `i` and the bracket depth after tokens `0..i` is positive or token `i` is a
binary operator; or `k` lies strictly inside a block-comment token, or just before the closing quote
of a string token. Returns a tag. -/
def isWsByte (b : UInt8) : Bool := b = 32 || b = 9 || b = 10 || b = 13

/-- the offset of a token's first byte: `posBefore` plus the whitespace the lexer skipped -/
def tokStart (src : Bytes) (t : Tok) : Nat := t.posBefore + ((src.drop t.posBefore).takeWhile isWsByte).length

def cutKind (src : Bytes) (toks : List Tok) (k : Nat) : Option String :=
  let rec go (before : List Tok) (rest : List Tok) : Option String :=
    match rest with
    | [] => none
    | t :: rest' =>
      if t.type = .EOF then none
      else if t.posAfter = k then
        let upTo := before ++ [t]
        if t.type = .RPAREN && (before.getLast?.map (·.type)) == some .LPAREN && (rest'.head?.map (·.type)) == some .LAMBDA then
          some "empty-parens"      -- `()` of `() => …`
        else if depthAfter upTo > 0 then some "in-bracket"
        else if isBinaryOp t.type then some "after-binop"
        else if t.type = .DOT || t.type = .LAMBDA then some "after-dot-or-arrow"   -- `a.` and `x =>` also wait for their right side
        else none
      else if t.type = .STRING && tokStart src t < k && k < t.posAfter then some "in-string"      -- after the opening, before the closing quote
      -- inside an unclosed block comment: at least the opener `/*` is there (a cut between `/` and `*` leaves no comment)
      else if t.type = .BLOCKCOMMENT && t.posAfter - t.lit.length + 2 ≤ k && k < t.posAfter then some "in-comment"
      else go (before ++ [t]) rest'
  go [] toks

/-- part 2 -/
def c15Cut (src : Bytes) (f : Fields) (k : Nat) : Bool × Option String :=
  if !valid f "W." then (true, none) else
  match (f.get "W.toks").bind parseStream with
  | none => (true, none)
  | some s =>
    match cutKind src s.toks k with
    | none => (true, none)
    | some kind => (f.is "L.p" "0" && f.is "L.c" "1" && f.is "L.e" "0", some kind)

def splitInput (inp : String) : String × Option Nat :=
  match inp.splitOn "@" with
  | [h, k] => (h, k.toNat?)
  | _ => (inp, none)

end Grol.Front

namespace Grol.ParseSuite
open Grol.Wire Grol.Generated Grol.Parser Grol.Front

inductive Prop' | c08 | c15
  deriving DecidableEq

/-- a block comment token whose text is exactly `/*/` + … : not closed, but ends in `*/` -/
def hasFakeClosedComment (s : TokStream) : Bool :=
  s.toks.any fun t => t.type = .BLOCKCOMMENT && t.posAfter ≥ s.inputLen && t.lit.length < 4

/-- `{` minus `}` over the whole stream: positive when a block (or map literal) is still open at the end -/
def braceDepth (s : TokStream) : Nat :=
  s.toks.foldl (fun d t => if t.type = .LBRACE then d + 1 else if t.type = .RBRACE then d - 1 else d) 0

def streamOf (f : Fields) (k : String) : Option TokStream := (f.get k).bind parseStream

def topTags (r : ParseResult) : List String :=
  (if r.errors > 0 then ["errors"] else if r.cont then ["continuation"] else ["clean"]) ++
  (match r.program.getLast? with
   | some (some n) => [match n with
      | .ident .. => "ident" | .intLit .. => "int" | .floatLit .. => "float" | .strLit .. => "string" | .boolean .. => "bool"
      | .control .. => "control" | .comment .. => "comment" | .ret .. => "return" | .pre .. => "prefix" | .post .. => "postfix"
      | .infix .. => "infix" | .forE .. => "for" | .ifE .. => "if" | .builtin .. => "builtin" | .func .. => "func"
      | .call .. => "call" | .array .. => "array" | .index .. => "index" | .mapLit .. => "map" | .macroLit .. => "macro"]
   | _ => ["empty"])

def runCase (prop : Prop') (inp obs : String) : CaseResult :=
  let impl := parseFields obs
  let (srcHex, cut) := splitInput inp
  let src := (bytesOfHex srcHex).getD []
  let w := if cut.isSome then modelParse impl "W." false else { fields := [], res := none }
  let fm := modelParse impl "F." true
  let lm := modelParse impl "L." true
  if (impl.get "F.toks").isNone || (impl.get "L.toks").isNone then CaseResult.badLine else
  let model := w.fields ++ fm.fields ++ lm.fields
  let modelStr := renderFields model
  let stmt (f : Fields) : Bool × Option String :=
    match prop with
    | .c08 => (c08Statement f, none)
    | .c15 =>
      match cut with
      | none => (c15SameTree f, none)
      | some k => c15Cut src f k
  let (sm, kind) := stmt model
  let (si, _) := stmt impl
  -- C08 also checks, on the real lexer's streams, the two lexer facts the no-panic theorem assumes
  let wfOK := prop != .c08 || ["F.toks", "L.toks"].all fun k =>
    match (impl.get k).bind parseStream with
    | some s => streamWFb s && (s.eof.type == .EOF || s.eof.type == .EOL)   -- StreamWF and EndOK
    | none => false
  let sm := sm && wfOK
  let si := si && wfOK
  -- known-finding classes (decidable predicates on the case = the model's own run)
  let klass :=
    match prop with
    | .c08 =>
      if model.is "F.p" "1" || model.is "L.p" "1" then "lambda-param-list-with-nil-element" else ""
    | .c15 =>
      match cut with
      | none =>
        -- file mode accepts a block that is still open at the end of the input (and only then: a line mode that
        -- asks for more input after a text whose braces are balanced is not this finding)
        if valid model "F." && model.is "L.c" "1" && ((streamOf impl "F.toks").map braceDepth).getD 0 > 0
        then "file-mode-accepts-unclosed-block" else ""
      | some _ =>
        match kind with
        | some "in-string" => "unclosed-string-after-statement"
        | _ => ""
  { model := modelStr, agree := modelStr == obs, stmtModel := sm, stmtImpl := si,
    tags := (match fm.res with | some r => topTags r | none => ["panic"]) ++
            (match lm.res with | some r => (topTags r).map ("L-" ++ ·) | none => ["L-panic"]) ++
            (match kind with | some k => ["cut-" ++ k] | none => if cut.isSome then ["cut-other"] else []),
    nontrivial := (match fm.res with | some r => !r.program.isEmpty || r.errors > 0 || r.cont | none => true),
    klass := klass }

end Grol.ParseSuite

import Grol.Wire
/-
Model of extensions/extension.go `sanitizeFileName` (and lexer.IsAlphaNum), for C17.
Go strings are byte sequences: `List UInt8`.  The two package globals `unrestrictedIOs` and
`emptyOnly` (set once by initInternal from Config.UnrestrictedIOs / Config.LoadSaveEmptyOnly)
are the configuration.  An error return is `none` (the wording is never compared).
-/
namespace Grol.Sanitize
open Grol.Wire

structure Config where
  unrestricted : Bool
  emptyOnly : Bool
  deriving DecidableEq, Repr

/-- lexer.isLetter -/
def isLetter (c : UInt8) : Bool := (97 ≤ c && c ≤ 122) || (65 ≤ c && c ≤ 90) || c == 95
/-- lexer.isDigit -/
def isDigit (c : UInt8) : Bool := 48 ≤ c && c ≤ 57
/-- lexer.IsAlphaNum -/
def isAlphaNum (c : UInt8) : Bool := isLetter c || isDigit c

/-- GrolFileExtension = ".gr" -/
def ext : Bytes := [46, 103, 114]

/-- strings.TrimSuffix(s, ".gr"): one suffix is removed, if present -/
def trimSuffix (s : Bytes) : Bytes :=
  if ext.isSuffixOf s then s.take (s.length - ext.length) else s

/-- sanitizeFileName(args): `none` as argument = called without argument; result `none` = error.
Same order of tests as the Go code. -/
def sanitize (cfg : Config) : Option Bytes → Option Bytes
  | none => some ext
  | some file =>
    if cfg.emptyOnly && file != [] then none
    else if cfg.unrestricted then some file
    else
      let f := trimSuffix file
      if f.all isAlphaNum then some (f ++ ext) else none

end Grol.Sanitize

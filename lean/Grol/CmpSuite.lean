import Grol.Suite
import Grol.Cmp
import Grol.Value
/-
Driver side of the `cmp` correspondence suite and the executable statement of C12.
Case syntax: see harness/cmd/harness/cmp.go.
-/
namespace Grol.CmpSuite
open Grol Grol.Wire Grol.Obj Grol.Value

/-! ### observations -/

/-- result of a three-way comparison: `none` = Go panic -/
abbrev C := Option Int
abbrev B := Option Bool

def ofOutcome {α} : Outcome α → Option α
  | .ok a => some a
  | .panic _ => none

def cStr : C → String
  | none => "P"
  | some v => toString v
def bStr : B → String
  | none => "P"
  | some b => boolStr b
def cOfStr (s : String) : Option C :=
  if s = "P" then some none else if s = "-1" then some (some (-1)) else if s = "0" then some (some 0)
  else if s = "1" then some (some 1) else (s.toInt?).map some
def bOfChar (c : Char) : Option B :=
  if c = 'P' then some none else if c = '0' then some (some false) else if c = '1' then some (some true) else none

structure PairObs where
  cab : C
  cba : C
  caa : C
  eab : B
  eba : B
  eaa : B
  /-- a<b a<=b a>b a>=b a==b a!=b b<a b<=a b>a b>=a b==a b!=a from source; `none` = no source form.
  each: '0' '1' 'P' (panic) 'E' (not a boolean) -/
  ops : Option (List Char)
  mn : String
  mx : String
  deriving BEq

def PairObs.render (o : PairObs) : String :=
  s!"c={cStr o.cab},{cStr o.cba},{cStr o.caa};e={bStr o.eab}{bStr o.eba}{bStr o.eaa};s=" ++
  (match o.ops with | none => "-" | some l => String.ofList l) ++ s!";mn={o.mn};mx={o.mx}"

structure TripleObs where
  cab : C
  cbc : C
  cac : C
  eab : B
  ebc : B
  eac : B
  deriving BEq

def TripleObs.render (o : TripleObs) : String :=
  s!"{cStr o.cab},{cStr o.cbc},{cStr o.cac};{bStr o.eab}{bStr o.ebc}{bStr o.eac}"

def opChar (r : Outcome Bool) : Char :=
  match r with
  | .ok true => '1'
  | .ok false => '0'
  | .panic _ => 'P'

def objStr : Option (Outcome Obj) → String
  | some (.ok v) => Value.render v
  | some (.panic _) => "P"
  | none => "E"

def modelPair (a b : Obj) (withSrc : Bool) : PairObs :=
  { cab := ofOutcome (cmp a b), cba := ofOutcome (cmp b a), caa := ofOutcome (cmp a a),
    eab := ofOutcome (equals a b), eba := ofOutcome (equals b a), eaa := ofOutcome (equals a a),
    ops := if withSrc then
        some [opChar (opLt a b), opChar (opLe a b), opChar (opGt a b), opChar (opGe a b), opChar (opEq a b), opChar (opNe a b),
              opChar (opLt b a), opChar (opLe b a), opChar (opGt b a), opChar (opGe b a), opChar (opEq b a), opChar (opNe b a)]
      else none,
    mn := if withSrc then objStr (minCall [a, b]) else "-",
    mx := if withSrc then objStr (maxCall [a, b]) else "-" }

def modelTriple (a b c : Obj) : TripleObs :=
  { cab := ofOutcome (cmp a b), cbc := ofOutcome (cmp b c), cac := ofOutcome (cmp a c),
    eab := ofOutcome (equals a b), ebc := ofOutcome (equals b c), eac := ofOutcome (equals a c) }

/-! ### the executable statement of C12 -/

def isSign (c : Int) : Bool := c == -1 || c == 0 || c == 1

/-- on one ordered pair of comparable values: no panic, results in {-1,0,1}, `cmp b a = -cmp a b`,
`cmp a a = 0`, `a == a'` for a copy, `==` symmetric and implies `cmp = 0`, the six source operators
(both directions) consistent with each other and with `Cmp`/`Equals`, `min`/`max` return the right operand -/
def pairStatement (wa wb : String) (o : PairObs) : Bool :=
  let bIsArr := wb.startsWith "["   -- min(a,[x,y]) is min(a,x,y): only agreement with the model is checked
  match o.cab, o.cba, o.caa, o.eab, o.eba, o.eaa with
  | some cab, some cba, some caa, some eab, some eba, some eaa =>
    isSign cab && isSign cba && cba == -cab && caa == 0 && eaa && eab == eba && (!eab || cab == 0)
    && (match o.ops with
        | none => true
        | some [lt, le, gt, ge, eq, ne, lt', le', gt', ge', eq', ne'] =>
          let b (c : Char) := c == '1'
          [lt, le, gt, ge, eq, ne, lt', le', gt', ge', eq', ne'].all (fun c => c == '0' || c == '1')
          -- mutual consistency of the operators
          && b lt == b gt' && b gt == b lt' && b le == b ge' && b ge == b le'
          && b le == !b gt && b ge == !b lt && b le' == !b gt' && b ge' == !b lt'
          && b eq == !b ne && b eq' == !b ne' && b eq == b eq'
          && (!b eq || (b le && b ge))
          -- the operators are the three-way comparison
          && b lt == (cab == -1) && b gt == (cab == 1) && b le == decide (cab ≤ 0) && b ge == decide (0 ≤ cab)
          && b eq == eab
        | _ => false)
    && (o.mn == "-" || bIsArr || ((o.mn == wa || o.mn == wb) && (cab != 1 || o.mn == wb) && (cab != -1 || o.mn == wa)))
    && (o.mx == "-" || bIsArr || ((o.mx == wa || o.mx == wb) && (cab != -1 || o.mx == wb) && (cab != 1 || o.mx == wa)))
  | _, _, _, _, _, _ => false

/-- on one triple: transitivity of `<=`, `cmp = 0` is a congruence, `==` transitive -/
def tripleStatement (o : TripleObs) : Bool :=
  match o.cab, o.cbc, o.cac, o.eab, o.ebc, o.eac with
  | some cab, some cbc, some cac, some eab, some ebc, some eac =>
    (!(cab ≤ 0 && cbc ≤ 0) || cac ≤ 0)
    && (!(0 ≤ cab && 0 ≤ cbc) || 0 ≤ cac)
    && (cab != 0 || cac == cbc)
    && (cbc != 0 || cac == cab)
    && (!(eab && ebc) || eac)
  | _, _, _, _, _, _ => false

/-! ### sorting and min/max of several values -/

/-- insertion sort with the model's `Cmp` (`none` = a comparison panics) -/
def insertBy (x : Obj) : List Obj → Option (List Obj)
  | [] => some [x]
  | y :: ys =>
    match cmp x y with
    | .ok c => if c < 0 then some (x :: y :: ys) else (insertBy x ys).map (y :: ·)
    | .panic _ => none

def modelSort (vs : List Obj) : Option (List Obj) :=
  vs.foldl (fun acc v => acc.bind (insertBy v)) (some [])

def removeFirst (w : String) : List String → Option (List String)
  | [] => none
  | x :: xs => if x == w then some xs else (removeFirst w xs).map (x :: ·)

/-- same multiset of rendered values -/
def isPermutation (a b : List Obj) : Bool :=
  a.length == b.length &&
  ((a.map Value.render).foldl (fun (acc : Option (List String)) w => acc.bind (removeFirst w)) (some (b.map Value.render))).isSome

def sortedBy : List Obj → Bool
  | x :: y :: rest => (match cmp x y with | .ok c => decide (c ≤ 0) | .panic _ => false) && sortedBy (y :: rest)
  | _ => true

/-- C12 on one sort: the result holds exactly the given values and every element is `<=` its successor
(with transitivity: the whole list is in order) -/
def sortStatement (input result : List Obj) : Bool := isPermutation input result && sortedBy result

/-- C12 on one call of min / max with several arguments: the result is one of the arguments and no argument is
smaller / larger than it -/
def minMaxStatement (vs : List Obj) (mn mx : String) : Bool :=
  let ws := vs.map Value.render
  ws.contains mn && ws.contains mx
  && (match vs.find? (fun v => Value.render v == mn) with
      | some m => vs.all fun v => match cmp m v with | .ok c => decide (c ≤ 0) | .panic _ => false
      | none => false)
  && (match vs.find? (fun v => Value.render v == mx) with
      | some m => vs.all fun v => match cmp m v with | .ok c => decide (0 ≤ c) | .panic _ => false
      | none => false)

/-! ### parsing -/

def parsePairObs (s : String) : Option PairObs :=
  match splitOn s ';' with
  | [c, e, ops, mn, mx] => do
    let (cab, cba, caa) ← match splitOn (c.drop 2).toString ',' with
      | [x, y, z] => do pure (← cOfStr x, ← cOfStr y, ← cOfStr z)
      | _ => none
    let (eab, eba, eaa) ← match (e.drop 2).toString.toList with
      | [x, y, z] => do pure (← bOfChar x, ← bOfChar y, ← bOfChar z)
      | _ => none
    let opss := (ops.drop 2).toString
    if !(c.startsWith "c=" && e.startsWith "e=" && ops.startsWith "s=" && mn.startsWith "mn=" && mx.startsWith "mx=") then none
    pure { cab, cba, caa, eab, eba, eaa, ops := if opss = "-" then none else some opss.toList,
           mn := (mn.drop 3).toString, mx := (mx.drop 3).toString }
  | _ => none

def parseTripleObs (s : String) : Option TripleObs :=
  match splitOn s ';' with
  | [c, e] => do
    let (cab, cbc, cac) ← match splitOn c ',' with
      | [x, y, z] => do pure (← cOfStr x, ← cOfStr y, ← cOfStr z)
      | _ => none
    let (eab, ebc, eac) ← match e.toList with
      | [x, y, z] => do pure (← bOfChar x, ← bOfChar y, ← bOfChar z)
      | _ => none
    pure { cab, cbc, cac, eab, ebc, eac }
  | _ => none

def kindTag (o : Obj) : String :=
  match o with
  | .int _ => "int" | .float f => if f.isNaN then "nan" else "float" | .bool _ => "bool" | .nil => "nil" | .err _ => "error"
  | .ret _ => "return" | .func _ => "func" | .str _ => "string" | .arr _ => "array" | .map _ => "map" | .quote _ => "quote"
  | .mac _ => "macro" | .ext _ => "ext" | .reg _ => "register"

def pairTag (a b : Obj) : String :=
  let ta := kindTag a
  let tb := kindTag b
  if ta == tb then "same:" ++ ta
  else if (ta == "int" || ta == "register") && (tb == "float" || tb == "nan") then "int-float"
  else if (tb == "int" || tb == "register") && (ta == "float" || ta == "nan") then "int-float"
  else "cross-type"

def runCase (inp obs : String) : CaseResult :=
  match splitOn inp '|' with
  | ["V", w] =>
    match Value.ofString w with
    | none => CaseResult.badLine
    | some v =>
      -- the model has no evaluator: the observation must be the value itself (or "-": no source form)
      let m := if obs = "-" then "-" else Value.render v
      { model := m, agree := m == obs && Value.render v == w, stmtModel := true, stmtImpl := obs = "-" || obs = w,
        tags := ["V:" ++ kindTag v], nontrivial := obs != "-" }
  | ["P", wa, wb] =>
    match Value.ofString wa, Value.ofString wb, parsePairObs obs with
    | some a, some b, some io =>
      let mo := modelPair a b io.ops.isSome
      let data := isData a && isData b
      { model := mo.render, agree := mo == io,
        stmtModel := !data || pairStatement wa wb mo, stmtImpl := !data || pairStatement wa wb io,
        tags := [pairTag a b, "cmp=" ++ cStr mo.cab] ++ (if io.ops.isSome then ["from-source"] else []),
        nontrivial := data }
    | _, _, _ => CaseResult.badLine
  | ["T", wa, wb, wc] =>
    match Value.ofString wa, Value.ofString wb, Value.ofString wc, parseTripleObs obs with
    | some a, some b, some c, some io =>
      let mo := modelTriple a b c
      let data := isData a && isData b && isData c
      { model := mo.render, agree := mo == io,
        stmtModel := !data || tripleStatement mo, stmtImpl := !data || tripleStatement io,
        tags := ["T:" ++ cStr mo.cab ++ "," ++ cStr mo.cbc], nontrivial := data }
    | _, _, _, _ => CaseResult.badLine
  | "O" :: ws =>
    match ws.mapM Value.ofString with
    | none => CaseResult.badLine
    | some vs =>
      let data := vs.all isData
      let ms := modelSort vs
      let mstr := match ms with | some l => "|".intercalate (l.map Value.render) | none => "P"
      let io : Option (List Obj) := if obs = "P" then none else (splitOn obs '|').mapM Value.ofString
      -- sort.Sort is not stable: the model's order and the implementation's may differ among equivalent values
      let agree := match ms, io with
        | some l, some l' => obs != "P" && l.length == l'.length && (l.zip l').all (fun (x, y) => cmp x y == .ok 0)
        | none, none => obs == "P"
        | _, _ => false
      { model := mstr, agree := agree,
        stmtModel := !data || (match ms with | some l => sortStatement vs l | none => false),
        stmtImpl := !data || (match io with | some l => obs != "P" && sortStatement vs l | none => false),
        tags := ["sort", if (modelSort vs).isSome then s!"sort-len{if vs.length ≤ 16 then "≤16" else ">16"}" else "sort-panic"],
        nontrivial := data }
  | "N" :: ws =>
    match ws.mapM Value.ofString with
    | none => CaseResult.badLine
    | some vs =>
      if obs = "mn=-;mx=-" then
        { model := obs, agree := true, stmtModel := true, stmtImpl := true, tags := ["minmax-nosource"], nontrivial := false } else
      let data := vs.all isData
      let lastIsArr := match vs.getLast? with | some (.arr _) => true | _ => false
      let mo := s!"mn={objStr (minCall vs)};mx={objStr (maxCall vs)}"
      let (mn, mx) := match splitOn obs ';' with
        | [a, b] => ((a.drop 3).toString, (b.drop 3).toString)
        | _ => ("?", "?")
      { model := mo, agree := mo == obs,
        stmtModel := !data || lastIsArr || minMaxStatement vs (objStr (minCall vs)) (objStr (maxCall vs)),
        stmtImpl := !data || lastIsArr || minMaxStatement vs mn mx,
        tags := ["minmax-" ++ toString vs.length], nontrivial := data && !lastIsArr }
  | _ => CaseResult.badLine

end Grol.CmpSuite

import Grol.Printer
/-
Decidable predicates on syntax trees that delimit the recorded (open) formatting defects of
C02/C03.  Each is a property of the CASE (the parsed tree), not of the outcome.  The `Safe`
hypothesis of the partial theorems is the complement of their union.
-/
namespace Grol.Classes
open Grol.Wire Grol.Generated Grol.Printer

mutual
/-- `p stmtPos n` on every node (stmtPos: the node is a direct member of a statement list),
`q l` on every statement list -/
def anyN (p : Bool → Node → Bool) (q : NList → Bool) (stmtPos : Bool) (n : Node) : Bool :=
  p stmtPos n || match n with
  | .ident _ | .intLit _ | .floatLit _ | .strLit _ | .boolean _ | .control _ | .comment .. | .post .. => false
  | .ret _ v => anyO p q v
  | .pre _ r => anyO p q r
  | .infix _ l r => anyO p q l || anyO p q r
  | .forE _ c b => anyO p q c || anyS p q b
  | .ifE _ c a b => anyO p q c || anyS p q a || anyS p q b
  | .builtin _ ps => anyL p q false ps
  | .func _ _ ps b _ _ => anyL p q false ps || anyS p q b
  | .call _ f as => anyO p q f || anyL p q false as
  | .array _ es => anyL p q false es
  | .index _ l i => anyO p q l || anyO p q i
  | .mapLit _ kvs => anyL p q false kvs
  | .macroLit _ ps b => anyL p q false ps || anyS p q b
def anyO (p : Bool → Node → Bool) (q : NList → Bool) : Option Node → Bool
  | none => false
  | some n => anyN p q false n
def anyL (p : Bool → Node → Bool) (q : NList → Bool) (stmts : Bool) : List (Option Node) → Bool
  | [] => false
  | none :: xs => anyL p q stmts xs
  | some n :: xs => anyN p q stmts n || anyL p q stmts xs
def anyS (p : Bool → Node → Bool) (q : NList → Bool) : Option (List (Option Node)) → Bool
  | none => false
  | some l => q l || anyL p q true l
end

def anyProg (p : Bool → Node → Bool) (q : NList → Bool) (prog : NList) : Bool := anyS p q (some prog)

/-- the compact text of one statement printed on its own (fresh state, statement context) -/
def compactAlone (n : Node) : Option PrintState :=
  match printNode isPrintTable n { compact := true, exprPrec := prioLOWEST, indentLevel := 1 } with
  | .ok ps => some ps
  | .error _ => none

def firstByteAlone (n : Node) : Option UInt8 := (compactAlone n).bind fun ps => ps.out.getLast?
def lastByte (n : Node) : Option UInt8 := (compactAlone n).bind fun ps => ps.out.head?

/-- first byte is `-`, `+` or `^`: a prefix operator that is also an infix (or postfix) operator -/
def startsWithAmbiguousOp (n : Node) : Bool :=
  match firstByteAlone n with
  | some b => b = 45 || b = 43 || b = 94
  | none => false

/-- "statement-starts-with-prefix-operator": a statement list has a non-first statement whose text
starts with `-`, `+`, `^` (`++`, `--`): after a newline (or a space) it continues the previous statement -/
def stmtStartsWithPrefixOp (prog : NList) : Bool :=
  anyProg (fun _ _ => false) (fun l => (l.drop 1).any fun s => match s with | some n => startsWithAmbiguousOp n | none => false) prog

/-- "comment-inside-expression": a comment node that is not a direct member of a statement list -/
def commentInExpr (prog : NList) : Bool :=
  anyProg (fun stmtPos n => !stmtPos && n.isComment) (fun _ => false) prog

/-- "unclosed-block-comment-ending-in-star-slash": the block comment `/*/` (not closed, yet its text ends in `*/`) -/
def fakeClosedComment (prog : NList) : Bool :=
  anyProg (fun _ n => match n with | .comment t _ _ => t.type = .BLOCKCOMMENT && t.lit.length < 4 | _ => false) (fun _ => false) prog

/-- "string-with-abfv-control-byte": a string literal containing byte 7, 8, 11 or 12, which strconv.Quote
prints as `\a \b \v \f` — escapes the lexer does not know -/
def stringWithAbfv (prog : NList) : Bool :=
  anyProg (fun _ n => match n with
    | .strLit t => t.lit.any fun b => b = 7 || b = 8 || b = 11 || b = 12
    | _ => false) (fun _ => false) prog

/-- "repeated-associative-operator-on-the-right": `a + (b + c)` is printed `a + b + c` (pinned by the repo's tests) -/
def repeatedAssocOnRight (prog : NList) : Bool :=
  anyProg (fun _ n => match n with
    | .infix t _ (some r) => sameAssociativeOperator t r
    | _ => false) (fun _ => false) prog

def isNumberLit : Option Node → Bool
  | some (.intLit _) | some (.floatLit _) => true
  | _ => false

/-- "number-literal-next-to-dot": `(1).a`, `(.5).a`, `a.(1e3)` are printed `1.a`, `.5.a`, `a.1e3`, which the lexer
reads as other numbers -/
def numberBeforeDot (prog : NList) : Bool :=
  anyProg (fun _ n => match n with
    | .index t l i => t.type = .DOT && (isNumberLit l || isNumberLit i)
    | _ => false) (fun _ => false) prog

/-- "parameter-not-identifier": `func(1, >)` — the parser takes any token as a parameter name; printing it back
does not always lex to the same token (an ILLEGAL byte ≥ 0x80 is stored as its two-byte UTF-8 form) -/
def nonIdentParam (prog : NList) : Bool :=
  anyProg (fun _ n => match n with
    | .ident t => t.type = .ILLEGAL
    | _ => false) (fun _ => false) prog

/-- "dotdot-after-dot": `a.(..)` (also `a.(..++)`) — the index `..` counts as a single token and is printed without
parentheses, `a...`, which the lexer reads as `a`, `..`, `.` -/
def dotdotAfterDot (prog : NList) : Bool :=
  anyProg (fun _ n => match n with
    | .index t _ (some (.ident i)) => t.type = .DOT && i.type = .DOTDOT
    | .index t _ (some (.post _ p)) => t.type = .DOT && p.type = .DOTDOT
    | _ => false) (fun _ => false) prog

def lineThenSameLine : NList → Bool
  | some (.comment t1 _ _) :: some (.comment t2 p2 n2) :: rest =>
    (t1.type = .LINECOMMENT && p2) || lineThenSameLine (some (.comment t2 p2 n2) :: rest)
  | _ :: rest => lineThenSameLine rest
  | [] => false

/-- "line-comment-then-same-line-comment": `// c⏎; // d` — the second comment is flagged "same line as previous"
(it follows the `;`), so it is printed on the line of the first line comment and becomes part of it -/
def lineCommentThenSameLine (prog : NList) : Bool :=
  anyProg (fun _ _ => false) lineThenSameLine prog

def isOpenColon : Option Node → Bool
  | some (.infix t _ none) => t.type = .COLON
  | _ => false

/-- direct children in which an open-ended `n:` is NOT in the one place the parser accepts it back
(the index of `a[n:]`) -/
def nonIndexChildren : Node → List (Option Node)
  | .ret _ v => [v]
  | .pre _ r => [r]
  | .infix _ l r => [l, r]
  | .forE _ c _ => [c]
  | .ifE _ c _ _ => [c]
  | .builtin _ ps => ps
  | .func _ _ ps _ _ _ => ps
  | .call _ f as => f :: as
  | .array _ es => es
  | .index t l i => if t.type = .LBRACKET then [l] else [l, i]
  | .mapLit _ kvs => kvs
  | .macroLit _ ps _ => ps
  | _ => []

/-- "open-ended-colon-outside-index": `["a":]`, `x / (a:)`… — the parser builds the open-ended `n:` node wherever
a `:` is followed by `]`, but once printed elsewhere than directly inside `a[…]` (e.g. in parentheses) it does not parse back -/
def openColonOutsideIndex (prog : NList) : Bool :=
  anyProg (fun _ n => (nonIndexChildren n).any isOpenColon) (fun l => l.any isOpenColon) prog

/-- junction of two consecutive (non-comment) statements in compact mode: is the text unambiguous? -/
def compactJunctionSafe (s1 s2 : Node) : Bool :=
  match compactAlone s1, firstByteAlone s2 with
  | some ps1, some b2 =>
    let sep := isArray (some s2) || (isInfix (some s1) && ps1.last != [125] && ps1.last != [93]) || b2 = 40 || b2 = 91
      || ((match ps1.last.getLast? with | some e => isWordByte e || e = 46 | none => false) && (isWordByte b2 || b2 = 46))
    if sep then !(b2 = 45 || b2 = 43 || b2 = 94)
    else match ps1.out.head? with
      | some e1 => (e1 = 41 || e1 = 93 || e1 = 125 || e1 = 34)
                   && (isWordByte b2 || b2 = 34 || b2 = 123 || b2 = 33 || b2 = 126)
      | none => false
  | _, _ => false

def compactListUnsafe : List Node → Bool
  | a :: b :: rest => !compactJunctionSafe a b || compactListUnsafe (b :: rest)
  | _ => false

/-- "compact-adjacent-statements": two consecutive statements whose compact texts are glued (or only
separated by a space) in a way that reads as something else -/
def compactAdjacent (prog : NList) : Bool :=
  anyProg (fun _ _ => false)
    (fun l => compactListUnsafe (l.filterMap fun s => match s with | some n => if n.isComment then none else some n | none => none)) prog

/-- classes that explain a normal-mode failure, in reporting order (the classes of the defects repaired
since — number-literal-next-to-dot, line-comment-then-same-line-comment, open-ended-colon-outside-index,
string-with-abfv-control-byte, unclosed-block-comment-ending-in-star-slash, illegal-token-as-parameter (parameter lists are checked with okParamList since 8f93dd9), dotdot-after-dot — are no longer listed: a failure there is unclassified again) -/
def normalClasses (prog : NList) : List String :=
  (if stmtStartsWithPrefixOp prog then ["statement-starts-with-prefix-operator"] else []) ++
  (if commentInExpr prog then ["comment-inside-expression"] else []) ++
  (if repeatedAssocOnRight prog then ["repeated-associative-operator-on-the-right"] else [])

/-- classes that explain a compact-mode failure (compact-adjacent-statements was repaired: in compact mode a
statement starting with `-`, `+`, `^` is printed in parentheses and a separator is emitted where needed) -/
def compactClasses (prog : NList) : List String :=
  (normalClasses prog).filter (· != "statement-starts-with-prefix-operator")

end Grol.Classes

import Grol.Wire
/-
Model of /repo/token/token.go: token types (iota order), the constant-token tables built by
`Init` (`cTokens`, `c2Tokens`, `keywords`), `LookupIdent`, `ConstantTokenChar(2)` and interning.
Core Lean only.

Go pointers (`*token.Token`) become `Ptr`: the two package-level markers `EOLT`/`EOFT`, the
single-character constants (allocated by `assoc`, *not* put in the interning map), and slots of
the interning map.  The interning map `map[Token]*Token` is an explicit table: a list of keys
`(type, literal)`; the pointer stored under a key is the key's index (`Ptr.slot i`).
`Init` fills the table with the keywords/builtins (`assocS`) and then the two-character
operators (`assocC2`); `keywords[...]` and `c2Tokens[...]` hold exactly these pointers.

A lexer token (`Tok`) records type, literal and *which API call produced it* (`Src`);
`resolve` performs that call against a table and yields the pointer.  This keeps the lexer
model free of the table while modelling pointer identity exactly.
-/
namespace Grol.Token
export Grol.Wire (Bytes)

/-- byte literal from a character literal: `#b'='` is the numeral `61` -/
macro "#b" c:char : term => return Lean.Syntax.mkNumLit (toString c.getChar.toNat)

/-- `token.Type` in `iota` order (`TType.toNat` = the Go `uint8` value) -/
inductive TType where
  | ILLEGAL | EOL
  | startValueTokens
  | IDENT | INT | FLOAT | STRING | LINECOMMENT | BLOCKCOMMENT | REGISTER
  | endValueTokens
  | startSingleCharTokens
  | ASSIGN | PLUS | MINUS | BANG | ASTERISK | SLASH | PERCENT | LT | GT | BITAND | BITOR | BITXOR | BITNOT
  | COMMA | SEMICOLON | LPAREN | RPAREN | LBRACE | RBRACE | LBRACKET | RBRACKET | COLON | DOT
  | endSingleCharTokens
  | startMultiCharTokens
  | LTEQ | GTEQ | EQ | NOTEQ | INCR | DECR | DOTDOT | OR | AND | LEFTSHIFT | RIGHTSHIFT | LAMBDA | DEFINE
  | endMultiCharTokens
  | startIdentityTokens
  | FUNC | TRUE | FALSE | IF | ELSE | RETURN | FOR | BREAK | CONTINUE
  | MACRO | QUOTE | UNQUOTE
  | LEN | FIRST | REST | PRINT | PRINTLN | LOG | ERROR | CATCH | DEL
  | endIdentityTokens
  | EOF
  deriving DecidableEq, Repr, Inhabited

open TType

def TType.toNat (t : TType) : Nat := t.ctorIdx

/-- all types in `iota` order -/
def TType.all : List TType :=
  [ILLEGAL, EOL, startValueTokens, IDENT, INT, FLOAT, STRING, LINECOMMENT, BLOCKCOMMENT, REGISTER,
   endValueTokens, startSingleCharTokens,
   ASSIGN, PLUS, MINUS, BANG, ASTERISK, SLASH, PERCENT, LT, GT, BITAND, BITOR, BITXOR, BITNOT,
   COMMA, SEMICOLON, LPAREN, RPAREN, LBRACE, RBRACE, LBRACKET, RBRACKET, COLON, DOT,
   endSingleCharTokens, startMultiCharTokens,
   LTEQ, GTEQ, EQ, NOTEQ, INCR, DECR, DOTDOT, OR, AND, LEFTSHIFT, RIGHTSHIFT, LAMBDA, DEFINE,
   endMultiCharTokens, startIdentityTokens,
   FUNC, TRUE, FALSE, IF, ELSE, RETURN, FOR, BREAK, CONTINUE, MACRO, QUOTE, UNQUOTE,
   LEN, FIRST, REST, PRINT, PRINTLN, LOG, ERROR, CATCH, DEL,
   endIdentityTokens, EOF]

def TType.ofNat? (n : Nat) : Option TType := TType.all[n]?

/-- the Go `Type.String()` name -/
def TType.name (t : TType) : String :=
  let s := toString (repr t)
  (s.splitOn ".").getLast!

/-- which token API produced a token (determines the pointer) -/
inductive Src where
  /-- `l.EOLEOF()`: the package-level `EOLT` / `EOFT` -/
  | eoleof
  /-- `token.ConstantTokenChar(c)` = `cTokens[c]` -/
  | char1
  /-- `token.ConstantTokenChar2(c1, c2)` = `c2Tokens[{c1,c2}]` -/
  | char2
  /-- `token.Intern(type, literal)` -/
  | intern
  /-- `token.LookupIdent(literal)` -/
  | lookup
  /-- a `nil` pointer (map miss in `cTokens` / `c2Tokens`) -/
  | nil
  /-- the Go code would have panicked (slice bounds out of range) -/
  | panic
  deriving DecidableEq, Repr, Inhabited

structure Tok where
  type : TType
  lit : Bytes
  src : Src
  deriving DecidableEq, Repr, Inhabited

def Tok.nil : Tok := { type := ILLEGAL, lit := [], src := .nil }
def Tok.goPanic : Tok := { type := ILLEGAL, lit := [], src := .panic }

/-- `assoc(type, c)` calls of `Init`, in order: the `cTokens` map -/
def cTokens : List (UInt8 × TType) :=
  [ (#b'=', ASSIGN), (#b'+', PLUS), (#b'-', MINUS), (#b'!', BANG), (#b'*', ASTERISK), (#b'/', SLASH),
    (#b'%', PERCENT), (#b'<', LT), (#b'>', GT), (#b',', COMMA), (#b';', SEMICOLON), (#b'(', LPAREN),
    (#b')', RPAREN), (#b'{', LBRACE), (#b'}', RBRACE), (#b'[', LBRACKET), (#b']', RBRACKET),
    (#b':', COLON), (#b'.', DOT), (#b'&', BITAND), (#b'|', BITOR), (#b'^', BITXOR), (#b'~', BITNOT) ]

/-- `assocC2(type, str)` calls of `Init`, in order: the `c2Tokens` map -/
def c2Tokens : List ((UInt8 × UInt8) × TType) :=
  [ ((#b'<', #b'='), LTEQ), ((#b'>', #b'='), GTEQ), ((#b'=', #b'='), EQ), ((#b'!', #b'='), NOTEQ),
    ((#b'+', #b'+'), INCR), ((#b'-', #b'-'), DECR), ((#b'.', #b'.'), DOTDOT), ((#b'|', #b'|'), OR),
    ((#b'&', #b'&'), AND), ((#b'<', #b'<'), LEFTSHIFT), ((#b'>', #b'>'), RIGHTSHIFT),
    ((#b'=', #b'>'), LAMBDA), ((#b':', #b'='), DEFINE) ]

/-- the `keywords` map: for every type strictly between `startIdentityTokens` and
`endIdentityTokens`, the lower-cased `Type.String()` -/
def keywords : List (Bytes × TType) :=
  [ ([#b'f', #b'u', #b'n', #b'c'], FUNC),
    ([#b't', #b'r', #b'u', #b'e'], TRUE),
    ([#b'f', #b'a', #b'l', #b's', #b'e'], FALSE),
    ([#b'i', #b'f'], IF),
    ([#b'e', #b'l', #b's', #b'e'], ELSE),
    ([#b'r', #b'e', #b't', #b'u', #b'r', #b'n'], RETURN),
    ([#b'f', #b'o', #b'r'], FOR),
    ([#b'b', #b'r', #b'e', #b'a', #b'k'], BREAK),
    ([#b'c', #b'o', #b'n', #b't', #b'i', #b'n', #b'u', #b'e'], CONTINUE),
    ([#b'm', #b'a', #b'c', #b'r', #b'o'], MACRO),
    ([#b'q', #b'u', #b'o', #b't', #b'e'], QUOTE),
    ([#b'u', #b'n', #b'q', #b'u', #b'o', #b't', #b'e'], UNQUOTE),
    ([#b'l', #b'e', #b'n'], LEN),
    ([#b'f', #b'i', #b'r', #b's', #b't'], FIRST),
    ([#b'r', #b'e', #b's', #b't'], REST),
    ([#b'p', #b'r', #b'i', #b'n', #b't'], PRINT),
    ([#b'p', #b'r', #b'i', #b'n', #b't', #b'l', #b'n'], PRINTLN),
    ([#b'l', #b'o', #b'g'], LOG),
    ([#b'e', #b'r', #b'r', #b'o', #b'r'], ERROR),
    ([#b'c', #b'a', #b't', #b'c', #b'h'], CATCH),
    ([#b'd', #b'e', #b'l'], DEL) ]

/-- `token.ConstantTokenChar` -/
def constantTokenChar (c : UInt8) : Tok :=
  match cTokens.lookup c with
  | some t => { type := t, lit := [c], src := .char1 }
  | none => Tok.nil

/-- `token.ConstantTokenChar2` -/
def constantTokenChar2 (c1 c2 : UInt8) : Tok :=
  match c2Tokens.lookup (c1, c2) with
  | some t => { type := t, lit := [c1, c2], src := .char2 }
  | none => Tok.nil

/-- `token.LookupIdent` -/
def lookupIdent (ident : Bytes) : Tok :=
  match keywords.lookup ident with
  | some t => { type := t, lit := ident, src := .lookup }
  | none => { type := IDENT, lit := ident, src := .lookup }

/-- `token.Intern(t, literal)` as seen by the lexer -/
def internTok (t : TType) (lit : Bytes) : Tok := { type := t, lit := lit, src := .intern }

/-- `l.EOLEOF()` -/
def eolEof (lineMode : Bool) : Tok :=
  { type := if lineMode then EOL else EOF, lit := [], src := .eoleof }

/-! ### pointers and the interning table -/

inductive Ptr where
  | nil
  | eolt
  | eoft
  /-- the constant allocated by `assoc(_, c)` -/
  | c1 (c : UInt8)
  /-- the pointer stored in the interning map under the `i`-th key -/
  | slot (i : Nat)
  deriving DecidableEq, Repr, Inhabited

abbrev Key := TType × Bytes
abbrev Table := List Key

/-- index of the first occurrence of `k` (`= length` if absent) -/
def idx (k : Key) : Table → Nat
  | [] => 0
  | x :: xs => if x = k then 0 else idx k xs + 1

/-- the interning map after `Init()` -/
def initTable : Table :=
  keywords.map (fun p => (p.2, p.1)) ++ c2Tokens.map (fun p => (p.2, [p.1.1, p.1.2]))

/-- `InternToken`: existing pointer if the key is present, otherwise the new token is stored -/
def intern (tb : Table) (k : Key) : Ptr × Table :=
  let i := idx k tb
  if i < tb.length then (.slot i, tb) else (.slot tb.length, tb ++ [k])

/-- perform the API call recorded in the token against the table -/
def resolve (tb : Table) (t : Tok) : Ptr × Table :=
  match t.src with
  | .eoleof => (if t.type = EOL then .eolt else .eoft, tb)
  | .char1 => (match t.lit with | [c] => .c1 c | _ => .nil, tb)
  | .char2 => (.slot (idx (t.type, t.lit) initTable), tb)
  | .intern => intern tb (t.type, t.lit)
  | .lookup =>
    match keywords.lookup t.lit with
    | some ty => (.slot (idx (ty, t.lit) initTable), tb)
    | none => intern tb (IDENT, t.lit)
  | .nil => (.nil, tb)
  | .panic => (.nil, tb)

/-- resolve a whole token stream, threading the table -/
def resolveAll (tb : Table) : List Tok → List Ptr
  | [] => []
  | t :: ts => let r := resolve tb t; r.1 :: resolveAll r.2 ts

end Grol.Token

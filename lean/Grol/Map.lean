/-
Functional model of the two map representations of /repo/object/object.go:
`SmallMap{smallKV [MaxSmallMap]keyValuePair, len}` (pairs kept sorted in a fixed array, linear
search) and `*BigMap{kv []keyValuePair}` (sorted slice, `slices.BinarySearchFunc` + `slices.Insert`).

Generic in the key type `κ`, the value type `ν`, the three-way key comparison `c` (`object.Cmp` via
`CompareKeys`) and `maxSmall` (`MaxSmallMap`), so that the theorems of C11 hold for every comparison
that is a total preorder and every `maxSmall ≥ 1`; the driver instantiates `κ = ν = Obj`,
`c = Obj.cmpD`, `maxSmall = 4`.  Single-owner use: Go's in-place updates of a `*BigMap` are
modelled by returning the new value (aliasing is C06's subject).  Core Lean only.
-/
namespace Grol.Map

inductive M (κ ν : Type) where
  /-- `SmallMap`: `smallKV[:len]` -/
  | small (kvs : List (κ × ν))
  /-- `*BigMap`: `kv` -/
  | big (kvs : List (κ × ν))
  deriving Repr, BEq

variable {κ ν : Type}

/-- `mapElements()` -/
def M.kvs : M κ ν → List (κ × ν)
  | .small l => l
  | .big l => l

/-- `Len()` -/
def M.len (m : M κ ν) : Nat := m.kvs.length

def M.isBig : M κ ν → Bool
  | .small _ => false
  | .big _ => true

/-- `SmallMap.get`: `for i := range m.len { switch Cmp(m.smallKV[i].Key, key) { case 1: return NULL,false,i;
case 0: return value,true,i } }; return NULL,false,m.len` -/
def smallGet (c : κ → κ → Int) (key : κ) : List (κ × ν) → Nat → Option ν × Nat
  | [], i => (none, i)
  | (k, v) :: rest, i =>
    if c k key = 1 then (none, i)
    else if c k key = 0 then (some v, i)
    else smallGet c key rest (i + 1)

/-- the loop of `slices.BinarySearchFunc`: `for i < j { h := (i+j)/2; if cmp(x[h], target) < 0 { i = h+1 } else { j = h } }` -/
def bsearch (c : κ → κ → Int) (key : κ) (l : List (κ × ν)) : Nat → Nat → Nat → Nat
  | 0, i, _ => i
  | fuel + 1, i, j =>
    if i < j then
      let h := (i + j) / 2
      match l[h]? with
      | some (k, _) => if c k key < 0 then bsearch c key l fuel (h + 1) j else bsearch c key l fuel i h
      | none => i      -- unreachable: h < j ≤ len
    else i

/-- `BigMap.get`: `i, ok := slices.BinarySearchFunc(m.kv, kv, CompareKeys)` (`ok = i < n && cmp(x[i], target) == 0`) -/
def bigGet (c : κ → κ → Int) (key : κ) (l : List (κ × ν)) : Option ν × Nat :=
  let i := bsearch c key l (l.length + 1) 0 l.length
  match l[i]? with
  | some (k, v) => if c k key = 0 then (some v, i) else (none, i)
  | none => (none, i)

def getIdx (c : κ → κ → Int) (m : M κ ν) (key : κ) : Option ν × Nat :=
  match m with
  | .small l => smallGet c key l 0
  | .big l => bigGet c key l

/-- `Get(key)` -/
def get (c : κ → κ → Int) (m : M κ ν) (key : κ) : Option ν := (getIdx c m key).1

/-- `kv[i].Value = value` -/
def setVal : List (κ × ν) → Nat → ν → List (κ × ν)
  | [], _, _ => []
  | (k, _) :: rest, 0, v => (k, v) :: rest
  | kv :: rest, i + 1, v => kv :: setVal rest i v

/-- `slices.Insert(kv, i, x)` / the shifting loop of `SmallMap.Set` -/
def insertAt (l : List (κ × ν)) (i : Nat) (x : κ × ν) : List (κ × ν) := l.take i ++ x :: l.drop i

/-- `Set(key, value)` -/
def set (c : κ → κ → Int) (maxSmall : Nat) (m : M κ ν) (key : κ) (value : ν) : M κ ν :=
  match m with
  | .small l =>
    match smallGet c key l 0 with
    | (some _, i) => .small (setVal l i value)
    | (none, i) =>
      if l.length + 1 > maxSmall then .big (insertAt l i (key, value))   -- switch to a big map
      else .small (insertAt l i (key, value))
  | .big l =>
    match bigGet c key l with
    | (some _, i) => .big (setVal l i value)
    | (none, i) => .big (insertAt l i (key, value))

/-- `Delete(key)` (a big map stays big) -/
def delete (c : κ → κ → Int) (m : M κ ν) (key : κ) : M κ ν × Bool :=
  match m with
  | .small l =>
    match smallGet c key l 0 with
    | (some _, i) => (.small (l.eraseIdx i), true)
    | (none, _) => (.small l, false)
  | .big l =>
    match bigGet c key l with
    | (some _, i) => (.big (l.eraseIdx i), true)
    | (none, _) => (.big l, false)

/-- `First()`: the first pair (`none` = NULL; the code wraps the pair as {"key":k,"value":v}) -/
def first (m : M κ ν) : Option (κ × ν) := m.kvs.head?

/-- `Rest()`: `none` = NULL; a big map is demoted when the rest fits a small one -/
def rest (maxSmall : Nat) (m : M κ ν) : Option (M κ ν) :=
  match m with
  | .small l => if l.length ≤ 1 then none else some (.small l.tail)
  | .big l =>
    if l.length ≤ 1 then none
    else if l.length - 1 > maxSmall then some (.big l.tail)
    else some (.small l.tail)

/-- `Range(l, r)` for `lo ≤ hi ≤ Len()` (`none` = out of range: slice bounds panic in Go) -/
def range (maxSmall : Nat) (m : M κ ν) (lo hi : Nat) : Option (M κ ν) :=
  if lo ≤ hi ∧ hi ≤ m.len then
    match m with
    | .small l => some (.small ((l.take hi).drop lo))
    | .big l =>
      if hi - lo > maxSmall then some (.big ((l.take hi).drop lo))
      else some (.small ((l.take hi).drop lo))
  else none

/-- `NewMapSize(size)` -/
def newMapSize (maxSmall : Nat) (size : Nat) : M κ ν :=
  if size ≤ maxSmall then .small [] else .big []

/-- the loop `for _, kv := range right.mapElements() { res = res.Set(kv.Key, kv.Value) }` -/
def setAll (c : κ → κ → Int) (maxSmall : Nat) (m : M κ ν) (kvs : List (κ × ν)) : M κ ν :=
  kvs.foldl (fun m kv => set c maxSmall m kv.1 kv.2) m

/-- `evalMapLiteral`: `NewMapSize(len(pairs))` then `Set` in source order -/
def literal (c : κ → κ → Int) (maxSmall : Nat) (pairs : List (κ × ν)) : M κ ν :=
  setAll c maxSmall (newMapSize maxSmall pairs.length) pairs

/-- `Append(right)`: `left + right` -/
def append (c : κ → κ → Int) (maxSmall : Nat) (left right : M κ ν) : M κ ν :=
  match left with
  | .small l =>
    if right.len ≤ maxSmall then setAll c maxSmall (.small l) right.kvs   -- "try to keep it a SmallMap"
    else setAll c maxSmall (.big l) right.kvs
  | .big l => setAll c maxSmall (.big l) right.kvs

/-! ### reference: finite maps as strictly sorted association lists (`Spec.FinMap`) -/

namespace Spec

/-- lookup: the value of the first pair whose key is `c`-equal to `key` -/
def lookup (c : κ → κ → Int) (key : κ) : List (κ × ν) → Option ν
  | [] => none
  | (k, v) :: rest => if c k key = 0 then some v else lookup c key rest

/-- insert or update, keeping the list sorted; an existing (`c`-equal) key keeps its own key object -/
def insert (c : κ → κ → Int) (key : κ) (value : ν) : List (κ × ν) → List (κ × ν)
  | [] => [(key, value)]
  | (k, v) :: rest =>
    if c k key = 0 then (k, value) :: rest
    else if c k key = 1 then (key, value) :: (k, v) :: rest
    else (k, v) :: insert c key value rest

/-- remove the pair whose key is `c`-equal to `key` -/
def erase (c : κ → κ → Int) (key : κ) : List (κ × ν) → List (κ × ν)
  | [] => []
  | (k, v) :: rest => if c k key = 0 then rest else (k, v) :: erase c key rest

def insertAll (c : κ → κ → Int) (l : List (κ × ν)) (kvs : List (κ × ν)) : List (κ × ν) :=
  kvs.foldl (fun l kv => insert c kv.1 kv.2 l) l

end Spec

/-! ### operation histories -/

/-- one step of a history on a variable `m` that holds a map or NULL -/
inductive Op (κ ν : Type) where
  /-- `m = {k:v, …}` (`evalMapLiteral`) -/
  | lit (pairs : List (κ × ν))
  /-- `m[k] = v` -/
  | set (k : κ) (v : ν)
  /-- `del(m[k])` -/
  | del (k : κ)
  /-- `m = m + {k:v, …}` -/
  | app (pairs : List (κ × ν))
  /-- `m = rest(m)` -/
  | rest
  /-- `m = m[lo:hi]` -/
  | range (lo hi : Nat)

/-- `none` = the variable holds NULL (after `rest` of a map with at most one pair), or a slice out of range -/
def step (c : κ → κ → Int) (maxSmall : Nat) (m : Option (M κ ν)) (op : Op κ ν) : Option (M κ ν) :=
  match op with
  | .lit ps => some (literal c maxSmall ps)
  | .set k v => m.map fun m => set c maxSmall m k v
  | .del k => m.map fun m => (delete c m k).1
  | .app ps => m.map fun m => append c maxSmall m (literal c maxSmall ps)
  | .rest => m.bind fun m => rest maxSmall m
  | .range lo hi => m.bind fun m => range maxSmall m lo hi

def run (c : κ → κ → Int) (maxSmall : Nat) (ops : List (Op κ ν)) : Option (M κ ν) :=
  ops.foldl (step c maxSmall) none

namespace Spec

/-- the same history on the reference finite map -/
def step (c : κ → κ → Int) (m : Option (List (κ × ν))) (op : Op κ ν) : Option (List (κ × ν)) :=
  match op with
  | .lit ps => some (insertAll c [] ps)
  | .set k v => m.map fun l => insert c k v l
  | .del k => m.map fun l => erase c k l
  | .app ps => m.map fun l => insertAll c l (insertAll c [] ps)
  | .rest => m.bind fun l => if l.length ≤ 1 then none else some l.tail
  | .range lo hi => m.bind fun l => if lo ≤ hi ∧ hi ≤ l.length then some ((l.take hi).drop lo) else none

def run (c : κ → κ → Int) (ops : List (Op κ ν)) : Option (List (κ × ν)) :=
  ops.foldl (step c) none

end Spec

end Grol.Map

import Grol.Suite
import Grol.Memory
/-
Driver side of the `memory` suite (see harness/cmd/harness/memory.go) and the executable statement
of the arithmetic part of C09.
-/
namespace Grol.MemorySuite
open Grol.Wire Grol.Memory

def i64 (i : Int) : I64 := BitVec.ofInt 64 i

def Out.render : Out → String
  | .ok n => s!"ok:{n}"
  | .err => "err"
  | .guard => "guard"
  | .goPanic => "panic"

def parseOut (s : String) : Option Out :=
  if s = "err" then some .err else if s = "guard" then some .guard else if s = "panic" then some .goPanic
  else if s.startsWith "ok:" then (s.drop 3).toString.toNat?.map .ok else none

/-- the unbounded-integer element count (bytes for strings) the operator asks for; `none` = the operator refuses by itself -/
def trueCount (kind : String) (a b : Int) : Option Int :=
  match kind with
  | "str" | "arr" => if b < 0 then none else some (a * b)
  | "cat" | "map" => some (a + b)
  | "rng" => if b < a then some 0 else some (b - a)
  | _ => none

/-- how many 16-byte objects the guard is asked about -/
def units (kind : String) (count : Int) : Int :=
  match kind with
  | "str" => count / 16
  | "map" => 2 * count
  | _ => count

/-- C09 (arithmetic) on one observation: the process survives, no Go run-time panic stands in for the guard,
and a result is only produced when the true count is what was produced and fits the budget `free`
(`free = none`: the budget is negative, only requests of at most 256 objects may pass) -/
def statement (kind : String) (a b : Int) (free : Option Int) (o : Option Out) : Bool :=
  match o with
  | none => false                 -- died
  | some .goPanic => false
  | some (.ok n) =>
    match trueCount kind a b with
    | none => false
    | some c => c == n && (units kind c ≤ 256 || match free with | none => false | some f => units kind c * 16 < f)
  | some _ => true

def model (kind : String) (a b : Int) (free : Int) : Option Out :=
  match kind with
  | "str" => some (strRepeat free free a.toNat (i64 b))
  | "arr" => some (arrRepeat free free a.toNat (i64 b))
  | "cat" => some (arrConcat free free a.toNat b.toNat)
  | "map" =>
    -- SmallMap fast path: no guard
    if a ≤ 4 ∧ b ≤ 4 then some (.ok (a + b).toNat) else some (mapAppend free free a.toNat b.toNat)
  | "rng" => some (range free free (i64 a) (i64 b))
  | _ => none

def childFree : Int := 64 * 1024 * 1024

def depthModel (need m : Nat) : String :=
  match (Grol.Depth.run m 0 (Grol.Depth.chain (need + 1))).2 with
  | .ok d => s!"ok;{d}"
  | .maxDepth d => s!"maxdepth;{d};{Grol.Depth.reset d}"

def depthStatement (m : Nat) (obs : String) : Bool :=
  match splitOn obs ';' with
  | ["ok", d] => d == "0"
  | ["maxdepth", d, r] => r == "0" && (match d.toNat? with | some d => d ≤ m + 1 | none => false)
  | _ => false

def runCase (inp obs : String) : CaseResult :=
  match splitOn inp ';' with
  | ["g", n, _limit] =>
    match n.toInt?, splitOn obs ';' with
    | some n, [ok, free] =>
      match free.toInt? with
      | some free =>
        let m := sizeOk free (i64 n)
        let io := ok == "1"
        -- statement: a pass means at most 256 objects or a true byte size below a non-negative budget
        let st := fun (b : Bool) => !b || n ≤ 256 || (0 ≤ free && n * 16 < free)
        { model := s!"{boolStr m};{free}", agree := m == io && (ok == "1" || ok == "0"), stmtModel := st m, stmtImpl := st io,
          tags := ["g-" ++ (if n ≤ 256 then "small" else if n > maxInt64 / 16 then "bytes-overflow" else if m then "fits" else "refused")],
          nontrivial := n > 256 }
      | none => CaseResult.badLine
    | _, _ => CaseResult.badLine
  | [s, kind, a, b] =>
    if s == "d" then
      -- d;<n>;<need>;<m>
      match a.toNat?, b.toNat? with
      | some need, some m =>
        let mo := depthModel need m
        { model := mo, agree := mo == obs, stmtModel := depthStatement m mo, stmtImpl := depthStatement m obs,
          tags := ["d-" ++ (if mo.startsWith "ok" then "ok" else "maxdepth")], nontrivial := true }
      | _, _ => CaseResult.badLine
    else if s == "e" || s == "c" then
      match a.toInt?, b.toInt? with
      | some a, some b =>
        let io : Option (Option Out) := if obs = "died" then some none else (parseOut obs).map some
        match io, model kind a b (if s == "e" then -1 else childFree) with
        | some io, some mo =>
          let free := if s == "e" then none else some childFree
          { model := Out.render mo, agree := io == some mo, stmtModel := statement kind a b free (some mo),
            stmtImpl := statement kind a b free io,
            tags := [s!"{s}-{kind}-" ++ (match mo with | .ok _ => "ok" | .err => "err" | .guard => "guard" | .goPanic => "panic")],
            nontrivial := true }
        | _, _ => CaseResult.badLine
      | _, _ => CaseResult.badLine
    else CaseResult.badLine
  | _ => CaseResult.badLine

end Grol.MemorySuite

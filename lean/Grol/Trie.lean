/-
Model of /repo/trie/trie.go (byte trie used for tab completion) and of
repl/completion.go's autoCompleteCallback.  Core Lean only.

Go pointers become constructors: `nil` is the Go nil pointer, `endMarker` the
single shared leaf object (`valid`, `leaf`, no children), `node` an ordinary
heap node.  `Insert` mutates the path from the root in place; the functional
model rebuilds that path.  `Insert` never descends *into* the end marker (it is
replaced by a fresh node first), so sharing is unobservable; the model's
behaviour on a `nil`/`endMarker` receiver with a non-empty word is never used
from `empty`.
-/
namespace Grol.Trie

inductive T where
  | nil : T
  | endMarker : T
  | node (valid : Bool) (min max : UInt8) (ch : UInt8 → T) : T

def T.isNil : T → Bool
  | .nil => true
  | _ => false

/-- `NewTrie()` -/
def empty : T := .node false 255 0 (fun _ => .nil)

def upd (ch : UInt8 → T) (c : UInt8) (t : T) : UInt8 → T :=
  fun d => if d = c then t else ch d

/-- the `default:` branch of Insert's switch at the last byte (fix: mark an existing
inner node as a word end) -/
def setValid : T → T
  | .node _ mn mx ch => .node true mn mx ch
  | t => t

def fresh (valid : Bool) : T := .node valid 255 0 (fun _ => .nil)

/-- `(*Trie).Insert` -/
def insert (t : T) (w : List UInt8) : T :=
  match w with
  | [] => t
  | c :: rest =>
    match t with
    | .node v mn mx ch =>
      let mn' := if c < mn then c else mn
      let mx' := if c > mx then c else mx
      match ch c with
      | .nil =>
        .node v mn' mx' (upd ch c (if rest.isEmpty then .endMarker else insert (fresh false) rest))
      | .endMarker =>
        .node v mn' mx' (upd ch c (if rest.isEmpty then .endMarker else insert (fresh true) rest))
      | .node cv cmn cmx cch =>
        .node v mn mx (upd ch c
          (if rest.isEmpty then setValid (.node cv cmn cmx cch) else insert (.node cv cmn cmx cch) rest))
    | t => t

/-- `(*Trie).Prefix` -/
def pfx (t : T) (w : List UInt8) : T :=
  match w with
  | [] => t
  | c :: rest =>
    match t with
    | .node _ _ _ ch => pfx (ch c) rest
    | _ => .nil

/-- `(*Trie).IsValid` -/
def isValid : T → Bool
  | .nil => false
  | .endMarker => true
  | .node v _ _ _ => v

/-- `(*Trie).Contains` -/
def contains (t : T) (w : List UInt8) : Bool := isValid (pfx t w)

/-- the bytes `i` with `mn ≤ i ≤ mx`, increasing: the `for i := t.min; i <= t.max; i++`
loop with its `i == 255` exit -/
def byteRange (mn mx : UInt8) : List UInt8 :=
  ((List.range 256).map UInt8.ofNat).filter fun i => mn ≤ i && i ≤ mx

/-- `(*Trie).AllBytes` -/
def allBytes : T → List UInt8 → Nat × List (List UInt8)
  | .nil, _ => (0, [])
  | .endMarker, p => (p.length, [p])
  | .node v mn mx ch, p =>
    let is := (byteRange mn mx).filter fun i => !(ch i).isNil
    let rs := is.map fun i => allBytes (ch i) (p ++ [i])
    let num := (if v then 1 else 0) + is.length
    let longest := rs.foldl (fun acc r => if r.1 > acc then r.1 else acc) p.length
    (if num > 1 then p.length else longest, (if v then [p] else []) ++ (rs.map (·.2)).flatten)

/-- `(*Trie).PrefixAll` -/
def prefixAll (t : T) (p : List UInt8) : Nat × List (List UInt8) :=
  allBytes (pfx t p) p

/-- `autoCompleteCallback(t, line, pos)` for `pos ≤ len(line)` (the returned line and cursor; terminal
output not modelled): what is before the cursor is completed, what is after it is kept.
`none` is the `ok=false` return. -/
def complete (t : T) (line : List UInt8) (pos : Nat) : Option (List UInt8 × Nat) :=
  match prefixAll t (line.take pos) with
  | (_, []) => none
  | (l, c :: _) => some (c.take l ++ line.drop pos, l)

def build (ws : List (List UInt8)) : T := ws.foldl insert empty

end Grol.Trie

import Grol.Suite
import Grol.Trie
/-
Driver side of the `trie` correspondence suite and the executable statement of C20.
Case input:   <inserted words, hex, comma separated>;<query hex>
Observation:  c=<0|1>;n=<int>;all=<hex list>;ac=<hex>:<int> | ac=none
-/
namespace Grol.TrieSuite
open Grol.Wire Grol.Trie

structure Obs where
  contains : Bool
  n : Nat
  all : List Bytes
  ac : Option (Bytes × Nat)
  deriving BEq, Repr

def Obs.render (o : Obs) : String :=
  s!"c={boolStr o.contains};n={o.n};all={hexOfBytesList o.all};ac=" ++
    match o.ac with
    | none => "none"
    | some (b, l) => s!"{if b.isEmpty then "-" else hexOfBytes b}:{l}"

def modelObs (ws : List Bytes) (q : Bytes) : Obs :=
  let t := build ws
  let r := prefixAll t q
  { contains := contains t q, n := r.1, all := r.2, ac := complete t q }

/-! ### executable specification (independent of the trie) -/

def bytesLt : Bytes → Bytes → Bool
  | [], [] => false
  | [], _ :: _ => true
  | _ :: _, [] => false
  | a :: as, b :: bs => a < b || (a == b && bytesLt as bs)

def insertSorted (w : Bytes) : List Bytes → List Bytes
  | [] => [w]
  | x :: xs => if w == x then x :: xs else if bytesLt w x then w :: x :: xs else x :: insertSorted w xs

def lcp : Bytes → Bytes → Bytes
  | a :: as, b :: bs => if a == b then a :: lcp as bs else []
  | _, _ => []

def specAll (ws : List Bytes) (p : Bytes) : List Bytes :=
  (ws.filter fun w => !w.isEmpty && p.isPrefixOf w).foldl (fun acc w => insertSorted w acc) []

def specLcpLen : List Bytes → Nat
  | [] => 0
  | w :: ws => (ws.foldl lcp w).length

/-- C20's statement evaluated on one observation (of the model or of the implementation) -/
def statement (ws : List Bytes) (q : Bytes) (o : Obs) : Bool :=
  let all := specAll ws q
  o.contains == (!q.isEmpty && ws.contains q)
  && o.all == all
  && (all.isEmpty || o.n == specLcpLen all)
  && (match o.ac with
      | none => all.isEmpty
      | some (b, l) => !all.isEmpty && l == b.length && q.isPrefixOf b && all.any (fun w => b.isPrefixOf w))

def parseInput (s : String) : Option (List Bytes × Bytes) :=
  match splitOn s ';' with
  | [ws, q] => do
    let ws ← bytesListOfHex ws
    let q ← bytesOfHex q
    pure (ws, q)
  | _ => none

/-- returns (model observation rendered, statement on model, statement on impl?) -/
def parseObs (s : String) : Option Obs :=
  match splitOn s ';' with
  | [c, n, all, ac] => do
    let c ← if c = "c=1" then some true else if c = "c=0" then some false else none
    let n ← (n.drop 2).toString.toNat?
    let all ← bytesListOfHex (all.drop 4).toString
    let acs := (ac.drop 3).toString
    let ac ← if acs = "none" then some none else
      match splitOn acs ':' with
      | [b, l] => do
        let b ← bytesOfHex b
        let l ← l.toNat?
        pure (some (b, l))
      | _ => none
    pure { contains := c, n := n, all := all, ac := ac }
  | _ => none

end Grol.TrieSuite

namespace Grol.TrieSuite
open Grol.Wire Grol.Trie

def runCase (inp obs : String) : CaseResult :=
  match parseInput inp, parseObs obs with
  | some (ws, q), some io =>
    let mo := modelObs ws q
    { model := mo.render, agree := mo == io, stmtModel := statement ws q mo, stmtImpl := statement ws q io,
      tags := [if mo.all.isEmpty then "all-empty" else if mo.all.length == 1 then "all-one" else "all-many",
               if mo.contains then "member" else "non-member"],
      nontrivial := !ws.isEmpty }
  | _, _ => CaseResult.badLine

end Grol.TrieSuite

import Grol.Suite
import Grol.Trie
/-
Driver side of the `trie` correspondence suite and the executable statement of C20.
Case input:   <inserted words, hex, comma separated>;<query hex>[;<cursor position, default = end of the query>]
Observation:  c=<0|1>;n=<int>;all=<hex list>;ac=<hex>:<int> | ac=none
  (c, n, all: Contains / PrefixAll of the query; ac: the completion callback on line = query, pos = cursor)

Sessions (`object.record` / `RegisterTrie`: which words the REPL inserts):
Case input:   R;<hex input>|<hex input>|...;<query hex>[;<cursor>]
Observation:  ids=<store after RegisterTrie>|<store after input 1>|...;c=..;n=..;all=..;ac=..
  store = <hex name>:<F|V>,... (the top-level bindings, F = its value is a function)
-/
namespace Grol.TrieSuite
open Grol.Wire Grol.Trie

structure Obs where
  contains : Bool
  n : Nat
  all : List Bytes
  ac : Option (Bytes × Nat)
  deriving BEq, Repr

def Obs.render (o : Obs) : String :=
  s!"c={boolStr o.contains};n={o.n};all={hexOfBytesList o.all};ac=" ++
    match o.ac with
    | none => "none"
    | some (b, l) => s!"{if b.isEmpty then "-" else hexOfBytes b}:{l}"

def modelObs (ws : List Bytes) (q : Bytes) (pos : Nat) : Obs :=
  let t := build ws
  let r := prefixAll t q
  { contains := contains t q, n := r.1, all := r.2, ac := complete t q pos }

/-! ### executable specification (independent of the trie) -/

def bytesLt : Bytes → Bytes → Bool
  | [], [] => false
  | [], _ :: _ => true
  | _ :: _, [] => false
  | a :: as, b :: bs => a < b || (a == b && bytesLt as bs)

def insertSorted (w : Bytes) : List Bytes → List Bytes
  | [] => [w]
  | x :: xs => if w == x then x :: xs else if bytesLt w x then w :: x :: xs else x :: insertSorted w xs

def lcp : Bytes → Bytes → Bytes
  | a :: as, b :: bs => if a == b then a :: lcp as bs else []
  | _, _ => []

def specAll (ws : List Bytes) (p : Bytes) : List Bytes :=
  (ws.filter fun w => !w.isEmpty && p.isPrefixOf w).foldl (fun acc w => insertSorted w acc) []

def specLcpLen : List Bytes → Nat
  | [] => 0
  | w :: ws => (ws.foldl lcp w).length

/-- C20's statement evaluated on one observation (of the model or of the implementation) -/
def statement (ws : List Bytes) (q : Bytes) (pos : Nat) (o : Obs) : Bool :=
  let all := specAll ws q
  -- completion looks at what is before the cursor only
  let typed := q.take pos
  let cands := specAll ws typed
  o.contains == (!q.isEmpty && ws.contains q)
  && o.all == all
  && (all.isEmpty || o.n == specLcpLen all)
  && (match o.ac with
      | none => cands.isEmpty
      | some (b, l) =>
        -- the new line is: something that extends what was typed before the cursor and is a prefix of an inserted
        -- word, the cursor right after it, then what was after the cursor, unchanged
        !cands.isEmpty && l ≤ b.length && typed.isPrefixOf (b.take l) && cands.any (fun w => (b.take l).isPrefixOf w)
        && b.drop l == q.drop pos)

def parseInput (s : String) : Option (List Bytes × Bytes × Nat) :=
  match splitOn s ';' with
  | [ws, q] => do
    let ws ← bytesListOfHex ws
    let q ← bytesOfHex q
    pure (ws, q, q.length)
  | [ws, q, p] => do
    let ws ← bytesListOfHex ws
    let q ← bytesOfHex q
    let p ← p.toNat?
    if p ≤ q.length then pure (ws, q, p) else none   -- line[:pos] with pos > len(line) is not a call the terminal makes
  | _ => none

/-- returns (model observation rendered, statement on model, statement on impl?) -/
def parseObs (s : String) : Option Obs :=
  match splitOn s ';' with
  | [c, n, all, ac] => do
    let c ← if c = "c=1" then some true else if c = "c=0" then some false else none
    let n ← (n.drop 2).toString.toNat?
    let all ← bytesListOfHex (all.drop 4).toString
    let acs := (ac.drop 3).toString
    let ac ← if acs = "none" then some none else
      match splitOn acs ':' with
      | [b, l] => do
        let b ← bytesOfHex b
        let l ← l.toNat?
        pure (some (b, l))
      | _ => none
    pure { contains := c, n := n, all := all, ac := ac }
  | _ => none

end Grol.TrieSuite

namespace Grol.TrieSuite
open Grol.Wire Grol.Trie

/-! ### sessions: `object.record` / `RegisterTrie` -/

/-- `object.record`: a name is inserted as `name(` (function) or `name ` (anything else), and as `name` -/
def record (name : Bytes) (isFunc : Bool) : List Bytes :=
  [name ++ [if isFunc then 40 else 32], name]

abbrev Store := List (Bytes × Bool)

def parseStore (s : String) : Option Store :=
  if s.isEmpty then some [] else
  (splitOn s ',').mapM fun e =>
    match splitOn e ':' with
    | [n, k] => do
      let n ← bytesOfHex n
      if k = "F" then some (n, true) else if k = "V" then some (n, false) else none
    | _ => none

/-- the words a session inserts: `RegisterTrie` records every binding present and the magic `info `; afterwards
`Environment.create` records each NEW top-level name with the type of its first value (an update records nothing, a
deletion removes nothing) -/
def sessionWords : List Store → List Bytes
  | [] => []
  | s0 :: rest =>
    let init := (s0.flatMap fun (n, f) => record n f) ++ [[105, 110, 102, 111, 32]]
    let rec go (prev : Store) : List Store → List Bytes
      | [] => []
      | st :: more =>
        ((st.filter fun (n, _) => !(prev.any fun (m, _) => m == n)).flatMap fun (n, f) => record n f) ++ go st more
    init ++ go s0 rest

/-- the part of C20 that is about the REPL's own use of the index: everything a prefix query returns is `info `, or
`name`, `name(`, `name ` for a name that was bound at top level at some point of the session; and every name bound
now is a member -/
def sessionStatement (stores : List Store) (q : Bytes) (o : Obs) : Bool :=
  let names := (stores.flatMap fun st => st.map (·.1))
  let defined (w : Bytes) : Bool :=
    w == [105, 110, 102, 111, 32] || names.contains w
    || (match w.getLast? with
        | some c => (c == 40 || c == 32) && names.contains w.dropLast
        | none => false)
  o.all.all defined
  && (match stores.getLast? with
      | some last => last.all fun (n, _) => !q.isPrefixOf n || o.all.contains n
      | none => true)

def parseSessionObs (s : String) : Option (List Store × Obs) :=
  match splitOn s ';' with
  | ids :: rest =>
    if !ids.startsWith "ids=" then none else do
    let stores ← (splitOn (ids.drop 4).toString '|').mapM parseStore
    let o ← parseObs (";".intercalate rest)
    pure (stores, o)
  | _ => none

def runCase (inp obs : String) : CaseResult :=
  match splitOn inp ';' with
  | "R" :: progs :: q :: posf =>
    match bytesOfHex q, parseSessionObs obs, (match posf with | [] => some none | [p] => p.toNat?.map some | _ => none) with
    | some q, some (stores, io), some pos? =>
      let pos := pos?.getD q.length
      if pos > q.length then CaseResult.badLine else
      let ws := sessionWords stores
      let mo := modelObs ws q pos
      let nInputs := (splitOn progs '|').length
      { model := mo.render, agree := mo == io && stores.length == nInputs + 1,
        stmtModel := statement ws q pos mo && sessionStatement stores q mo,
        stmtImpl := statement ws q pos io && sessionStatement stores q io,
        tags := ["session", if mo.all.isEmpty then "session-all-empty" else "session-all-some",
                 if pos < q.length then "cursor-inside" else "cursor-at-end"],
        nontrivial := stores.length > 1 }
    | _, _, _ => CaseResult.badLine
  | _ =>
  match parseInput inp, parseObs obs with
  | some (ws, q, pos), some io =>
    let mo := modelObs ws q pos
    { model := mo.render, agree := mo == io, stmtModel := statement ws q pos mo, stmtImpl := statement ws q pos io,
      tags := [if mo.all.isEmpty then "all-empty" else if mo.all.length == 1 then "all-one" else "all-many",
               if mo.contains then "member" else "non-member",
               if pos < q.length then "cursor-inside" else "cursor-at-end"],
      nontrivial := !ws.isEmpty }
  | _, _ => CaseResult.badLine

end Grol.TrieSuite

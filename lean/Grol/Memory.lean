import Grol.Wire
/-
Model of the allocation guard of object/memory.go and of the size computations at its call sites
in eval/eval.go and object/object.go (C09, arithmetic part), and of the depth counter of
eval/eval_api.go `Eval`.

Go `int`/`int64` are `BitVec 64` with wrap-around (64-bit platforms: `int(x)` is the identity);
`free` (the result of FreeMemory(): memory limit minus heap in use, read from the runtime) is a
parameter.  MustBeOk reads it twice (before and after a forced GC): `free1`, `free2`.
-/
namespace Grol.Memory

abbrev I64 := BitVec 64

/-- 2^63 - 1 -/
def maxInt64 : Int := 9223372036854775807

/-- `object.SizeOk(n)` when FreeMemory() returns `free`:
      if n <= 256 { return true }
      if int64(n) > math.MaxInt64/ObjectSize { return false }      (the size in bytes would wrap)
      return free >= 0 && int64(n)*ObjectSize < free                (ObjectSize = 16) -/
def sizeOk (free : Int) (n : I64) : Bool :=
  if n.toInt ≤ 256 then true
  else if n.toInt > maxInt64 / 16 then false
  else decide (0 ≤ free) && decide ((n * 16#64).toInt < free)

/-- the same without the overflow test: the guard as it was before the fix (kept to state why the test is needed) -/
def sizeOkUnchecked (free : Int) (n : I64) : Bool :=
  if n.toInt ≤ 256 then true
  else decide (0 ≤ free) && decide ((n * 16#64).toInt < free)

/-- `object.MustBeOk(n)`: true = returns, false = panics "would exceed memory" (recovered at the REPL boundary) -/
def mustBeOk (free1 free2 : Int) (n : I64) : Bool := sizeOk free1 n || sizeOk free2 n

/-- `object.MulLen(n, count)`: the product as an int when both are non negative and it does not overflow:
      if n < 0 || count < 0 { return 0, false }
      hi, lo := bits.Mul64(uint64(n), uint64(count))
      if hi != 0 || lo > math.MaxInt { return 0, false }
      return int(lo), true -/
def mulLen (n count : I64) : Option I64 :=
  if n.toInt < 0 ∨ count.toInt < 0 then none
  else
    let p := n.toNat * count.toNat
    let hi := p / 2 ^ 64
    let lo := p % 2 ^ 64
    if hi ≠ 0 ∨ lo > 2 ^ 63 - 1 then none else some (BitVec.ofNat 64 lo)

/-- outcome of a growing operator -/
inductive Out
  | ok (len : Nat)   -- result with that many elements (bytes for strings)
  | err              -- error object
  | guard            -- MustBeOk panicked (recoverable refusal)
  | goPanic          -- any other Go run-time panic (makeslice: cap out of range, strings.Repeat overflow)
  deriving DecidableEq, Repr

/-- evalStringInfixExpression, `*`: string of `len` bytes times `r` -/
def strRepeat (free1 free2 : Int) (len : Nat) (r : I64) : Out :=
  if r.toInt < 0 then .err
  else match mulLen (BitVec.ofNat 64 len) r with
    | none => .err
    | some n => if mustBeOk free1 free2 (n.sdiv 16#64) then .ok n.toNat else .guard

/-- evalStringInfixExpression, `+` with a string on the right: MustBeOk((len(left) + len(right)) / ObjectSize)
(added by the fix "string concatenation checks the memory budget"; before it the operator had no check) -/
def strConcat (free1 free2 : Int) (la lb : Nat) : Out :=
  let n : I64 := BitVec.ofNat 64 la + BitVec.ofNat 64 lb
  if mustBeOk free1 free2 (n.sdiv 16#64) then .ok n.toNat else .guard

/-- evalArrayInfixExpression, `*`: array of `len` elements times `r` (MakeObjectSlice(n)) -/
def arrRepeat (free1 free2 : Int) (len : Nat) (r : I64) : Out :=
  if r.toInt < 0 then .err
  else match mulLen (BitVec.ofNat 64 len) r with
    | none => .err
    | some n => if mustBeOk free1 free2 n then .ok n.toNat else .guard

/-- evalArrayInfixExpression, `+` with an array on the right: MustBeOk(len(leftVal) + len(rightArr)) -/
def arrConcat (free1 free2 : Int) (la lb : Nat) : Out :=
  let n : I64 := BitVec.ofNat 64 la + BitVec.ofNat 64 lb
  if mustBeOk free1 free2 n then .ok n.toNat else .guard

/-- Map.Append (BigMap, or SmallMap with a right operand of more than MaxSmallMap = 4 entries):
nl := len + right.Len(); MustBeOk(2 * nl).  (The SmallMap fast path — both operands of at most 4
entries — does not consult the guard; 2*(4+4) ≤ 256 would pass it anyway.)  Result size for
disjoint keys. -/
def mapAppend (free1 free2 : Int) (la lb : Nat) : Out :=
  let nl : I64 := BitVec.ofNat 64 la + BitVec.ofNat 64 lb
  if mustBeOk free1 free2 (2#64 * nl) then .ok nl.toNat else .guard

/-- evalIntegerInfixExpression, `:`: lg := rightVal - leftVal; if lg < 0 error; arr := MakeObjectSlice(int(lg));
for i := leftVal; i < rightVal; i++ { append }.  When the subtraction wraps (left far above right) `lg` can be
non-negative although left > right: capacity `lg` is reserved (and guarded) and the loop appends nothing. -/
def range (free1 free2 : Int) (l r : I64) : Out :=
  let lg := r - l
  if lg.toInt < 0 then .err
  else if mustBeOk free1 free2 lg then .ok (if l.slt r then lg.toNat else 0) else .guard

/-- the request as computed before the fix: `len(leftVal) * int(rightVal)`, wrapping -/
def repeatSizeUnchecked (len : Nat) (r : I64) : I64 := BitVec.ofNat 64 len * r

end Grol.Memory

/-! ### the depth counter of `State.Eval`

    if s.depth > s.MaxDepth { panic("max depth reached") }
    s.depth++ ; result := s.evalInternal(node) ; s.depth--

`Calls` is the sequence of nested `Eval` calls one `evalInternal` makes: `call inner next` = a call of
`s.Eval(child)` whose own evalInternal makes `inner`, after which the caller continues with `next`. -/
namespace Grol.Depth

inductive Calls
  | done
  | call (inner next : Calls)
  deriving Repr

inductive Res
  | ok (depth : Nat)
  | maxDepth (depth : Nat)   -- the guard panic; `depth` is the counter when it is recovered (nothing decrements it on the way)
  deriving DecidableEq, Repr

/-- returns the values the counter takes (in order) and the outcome -/
def run (maxDepth : Nat) (d : Nat) : Calls → List Nat × Res
  | .done => ([], .ok d)
  | .call inner next =>
    if d > maxDepth then ([], .maxDepth d)
    else
      match run maxDepth (d + 1) inner with
      | (tr, .maxDepth d') => ((d + 1) :: tr, .maxDepth d')
      | (tr, .ok d') =>
        match run maxDepth (d' - 1) next with
        | (tr2, r) => ((d + 1) :: tr ++ (d' - 1) :: tr2, r)

/-- `State.Reset()` (called by the REPL's recover) -/
def reset (_d : Nat) : Nat := 0

/-- n nested calls -/
def chain : Nat → Calls
  | 0 => .done
  | n + 1 => .call (chain n) .done

end Grol.Depth

import Grol.ParseSuite
import Grol.Classes
import Grol.LitFact
/-
Driver side of the `format` suite (C02, C03): parse, print (normal, compact), re-parse each
printed text, print again; see harness/cmd/harness/format.go for the observation fields.
-/
namespace Grol.FormatSuite
open Grol.Wire Grol.Generated Grol.Parser Grol.Printer Grol.Front

inductive Prop' | c02 | c03
  deriving DecidableEq

/-- model counterpart of the harness' `observeFormat` -/
def modelFormat (impl : Fields) (pfx : String) : Fields × Option ParseResult × List (String × NList) :=
  let m := modelParse impl pfx true
  match m.res with
  | none => (m.fields, none, [])
  | some r =>
    if r.errors > 0 || r.cont then (m.fields, some r, []) else
    let (second, again) := [("n", false), ("c", true)].foldl (init := (([] : Fields), ([] : List (String × NList)))) fun (acc, ag) (mk, compact) =>
      match printProgram isPrintTable r.program compact false with
      | .error _ => (acc, ag)
      | .ok _ =>
        let k := pfx ++ mk ++ "."
        let rr := modelParse impl k false
        match rr.res with
        | none => (acc ++ rr.fields, ag)
        | some r2 => (acc ++ rr.fields ++ [(k ++ "pp", printField r2.program compact false)],
                      if r2.errors == 0 && !r2.cont then ag ++ [(mk, r2.program)] else ag)
    -- history independence: the model has no interning table, so the answer is always 1
    let h := match impl.get (pfx ++ "h") with
      | some _ => [(pfx ++ "h", "1")]
      | none => []
    -- the REPL / command line path formats with a fresh print state: always the printer's text
    let rp := match impl.get (pfx ++ "r") with
      | some _ => [(pfx ++ "r", "1")]
      | none => []
    -- a fresh process prints the same bytes: the model has no process state
    let xp := match impl.get (pfx ++ "x") with
      | some _ => [(pfx ++ "x", "1")]
      | none => []
    (m.fields ++ second ++ rp ++ xp ++ h, some r, again)

/-! ### C02 -/

def c02Mode (f : Fields) (pfx mk pk : String) (noCom : Bool) : Bool :=
  let k := pfx ++ mk ++ "."
  let tree (p : String) : Option String :=
    let ts := (f.get (p ++ "ts")).orElse (fun _ => f.get (p ++ "t"))
    if noCom then (f.get (p ++ "tnc")).orElse (fun _ => ts) else ts
  let orig := tree pfx
  let again := tree k
  (match f.get (pfx ++ pk) with | some v => v != "PANIC" | none => false)
  && valid f k && orig.isSome && again == orig

/-- error-free input ⇒ the printed text (normal, compact) re-parses error-free to the same tree -/
def c02Statement (f : Fields) (pfx : String) : Bool × Bool :=
  if !valid f pfx then (true, true) else (c02Mode f pfx "n" "pn" false, c02Mode f pfx "c" "pc" true)

/-! ### C03 -/

def endsWithOneNewline (hex : String) : Bool :=
  let l := hex.toList.reverse
  match l with
  | 'a' :: '0' :: 'a' :: '0' :: _ => false
  | 'a' :: '0' :: _ => true
  | _ => false

def c03Statement (f : Fields) (pfx : String) : Bool × Bool × Bool × Bool :=
  if !valid f pfx then (true, true, true, true) else
  let fix (mk pk : String) : Bool :=
    match f.get (pfx ++ pk), f.get (pfx ++ mk ++ ".pp") with
    | some a, some b => a != "PANIC" && a == b
    | _, _ => false
  (fix "n" "pn", fix "c" "pc",
   (match f.get (pfx ++ "pn") with | some v => endsWithOneNewline v | none => false),
   !f.is (pfx ++ "h") "0")

end Grol.FormatSuite

namespace Grol.FormatSuite
open Grol.Wire Grol.Generated Grol.Parser Grol.Printer Grol.Front

/-! ### `repeated-associative-operator-on-the-right`, exactly

The recorded finding is: `a + (b + c)` is printed `a + b + c` and reads back as `(a + b) + c`.  A failing case is
put in this class only when that is ALL that happened: the re-parsed tree equals the original once every chain
of one associative operator is flattened (`assocDump`).  (The other open classes stay properties of the tree.) -/

def isAssocTok (t : Tk) : Bool :=
  t.type = .PLUS || t.type = .ASTERISK || t.type = .AND || t.type = .OR || t.type = .BITAND || t.type = .BITOR || t.type = .BITXOR

mutual
/-- the dump without comment flags where `x op (y op z)` and `(x op y) op z` (op associative) read the same -/
partial def assocDump (noCom : Bool) : Node → String
  | .infix t l r =>
    if isAssocTok t && r.isSome then "(Chain " ++ dumpTk t ++ chainO noCom t l ++ chainO noCom t r ++ ")"
    else "(Inf " ++ dumpTk t ++ " " ++ assocDumpO noCom l ++ " " ++ assocDumpO noCom r ++ ")"
  | .ret t v => "(Ret " ++ dumpTk t ++ " " ++ assocDumpO noCom v ++ ")"
  | .pre t r => "(Pre " ++ dumpTk t ++ " " ++ assocDumpO noCom r ++ ")"
  | .forE t c b => "(For " ++ dumpTk t ++ " " ++ assocDumpO noCom c ++ " " ++ assocDumpS noCom b ++ ")"
  | .ifE t c a b => "(If " ++ dumpTk t ++ " " ++ assocDumpO noCom c ++ " " ++ assocDumpS noCom a ++ " " ++ assocDumpS noCom b ++ ")"
  | .builtin t ps => "(Bi " ++ dumpTk t ++ " [" ++ assocDumpL noCom false ps ++ "])"
  | .func t n ps b v l => "(Fn " ++ dumpTk t ++ " " ++ (match n with | none => "nil" | some n => dumpTk n) ++ " [" ++
      assocDumpL noCom false ps ++ "] " ++ assocDumpS noCom b ++ " " ++ boolStr v ++ boolStr l ++ ")"
  | .call t f as => "(Call " ++ dumpTk t ++ " " ++ assocDumpO noCom f ++ " [" ++ assocDumpL noCom false as ++ "])"
  | .array t es => "(Arr " ++ dumpTk t ++ " [" ++ assocDumpL noCom false es ++ "])"
  | .index t l i => "(Idx " ++ dumpTk t ++ " " ++ assocDumpO noCom l ++ " " ++ assocDumpO noCom i ++ ")"
  | .mapLit t kvs => "(Map " ++ dumpTk t ++ " [" ++ assocDumpL noCom false kvs ++ "])"
  | .macroLit t ps b => "(Mac " ++ dumpTk t ++ " [" ++ assocDumpL noCom false ps ++ "] " ++ assocDumpS noCom b ++ ")"
  | n => n.dump noCom true
partial def assocDumpO (noCom : Bool) : Option Node → String
  | none => "nil"
  | some n => assocDump noCom n
/-- the operands of the chain of operator `t` that `n` belongs to, each preceded by a space -/
partial def chainO (noCom : Bool) (t : Tk) : Option Node → String
  | some (.infix t' l (some r)) =>
    if t'.type = t.type then chainO noCom t l ++ chainO noCom t (some r) else " " ++ assocDump noCom (.infix t' l (some r))
  | n => " " ++ assocDumpO noCom n
partial def assocDumpL (noCom stmts : Bool) : List (Option Node) → String
  | [] => ""
  | none :: xs => " nil" ++ assocDumpL noCom stmts xs
  | some n :: xs => (if noCom && stmts && n.isComment then "" else " " ++ assocDump noCom n) ++ assocDumpL noCom stmts xs
partial def assocDumpS (noCom : Bool) : Option (List (Option Node)) → String
  | none => "nil"
  | some l => "{" ++ assocDumpL noCom true l ++ "}"
end

/-- the re-parsed program differs from the original by re-association only -/
def assocOnly (noCom : Bool) (orig : NList) (again : Option NList) : Bool :=
  match again with
  | some a => assocDumpS noCom (some a) == assocDumpS noCom (some orig)
  | none => false

/-- the known-finding class of a failing case: every failing component (normal / compact) must be
explained by a listed class of the tree; the first explaining class is reported.  `assocN` / `assocC`: the
normal / compact re-parse differs from the original by re-association only. -/
def classify (prog : NList) (normalFails compactFails assocN assocC : Bool) : String :=
  let keep (ok : Bool) (l : List String) := l.filter fun c => c != "repeated-associative-operator-on-the-right" || ok
  let nc := keep assocN (Classes.normalClasses prog)
  let cc := keep assocC (Classes.compactClasses prog)
  if normalFails && nc.isEmpty then ""
  else if compactFails && cc.isEmpty then ""
  else if normalFails then nc.headD ""
  else if compactFails then cc.headD ""
  else ""

def runCase (prop : Prop') (inp obs : String) : CaseResult :=
  let impl := parseFields obs
  if (impl.get "F.toks").isNone || (impl.get "L.toks").isNone then CaseResult.badLine else
  let (ff, fr, fagain) := modelFormat impl "F."
  let (lf, lr, lagain) := modelFormat impl "L."
  let model := ff ++ lf
  let modelStr := renderFields model
  -- (holds, normal component fails, compact component fails)
  let stmt (f : Fields) : Bool × Bool × Bool :=
    match prop with
    | .c02 =>
      let (fn, fc) := c02Statement f "F."
      let (ln, lc) := c02Statement f "L."
      (fn && fc && ln && lc, !fn || !ln, !fc || !lc)
    | .c03 =>
      let (a, b, c, d) := c03Statement f "F."
      let (a', b', c', d') := c03Statement f "L."
      (a && b && c && d && a' && b' && c' && d', !a || !a' || !c || !c' , !b || !b')
  let (sm, mn, mc) := stmt model
  let (si, inn, ic) := stmt impl
  let history := !(impl.is "F.h" "0") && !(impl.is "L.h" "0") && !(impl.is "F.r" "0") && !(impl.is "F.x" "0")
  let si := si && history
  -- C03 also checks, on the real lexer's streams, the lexer fact the exactly-one-newline theorem assumes
  let lf := prop != .c03 || ["F.toks", "L.toks", "F.n.toks", "F.c.toks"].all fun k =>
    match impl.get k with
    | none => true
    | some ts => match parseStream ts with
      | some s => litFactB s
      | none => false
  let si := si && lf
  let sm := sm && lf
  let _ := inp
  let prog := match fr, lr with
    | some r, _ => if valid model "F." then r.program else (match lr with | some r' => r'.program | none => r.program)
    | none, some r' => r'.program
    | none, none => []
  { model := modelStr, agree := modelStr == obs, stmtModel := sm, stmtImpl := si,
    tags := (match fr with | some r => ParseSuite.topTags r | none => ["panic"]) ++ (if valid model "F." then ["valid"] else ["invalid"])
            ++ (if valid model "F." then (Classes.normalClasses prog ++ Classes.compactClasses prog).eraseDups else []),
    nontrivial := valid model "F." && (match fr with | some r => !r.program.isEmpty | none => false),
    klass :=
      -- which run is `prog` from: its re-parses decide whether a failure is re-association only
      let again := if valid model "F." then fagain else lagain
      if history && (mn || inn || mc || ic) then
        classify prog (mn || inn) (mc || ic) (assocOnly false prog (again.lookup "n")) (assocOnly true prog (again.lookup "c"))
      else "" }

end Grol.FormatSuite

import Grol.Suite
import Grol.Sanitize
/-
Driver side of the `sanitize` correspondence suite and the executable statement of C17.
  s;<u><e>;<hex name|none>            obs  ok:<hex> | err
  f;<cfg>;<save|load>;<hex name>      obs  r=<ok:<hex>|err>;t=<C|M|D:<hex path>,...|->
(see harness/cmd/harness/sanitize.go)
-/
namespace Grol.SanitizeSuite
open Grol.Wire Grol.Sanitize

def str (s : String) : Bytes := s.toUTF8.toList

/-! ### the scratch tree of the file-system stream (harness `sanitizeTree`) -/

/-- files (path relative to the scratch root, what `load` of it prints) -/
def treeFiles : List (Bytes × Bytes) :=
  [ (str "secret.gr", str "104"), (str "sib/secret.gr", str "105"), (str "cur/ok.gr", str "101"),
    (str "cur/.gr", str "102"), (str "cur/sub/secret.gr", str "103") ]

def treeDirs : List Bytes := [str "sib", str "cur", str "cur/sub"]

def splitSlash (b : Bytes) : List Bytes :=
  let r := b.foldr (fun c (acc : Bytes × List Bytes) => if c == 47 then ([], acc.1 :: acc.2) else (c :: acc.1, acc.2)) ([], [])
  r.1 :: r.2

/-- resolve a relative path against cur/ inside the scratch root; `none` when it leaves the root
or is not a plain relative name (NUL, absolute) -/
def resolve (name : Bytes) : Option (List Bytes) :=
  if name.contains 0 || name.head? == some 47 then none else
  (splitSlash name).foldl (fun (acc : Option (List Bytes)) (comp : Bytes) => do
      let st ← acc
      if comp == [] || comp == ([46] : Bytes) then pure st
      else if comp == ([46, 46] : Bytes) then (match st with | [] => none | _ :: _ => pure st.dropLast)
      else pure (st ++ [comp])) (some [str "cur"])

def joinSlash : List Bytes → Bytes
  | [] => []
  | [a] => a
  | a :: rest => a ++ [47] ++ joinSlash rest

inductive Res | err | ok (out : Bytes)
  deriving BEq, Repr

structure FObs where
  res : Res
  touched : List (Char × Bytes)   -- kind, path
  deriving BEq, Repr

def Res.render : Res → String
  | .err => "err"
  | .ok b => "ok:" ++ (if b.isEmpty then "-" else hexOfBytes b)

def FObs.render (o : FObs) : String :=
  "r=" ++ o.res.render ++ ";t=" ++
    (if o.touched.isEmpty then "-" else ",".intercalate (o.touched.map fun (k, p) => String.singleton k ++ ":" ++ hexOfBytes p))

/-- configuration of the file-system stream: `none` = load/save not registered -/
def cfgOfString (s : String) : Option (Option Config) :=
  match s with
  | "00" => some (some ⟨false, false⟩)
  | "01" => some (some ⟨false, true⟩)
  | "10" => some (some ⟨true, false⟩)
  | "11" => some (some ⟨true, true⟩)
  | "n" => some none
  | _ => none

/-- prediction for save(name) / load(name) evaluated in cur/ -/
def fsModel (cfg : Option Config) (op : String) (name : Bytes) : FObs :=
  let isSave := op == "save" || op == "save0"
  -- image.new(name,2,2); image.save(name): registered in every configuration, fixed file name
  if op == "img" then ⟨.ok [], [('C', str "cur/grol.png")]⟩ else
  -- exec("touch", name) / run("touch", name): the functions exist only when IO is unrestricted
  if op == "exec" || op == "run" then
    (match cfg with
     | some ⟨true, _⟩ =>
       (match resolve name with
        | some comps => if (treeFiles.lookup (joinSlash comps)).isSome then ⟨.ok [], []⟩ else ⟨.ok [], [('C', joinSlash comps)]⟩
        | none => ⟨.ok [], []⟩)
     | _ => ⟨.err, []⟩) else
  match cfg with
  | none => ⟨.err, []⟩
  | some c =>
    -- save() / load(): no argument
    match sanitize c (if op == "save0" || op == "load0" then none else some name) with
    | none => ⟨.err, []⟩
    | some f =>
      match resolve f with
      | none => ⟨.err, []⟩
      | some comps =>
        let path := joinSlash comps
        if isSave then
          if treeDirs.contains path || comps.isEmpty || !(comps.length == 1 || treeDirs.contains (joinSlash comps.dropLast)) then ⟨.err, []⟩
          else if (treeFiles.lookup path).isSome then ⟨.ok [], [('M', path)]⟩
          else ⟨.ok [], [('C', path)]⟩
        else
          match treeFiles.lookup path with
          | some out => ⟨.ok out, []⟩
          | none => ⟨.err, []⟩

/-! ### executable statement of C17 (on an observation, of the model or of the implementation) -/

/-- `f` is `b ++ ".gr"` with b over [A-Za-z0-9_] -/
def plainGr (f : Bytes) : Bool :=
  ext.isSuffixOf f && (f.take (f.length - 3)).all isAlphaNum

def stmtS (cfg : Config) (o : Option Bytes) : Bool :=
  cfg.unrestricted || match o with
    | none => true
    | some f => plainGr f && (!cfg.emptyOnly || f == ext)

def curPrefix : Bytes := str "cur/"

def stmtF (cfg : Option Config) (op : String) (o : FObs) : Bool :=
  let isSave := op == "save" || op == "save0"
  -- "the process-execution functions do not exist": an error and an untouched tree unless IO is unrestricted
  if op == "exec" || op == "run" then
    (match cfg with | some c => c.unrestricted | none => false) || (o.res == .err && o.touched.isEmpty)
  else
  if op == "img" then
    (match cfg with | some c => c.unrestricted | none => false) ||
      o.touched.all (fun (k, p) => (k == 'C' || k == 'M') && p == str "cur/grol.png")
  else
  match cfg with
  | none => o.res == .err && o.touched.isEmpty
  | some c =>
    c.unrestricted ||
    ( (o.res != .err || o.touched.isEmpty)
      && (isSave || o.touched.isEmpty)
      && o.touched.length ≤ 1
      && o.touched.all (fun (k, p) => (k == 'C' || k == 'M') && curPrefix.isPrefixOf p
            && plainGr (p.drop 4) && (!c.emptyOnly || p.drop 4 == ext))
      && (isSave || match o.res with
            | .err => true
            | .ok out => if c.emptyOnly then out == str "102" else out == str "101" || out == str "102") )

/-! ### parsing -/

def parseRes (s : String) : Option Res :=
  if s = "err" then some .err
  else if s.startsWith "ok:" then (bytesOfHex (s.drop 3).toString).map .ok
  else none

def parseTouched (s : String) : Option (List (Char × Bytes)) :=
  if s = "-" then some [] else
  (splitOn s ',').mapM fun e =>
    match e.toList with
    | k :: ':' :: rest => (bytesOfHex (String.ofList rest)).map fun p => (k, p)
    | _ => none

def parseFObs (s : String) : Option FObs :=
  match splitOn s ';' with
  | [r, t] =>
    if r.startsWith "r=" && t.startsWith "t=" then do
      let r ← parseRes (r.drop 2).toString
      let t ← parseTouched (t.drop 2).toString
      pure ⟨r, t⟩
    else none
  | _ => none

def runCase (inp obs : String) : CaseResult :=
  match splitOn inp ';' with
  | ["s", c, n] =>
    match cfgOfString c, (if n = "none" then some none else (bytesOfHex n).map some), parseRes obs with
    | some (some cfg), some arg, some io =>
      let m := sanitize cfg arg
      let mo : Res := match m with | none => .err | some f => .ok f
      let ioOpt : Option Bytes := match io with | .err => none | .ok f => some f
      { model := mo.render, agree := mo == io, stmtModel := stmtS cfg m, stmtImpl := stmtS cfg ioOpt,
        tags := [s!"s-cfg{c}-" ++ (match m with | none => "rejected" | some _ => "accepted")],
        nontrivial := arg.isSome }
    | _, _, _ => CaseResult.badLine
  | ["f", c, op, n] =>
    match cfgOfString c, bytesOfHex n, parseFObs obs with
    | some cfg, some name, some io =>
      if !["save", "load", "img", "exec", "run", "save0", "load0"].contains op then CaseResult.badLine else
      let mo := fsModel cfg op name
      { model := mo.render, agree := mo == io, stmtModel := stmtF cfg op mo, stmtImpl := stmtF cfg op io,
        tags := [s!"f-cfg{c}-{op}-" ++ (match mo.res with | .err => "err" | .ok _ => "ok")],
        nontrivial := true }
    | _, _, _ => CaseResult.badLine
  | _ => CaseResult.badLine

end Grol.SanitizeSuite

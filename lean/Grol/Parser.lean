import Grol.Ast
/-
Model of parser/parser.go over a token stream: one Lean function per Go parse function, same
case structure.  State = the Go `Parser` fields (`prevToken/curToken/peekToken`, `prevNewline`,
`nextNewline`, `prevPos`, `errors`, `continuationNeeded`) plus `idx`, the number of `NextToken()`
calls made so far; the lexer-side state the parser reads (`Pos()`, `HadWhitespace()`,
`LastNewLine()`) is that of the last pulled token, i.e. of `peek`.

Go panics are explicit `Res.goPanic` outcomes.  Every loop and every call into the mutually
recursive group consumes one unit of `fuel` (fuel bounds the call DEPTH, loop iterations counted
as depth); `Res.outOfFuel` is not a behaviour of the Go code.
-/
namespace Grol.Parser
open Grol.Wire Grol.Generated

inductive PanicSite
  | parseCommentSameLine   -- explicit panic("parseComment for line comment: same line as next and not EOL/EOF")
  | nilNodeValue           -- okParamList: n.Value() on a nil ast.Node
  | errorLineSlice         -- lexer.CurrentLine: l.input[l.lastNewLine : p+nextNewline] out of range
  | nilPrevToken           -- p.prevToken dereferenced while nil
  | nilByType              -- peekError: token.ByType(t) is nil (t is not a constant token)
  deriving DecidableEq, Repr

inductive ErrKind
  | expected (t : TokType)   -- peekError
  | noPrefix                 -- noPrefixParseFnError
  | badFloat                 -- parseFloatLiteral
  | lambdaParams             -- parseLambdaMulti
  | funcParams               -- parseFunctionParameters (paramError: not an identifier list; an invalid character has its own wording)
  deriving DecidableEq, Repr

inductive Res (α : Type)
  | ok (a : α)
  | goPanic (site : PanicSite)
  | outOfFuel
  deriving Repr

structure PState where
  idx : Nat
  prev : Option Tok
  cur : Tok
  peek : Tok
  prevNewline : Bool
  nextNewline : Bool
  cont : Bool := false
  prevPos : Nat
  /-- most recent first -/
  errors : List ErrKind := []
  deriving Repr

abbrev PM (α : Type) := PState → Res (α × PState)

@[inline] def PM.pure (a : α) : PM α := fun st => .ok (a, st)
@[inline] def PM.bind (m : PM α) (f : α → PM β) : PM β := fun st =>
  match m st with
  | .ok (a, st') => f a st'
  | .goPanic p => .goPanic p
  | .outOfFuel => .outOfFuel
instance : Monad PM where
  pure := PM.pure
  bind := PM.bind

@[inline] def getSt : PM PState := fun st => .ok (st, st)
@[inline] def goPanic (p : PanicSite) : PM α := fun _ => .goPanic p
@[inline] def outOfFuel : PM α := fun _ => .outOfFuel
@[inline] def setCont : PM Unit := fun st => .ok ((), { st with cont := true })
@[inline] def pushErr (e : ErrKind) : PM Unit := fun st => .ok ((), { st with errors := e :: st.errors })

def lookup {β : Type} (l : List (TokType × β)) (t : TokType) : Option β :=
  match l with
  | [] => none
  | (k, v) :: rest => if k = t then some v else lookup rest t

/-- `ast.Precedences[t]`, LOWEST when absent (peekPrecedence / curPrecedence) -/
def precOf (t : TokType) : Nat := (lookup precedences t).getD prioLOWEST

/-- `parser.New`: two `nextToken()` calls on the fresh lexer -/
def init (s : TokStream) : PState :=
  let t0 := s.get 0
  let t1 := s.get 1
  { idx := 2, prev := none, cur := t0, peek := t1, prevNewline := t0.hadNl, nextNewline := t1.hadNl, prevPos := t0.posAfter }

def nextToken (s : TokStream) : PM Unit := fun st =>
  let nt := s.get st.idx
  .ok ((), { st with prev := some st.cur, cur := st.peek, prevPos := st.peek.posAfter, peek := nt, idx := st.idx + 1,
                     prevNewline := st.nextNewline, nextNewline := nt.hadNl })

/-- `ErrorLine` → `lexer.CurrentLine`: the slice `input[lastNewLine : p+nextNewline]` with
`p = min(pos, len)`; modelled conservatively as panicking unless `lastNewLine ≤ p`. -/
def errorLine (s : TokStream) : PM Unit := fun st =>
  if st.peek.lastNl ≤ min st.peek.posAfter s.inputLen then .ok ((), st) else .goPanic .errorLineSlice

def peekError (s : TokStream) (t : TokType) : PM Unit := do
  errorLine s
  match constLiteral t with
  | none => goPanic .nilByType
  | some _ => pushErr (.expected t)

def noPrefixParseFnError (s : TokStream) : PM Unit := do
  errorLine s
  pushErr .noPrefix

def expectPeek (s : TokStream) (t : TokType) : PM Bool := do
  let st ← getSt
  if st.peek.type = t then
    nextToken s
    pure true
  else if st.peek.type = .EOL then
    setCont
    pure false
  else
    peekError s t
    pure false

def bytesEndWith (b suffix : Bytes) : Bool := suffix.reverse.isPrefixOf b.reverse

def parseComment : PM ONode := do
  let st ← getSt
  let sameLineAsNext := !st.nextNewline
  let r := Node.comment st.cur.tk (!st.prevNewline) sameLineAsNext
  if st.cur.type = .BLOCKCOMMENT then
    -- a closed block comment is at least `/**/` (the unterminated `/*/` also ends in `*/`)
    if st.cur.lit.length < 4 || !bytesEndWith st.cur.lit [42, 47] then
      setCont
      pure none
    else pure (some r)
  else
    if sameLineAsNext && st.peek.type != .EOF && st.peek.type != .EOL then
      goPanic .parseCommentSameLine
    else pure (some r)

def parsePostfixExpression : PM ONode := do
  let st ← getSt
  match st.prev with
  | none => goPanic .nilPrevToken
  | some p => pure (some (.post st.cur.tk p.tk))

def parseIdentifier (s : TokStream) : PM ONode := do
  let st ← getSt
  match lookup postfixRegs st.peek.type with
  | some .parsePostfixExpression =>
    nextToken s
    parsePostfixExpression
  | none => pure (some (.ident st.cur.tk))

def parseFloatLiteral (s : TokStream) : PM ONode := do
  let st ← getSt
  if st.cur.num = .float then pure (some (.floatLit st.cur.tk))
  else
    errorLine s
    pushErr .badFloat
    pure none

def parseIntegerLiteral (s : TokStream) : PM ONode := do
  let st ← getSt
  if st.cur.num = .int then pure (some (.intLit st.cur.tk)) else parseFloatLiteral s

def parseBoolean : PM ONode := do
  let st ← getSt
  pure (some (.boolean st.cur.tk))

def parseStringLiteral : PM ONode := do
  let st ← getSt
  pure (some (.strLit st.cur.tk))

def parseControlExpression : PM ONode := do
  let st ← getSt
  pure (some (.control st.cur.tk))

/-- okParamList: (offending-or-dotdot token?, ok); the result `none` (= Go panic) is no longer
produced since the fix that checks `n == nil` first (a failed parameter is reported as not ok) -/
def okParamList : NList → Option (Option Tk × Bool)
  | [] => some (none, true)
  | none :: _ => some (none, false)
  | some n :: rest =>
    let t := n.tok
    if rest.isEmpty && t.type = .DOTDOT then some (some t, true)
    else if t.type != .IDENT then some (some t, false)
    else okParamList rest

/-- `p.parameter()`: the current token as an identifier node (the list is checked as a whole by `okParamList`) -/
def parameter (_s : TokStream) : PM ONode := do
  let st ← getSt
  pure (some (.ident st.cur.tk))

/-- `for p.peekTokenIs(token.COMMA) { nextToken; nextToken; append parameter }` -/
def parseFunctionParametersLoop (s : TokStream) : Nat → NList → PM NList
  | 0, _ => outOfFuel
  | fuel + 1, acc => do
    let st ← getSt
    if st.peek.type = .COMMA then
      nextToken s
      nextToken s
      let id ← parameter s
      parseFunctionParametersLoop s fuel (acc ++ [id])
    else pure acc

def parseFunctionParameters (s : TokStream) (fuel : Nat) : PM (NList × Bool) := do
  let st ← getSt
  if st.peek.type = .RPAREN then
    nextToken s
    pure ([], false)
  else
    nextToken s
    let id ← parameter s
    let ids ← parseFunctionParametersLoop s fuel [id]
    if !(← expectPeek s .RPAREN) then pure ([], false)
    else
      -- the rule of lambda parameters: identifiers, the last one can be `..` (paramError otherwise)
      match okParamList ids with
      | some (t, true) => pure (ids, t.isSome)
      | _ =>
        errorLine s
        pushErr .funcParams
        pure ([], false)

/-- rewrite the value of every nil key of the flat key/value list -/
def setNilKeyVals (v : ONode) : NList → NList
  | k :: v' :: rest => k :: (if k.isNone then v else v') :: setNilKeyVals v rest
  | l => l

/-- `mapRes.Pairs[key] = value; mapRes.Order = append(mapRes.Order, key)`, read back as
k₀, Pairs[k₀], k₁, Pairs[k₁], …: keys are distinct pointers except nil, which is one map slot. -/
def mapInsert (kvs : NList) (k v : ONode) : NList :=
  match k with
  | some _ => kvs ++ [k, v]
  | none => setNilKeyVals v kvs ++ [k, v]

/-- parseMapLiteral: `kv` is not a `key:value` infix expression -/
def mapPairError (s : TokStream) : PM ONode := do
  let st ← getSt
  if st.peek.type = .EOL then setCont else peekError s .COLON
  pure none

mutual

def parseExpression (s : TokStream) : Nat → Nat → PM ONode
  | 0, _ => outOfFuel
  | fuel + 1, precedence => do
    let st ← getSt
    if st.cur.type = .EOL then
      setCont
      pure none
    else
      match lookup prefixRegs st.cur.type with
      | none =>
        if st.peek.type != .LAMBDA then   -- `… =>`: to make `() => { … }` without errors
          -- `()` at the end of the line: the `=>` of the lambda may be on the next one
          if st.peek.type = .EOL && st.cur.type = .RPAREN && (st.prev.map (·.type)) == some .LPAREN then setCont
          else noPrefixParseFnError s
        pure none
      | some prefixFn =>
        let leftExp ← prefixDispatch s fuel prefixFn
        let st ← getSt
        if st.peek.type = .LAMBDA && precedence = prioLAMBDA then
          nextToken s
          parseLambdaMulti s fuel leftExp []
        else
          parseExpressionLoop s fuel precedence leftExp

/-- `for !p.peekTokenIs(token.SEMICOLON) && precedence < p.peekPrecedence() { … }` -/
def parseExpressionLoop (s : TokStream) : Nat → Nat → ONode → PM ONode
  | 0, _, _ => outOfFuel
  | fuel + 1, precedence, leftExp => do
    let st ← getSt
    if st.peek.type != .SEMICOLON && precedence < precOf st.peek.type then
      let t := st.peek.type
      match lookup infixRegs t with
      | none => pure leftExp
      | some infixFn =>
        if t = .LPAREN && st.peek.hadWs then pure leftExp
        else if t = .LBRACKET && st.peek.hadWs then pure leftExp
        else
          nextToken s
          let leftExp ← infixDispatch s fuel infixFn leftExp
          parseExpressionLoop s fuel precedence leftExp
    else pure leftExp

def prefixDispatch (s : TokStream) : Nat → PrefixFn → PM ONode
  | 0, _ => outOfFuel
  | fuel + 1, fn =>
    match fn with
    | .parseIdentifier => parseIdentifier s
    | .parseIntegerLiteral => parseIntegerLiteral s
    | .parseFloatLiteral => parseFloatLiteral s
    | .parsePrefixExpression => parsePrefixExpression s fuel
    | .parseBoolean => parseBoolean
    | .parseGroupedExpression => parseGroupedExpression s fuel
    | .parseIfExpression => parseIfExpression s fuel
    | .parseForExpression => parseForExpression s fuel
    | .parseControlExpression => parseControlExpression
    | .parseFunctionLiteral => parseFunctionLiteral s fuel
    | .parseStringLiteral => parseStringLiteral
    | .parseBuiltin => parseBuiltin s fuel
    | .parseArrayLiteral => parseArrayLiteral s fuel
    | .parseMapLiteral => parseMapLiteral s fuel
    | .parseComment => parseComment
    | .parseMacroLiteral => parseMacroLiteral s fuel

def infixDispatch (s : TokStream) : Nat → InfixFn → ONode → PM ONode
  | 0, _, _ => outOfFuel
  | fuel + 1, fn, left =>
    match fn with
    | .parseInfixExpression => parseInfixExpression s fuel left
    | .parseCallExpression => parseCallExpression s fuel left
    | .parseIndexExpression => parseIndexExpression s fuel left
    | .parseLambdaExpression => parseLambdaMulti s fuel left []

def parseStatement (s : TokStream) : Nat → PM ONode
  | 0 => outOfFuel
  | fuel + 1 => do
    let st ← getSt
    if st.cur.type = .RETURN then parseReturnStatement s fuel
    else
      let stmt ← parseExpression s fuel prioLOWEST
      let st ← getSt
      if st.peek.type = .SEMICOLON then nextToken s
      pure stmt

def parseReturnStatement (s : TokStream) : Nat → PM ONode
  | 0 => outOfFuel
  | fuel + 1 => do
    let st ← getSt
    let tok := st.cur.tk
    if st.peek.type = .SEMICOLON || st.peek.type = .RBRACE || st.peek.type = .EOF || st.peek.type = .EOL then
      pure (some (.ret tok none))
    else
      nextToken s
      let v ← parseExpression s fuel prioLOWEST
      let st ← getSt
      if st.peek.type = .SEMICOLON then nextToken s
      pure (some (.ret tok v))

def parseArrayLiteral (s : TokStream) : Nat → PM ONode
  | 0 => outOfFuel
  | fuel + 1 => do
    let st ← getSt
    let tok := st.cur.tk
    let el ← parseExpressionList s fuel .RBRACKET
    pure (some (.array tok (el.getD [])))

def parseGroupedExpression (s : TokStream) : Nat → PM ONode
  | 0 => outOfFuel
  | fuel + 1 => do
    nextToken s
    let exp ← parseExpression s fuel prioLOWEST
    let st ← getSt
    if st.peek.type = .LAMBDA then
      nextToken s
      parseLambdaMulti s fuel exp []
    else if st.peek.type = .COMMA then
      nextToken s
      match ← parseExpressionList s fuel .RPAREN with
      | none => pure none
      | some el =>
        if !(← expectPeek s .LAMBDA) then pure none
        else parseLambdaMulti s fuel exp el
    else if !(← expectPeek s .RPAREN) then pure none
    else pure exp

def parsePrefixExpression (s : TokStream) : Nat → PM ONode
  | 0 => outOfFuel
  | fuel + 1 => do
    let st ← getSt
    let tok := st.cur.tk
    nextToken s
    let right ← parseExpression s fuel prioPREFIX
    pure (some (.pre tok right))

def parseLambdaMulti (s : TokStream) : Nat → ONode → NList → PM ONode
  | 0, _, _ => outOfFuel
  | fuel + 1, left, more => do
    let st ← getSt
    let tok := st.cur.tk
    let params := match left with
      | none => more
      | some l => some l :: more
    match okParamList params with
    | none => goPanic .nilNodeValue
    | some (_, false) =>
      errorLine s
      pushErr .lambdaParams
      pure none
    | some (t, true) =>
      let variadic := t.isSome
      if st.peek.type = .LBRACE then
        nextToken s
        let body ← parseBlockStatement s fuel
        let st ← getSt
        if st.cont then pure none
        else pure (some (.func tok none params body variadic true))
      else
        let precedence := precOf st.cur.type
        nextToken s
        let body ← parseExpression s fuel precedence
        pure (some (.func tok none params (some [body]) variadic true))

def parseInfixExpression (s : TokStream) : Nat → ONode → PM ONode
  | 0, _ => outOfFuel
  | fuel + 1, left => do
    let st ← getSt
    let tok := st.cur.tk
    let precedence := precOf st.cur.type
    if tok.type = .COLON && st.peek.type = .RBRACKET then
      pure (some (.infix tok left none))
    else
      nextToken s
      let right ← parseExpression s fuel precedence
      pure (some (.infix tok left right))

def parseForExpression (s : TokStream) : Nat → PM ONode
  | 0 => outOfFuel
  | fuel + 1 => do
    let st ← getSt
    let tok := st.cur.tk
    nextToken s
    let cond ← parseExpression s fuel prioLOWEST
    if !(← expectPeek s .LBRACE) then pure none
    else
      let body ← parseBlockStatement s fuel
      let st ← getSt
      if st.cont then pure none
      else pure (some (.forE tok cond body))

def parseIfExpression (s : TokStream) : Nat → PM ONode
  | 0 => outOfFuel
  | fuel + 1 => do
    let st ← getSt
    let tok := st.cur.tk
    nextToken s
    let cond ← parseExpression s fuel prioLOWEST
    if !(← expectPeek s .LBRACE) then pure none
    else
      let cons ← parseBlockStatement s fuel
      let st ← getSt
      if st.cont then pure none
      else if st.peek.type = .ELSE then
        nextToken s
        let st ← getSt
        if st.peek.type = .IF then
          nextToken s
          let alt ← parseIfExpression s fuel
          pure (some (.ifE tok cond cons (some [alt])))
        else if !(← expectPeek s .LBRACE) then pure none
        else
          let alt ← parseBlockStatement s fuel
          let st ← getSt
          if st.cont then pure none
          else pure (some (.ifE tok cond cons alt))
      else pure (some (.ifE tok cond cons none))

def parseBlockStatement (s : TokStream) : Nat → PM Stmts
  | 0 => outOfFuel
  | fuel + 1 => do
    nextToken s
    parseBlockLoop s fuel []

/-- `for !p.curTokenIs(token.RBRACE) && !p.curTokenIs(token.EOF) { … }` -/
def parseBlockLoop (s : TokStream) : Nat → NList → PM Stmts
  | 0, _ => outOfFuel
  | fuel + 1, acc => do
    let st ← getSt
    if st.cur.type != .RBRACE && st.cur.type != .EOF then
      if st.cur.type = .EOL then
        setCont
        pure none
      else
        let stmt ← parseStatement s fuel
        nextToken s
        parseBlockLoop s fuel (acc ++ [stmt])
    else pure (some acc)

def parseFunctionLiteral (s : TokStream) : Nat → PM ONode
  | 0 => outOfFuel
  | fuel + 1 => do
    let st ← getSt
    let tok := st.cur.tk
    let name ← (if st.peek.type = .IDENT then do
        nextToken s
        let st ← getSt
        pure (some st.cur.tk)
      else pure none : PM (Option Tk))
    if !(← expectPeek s .LPAREN) then pure none
    else
      let (params, variadic) ← parseFunctionParameters s fuel
      if !(← expectPeek s .LBRACE) then pure none
      else
        let body ← parseBlockStatement s fuel
        let st ← getSt
        if st.cont then pure none
        else pure (some (.func tok name params body variadic false))

def parseBuiltin (s : TokStream) : Nat → PM ONode
  | 0 => outOfFuel
  | fuel + 1 => do
    let st ← getSt
    let tok := st.cur.tk
    if !(← expectPeek s .LPAREN) then pure none
    else
      let el ← parseExpressionList s fuel .RPAREN
      pure (some (.builtin tok (el.getD [])))

def parseCallExpression (s : TokStream) : Nat → ONode → PM ONode
  | 0, _ => outOfFuel
  | fuel + 1, function => do
    let st ← getSt
    let tok := st.cur.tk
    let el ← parseExpressionList s fuel .RPAREN
    pure (some (.call tok function (el.getD [])))

/-- `none` = Go `nil` slice returned on failure -/
def parseExpressionList (s : TokStream) : Nat → TokType → PM (Option NList)
  | 0, _ => outOfFuel
  | fuel + 1, end_ => do
    let st ← getSt
    if st.peek.type = end_ then
      nextToken s
      pure (some [])
    else
      nextToken s
      let e ← parseExpression s fuel prioLOWEST
      let args ← parseExpressionListLoop s fuel [e]
      if !(← expectPeek s end_) then pure none
      else pure (some args)

def parseExpressionListLoop (s : TokStream) : Nat → NList → PM NList
  | 0, _ => outOfFuel
  | fuel + 1, args => do
    let st ← getSt
    if st.peek.type = .COMMA then
      nextToken s
      nextToken s
      let e ← parseExpression s fuel prioLOWEST
      parseExpressionListLoop s fuel (args ++ [e])
    else pure args

def parseIndexExpression (s : TokStream) : Nat → ONode → PM ONode
  | 0, _ => outOfFuel
  | fuel + 1, left => do
    let st ← getSt
    let tok := st.cur.tk
    let isDot := st.cur.type = .DOT
    nextToken s
    let prec := if isDot then prioDOTINDEX else prioLOWEST
    let idx ← parseExpression s fuel prec
    if isDot then pure (some (.index tok left idx))
    else if !(← expectPeek s .RBRACKET) then pure none
    else pure (some (.index tok left idx))

def parseMapLiteral (s : TokStream) : Nat → PM ONode
  | 0 => outOfFuel
  | fuel + 1 => do
    let st ← getSt
    let tok := st.cur.tk
    parseMapLoop s fuel tok []

/-- `for !p.peekTokenIs(token.RBRACE) { … }` and the closing `expectPeek(RBRACE)` -/
def parseMapLoop (s : TokStream) : Nat → Tk → NList → PM ONode
  | 0, _, _ => outOfFuel
  | fuel + 1, tok, kvs => do
    let st ← getSt
    if st.peek.type != .RBRACE then
      nextToken s
      let st ← getSt
      if st.cont then pure none
      else
        let kv ← parseExpression s fuel prioLOWEST
        match kv with
        | some (.infix t key value) =>
          if t.type = .COLON then
            let kvs := mapInsert kvs key value
            let st ← getSt
            if st.peek.type != .RBRACE then
              if !(← expectPeek s .COMMA) then pure none
              else parseMapLoop s fuel tok kvs
            else parseMapLoop s fuel tok kvs
          else mapPairError s
        | _ => mapPairError s
    else if !(← expectPeek s .RBRACE) then pure none
    else pure (some (.mapLit tok kvs))

def parseMacroLiteral (s : TokStream) : Nat → PM ONode
  | 0 => outOfFuel
  | fuel + 1 => do
    let st ← getSt
    let tok := st.cur.tk
    if !(← expectPeek s .LPAREN) then pure none
    else
      let (params, _) ← parseFunctionParameters s fuel
      if !(← expectPeek s .LBRACE) then pure none
      else
        let body ← parseBlockStatement s fuel
        let st ← getSt
        if st.cont then pure none
        else pure (some (.macroLit tok params body))

end

/-- ParseProgram's loop -/
def parseProgramLoop (s : TokStream) : Nat → NList → PM NList
  | 0, _ => outOfFuel
  | fuel + 1, acc => do
    let st ← getSt
    if st.cur.type != .EOF && st.cur.type != .EOL then
      match ← parseStatement s fuel with
      | none => pure acc
      | some stmt =>
        nextToken s
        parseProgramLoop s fuel (acc ++ [some stmt])
    else pure acc

structure ParseResult where
  program : NList
  errors : Nat
  cont : Bool
  deriving Repr

/-- `p := parser.New(l); prog := p.ParseProgram(); p.Errors(); p.ContinuationNeeded()` -/
def parseProgram (s : TokStream) (fuel : Nat) : Res ParseResult :=
  match parseProgramLoop s fuel [] (init s) with
  | .ok (prog, st) => .ok { program := prog, errors := st.errors.length, cont := st.cont }
  | .goPanic p => .goPanic p
  | .outOfFuel => .outOfFuel

/-- fuel used by the driver: depth ≤ 3 per pulled token plus slack -/
def defaultFuel (s : TokStream) : Nat := 4 * s.toks.length + 64

end Grol.Parser

namespace Grol.Parser
open Grol.Generated

/-- executable form of the two lexer facts the parser relies on (`StreamWF` in GrolProofs/ParseSafe.lean),
for token `i` of the stream -/
def tokWFb (s : TokStream) (i : Nat) : Bool :=
  decide ((s.get i).lastNl ≤ min (s.get i).posAfter s.inputLen) &&
  (if (s.get i).type = .LINECOMMENT then
     (s.get (i + 1)).hadNl || decide ((s.get (i + 1)).type = .EOF) || decide ((s.get (i + 1)).type = .EOL)
   else true)

/-- checks every position up to the repeated end marker -/
def streamWFb (s : TokStream) : Bool := (List.range (s.toks.length + 1)).all (tokWFb s)

end Grol.Parser

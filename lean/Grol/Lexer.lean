import Grol.Token
/-
Model of /repo/lexer/lexer.go.  One Lean function per Go function, same case order.
Core Lean only.

* input is an array of bytes; `pos` is a `Nat` that may run past the end (`peekChar` then
  returns 0, exactly like the Go code).  Go's `pos` is an `int`; it is only decremented right
  after having been incremented, so it never gets negative and the "position is negative"
  panic of `peekChar` is unreachable (the model's `pos - 1` are all of this kind).
* Go slice expressions `l.input[a:b]` panic when `a > b` or `b > len`; `slice?` returns `none`
  in that case and `next` turns it into the token `Tok.goPanic` (theorem `next_no_panic`
  shows it is never produced).
* loops run on explicit fuel chosen so that it cannot run out (see GrolProofs/LexScan.lean).
-/
namespace Grol.Lexer
open Grol.Token Grol.Token.TType

structure State where
  input : Array UInt8
  pos : Nat := 0
  lineMode : Bool := false
  hadWhitespace : Bool := false
  /-- newline was seen before current token -/
  hadNewline : Bool := false
  /-- position just after most recent newline -/
  lastNewLine : Nat := 0
  lineNumber : Nat := 1
  deriving Repr

/-- `lexer.NewBytes` / `lexer.New` (file mode) and `lexer.NewLineMode` -/
def State.new (input : Array UInt8) (lineMode : Bool) : State :=
  { input := input, lineMode := lineMode }

/-- the byte at `pos`, 0 past the end -/
def peekAt (input : Array UInt8) (pos : Nat) : UInt8 := input[pos]?.getD 0

/-- `(*Lexer).peekChar` -/
def State.peekChar (s : State) : UInt8 := peekAt s.input s.pos

/-- `(*Lexer).readChar` -/
def State.readChar (s : State) : UInt8 × State := (s.peekChar, { s with pos := s.pos + 1 })

/-- `(*Lexer).EOLEOF` -/
def State.eolEof (s : State) : Tok := Token.eolEof s.lineMode

/-- Go `l.input[a:b]` : `none` = slice bounds out of range -/
def slice? (input : Array UInt8) (a b : Nat) : Option Bytes :=
  if a ≤ b ∧ b ≤ input.size then some (input.extract a b).toList else none

/-! ### character classes -/

def isWhiteSpace (ch : UInt8) : Bool := ch == #b' ' || ch == 9 || ch == 10 || ch == 13
def isDigit (ch : UInt8) : Bool := #b'0' ≤ ch && ch ≤ #b'9'
def isDigitOrUnderscore (ch : UInt8) : Bool := isDigit ch || ch == #b'_'
def isHexDigit (ch : UInt8) : Bool :=
  isDigitOrUnderscore ch || (#b'a' ≤ ch && ch ≤ #b'f') || (#b'A' ≤ ch && ch ≤ #b'F')
def isBinaryDigit (ch : UInt8) : Bool := ch == #b'0' || ch == #b'1' || ch == #b'_'
def isLetter (ch : UInt8) : Bool :=
  (#b'a' ≤ ch && ch ≤ #b'z') || (#b'A' ≤ ch && ch ≤ #b'Z') || ch == #b'_'
def isAlphaNum (ch : UInt8) : Bool := isLetter ch || isDigit ch
def notEOL (ch : UInt8) : Bool := ch != 10 && ch != 0

/-! ### skipWhitespace -/

def skipWsLoop : Nat → State → State
  | 0, s => s
  | fuel + 1, s =>
    let ch := s.peekChar
    if !isWhiteSpace ch then s
    else
      let s := if ch == 10 then
          { s with hadNewline := true, lastNewLine := s.pos + 1, lineNumber := s.lineNumber + 1 }
        else s
      skipWsLoop fuel { s with hadWhitespace := true, pos := s.pos + 1 }

/-- `(*Lexer).skipWhitespace`; fuel `size - pos`: past the end `peekChar` is 0, not whitespace -/
def skipWhitespace (s : State) : State :=
  skipWsLoop (s.input.size - s.pos) { s with hadWhitespace := false, hadNewline := false }

/-! ### `for p(l.peekChar()) { l.pos++ }` -/

def scanLoop (p : UInt8 → Bool) (input : Array UInt8) : Nat → Nat → Nat
  | 0, pos => pos
  | fuel + 1, pos => if p (peekAt input pos) then scanLoop p input fuel (pos + 1) else pos

/-- used only with predicates that are false on 0, so fuel `size - pos` is exact -/
def scanWhile (p : UInt8 → Bool) (input : Array UInt8) (pos : Nat) : Nat :=
  scanLoop p input (input.size - pos) pos

/-! ### strings -/

def hexCharToHex (ch : UInt8) : UInt8 :=
  if #b'0' ≤ ch && ch ≤ #b'9' then ch - #b'0'
  else if #b'a' ≤ ch && ch ≤ #b'f' then ch - #b'a' + 10
  else if #b'A' ≤ ch && ch ≤ #b'F' then ch - #b'A' + 10
  else 0

/-- `(*Lexer).readHex` -/
def readHex (s : State) : UInt8 × State :=
  let (c1, s) := s.readChar
  let (c2, s) := s.readChar
  ((hexCharToHex c1 <<< 4) ||| hexCharToHex c2, s)

/-- `(*Lexer).readUnicode16` (the `rune` as its 32-bit pattern) -/
def readUnicode16 (s : State) : UInt32 × State :=
  let (hb, s) := readHex s
  let (lb, s) := readHex s
  ((hb.toUInt32 <<< 8) ||| lb.toUInt32, s)

/-- `(*Lexer).readUnicode32`; `rune` is `int32`, the shift wraps -/
def readUnicode32 (s : State) : UInt32 × State :=
  let (hb, s) := readUnicode16 s
  let (lb, s) := readUnicode16 s
  ((hb <<< 16) ||| lb, s)

/-- `utf8.AppendRune` on the 32-bit pattern of the rune (negative and out-of-range values and
surrogates become U+FFFD) -/
def appendRune (r : UInt32) : Bytes :=
  let b (x : UInt32) : UInt8 := x.toUInt8
  let cont (x : UInt32) : UInt8 := (0x80 : UInt8) ||| (x.toUInt8 &&& 0x3F)
  if r ≤ 0x7F then [b r]
  else if r ≤ 0x7FF then [(0xC0 : UInt8) ||| b (r >>> 6), cont r]
  else if r > 0x10FFFF || (0xD800 ≤ r && r ≤ 0xDFFF) then [0xEF, 0xBF, 0xBD]
  else if r ≤ 0xFFFF then [(0xE0 : UInt8) ||| b (r >>> 12), cont (r >>> 6), cont r]
  else [(0xF0 : UInt8) ||| b (r >>> 18), cont (r >>> 12), cont (r >>> 6), cont r]

/-- Go `string(ch)` for a byte `ch`: the UTF-8 encoding of the rune `ch` -/
def stringOfByte (ch : UInt8) : Bytes := appendRune ch.toUInt32

def consBuf (pre : Bytes) (r : Bytes × Bool × State) : Bytes × Bool × State := (pre ++ r.1, r.2.1, r.2.2)

/-- the one-byte escapes of `readString`'s inner `switch ch` (`\\r \\n \\t \\a \\b \\f \\v \\xHH`, any other
byte stands for itself): (byte written, state).  `\\a \\b \\f \\v` were added by the C14 fix (they are what
`strconv.Quote` writes for the bytes 7, 8, 12, 11). -/
def readEscape (ch : UInt8) (s : State) : UInt8 × State :=
  if ch == #b'r' then (13, s)
  else if ch == #b'n' then (10, s)
  else if ch == #b't' then (9, s)
  else if ch == #b'a' then (7, s)
  else if ch == #b'b' then (8, s)
  else if ch == #b'f' then (12, s)
  else if ch == #b'v' then (11, s)
  else if ch == #b'x' then readHex s
  else (ch, s)

/-- the `for` loop of `(*Lexer).readString`; returns (buffer, ok, state) -/
def readStringLoop (sep : UInt8) (doubleQuotes : Bool) : Nat → State → Bytes × Bool × State
  | 0, s => ([], false, s)
  | fuel + 1, s0 =>
    let c := s0.readChar
    if doubleQuotes && c.1 == #b'\\' then
      let e := c.2.readChar
      if e.1 == #b'u' then
        let r := readUnicode16 e.2
        consBuf (appendRune r.1) (readStringLoop sep doubleQuotes fuel r.2)
      else if e.1 == #b'U' then
        let r := readUnicode32 e.2
        consBuf (appendRune r.1) (readStringLoop sep doubleQuotes fuel r.2)
      else
        let r := readEscape e.1 e.2
        consBuf [r.1] (readStringLoop sep doubleQuotes fuel r.2)
    else if c.1 == sep then ([], true, c.2)
    else if c.1 == 0 then ([], false, c.2)
    else consBuf [c.1] (readStringLoop sep doubleQuotes fuel c.2)

/-- `(*Lexer).readString`.  Every iteration reads at least one byte and an iteration that starts
at or past the end stops the loop, so `size + 1 - pos` iterations suffice. -/
def readString (s : State) (sep : UInt8) : Bytes × Bool × State :=
  readStringLoop sep (sep == #b'"') (s.input.size + 1 - s.pos) s

/-! ### identifiers, comments -/

/-- `(*Lexer).readIdentifier` -/
def readIdentifier (s : State) : Option Bytes × State :=
  let pos := s.pos - 1
  let p := scanWhile isAlphaNum s.input s.pos
  (slice? s.input pos p, { s with pos := p })

/-- `unicode.IsSpace` on the last rune of `rev.reverse` (`rev` = the bytes in reverse order):
number of bytes of that rune if it is a space, else 0.  The multi-byte spaces are
U+0085, U+00A0, U+1680, U+2000–U+200A, U+2028, U+2029, U+202F, U+205F, U+3000. -/
def trailingSpaceLen (rev : Bytes) : Nat :=
  match rev with
  | [] => 0
  | c :: rest =>
    if c == 9 || c == 10 || c == 11 || c == 12 || c == 13 || c == 32 then 1
    else match rest with
      | 0xC2 :: _ => if c == 0x85 || c == 0xA0 then 2 else 0
      | 0x9A :: 0xE1 :: _ => if c == 0x80 then 3 else 0
      | 0x80 :: 0xE2 :: _ => if (0x80 ≤ c && c ≤ 0x8A) || c == 0xA8 || c == 0xA9 || c == 0xAF then 3 else 0
      | 0x81 :: 0xE2 :: _ => if c == 0x9F then 3 else 0
      | 0x80 :: 0xE3 :: _ => if c == 0x80 then 3 else 0
      | _ => 0

def trimRightLoop : Nat → Bytes → Bytes
  | 0, rev => rev
  | fuel + 1, rev =>
    let k := trailingSpaceLen rev
    if k == 0 then rev else trimRightLoop fuel (rev.drop k)

/-- `strings.TrimSpace` on a string that starts with a non-space ASCII byte (here always `/`):
only trailing spaces are removed -/
def trimSpaceRight (b : Bytes) : Bytes :=
  (trimRightLoop b.length b.reverse).reverse

/-- `(*Lexer).readLineComment` -/
def readLineComment (s : State) : Option Bytes × State :=
  let pos := s.pos - 1
  let p := scanWhile notEOL s.input s.pos
  ((slice? s.input pos p).map trimSpaceRight, { s with pos := p })

/-- `for ch != 0 && !l.endBlockComment(ch) { ch = l.readChar() }` on (ch, pos) -/
def blockLoop (input : Array UInt8) : Nat → UInt8 → Nat → UInt8 × Nat
  | 0, ch, pos => (ch, pos)
  | fuel + 1, ch, pos =>
    if ch != 0 && !(ch == #b'*' && peekAt input pos == #b'/') then
      blockLoop input fuel (peekAt input pos) (pos + 1)
    else (ch, pos)

/-- `(*Lexer).readBlockComment` -/
def readBlockComment (s : State) : Option Bytes × State :=
  let pos1 := s.pos - 1
  let s := { s with pos := s.pos + 1 }
  let (ch, s) := s.readChar
  let (ch, p) := blockLoop s.input (s.input.size + 2 - s.pos) ch s.pos
  let p := if ch == 0 then p - 1 else p + 1
  (slice? s.input pos1 p, { s with pos := p })

/-! ### numbers -/

/-- `(*Lexer).readNumber` -/
def readNumber (s : State) (ch : UInt8) : TType × Option Bytes × State :=
  let inp := s.input
  let t := if ch == #b'.' then FLOAT else INT
  let dotSeen := ch == #b'.'
  let hasDigits := !(ch == #b'.')
  let pos := s.pos - 1
  if ch == #b'0' && s.peekChar == #b'x' then
    let p := scanWhile isHexDigit inp (s.pos + 1)
    (t, slice? inp pos p, { s with pos := p })
  else if ch == #b'0' && s.peekChar == #b'b' then
    let p := scanWhile isBinaryDigit inp (s.pos + 1)
    (t, slice? inp pos p, { s with pos := p })
  else
    let p1 := scanWhile isDigitOrUnderscore inp s.pos
    let hasDigits := hasDigits || decide (p1 > s.pos)
    -- Fractional part
    if peekAt inp p1 == #b'.' && dotSeen then
      -- Stop if we see another dot (fix: the literal runs up to the dot, was `l.pos-1`)
      (t, slice? inp pos p1, { s with pos := p1 })
    else
      let frac := peekAt inp p1 == #b'.'
      let t := if frac then FLOAT else t
      let p2 := if frac then scanWhile isDigitOrUnderscore inp (p1 + 1) else p1
      let hasDigits := hasDigits || (frac && decide (p2 > p1 + 1))
      -- Exponent part
      let peek := peekAt inp p2
      if peek != #b'e' && peek != #b'E' then (t, slice? inp pos p2, { s with pos := p2 })
      else
        let errPos := p2
        if !hasDigits then (t, slice? inp pos errPos, { s with pos := p2 })
        else
          let p3 := p2 + 1
          let peek := peekAt inp p3
          let p4 := if peek == #b'+' || peek == #b'-' then p3 + 1 else p3
          if !isDigit (peekAt inp p4) then
            -- Invalid exponent, stop here (fix: the position is reset to errPos)
            (t, slice? inp pos errPos, { s with pos := errPos })
          else
            let p5 := scanWhile isDigitOrUnderscore inp p4
            (FLOAT, slice? inp pos p5, { s with pos := p5 })

/-! ### NextToken -/

def tokOfSlice (f : Bytes → Tok) : Option Bytes → Tok
  | some b => f b
  | none => Tok.goPanic

/-- the `switch ch` of `(*Lexer).NextToken`: `ch` is the byte just read, `nextChar` the byte
under the position of `s` -/
def nextSwitch (ch nextChar : UInt8) (s : State) : Tok × State :=
  let adv : State := { s with pos := s.pos + 1 }
  if ch == #b'=' || ch == #b'!' || ch == #b':' then
    if nextChar == #b'=' then (constantTokenChar2 ch nextChar, adv)
    else if nextChar == #b'>' && ch == #b'=' then (constantTokenChar2 ch nextChar, adv)
    else (constantTokenChar ch, s)
  else if ch == #b'+' || ch == #b'-' then
    if nextChar == ch then (constantTokenChar2 ch nextChar, adv)
    else (constantTokenChar ch, s)
  else if ch == #b'%' || ch == #b'*' || ch == #b';' || ch == #b',' || ch == #b'{' || ch == #b'}'
      || ch == #b'(' || ch == #b')' || ch == #b'[' || ch == #b']' || ch == #b'^' || ch == #b'~' then
    (constantTokenChar ch, s)
  else if ch == #b'/' then
    if nextChar == #b'/' then
      let r := readLineComment s
      (tokOfSlice (internTok LINECOMMENT) r.1, r.2)
    else if nextChar == #b'*' then
      let r := readBlockComment s
      (tokOfSlice (internTok BLOCKCOMMENT) r.1, r.2)
    else (constantTokenChar ch, s)
  else if ch == #b'|' || ch == #b'&' then
    if nextChar == ch then (constantTokenChar2 ch nextChar, adv)
    else (constantTokenChar ch, s)
  else if ch == #b'<' || ch == #b'>' then
    if nextChar == ch then (constantTokenChar2 ch nextChar, adv)
    else if nextChar == #b'=' then (constantTokenChar2 ch nextChar, adv)
    else (constantTokenChar ch, s)
  else if ch == #b'"' || ch == #b'`' then
    let r := readString s ch
    -- fix: `l.pos--`, stay on the terminating NUL / end of input
    if !r.2.1 then (r.2.2.eolEof, { r.2.2 with pos := r.2.2.pos - 1 }) else (internTok STRING r.1, r.2.2)
  else if ch == 0 then
    -- fix: `l.pos--`, the end marker is not consumed
    (s.eolEof, { s with pos := s.pos - 1 })
  else if ch == #b'.' then
    if nextChar == #b'.' then (constantTokenChar2 ch nextChar, adv)
    else if !isDigit nextChar then (constantTokenChar ch, s)
    else
      let r := readNumber s ch
      (tokOfSlice (internTok r.1) r.2.1, r.2.2)
  else if isLetter ch then
    let r := readIdentifier s
    (tokOfSlice lookupIdent r.1, r.2)
  else if isDigit ch then
    let r := readNumber s ch
    (tokOfSlice (internTok r.1) r.2.1, r.2.2)
  else
    (internTok ILLEGAL (stringOfByte ch), s)

/-- `(*Lexer).NextToken` after the call of `skipWhitespace`:
`ch := l.readChar(); nextChar := l.peekChar(); switch ch {…}` -/
def nextCore (s1 : State) : Tok × State :=
  nextSwitch s1.readChar.1 s1.readChar.2.peekChar s1.readChar.2

/-- `(*Lexer).NextToken` -/
def next (s0 : State) : Tok × State := nextCore (skipWhitespace s0)

/-- `(*Lexer).CurrentLine`: (line, position in the line, line number); `none` = slice panic -/
def currentLine (s : State) : Option Bytes × Nat × Nat :=
  let p := min s.pos s.input.size
  let nextNewline := scanLoop (fun c => c != 10) s.input (s.input.size - p) p - p
  (slice? s.input s.lastNewLine (p + nextNewline), p - s.lastNewLine, s.lineNumber)

end Grol.Lexer

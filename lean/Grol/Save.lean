import Grol.Eval.Values
/-
Model of object/state.go `SaveGlobals` and of the printed forms it writes (object/object.go
`Inspect` of data values and functions), for property C14.

* `Fmt` carries the two library calls `Inspect` rests on: `strconv.Quote` and
  `strconv.FormatFloat(f,'f',-1,64)` (plus the `.0` the fixed `Float.Inspect` appends).  The
  theorems instantiate it with `quoteAscii` / `floatBytes` (`stdFmt`: the byte-level twins of the
  evaluator model's `quoteBytes` / `floatStr`, compared with them by the driver on every case); the
  correspondence driver instantiates it with the printer model's full `strconv.Quote` and with the
  float texts measured from the implementation (an external call becomes a parameter).
* a function value is carried by its name and cache key (the compact printed form computed by the
  real printer; the printer model of C02 covers it): `Function.Inspect` is the cache key for a
  lambda and `func <name>` + the key without its leading `func ` for a named function.
* the store is a Go map: `SaveGlobals` sorts the keys (`slices.Sort`, bytewise) first.
Core Lean only.
-/
namespace Grol.Save
open Grol.E
open Grol.Wire (Bytes)

structure Fmt where
  quote : Bytes → R Bytes
  float : UInt64 → R Bytes

/-! ### byte-level printers (the forms the theorems are about) -/

/-- decimal digits of a natural number, as bytes -/
def digitBytes (n : Nat) : Bytes := (Nat.toDigits 10 n).map fun c => c.toNat.toUInt8

/-- `strconv.FormatInt(v, 10)` (`Integer.Inspect`) -/
def intBytes (v : Int64) : Bytes :=
  if v.toInt < 0 then 45 :: digitBytes v.toInt.natAbs else digitBytes v.toInt.natAbs

/-- what `strconv.Quote` writes for one byte < 0x80 (`none`: outside the modelled part) -/
def quoteByte (b : UInt8) : Option Bytes :=
  if b == 34 then some [92, 34]
  else if b == 92 then some [92, 92]
  else if b == 7 then some [92, 97]
  else if b == 8 then some [92, 98]
  else if b == 12 then some [92, 102]
  else if b == 10 then some [92, 110]
  else if b == 13 then some [92, 114]
  else if b == 9 then some [92, 116]
  else if b == 11 then some [92, 118]
  else if b < 32 || b == 127 then
    some [92, 120, (hexNib (b >>> 4)).toNat.toUInt8, (hexNib (b &&& 15)).toNat.toUInt8]
  else if b < 128 then some [b]
  else none

def quoteBody : Bytes → Option Bytes
  | [] => some []
  | b :: rest =>
    match quoteByte b, quoteBody rest with
    | some q, some r => some (q ++ r)
    | _, _ => none

/-- `strconv.Quote` on ASCII content: the same function as the evaluator model's `quoteBytes`
(a `for` loop there), written by structural recursion; the driver compares the two on every string -/
def quoteAscii (s : Bytes) : R Bytes :=
  match quoteBody s with
  | some b => pure ([34] ++ b ++ [34])
  | none => throw (.unmodelled "Quote of non-ASCII byte")

/-! literal texts as bytes (so that the kernel can evaluate them) -/
def nilB : Bytes := [110, 105, 108]
def trueB : Bytes := [116, 114, 117, 101]
def falseB : Bytes := [102, 97, 108, 115, 101]
def nanB : Bytes := [78, 97, 78]
def posInfB : Bytes := [43, 73, 110, 102]
def negInfB : Bytes := [45, 73, 110, 102]
def negZeroB : Bytes := [45, 48, 46, 48]

/-- `Float.Inspect` after the C14 fix, for the part `floatStr` models (NaN, infinities, integral
values below 2^53): digits plus `.0` -/
def floatBytes (bits : UInt64) : R Bytes :=
  let f := f64 bits
  if f.isNaN then pure nanB
  else if f.isInf then pure (if f > 0 then posInfB else negInfB)
  else if f == f.floor && f.abs < 9007199254740992.0 then
    let i := f.toInt64
    if i == 0 && bits != 0 then pure negZeroB else pure (intBytes i ++ [46, 48])
  else throw (.unmodelled "FormatFloat of non-integral float")

def stdFmt : Fmt := ⟨quoteAscii, floatBytes⟩

/-- `Function.Inspect` -/
def funcInspect (f : FuncVal) : Bytes :=
  match f.name with
  | none => toBytes f.key
  | some n => toBytes "func " ++ toBytes n ++ (toBytes f.key).drop 5

mutual
/-- `Object.Inspect` for the values a global can hold -/
def inspectP (fm : Fmt) : Obj → R Bytes
  | .null => pure nilB
  | .bool b => pure (if b then trueB else falseB)
  | .int v => pure (intBytes v)
  | .float b => fm.float b
  | .str s => fm.quote s
  | .array els => do
    let parts ← inspectListP fm els
    pure ([91] ++ parts ++ [93])
  | .map _ kvs => do
    let parts ← inspectPairsP fm kvs
    pure ([123] ++ parts ++ [125])
  | .func f => pure (funcInspect f)
  | .ret v _ => inspectP fm v
  | _ => throw (.unmodelled "Inspect of extension/error/reference/quote")
def inspectListP (fm : Fmt) : List Obj → R Bytes
  | [] => pure []
  | [x] => inspectP fm x
  | x :: xs => do pure ((← inspectP fm x) ++ [44] ++ (← inspectListP fm xs))
def inspectPairsP (fm : Fmt) : List (Obj × Obj) → R Bytes
  | [] => pure []
  | [(k, v)] => do pure ((← inspectP fm k) ++ [58] ++ (← inspectP fm v))
  | (k, v) :: xs => do pure ((← inspectP fm k) ++ [58] ++ (← inspectP fm v) ++ [44] ++ (← inspectPairsP fm xs))
end

/-- `object.Constant`: all caps, `_` and digits allowed after the first byte -/
def constantLoop : Bool → Bytes → Bool
  | _, [] => true
  | first, v :: rest =>
    if !first && (v == 95 || (48 ≤ v && v ≤ 57)) then constantLoop false rest
    else if v < 65 || v > 90 then false
    else constantLoop false rest

def constantName (name : Bytes) : Bool := constantLoop true name

structure Binding where
  name : Bytes
  /-- the name is one of the identifiers pre-seeded by extensions.Init (`extraIdentifiers`) -/
  extra : Bool
  val : Obj

/-- the body of `SaveGlobals`' loop for one key: `none` = nothing written for this binding -/
def saveLine (fm : Fmt) (maxLen : Nat) (b : Binding) : R (Option Bytes) :=
  if constantName b.name && b.extra then pure none   -- isConstantAndExtraIdentifier
  else
    let value : R (Option Bytes) := do
      let val ← inspectP fm b.val
      if maxLen > 0 && val.length > maxLen then pure none
      else pure (some (b.name ++ [61] ++ val ++ [10]))
    match b.val with
    -- a named function under its own name is written as its definition (fix: only under its own name)
    | .func f => if f.name.map toBytes == some b.name then pure (some (funcInspect f ++ [10])) else value
    -- an extension function is written by its name (fix: its printed form, `sin(float)`, does not evaluate)
    | .ext n =>
      let val := toBytes n
      if maxLen > 0 && val.length > maxLen then pure none
      else pure (some (b.name ++ [61] ++ val ++ [10]))
    | _ => value

/-- bytewise `<=` on names (`slices.Sort` on Go strings) -/
def nameLe (a b : Bytes) : Bool := cmpBytes a b ≤ 0

def insertB (x : Binding) : List Binding → List Binding
  | [] => [x]
  | y :: ys => if nameLe x.name y.name then x :: y :: ys else y :: insertB x ys

/-- the keys of the store in sorted order (the store is a map: names are distinct) -/
def sortB : List Binding → List Binding
  | [] => []
  | x :: xs => insertB x (sortB xs)

def saveSorted (fm : Fmt) (maxLen : Nat) : List Binding → R (List (Bytes × Bytes))
  | [] => pure []
  | b :: rest => do
    let l ← saveLine fm maxLen b
    let tl ← saveSorted fm maxLen rest
    match l with
    | some line => pure ((b.name, line) :: tl)
    | none => pure tl

/-- `SaveGlobals`: (name, line written) in the order written; the count returned is the length -/
def saveGlobals (fm : Fmt) (maxLen : Nat) (store : List Binding) : R (List (Bytes × Bytes)) :=
  saveSorted fm maxLen (sortB store)

def fileBytes (lines : List (Bytes × Bytes)) : Bytes := (lines.map (·.2)).flatten

/-! ### reading the literals back: the part of `strconv.ParseInt(lit, 0, 64)` used for decimal text -/

def digitsVal : Nat → Bytes → Option Nat
  | acc, [] => some acc
  | acc, c :: rest => if 48 ≤ c && c ≤ 57 then digitsVal (acc * 10 + (c.toNat - 48)) rest else none

/-- `strconv.ParseInt` on a non-empty string of decimal digits without sign (no leading-zero / base
prefix cases): `none` = range error (the parser then switches to a float literal) -/
def parseDecInt (lit : Bytes) : Option Int64 :=
  match lit, digitsVal 0 lit with
  | _ :: _, some n => if n < 2 ^ 63 then some (Int64.ofNat n) else none
  | _, _ => none

/-- the value the evaluator gives to the printed form of an integer: `-` is the prefix operator applied to
the literal; the literal 9223372036854775808 alone is a float, but negated it is the smallest integer
(`eval.isMinInt64Literal`, C14 fix) -/
def readIntText (t : Bytes) : Option Int64 :=
  match t with
  | 45 :: ds =>
    match parseDecInt ds with
    | some v => some (-v)
    | none => if digitsVal 0 ds == some (2 ^ 63) then some (Int64.ofInt (-9223372036854775808)) else none
  | ds => parseDecInt ds

end Grol.Save

/-
Model of the integer register file of an environment (object/state.go: registers, numReg,
HasRegisters, MakeRegister, ReleaseRegister) and of how eval.go uses it after the `fix:`
commits: a counted loop allocates one register, runs, and releases it on every exit;
when none is free it falls back to a plain variable.
-/
namespace Grol.Reg

def numRegisters : Nat := 8

structure File where
  regs : List Int := List.replicate 8 0
  numReg : Nat := 0
  deriving Repr, DecidableEq

inductive Out (α : Type) where
  | ok (a : α)
  | goPanic (site : String)
  deriving Repr

def File.hasRegisters (f : File) : Bool := f.numReg < numRegisters

/-- `MakeRegister`: returns the index -/
def File.make (f : File) (v : Int) : Out (Nat × File) :=
  if !f.hasRegisters then .goPanic "No more registers available"
  else .ok (f.numReg, { regs := f.regs.set f.numReg v, numReg := f.numReg + 1 })

/-- `ReleaseRegister` -/
def File.release (f : File) (idx : Nat) : Out File :=
  if idx + 1 != f.numReg then .goPanic "Releasing non last register"
  else .ok { f with numReg := f.numReg - 1 }

/-- the register discipline of `evalForInteger` after the fix: allocate if one is free, run the
body (which may itself run loops), release on every exit. `body` is any computation on the file
that returns it balanced. -/
def File.withLoopRegister (f : File) (v : Int) (body : File → Out File) : Out File :=
  if f.hasRegisters then
    match f.make v with
    | .goPanic s => .goPanic s
    | .ok (idx, f1) =>
      match body f1 with
      | .goPanic s => .goPanic s
      | .ok f2 => f2.release idx
  else body f

end Grol.Reg

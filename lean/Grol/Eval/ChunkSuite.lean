import Grol.Suite
import Grol.Eval.Suite
/-
Driver side of the `chunks` suite (harness/cmd/harness/chunks.go): C15 part 3.

One case = one script and one split of its top-level statements into consecutive chunks.  The
harness evaluates (a) the script text as ONE input on a fresh session and (b) the pretty-printed
chunks one input at a time on another fresh session, in the four configurations.  The model
(`runInput`) is run on the same parsed inputs (cache on = B, cache off = D) and compared, and the
executable statement of C15 part 3 — equality of (a) and (b) in output, final value and final
globals — is evaluated on the implementation's observations of all four configurations and on
the model's.
-/
namespace Grol.ChunkSuite
open Grol.E Grol.Wire Grol.EvalSuite

def obsField (o : String) (k : String) : String :=
  ((splitOn o ';').findSome? fun kv => if kv.startsWith (k ++ "=") then some (kv.drop (k.length + 1)).toString else none).getD "?"

def hexCat (l : List String) : String := String.join (l.map fun h => if h == "-" then "" else h)

/-- is the observation of the whole-script run error free (parses, no error value, no panic)? -/
def cleanRun (o : String) : Bool := o != "P" && obsField o "e" == "0" && obsField o "p" == "-"

/-- **C15 part 3 on one configuration's observations** `whole :: chunks`: when the script as one input is
error free, the chunked session is error free too, the concatenated output equals the whole's output, the
value of the last chunk is the whole's value, and the final globals are the same. -/
def statementCfg (obs : List String) : Bool :=
  match obs with
  | [] => false
  | whole :: chunks =>
    -- a script that fails in one go must also fail somewhere when fed chunk by chunk (otherwise the chunked run
    -- shows the script is error-free and the one-go run differs from it)
    if !cleanRun whole then !(chunks.all cleanRun)
    else
      match chunks.getLast? with
      | none => false
      | some last =>
        chunks.all cleanRun
        && hexCat (chunks.map (obsField · "o")) == hexCat [obsField whole "o"]
        && obsField last "v" == obsField whole "v"
        && obsField last "g" == obsField whole "g"

/-- the recorded printer finding (C02/C03 `statement-starts-with-prefix-operator`): a re-printed line that
starts (after indentation) with `-`, `+` or `^` continues the previous line when it is read back -/
def lineStartsWithPrefixOp (text : Bytes) : Bool :=
  let rec go (bs : Bytes) (atLineStart : Bool) (first : Bool) : Bool :=
    match bs with
    | [] => false
    | b :: rest =>
      if b == 10 then go rest true false
      else if atLineStart && (b == 9 || b == 32) then go rest true first
      else if atLineStart && !first && (b == 45 || b == 43 || b == 94) then true
      else go rest false false
  go text true true

/-- the statements of a dumped program `(stmts X1 X2 …)` as text -/
def innerStmts (ast : String) : String :=
  if ast.startsWith "(stmts " then ((ast.drop 7).dropEnd 1).toString else ""

/-- do the re-printed chunks parse back to the statements of the script? (when not, the printer changed the
program: one of the print/parse findings recorded for C02) -/
def reparsesSame (asts : List String) : Bool :=
  match asts with
  | [] => true
  | whole :: chunks => " ".intercalate ((chunks.map innerStmts).filter (· != "")) == innerStmts whole

/-- name of the macro a top-level statement defines (`name = macro(…){…}`, the test of `isMacroDefinition`) -/
def macroDefName : Node → Option String
  | .inf "ASSIGN" (.ident name) (.macroLit ..) => some name
  | _ => none

def callsName (name : String) (n : Node) : Bool :=
  (subnodes n).any fun m => match m with
    | .call (.ident f) _ => f == name
    | _ => false

/-- `macro-redefined-after-use-in-one-input`: the script defines the same macro twice at top level and calls it in a
statement between the two definitions.  `DefineMacros` records ALL definitions of an input before `ExpandMacros`
expands any call, so evaluated in one go the call sites before the redefinition already use the LAST definition;
fed statement by statement they use the first. -/
def macroRedefinedAfterUse : List Node → Bool
  | [] => false
  | s :: rest =>
    (match macroDefName s with
     | none => false
     | some name =>
       -- statements up to the next definition of the same name, if there is one
       let rec go (l : List Node) (used : Bool) : Bool :=
         match l with
         | [] => false
         | t :: l' => if macroDefName t == some name then used else go l' (used || callsName name t)
       go rest false)
    || macroRedefinedAfterUse rest

def wholeStatements (asts : List String) : List Node :=
  match asts.head?.bind parseAst with
  | some (.stmts l) => l
  | _ => []

/-- class of a failing case: the chunk texts are RE-PRINTED statements, so the print/parse findings recorded for
C02/C03 apply.  `statement-starts-with-prefix-operator` is recognised on the text; any other way in which the
re-printed chunks parse back to different statements is reported as `printer-changes-program`; a script that
redefines a macro after using it is the recorded hoisting finding. -/
def chunkClass (texts : List Bytes) (asts : List String) : String :=
  if texts.any lineStartsWithPrefixOp then "statement-starts-with-prefix-operator"
  else if !reparsesSame asts then "printer-changes-program"
  else if macroRedefinedAfterUse (wholeStatements asts) then "macro-redefined-after-use-in-one-input" else ""

def runCase (inp obs : String) : CaseResult :=
  if obs == "P" then { model := "P", agree := true, stmtModel := true, stmtImpl := true, nontrivial := false, tags := ["parse-error"] } else
  match splitOn inp ';', obs.splitOn " @@ " with
  | [opts, _, mask], texts :: asts :: cfgs =>
    let c : Case := parseOpts opts { prop := "C15", asts := asts.splitOn "|", cfgs := [] }
    let cfgs : List (String × List String) := cfgs.filterMap fun s =>
      if s.length < 2 then none else some ((s.take 1).toString, (s.drop 2).toString.splitOn "/")
    let get := fun (n : String) => (cfgs.lookup n).getD []
    let a := get "A"; let b := get "B"; let cc := get "C"; let d := get "D"
    let stmtImpl := cfgs.length == 4 && statementCfg a && statementCfg b && statementCfg cc && statementCfg d
    let base : Cfg := { maxDepth := c.maxDepth, deadlineAfter := c.steps }
    -- model: the whole on one fresh state, the chunks on another
    let runBoth := fun (cfg : Cfg) => do
      match c.asts with
      | [] => Except.error "no-ast"
      | w :: chunks =>
        let rw ← runSession cfg [w]
        let rc ← runSession cfg chunks
        pure (rw ++ rc)
    let texts := ((splitOn texts ',').filterMap bytesOfHex)
    let klass := if stmtImpl then "" else chunkClass texts c.asts
    let nChunks := c.asts.length - 1
    let clean := a.head?.map cleanRun |>.getD false
    let tags := [if clean then "error-free" else "whole-has-error", if reparsesSame c.asts then "reparses-same" else "printer-changed-program",
                 if mask == "0" then "one-chunk" else if nChunks ≤ 2 then "2-chunks" else if nChunks ≤ 4 then "3-4-chunks" else "5+chunks"]
    match runBoth { base with cacheOn := true }, runBoth { base with cacheOn := false } with
    | .ok r1, .ok r0 =>
      { model := "B:" ++ "/".intercalate r1 ++ " @@ D:" ++ "/".intercalate r0, agree := b == r1 && d == r0,
        stmtModel := statementCfg r1 && statementCfg r0, stmtImpl := stmtImpl, tags := tags, nontrivial := clean, klass := klass }
    | .error w, _ | _, .error w =>
      { model := "declined:" ++ w, agree := false, stmtModel := true, stmtImpl := stmtImpl, unmodelled := true,
        tags := ("declined:" ++ w) :: tags, nontrivial := clean, klass := klass }
  | _, _ => CaseResult.badLine

end Grol.ChunkSuite

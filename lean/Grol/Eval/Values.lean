import Grol.Eval.Types
/-
Evaluator model, part 2: operations on values (object/object.go): Cmp, Equals, Inspect,
Hashable, map and array primitives.  `Except Stop` carries Go panics and "unmodelled".
-/
namespace Grol.E
open Grol.Wire (Bytes)

abbrev R := Except Stop

def toBytes (s : String) : Bytes := s.toUTF8.toList

def f64 (bits : UInt64) : Float := Float.ofBits bits

/-- Go `cmp.Compare` on float64 -/
def cmpFloat (x y : Float) : Int :=
  if x.isNaN then (if y.isNaN then 0 else -1)
  else if y.isNaN then 1
  else if x < y then -1
  else if x > y then 1
  else 0

def cmpInt64' (x y : Int64) : Int := if x < y then -1 else if x > y then 1 else 0

/-- `cmpIntFloat`: exact three-way comparison of an int64 with a float64 -/
def cmpIntFloat (i : Int64) (f : Float) : Int :=
  if f.isNaN then 1
  else if f ≥ 9223372036854775808.0 then -1
  else if f < -9223372036854775808.0 then 1
  else
    let t := if f < 0 then f.ceil else f.floor
    let c := cmpInt64' i t.toInt64
    if c != 0 then c else cmpFloat t f

def cmpInt64 (x y : Int64) : Int := if x < y then -1 else if x > y then 1 else 0

def cmpBytes : Bytes → Bytes → Int
  | [], [] => 0
  | [], _ :: _ => -1
  | _ :: _, [] => 1
  | a :: as, b :: bs => if a < b then -1 else if a > b then 1 else cmpBytes as bs

def cmpStr (a b : String) : Int := cmpBytes (toBytes a) (toBytes b)

mutual
/-- `object.Cmp` on dereferenced values -/
def cmp : Obj → Obj → R Int
  | .int a, .float b => pure (cmpIntFloat a (f64 b))
  | .float a, .int b => pure (-(cmpIntFloat b (f64 a)))
  | .int a, .int b => pure (cmpInt64 a b)
  | .float a, .float b => pure (cmpFloat (f64 a) (f64 b))
  | .bool a, .bool b => pure (if a == b then 0 else if a then 1 else -1)
  | .null, .null => pure 0
  | .error a, .error b => pure (cmpStr a b)
  | .str a, .str b => pure (cmpBytes a b)
  | .func a, .func b => pure (cmpStr a.key b.key)
  | .ext a, .ext b => pure (cmpStr a b)
  | .array a, .array b =>
    if a.length < b.length then pure (-1) else if a.length > b.length then pure 1 else cmpList a b
  | .map _ a, .map _ b =>
    if a.length < b.length then pure (-1) else if a.length > b.length then pure 1 else cmpPairs a b
  | .ret a _, .ret b _ => cmp a b
  | .quote _, .quote _ => throw (.unmodelled "Cmp of quotes (ordered by printed form)")
  -- the Go Cmp dereferences at every level; this pure function sees dereferenced TOP-LEVEL values only, so a
  -- Reference stored inside a container (`[nil]` built inside a function) is outside the modelled subset
  -- (`case REFERENCE: panic` in the Go Cmp is unreachable after `Value()`)
  | .ref .., _ | _, .ref .. => throw (.unmodelled "Cmp of a reference nested in a container")
  | a, b => pure (if a.typeNum < b.typeNum then -1 else 1)
def cmpList : List Obj → List Obj → R Int
  | a :: as, b :: bs => do
    let c ← cmp a b
    if c != 0 then pure c else cmpList as bs
  | _, _ => pure 0
def cmpPairs : List (Obj × Obj) → List (Obj × Obj) → R Int
  | (ka, va) :: as, (kb, vb) :: bs => do
    let c ← cmp ka kb
    if c != 0 then pure c else
    let c ← cmp va vb
    if c != 0 then pure c else cmpPairs as bs
  | _, _ => pure 0
end

/-- `object.Equals` on dereferenced values (no registers in this model) -/
def equals (a b : Obj) : R Bool := do
  if a.typeNum != b.typeNum then pure false else
  let c ← cmp a b
  pure (c == 0)

/-! ### Inspect -/

def hexNib (n : UInt8) : Char := Grol.Wire.hexDigit n

/-- `strconv.Quote` for ASCII content; bytes ≥ 0x80 are outside the modelled subset -/
def quoteBytes (s : Bytes) : R Bytes := do
  let mut out : Bytes := [34]
  for b in s do
    if b == 34 then out := out ++ [92, 34]
    else if b == 92 then out := out ++ [92, 92]
    else if b == 7 then out := out ++ [92, 97]
    else if b == 8 then out := out ++ [92, 98]
    else if b == 12 then out := out ++ [92, 102]
    else if b == 10 then out := out ++ [92, 110]
    else if b == 13 then out := out ++ [92, 114]
    else if b == 9 then out := out ++ [92, 116]
    else if b == 11 then out := out ++ [92, 118]
    else if b < 32 || b == 127 then
      out := out ++ ([92, 120, (hexNib (b >>> 4)).toNat.toUInt8, (hexNib (b &&& 15)).toNat.toUInt8] : Bytes)
    else if b < 128 then out := out ++ [b]
    else throw (.unmodelled "Quote of non-ASCII byte")
  pure (out ++ [34])

def int64Str (v : Int64) : String := toString v.toInt

/-- `strconv.FormatFloat(f, 'f', -1, 64)`: modelled for integral values below 2^53 only -/
def floatStr (bits : UInt64) : R String :=
  let f := f64 bits
  if f.isNaN then pure "NaN"
  else if f.isInf then pure (if f > 0 then "+Inf" else "-Inf")
  else if f == f.floor && f.abs < 9007199254740992.0 then
    let i := f.toInt64
    if i == 0 && bits != 0 then pure "-0" else pure (int64Str i)
  else throw (.unmodelled "FormatFloat of non-integral float")

mutual
/-- `Object.Inspect` -/
def inspect : Obj → R Bytes
  | .null => pure (toBytes "nil")
  | .bool b => pure (toBytes (if b then "true" else "false"))
  | .int v => pure (toBytes (int64Str v))
  | .float b => do pure (toBytes (← floatStr b))
  | .str s => quoteBytes s
  | .array els => do
    let parts ← inspectList els
    pure ([91] ++ parts ++ [93])
  | .map _ kvs => do
    let parts ← inspectPairs kvs
    pure ([123] ++ parts ++ [125])
  | .func f =>
    match f.name with
    | none => pure (toBytes f.key)
    | some _ => throw (.unmodelled "Inspect of named function")
  | .ext _ => throw (.unmodelled "Inspect of extension")
  | .error m => pure (toBytes ("<err: " ++ m ++ ">"))
  | .ret v _ => inspect v
  | .ref .. => throw (.unmodelled "Inspect of reference")
  | .quote _ => throw (.unmodelled "Inspect of quote")
def inspectList : List Obj → R Bytes
  | [] => pure []
  | [x] => inspect x
  | x :: xs => do pure ((← inspect x) ++ [44] ++ (← inspectList xs))
def inspectPairs : List (Obj × Obj) → R Bytes
  | [] => pure []
  | [(k, v)] => do pure ((← inspect k) ++ [58] ++ (← inspect v))
  | (k, v) :: xs => do pure ((← inspect k) ++ [58] ++ (← inspect v) ++ [44] ++ (← inspectPairs xs))
end

/-! ### Hashable and Go map-key equality (eval/memo.go) -/

mutual
def hashable (cfg : Cfg) : Obj → Bool
  | .int _ | .float _ | .bool _ | .null | .str _ => true
  | .array els => els.length ≤ cfg.maxSmallArray && hashableList cfg els
  | .map big kvs => !big && hashablePairs cfg kvs
  | _ => false
def hashableList (cfg : Cfg) : List Obj → Bool
  | [] => true
  | x :: xs => hashable cfg x && hashableList cfg xs
def hashablePairs (cfg : Cfg) : List (Obj × Obj) → Bool
  | [] => true
  | (k, v) :: xs => hashable cfg k && hashable cfg v && hashablePairs cfg xs
end

mutual
/-- Go `==` on interface values holding hashable objects (map key equality) -/
def keyEq : Obj → Obj → Bool
  | .int a, .int b => a == b
  | .float a, .float b => f64 a == f64 b
  | .bool a, .bool b => a == b
  | .null, .null => true
  | .str a, .str b => a == b
  | .array a, .array b => keyEqList a b
  | .map _ a, .map _ b => keyEqPairs a b
  | _, _ => false
def keyEqList : List Obj → List Obj → Bool
  | [], [] => true
  | a :: as, b :: bs => keyEq a b && keyEqList as bs
  | _, _ => false
def keyEqPairs : List (Obj × Obj) → List (Obj × Obj) → Bool
  | [], [] => true
  | (ka, va) :: as, (kb, vb) :: bs => keyEq ka kb && keyEq va vb && keyEqPairs as bs
  | _, _ => false
end

/-! ### maps (SmallMap / BigMap as sorted association lists) -/

/-- sorted lookup as `SmallMap.get` / `BigMap.get` (binary search finds the same index on a
sorted list): (value, found, index) -/
def mapFind (kvs : List (Obj × Obj)) (key : Obj) : R (Option Obj × Nat) :=
  go kvs 0
where
  go : List (Obj × Obj) → Nat → R (Option Obj × Nat)
    | [], i => pure (none, i)
    | (k, v) :: rest, i => do
      let c ← cmp k key
      if c == 1 then pure (none, i)
      else if c == 0 then pure (some v, i)
      else go rest (i + 1)

def mapGet (kvs : List (Obj × Obj)) (key : Obj) : R (Option Obj) := do
  pure (← mapFind kvs key).1

/-- `Map.Set`: returns (big?, pairs) -/
def mapSet (cfg : Cfg) (big : Bool) (kvs : List (Obj × Obj)) (key val : Obj) : R (Bool × List (Obj × Obj)) := do
  let (found, i) ← mapFind kvs key
  match found with
  | some _ => pure (big, kvs.set i (oldKey kvs i key, val))
  | none =>
    let kvs' := kvs.take i ++ [(key, val)] ++ kvs.drop i
    pure (big || kvs'.length > cfg.maxSmallMap, kvs')
where
  /-- on update the Go code keeps the *old* key object and replaces only the value -/
  oldKey (kvs : List (Obj × Obj)) (i : Nat) (key : Obj) : Obj :=
    match kvs[i]? with
    | some (k, _) => k
    | none => key

def mapDelete (kvs : List (Obj × Obj)) (key : Obj) : R (Option (List (Obj × Obj))) := do
  let (found, i) ← mapFind kvs key
  match found with
  | some _ => pure (some (kvs.eraseIdx i))
  | none => pure none

/-- `NewMapSize(n)` -/
def newMapBig (cfg : Cfg) (n : Nat) : Bool := n > cfg.maxSmallMap

/-- `Map.Append` (left + right) -/
def mapAppend (cfg : Cfg) (lbig : Bool) (l : List (Obj × Obj)) (r : List (Obj × Obj)) : R (Bool × List (Obj × Obj)) := do
  -- SmallMap.Append with a small right operand starts from a SmallMap copy and Sets each pair;
  -- every other case builds a fresh BigMap
  let startBig := lbig || r.length > cfg.maxSmallMap
  let mut acc : Bool × List (Obj × Obj) := (startBig, l)
  for (k, v) in r do
    acc ← mapSet cfg acc.1 acc.2 k v
  pure acc

def keyKey : Obj := .str (toBytes "key")
def valueKey : Obj := .str (toBytes "value")
def errKey : Obj := .str (toBytes "err")

/-- `makeFirst`: {"key":k,"value":v} as a small map -/
def makeFirst (k v : Obj) : Obj := .map false [(keyKey, k), (valueKey, v)]

end Grol.E

import Grol.Eval.Values
/-
Evaluator model, part 3: environments (object/state.go): frames on a heap, references,
Get / makeRef / SetNoChecks / CreateOrSet / Delete, miss counters for the memoization purity
test.
-/
namespace Grol.E

abbrev M := ExceptT Stop (StateM St)

def stop (s : Stop) : M α := throw s

def liftR (r : R α) : M α :=
  match r with
  | .ok a => pure a
  | .error e => throw e

def getFrame (e : Nat) : M Frame := do
  let st ← get
  match st.frames[e]? with
  | some f => pure f
  | none => stop (.goPanic "nil environment")

def setFrame (e : Nat) (f : Frame) : M Unit :=
  modify fun st => { st with frames := st.frames.setIfInBounds e f }

def modifyFrame (e : Nat) (g : Frame → Frame) : M Unit := do
  let f ← getFrame e
  setFrame e (g f)

def newFrame (f : Frame) : M Nat := do
  let st ← get
  set { st with frames := st.frames.push f }
  pure st.frames.size

def lookupStore (store : List (String × Obj)) (name : String) : Option Obj :=
  match store with
  | [] => none
  | (k, v) :: rest => if k == name then some v else lookupStore rest name

def setStore (store : List (String × Obj)) (name : String) (v : Obj) : List (String × Obj) :=
  match store with
  | [] => [(name, v)]
  | (k, w) :: rest => if k == name then (k, v) :: rest else (k, w) :: setStore rest name v

def delStore (store : List (String × Obj)) (name : String) : List (String × Obj) :=
  store.filter fun kv => kv.1 != name

/-- `object.Constant`: all-caps identifiers (digits and `_` allowed after the first char) -/
def isConstant (name : String) : Bool :=
  go name.toList true
where
  go : List Char → Bool → Bool
    | [], _ => true
    | c :: rest, first =>
      if !first && (c == '_' || ('0' ≤ c && c ≤ '9')) then go rest false
      else if c < 'A' || c > 'Z' then false
      else go rest false

/-- `Reference.ObjValue()`: a deleted target reads as nil (never a Go nil interface) -/
def refValue (env : Nat) (name : String) : M Obj := do
  let f ← getFrame env
  match lookupStore f.store name with
  | some (.ref e n) => if e == env && n == name then stop (.goPanic "Self reference") else pure (.ref e n)
  | some v => pure v
  | none => pure .null

def refAlive (env : Nat) (name : String) : M Bool := do
  let f ← getFrame env
  pure (lookupStore f.store name).isSome

/-- `object.Value`: dereference.  Every hop must lead to a strictly shallower environment (the
cycle guard of `Value`), which bounds the number of hops; the fuel (one more than the number of
frames) only makes the recursion structural. -/
def valueOf (o : Obj) : M Obj := do
  go ((← get).frames.size + 1) o
where
  go : Nat → Obj → M Obj
    | n + 1, .ref e name => do
      let v ← refValue e name
      match v with
      | .ref e' _ =>
        if (← getFrame e').depth ≥ (← getFrame e).depth then stop (.goPanic "Reference cycle")
      | _ => pure ()
      go n v
    | 0, .ref .. => stop .fuel
    | _, o => pure o

def isFuncObj : Obj → Bool
  | .func _ => true
  | _ => false

/-- `(*Environment).TriggerNoCache` -/
def triggerNoCache (e : Nat) : M Unit :=
  modifyFrame e fun f => { f with cantCache := true, getMiss := f.getMiss + 1 }

/-- the reference `makeRef` hands out for `name` found in frame `o`: the original reference
instead of a reference to a reference -/
def refTo (o : Nat) (name : String) : Obj → Obj
  | .ref e' n' => .ref e' n'
  | _ => .ref o name

/-- `(*Environment).makeRef` -/
def makeRef (orig : Nat) (name : String) : M (Option Obj) := do
  let st ← get
  go st.frames.size orig
where
  go : Nat → Nat → M (Option Obj)
    | 0, _ => pure none
    | fuel + 1, e => do
      let f ← getFrame e
      match f.outer with
      | none => pure none
      | some o =>
        let fo ← getFrame o
        match lookupStore fo.store name with
        | none => go fuel o
        | some obj =>
          let r : Obj := refTo o name obj
          modifyFrame orig fun f => { f with store := setStore f.store name r }
          -- only a constant of the top level scope is the same for every call
          let refDepth ← match r with
            | .ref e' _ => do pure (← getFrame e').depth
            | _ => pure 0
          -- nor is a function held by a variable of an enclosing CALL (repo fix: `mk=func(g){func(x){g(x)}}`): only top level functions
          if !(isConstant name && refDepth == 0) && !(isFuncObj obj && refDepth == 0) then
            modifyFrame orig fun f => { f with getMiss := f.getMiss + 1 }
          pure (some r)

/-- `(*Environment).Get` -/
def envGet (e : Nat) (name : String) : M (Option Obj) := do
  if name == "info" then stop (.unmodelled "info")
  let f ← getFrame e
  if name == "self" then
    match f.function with
    | some fn => return some (.func fn)
    | none => return none
  match f.function with
  | some fn => if fn.name == some name then return some (.func fn)
  | none => pure ()
  match lookupStore f.store name with
  | some (.ref re rn) =>
    if !(← refAlive re rn) then
      -- the referenced variable was deleted: forget the stale reference and look again
      modifyFrame e fun f => { f with store := delStore f.store name }
      match f.outer with
      | none => pure none
      | some _ => makeRef e name
    else
      let tgt ← refValue re rn
      let refDepth := (← getFrame re).depth
      if !(isConstant rn && refDepth == 0) && !(isFuncObj tgt && refDepth == 0) then
        modifyFrame e fun f => { f with getMiss := f.getMiss + 1 }
      pure (some (.ref re rn))
  | some obj => pure (some obj)
  | none =>
    match f.outer with
    | none => pure none
    | some _ => makeRef e name

/-- `(*Environment).noteLocal`: a function stored in a binding of a non top level frame -/
def noteLocal (f : Frame) (val : Obj) (rootFn : Bool) : Bool :=
  f.localFunc || (decide (f.depth > 0) && (isFuncObj val || rootFn))

/-- the top level (depth 0) frame binds `name` to a function (`rootOf().store[name]` is a FUNC) -/
def rootFnOf (st : St) (name : String) : Bool :=
  match st.frames[st.root]? with
  | some rf =>
    (match lookupStore rf.store name with
     | some o => isFuncObj o && rf.depth == 0
     | none => false)
  | none => false

def rootBindsFunc (name : String) : M Bool := do pure (rootFnOf (← get) name)

/-- `(*Environment).create` -/
def envCreate (e : Nat) (name : String) (val : Obj) : M Obj := do
  let val ← valueOf val
  let rb ← rootBindsFunc name
  modifyFrame e fun f =>
    { f with store := setStore f.store name val, numSet := if f.depth == 0 then f.numSet + 1 else f.numSet,
             localFunc := noteLocal f val rb }
  pure val

/-- `(*Environment).functionChanged`: `old` is the previous value of a binding about to be overwritten or deleted.
When it is a function, the results remembered for its callers are stale: the call doing the change gets a miss
and the cache is emptied (the Go code bumps `FunctionGeneration`, and `applyFunction` drops the cache at its next
lookup: nothing is stored in between, every call in flight having a miss). -/
def functionChanged (writer : Nat) (old : Option Obj) : M Unit := do
  match old with
  | some o =>
    if isFuncObj o then
      modifyFrame writer fun f => { f with getMiss := f.getMiss + 1 }
      modify fun st => { st with cache := [] }
  | none => pure ()

/-- the store part of `(*Environment).update`: `writer` is the environment doing the assignment, `e`/`name` the
binding that is overwritten (the target of the reference when the name was bound to one) -/
def envStoreAt (writer e : Nat) (name : String) (val : Obj) : M Obj := do
  let fr ← getFrame e
  functionChanged writer (lookupStore fr.store name)
  let rb ← rootBindsFunc name
  modifyFrame e fun f =>
    { f with store := setStore f.store name val, numSet := if f.depth == 0 then f.numSet + 1 else f.numSet,
             localFunc := noteLocal f val rb }
  pure val

/-- the binding `update` writes: the target of the reference when the name is bound to one -/
def updTarget (e : Nat) (name : String) : Obj → Nat × String
  | .ref re rn => (re, rn)
  | _ => (e, name)

/-- `(*Environment).update` -/
def envUpdate (e : Nat) (name : String) (found val : Obj) : M Obj := do
  let val ← match val with
    | .ref .. => valueOf val
    | _ => pure val
  envStoreAt e (updTarget e name found).1 (updTarget e name found).2 val

/-- `(*Environment).SetNoChecks` -/
def setNoChecks (e : Nat) (name : String) (val : Obj) (create : Bool) : M Obj := do
  if create then return ← envCreate e name val
  let f ← getFrame e
  match lookupStore f.store name with
  | some r => envUpdate e name r val
  | none =>
    match ← makeRef e name with
    | some (.ref re rn) =>
      let v ← valueOf val
      let fr ← getFrame re
      functionChanged e (lookupStore fr.store rn)
      let rb ← rootBindsFunc rn
      modifyFrame re fun f => { f with store := setStore f.store rn v, localFunc := noteLocal f v rb }
      pure val
    | _ => envCreate e name val

mutual
/-- `sameTypes` of object/state.go: same type, and for arrays and maps the same types element by element
(containers hold values, never references) -/
def sameTypes : Obj → Obj → Bool
  | .array a, .array b => sameTypesList a b
  | .map _ a, .map _ b => sameTypesPairs a b
  | a, b => a.typeNum == b.typeNum
def sameTypesList : List Obj → List Obj → Bool
  | a :: as, b :: bs => sameTypes a b && sameTypesList as bs
  | [], [] => true
  | _, _ => false
def sameTypesPairs : List (Obj × Obj) → List (Obj × Obj) → Bool
  | (ka, va) :: as, (kb, vb) :: bs => sameTypes ka kb && sameTypes va vb && sameTypesPairs as bs
  | [], [] => true
  | _, _ => false
end

/-- `(*Environment).CreateOrSet` -/
def createOrSet (e : Nat) (name : String) (val : Obj) (create : Bool) : M Obj := do
  if isConstant name then
    match ← envGet e name with
    | some old =>
      -- sameValue = Equals (type test on the raw objects: a Reference is not type-equal to a value; then Cmp)
      -- and the same types at every level
      let same ← if old.typeNum != val.typeNum then pure false else do
        let o ← valueOf old
        let v ← valueOf val
        pure ((← liftR (cmp o v)) == 0 && sameTypes o v)
      if !same then
        return .error ("attempt to change constant " ++ name)
    | none => pure ()
  let st ← get
  if st.extNames.contains name then
    return .error ("attempt to change internal function " ++ name)
  setNoChecks e name val create

/-- `(*Environment).Set` -/
def envSet (e : Nat) (name : String) (val : Obj) : M Obj := createOrSet e name val false

/-- `(*Environment).Delete` -/
def envDelete (e : Nat) (name : String) : M Obj := do
  let st ← get
  go st.frames.size e
where
  go : Nat → Nat → M Obj
    | 0, _ => pure (.bool false)
    | fuel + 1, e => do
      let f ← getFrame e
      let f := if f.depth == 0 then { f with numSet := f.numSet + 1 } else f
      match lookupStore f.store name with
      | some old =>
        setFrame e { f with store := delStore f.store name }
        functionChanged e (some old)
        pure (.bool true)
      | none =>
        setFrame e f
        match f.outer with
        | some o => go fuel o
        | none => pure (.bool false)

end Grol.E

import Grol.Eval.Sexp
/-
Session model for C10 ("a failed input leaves no trace in the session"): what `repl.EvalOne`
does around `runInput` (Sexp.lean: evaluation + recover + Reset) — inputs that never reach the
evaluator (parse error, incomplete input), the per-input deadline (`options.MaxDuration` →
`SetContext`), the text the REPL prints for the result, and the state fields the harness observes
after each input (depth, scope, writer, globals).
-/
namespace Grol.E
open Grol.Wire (Bytes)

/-- what `EvalOne` installs before evaluating: the session's own writer (a single fresh one in the
model: `s.Out = savedOut` in the recover, nothing else ever replaces it) and a fresh context -/
def startInput (st : St) : St := { st with outs := [[]], steps := 0 }

/-- one input evaluated under its own deadline (`SetContext(ctx, options.MaxDuration)`): the deadline
is a property of the input's context, not of the session -/
def runInputD (deadline : Option Nat) (st : St) (prog : Node) : St × Except String InputObs :=
  let d0 := st.cfg.deadlineAfter
  let (st', r) := runInput { st with cfg := { st.cfg with deadlineAfter := deadline } } prog
  ({ st' with cfg := { st'.cfg with deadlineAfter := d0 } }, r)

/-- an input as `evalOne` classifies it after parsing -/
inductive Item where
  | prog (p : Node)
  /-- parser errors: reported, nothing evaluated -/
  | parseError
  /-- line mode, more input needed: nothing evaluated -/
  | incomplete
  deriving Inhabited

/-- the text `evalOne` prints for the result (`fmt.Fprintln(out, obj.Inspect())`): `none` when the
model cannot render it (floats, named functions …) -/
def printedResult (st : St) (prog : Node) : Option Bytes :=
  match ((eval defaultFuel prog).run (startInput st) |>.run).1 with
  | .ok v =>
    match inspect v with
    | .ok b => some (b ++ [10])
    | .error _ => none
  | .error _ => some []

/-- the globals (root scope, pre-seeded identifiers excluded) sorted by name, values rendered -/
def globalsList (st : St) : List (String × String) :=
  match st.frames[st.root]? with
  | none => []
  | some f =>
    let items := f.store.filter (fun kv => !extraIdentifiers.contains kv.1)
    items.foldl (fun acc kv => insertSortedStr (kv.1, renderValue st kv.2) acc) []

/-- the harness's delta encoding of a globals dump against the previous one -/
def globalsDelta (prev cur : List (String × String)) : String :=
  let changed := (cur.filter fun kv => prev.lookup kv.1 != some kv.2).map fun kv => (kv.1, kv.1 ++ "=" ++ kv.2)
  let removed := (prev.filter fun kv => (cur.lookup kv.1).isNone).map fun kv => (kv.1, kv.1 ++ "!")
  let all := (changed ++ removed).foldl (fun acc kv => insertSortedStr kv acc) []
  if all.isEmpty then "=" else ",".intercalate (all.map (·.2))

/-- the observation of one input of a session: what was written to the session's writer, what the
REPL printed as the result (`none` = not rendered by the model), the three flags `EvalOne` returns,
and the session state afterwards -/
structure SessObs where
  out : Bytes := []
  res : Option Bytes := some []
  isErr : Bool := false
  panicked : Bool := false
  cont : Bool := false
  depth : Nat
  atRoot : Bool
  /-- the next input starts on a single writer: the session's -/
  writerOk : Bool
  numReg : Nat := 0
  globals : List (String × String)

def stateObs (st : St) : SessObs :=
  { depth := st.depth, atRoot := st.cur == st.root, writerOk := (startInput st).outs.length == 1, globals := globalsList st }

/-- one session input: `EvalOne` on a persistent state -/
def sessionInput (deadline : Option Nat) (st : St) (it : Item) : St × Except String SessObs :=
  match it with
  | .parseError => (st, .ok { stateObs st with isErr := true })
  | .incomplete => (st, .ok { stateObs st with cont := true })
  | .prog p =>
    let (st', r) := runInputD deadline st p
    match r with
    | .error w => (st', .error w)
    | .ok o =>
      let panicked := o.panic != "-"
      let res := if panicked then some [] else printedResult { st with cfg := { st.cfg with deadlineAfter := deadline } } p
      (st', .ok { stateObs st' with out := o.out, res := res, isErr := o.isErr || panicked, panicked := panicked })

end Grol.E

import Grol.Eval.Macro
/-
The HAND-SUBSTITUTION specification of macro expansion (C13), as total structural recursions over
`Node` / `List Node`: "the template with every `unquote(p)` replaced by the tree bound to `p`"
(`handSubst`) and "every macro call of the program replaced by its substituted template, arguments
first" (`handExpand`).  Nothing here mentions `modify`, the callbacks or the evaluator model.

These are the functions the `macro` correspondence suite (MacroSuite.lean) judges the REAL
implementation against, and the functions of the whole-program theorem
`Grol.Macro.C13.expand_is_hand_substitution` (GrolProofs/Props/C13Global.lean): the oracle of the
suite is literally the function in the theorem.
-/
namespace Grol.Macro
open Grol.E

/-- the name of an identifier node -/
def identName : Node → Option String
  | .ident p => some p
  | _ => none

/-- `some p` exactly for the node `unquote(p)` with `p` an identifier (builtin name, parameter list) -/
def unquoteParam (n : String) (ps : List Node) : Option String :=
  if n = "UNQUOTE" then
    match ps with
    | [x] => identName x
    | _ => none
  else none

mutual
/-- all `unquote` nodes of the template are `unquote(p)` with `p` one of the parameters `ps` -/
def handParamOnly (ps : List String) : Node → Bool
  | .builtin n l =>
    if n = "UNQUOTE" then
      match unquoteParam n l with
      | some p => ps.contains p
      | none => false
    else handParamOnlyList ps l
  | .pre _ r => handParamOnly ps r
  | .inf _ l r => handParamOnly ps l && handParamOnly ps r
  | .stmts l => handParamOnlyList ps l
  | .ifE c a b => handParamOnly ps c && handParamOnly ps a && handParamOnly ps b
  | .forE c b => handParamOnly ps c && handParamOnly ps b
  | .ret v => handParamOnly ps v
  | .fn _ _ _ _ _ b => handParamOnly ps b
  | .call f as => handParamOnly ps f && handParamOnlyList ps as
  | .arr els => handParamOnlyList ps els
  | .mapLit ks vs => handParamOnlyList ps ks && handParamOnlyList ps vs
  | .idx _ l i => handParamOnly ps l && handParamOnly ps i
  | .macroLit _ b => handParamOnly ps b
  | .ident _ => true
  | .int _ => true
  | .float _ => true
  | .str _ => true
  | .bool _ => true
  | .post _ _ => true
  | .none => true
  | .ctl _ => true
  | .comment => true
def handParamOnlyList (ps : List String) : List Node → Bool
  | [] => true
  | x :: xs => handParamOnly ps x && handParamOnlyList ps xs
end

mutual
/-- the template with every `unquote(p)` replaced by the tree bound to `p` (first binding of `p` in
`env`; an unbound `p` gives the nil node — excluded by `handParamOnly`), everything else copied -/
def handSubst (env : List (String × Node)) : Node → Node
  | .builtin n l =>
    match unquoteParam n l with
    | some p => (env.lookup p).getD .none
    | none => .builtin n (handSubstList env l)
  | .pre op r => .pre op (handSubst env r)
  | .inf op l r => .inf op (handSubst env l) (handSubst env r)
  | .stmts l => .stmts (handSubstList env l)
  | .ifE c a b => .ifE (handSubst env c) (handSubst env a) (handSubst env b)
  | .forE c b => .forE (handSubst env c) (handSubst env b)
  | .ret v => .ret (handSubst env v)
  | .fn a b c d e body => .fn a b c d e (handSubst env body)
  | .call f as => .call (handSubst env f) (handSubstList env as)
  | .arr els => .arr (handSubstList env els)
  | .mapLit ks vs => .mapLit (handSubstList env ks) (handSubstList env vs)
  | .idx t l i => .idx t (handSubst env l) (handSubst env i)
  | .macroLit ps b => .macroLit ps (handSubst env b)
  | .ident n => .ident n
  | .int v => .int v
  | .float b => .float b
  | .str s => .str s
  | .bool b => .bool b
  | .post op n => .post op n
  | .none => .none
  | .ctl k => .ctl k
  | .comment => .comment
def handSubstList (env : List (String × Node)) : List Node → List Node
  | [] => []
  | x :: xs => handSubst env x :: handSubstList env xs
end

/-- pairwise distinct names -/
def distinct : List String → Bool
  | [] => true
  | x :: xs => !xs.contains x && distinct xs

/-- a macro inside the property's quantifier: body = one `quote(T)`, distinct parameters none of which
is `info` / `self`, every unquote in `T` names a parameter -/
def simpleTemplate (m : MacroDef) : Option Node :=
  match m.body with
  | .stmts [.builtin "QUOTE" [t]] =>
    if distinct m.params && !m.params.contains "info" && !m.params.contains "self" && handParamOnly m.params t
    then some t else none
  | _ => none

/-- a call whose callee `f'` and arguments `as'` are already expanded: kept when the callee is not an
identifier bound in the store; else the macro's template with the parameters replaced by `as'`.
`none` (the program is outside the property's quantifier): the macro is not simple, the arity is
wrong, or the macro is named `info` / `self` (such a definition is stored but `Environment.Get`
never answers it, so the implementation keeps the call — see `isMacroCall`; a programmer
substituting by hand would not: no claim is made). -/
def handCall (store : Store) (f' : Node) (as' : List Node) : Option Node :=
  match identName f' with
  | none => some (.call f' as')
  | some name =>
    match lookupDef store name with
    | none => some (.call f' as')
    | some m =>
      if name == "info" || name == "self" then none
      else match simpleTemplate m with
        | none => none
        | some t => if as'.length != m.params.length then none else some (handSubst (m.params.zip as') t)

mutual
/-- every macro call of the program replaced by its substituted template, arguments first, at every
depth.  `none`: the program is outside the quantifier (see `handCall`). -/
def handExpand (store : Store) : Node → Option Node
  | .pre op r => do pure (.pre op (← handExpand store r))
  | .inf op l r => do
    let l' ← handExpand store l
    let r' ← handExpand store r
    pure (.inf op l' r')
  | .stmts l => do pure (.stmts (← handExpandList store l))
  | .ifE c a b => do
    let c' ← handExpand store c
    let a' ← handExpand store a
    let b' ← handExpand store b
    pure (.ifE c' a' b')
  | .forE c b => do
    let c' ← handExpand store c
    let b' ← handExpand store b
    pure (.forE c' b')
  | .ret v => do pure (.ret (← handExpand store v))
  | .builtin n ps => do pure (.builtin n (← handExpandList store ps))
  | .fn a b c d e body => do pure (.fn a b c d e (← handExpand store body))
  | .arr els => do pure (.arr (← handExpandList store els))
  | .mapLit ks vs => do
    let ks' ← handExpandList store ks
    let vs' ← handExpandList store vs
    pure (.mapLit ks' vs')
  | .idx t l i => do
    let l' ← handExpand store l
    let i' ← handExpand store i
    pure (.idx t l' i')
  | .macroLit ps b => do pure (.macroLit ps (← handExpand store b))
  | .call f as => do
    let f' ← handExpand store f
    let as' ← handExpandList store as
    handCall store f' as'
  | .ident n => some (.ident n)
  | .int v => some (.int v)
  | .float b => some (.float b)
  | .str s => some (.str s)
  | .bool b => some (.bool b)
  | .post op n => some (.post op n)
  | .none => some .none
  | .ctl k => some (.ctl k)
  | .comment => some .comment
def handExpandList (store : Store) : List Node → Option (List Node)
  | [] => some []
  | x :: xs => do
    let x' ← handExpand store x
    let xs' ← handExpandList store xs
    pure (x' :: xs')
end

end Grol.Macro

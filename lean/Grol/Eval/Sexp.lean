import Grol.Eval.Eval
/-
Evaluator model, part 6: reading the AST dump written by the harness (evaldump.go), rendering
values in the harness's canonical syntax, and running a session (a list of inputs on one
persistent state), mirroring repl.EvalOne's recover + Reset.
-/
namespace Grol.E
open Grol.Wire (Bytes bytesOfHex hexOfBytes)

inductive Sx where
  | atom (s : String)
  | list (l : List Sx)
  deriving Inhabited

def tokenize (s : String) : List String :=
  let s := s.replace "(" " ( " |>.replace ")" " ) "
  (s.splitOn " ").filter (· ≠ "")

partial def parseSx : List String → Option (Sx × List String)
  | [] => none
  | "(" :: rest =>
    let rec items (toks : List String) (acc : List Sx) : Option (List Sx × List String) :=
      match toks with
      | [] => none
      | ")" :: r => some (acc.reverse, r)
      | _ =>
        match parseSx toks with
        | some (x, r) => items r (x :: acc)
        | none => none
    match items rest [] with
    | some (l, r) => some (.list l, r)
    | none => none
  | ")" :: _ => none
  | a :: rest => some (.atom a, rest)

def hexStr (h : String) : Option String := do
  let b ← bytesOfHex h
  String.fromUTF8? (ByteArray.mk b.toArray)

def boolOf (s : String) : Bool := s == "1"

partial def nodeOfSx : Sx → Option Node
  | .atom "nil" => some .none
  | .atom _ => none
  | .list (.atom tag :: args) =>
    match tag, args with
    | "id", [.atom h] => do pure (.ident (← hexStr h))
    | "int", [.atom d] => do pure (.int (Int64.ofInt (← d.toInt?)))
    | "float", [.atom h] => do
      let b ← bytesOfHex h
      pure (.float (b.foldl (fun acc x => acc <<< 8 ||| x.toUInt64) 0))
    | "str", [.atom h] => do pure (.str (← bytesOfHex h))
    | "bool", [.atom b] => pure (.bool (boolOf b))
    | "pre", [.atom op, r] => do pure (.pre op (← nodeOfSx r))
    | "post", [.atom op, .atom h] => do pure (.post op (← hexStr h))
    | "in", [.atom op, l, r] => do pure (.inf op (← nodeOfSx l) (← nodeOfSx r))
    | "stmts", l => do pure (.stmts (← l.mapM nodeOfSx))
    | "if", [c, a, b] => do pure (.ifE (← nodeOfSx c) (← nodeOfSx a) (← nodeOfSx b))
    | "for", [c, b] => do pure (.forE (← nodeOfSx c) (← nodeOfSx b))
    | "ctl", [.atom k] => pure (.ctl k)
    | "ret", [v] => do pure (.ret (← nodeOfSx v))
    | "bi", .atom name :: ps => do pure (.builtin name (← ps.mapM nodeOfSx))
    | "fn", [.atom name, .atom variadic, .atom lambda, .atom key, .list (.atom "params" :: ps), body] => do
      let name ← if name == "-" then pure none else some <$> hexStr name
      let params ← ps.mapM fun p => match p with
        | .atom h => hexStr h
        | _ => none
      pure (.fn name params (boolOf variadic) (boolOf lambda) (← hexStr key) (← nodeOfSx body))
    | "call", f :: as => do pure (.call (← nodeOfSx f) (← as.mapM nodeOfSx))
    | "arr", els => do pure (.arr (← els.mapM nodeOfSx))
    | "map", kvs => do
      let ns ← kvs.mapM nodeOfSx
      let rec split : List Node → List Node × List Node
        | k :: v :: rest => let (ks, vs) := split rest; (k :: ks, v :: vs)
        | _ => ([], [])
      let (ks, vs) := split ns
      pure (.mapLit ks vs)
    | "idx", [.atom tok, l, i] => do pure (.idx tok (← nodeOfSx l) (← nodeOfSx i))
    | "cmt", [] => pure .comment
    | "macro", [.list (.atom "params" :: ps), body] => do
      let params ← ps.mapM fun p => match p with
        | .atom h => hexStr h
        | _ => none
      pure (.macroLit params (← nodeOfSx body))
    | _, _ => none
  | .list _ => none

def parseAst (s : String) : Option Node :=
  match parseSx (tokenize s) with
  | some (sx, []) => nodeOfSx sx
  | _ => none

/-! ### value rendering (same syntax as the harness's dumpValue) -/

def hexOrDash (b : Bytes) : String := if b.isEmpty then "-" else hexOfBytes b

def hex16 (v : UInt64) : String :=
  String.ofList ((List.range 16).map fun i => Grol.Wire.hexDigit ((v >>> (60 - 4 * i).toUInt64) &&& 15).toUInt8)

mutual
/-- the rendering of a value, given how a reference `(frame, name)` renders (`k`) -/
def renderObjW (k : Nat → String → String) : Obj → String
  | .null => "n"
  | .bool b => if b then "t" else "f"
  | .int v => "i" ++ toString v.toInt
  | .float b => if (f64 b).isNaN then "dNaN" else "d" ++ hex16 b
  | .str s => "s" ++ hexOrDash s
  | .error _ => "E"
  | .ret v _ => "R(" ++ renderObjW k v ++ ")"
  | .func f => "F" ++ hexOrDash (toBytes f.key)
  | .ext n => "X" ++ n
  | .ref e n => k e n
  | .quote _ => "Q"
  | .array els => "a[" ++ ",".intercalate (renderListW k els) ++ "]"
  | .map _ kvs => "m[" ++ ",".intercalate (renderPairsW k kvs) ++ "]"
def renderListW (k : Nat → String → String) : List Obj → List String
  | [] => []
  | x :: xs => renderObjW k x :: renderListW k xs
def renderPairsW (k : Nat → String → String) : List (Obj × Obj) → List String
  | [] => []
  | (a, b) :: xs => (renderObjW k a ++ ":" ++ renderObjW k b) :: renderPairsW k xs
end

/-- rendering with a bound on the number of references followed one after the other (a reference
renders as its target; `?deep` marks a chain longer than the bound, which no evaluation produces:
reference chains are as long as the call depth at most) -/
def renderFuel (st : St) : Nat → Obj → String
  | 0 => renderObjW (fun _ _ => "?deep")
  | fuel + 1 => renderObjW (fun e n =>
      match st.frames[e]? with
      | some f => match lookupStore f.store n with
        | some v => renderFuel st fuel v
        | none => "?nil"
      | none => "?nil")

/-- the typed value rendering of the `eval` wire format (total: structural over the value, with an
explicit bound where it follows a reference) -/
def renderValue (st : St) (v : Obj) : String := renderFuel st 1000 v

def insertSortedStr (x : String × String) : List (String × String) → List (String × String)
  | [] => [x]
  | y :: ys => if cmpStr x.1 y.1 < 0 then x :: y :: ys else y :: insertSortedStr x ys

/-- pre-seeded identifiers of the root environment (extensions/extension.go) -/
def extraIdentifiers : List String := ["nil", "null", "NaN", "Inf", "PI", "E", "printf", "abs", "keys", "log2", "str"]

def renderGlobals (st : St) : String :=
  match st.frames[st.root]? with
  | none => ""
  | some f =>
    let items := f.store.filter (fun kv => !extraIdentifiers.contains kv.1)
    let sorted := items.foldl (fun acc kv => insertSortedStr (kv.1, renderValue st kv.2) acc) []
    ",".intercalate (sorted.map fun (k, v) => k ++ "=" ++ v)

/-! ### sessions -/

/-- every gofunc name registered by extensions.Init(nil) in the harness configuration; identifiers
with these names evaluate to extension objects (which the model then declines to call) -/
def defaultExtNames : List String :=
  ["acos","asin","atan","atan2","base64","ceil","cos","defun","eof","eval","exp","floor","format",
   "image.add","image.close_path","image.cube_to","image.draw","image.draw_hsl","image.draw_ycbcr",
   "image.line_to","image.move_to","image.new","image.png","image.quad_to","image.save","image.set",
   "image.set_hsl","image.set_ycbcr","int","join","json","json_go","ln","load","log10","max","min",
   "pow","rand","read","regexp","regsub","round","rune_len","runes","save","sin","sleep","split",
   "sprintf","sqrt","tan","time.info","time.now","time.parse","trim","trim_left","trim_right","trunc",
   "type","unjson","width"]

def nanBits : UInt64 := 0x7FF8000000000001
def infBits : UInt64 := 0x7FF0000000000000

/-- `eval.NewState()`: root environment with the pre-seeded data identifiers (the grol-defined
helpers printf/abs/keys/log2/str are not modelled: a program touching them is declined) -/
def initState (cfg : Cfg) : St :=
  let root : Frame := { store := [("nil", .null), ("null", .null), ("NaN", .float nanBits), ("Inf", .float infBits),
                                  ("PI", .float 0x400921FB54442D18), ("E", .float 0x4005BF0A8B145769)] }
  { cfg := cfg, frames := #[root], extNames := defaultExtNames }

def unmodelledRootNames : List String := ["printf", "abs", "keys", "log2", "str"]

structure InputObs where
  out : Bytes
  val : String
  isErr : Bool
  panic : String
  globals : String

def InputObs.render (o : InputObs) : String :=
  s!"o={hexOrDash o.out};v={o.val};e={if o.isErr then "1" else "0"};p={o.panic};g={o.globals}"

/-- does the program mention an identifier the model has no binding for? -/
partial def mentions (names : List String) : Node → Bool
  | .ident n => names.contains n
  | .pre _ r => mentions names r
  | .post _ n => names.contains n
  | .inf _ l r => mentions names l || mentions names r
  | .stmts l => l.any (mentions names)
  | .ifE c a b => mentions names c || mentions names a || mentions names b
  | .forE c b => mentions names c || mentions names b
  | .ret v => mentions names v
  | .builtin _ ps => ps.any (mentions names)
  | .fn _ _ _ _ _ b => mentions names b
  | .macroLit _ b => mentions names b
  | .call f as => mentions names f || as.any (mentions names)
  | .arr els => els.any (mentions names)
  | .mapLit ks vs => ks.any (mentions names) || vs.any (mentions names)
  | .idx _ l i => mentions names l || mentions names i
  | _ => false

def defaultFuel : Nat := 20000

/-- one input on a persistent state: `evalOne` + the recover/Reset of `EvalOne`.
Returns the new state and either the observation or the reason the model declines. -/
def runInput (st : St) (prog : Node) : St × Except String InputObs :=
  if mentions unmodelledRootNames prog then (st, .error "grol-defined root helper") else
  let st0 := { st with outs := [[]], steps := 0 }
  let (r, st1) := (eval defaultFuel prog).run st0 |>.run
  let out := chunksBytes (st1.outs.getLast?.getD [])
  match r with
  | .ok v =>
    (st1, .ok { out := out, val := renderValue st1 v, isErr := v.isError, panic := "-", globals := renderGlobals st1 })
  | .error (.goPanic _) =>
    -- output written while a call's private buffer was installed is lost
    let st2 := { st1 with cur := st1.root, depth := 0 }
    (st2, .ok { out := out, val := "-", isErr := false, panic := "go", globals := renderGlobals st2 })
  | .error .depthGuard =>
    let st2 := { st1 with cur := st1.root, depth := 0 }
    (st2, .ok { out := out, val := "-", isErr := false, panic := "depth", globals := renderGlobals st2 })
  | .error .fuel => (st1, .error "fuel")
  | .error (.unmodelled w) => (st1, .error w)

end Grol.E

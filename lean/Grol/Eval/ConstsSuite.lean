import Grol.Eval.HazardSession
/-
Driver side of the `consts` suite and the executable statement of C19
("constants cannot be changed by any path").  Cases: harness/cmd/harness/consts.go.

Statement (`stmt`), evaluated on the observations of one configuration (the four
implementation configurations and the two model runs alike).  For every constant name N
(`object.Constant`: all upper case, digits and `_` after the first character) that occurs in
some dump of the globals:
  * the history considered ends before the first input whose syntax tree contains `del(N)`
    (explicit deletion is allowed, afterwards the name may be rebound);
  * from the first input after which N is bound, to value v0 (typed dump), every later dump
    binds N to a dump `==` v0;
  * an input that consists of the identifier N alone (the read probe the generator places after
    every attempt) evaluates to v0 or to an error;
  * an input `lc9()` (local probe, second family: the constant is a LOCAL of that call, bound to the literal the
    top-level constant REF9 holds) evaluates to REF9's value or to an error.
-/
namespace Grol.ConstsSuite
open Grol.E Grol.Wire Grol.EvalSuite Grol.Hazard

def hexOfName (n : String) : String := hexOfBytes n.toUTF8.toList

def delMentioned (ast name : String) : Bool :=
  (ast.splitOn ("(bi DEL (id " ++ hexOfName name ++ "))")).length > 1

def isProbe (ast name : String) : Bool := ast == "(stmts (id " ++ hexOfName name ++ "))"

def isConstName (n : String) : Bool := !n.isEmpty && isConstant n

/-- the LOCAL probe of the second family (harness/cmd/harness/consts2.go): the input `lc9()`.  `lc9` binds a constant
as a local of its call (by `=`, `:=` or as a parameter) to the literal the top-level constant `REF9` holds, lets the
attempts run and ends with the bare name: the call is an error or evaluates to exactly REF9's value -/
def isLocalProbe (ast : String) : Bool := ast == "(stmts (call (id " ++ hexOfName "lc9" ++ ")))"

def localProbesOk : List String → List String → List (List (String × String)) → Bool
  | a :: as, o :: os, g :: gs =>
    (if isLocalProbe a && o != "P" then
        field o "e" == "1" || field o "p" != "-" || (match g.lookup "REF9" with
          | some v0 => field o "v" == v0
          | none => false)
      else true) && localProbesOk as os gs
  | _, _, _ => true

def constNames (gs : List (List (String × String))) : List String :=
  gs.foldl (fun acc g => g.foldl (fun acc kv =>
    if isConstName kv.1 && !acc.contains kv.1 then acc ++ [kv.1] else acc) acc) []

/-- `asts`, raw observations and their parsed globals, in step -/
def stmtFor (name : String) : List String → List String → List (List (String × String)) → Option String → Bool
  | a :: as, o :: os, g :: gs, orig =>
    if delMentioned a name then true
    else if o == "P" then stmtFor name as os gs orig
    else
      let cur := g.lookup name
      let probeOk := match orig with
        | some v0 => !isProbe a name || field o "e" == "1" || field o "v" == v0
        | none => true
      match orig, cur with
      | none, c => stmtFor name as os gs c
      | some v0, some v => v == v0 && probeOk && stmtFor name as os gs orig
      | some _, none => false
  | _, _, _, _ => true

/-- C19 on one configuration's observations -/
def stmt (asts obs : List String) : Bool :=
  let gs := obs.map globalsOf
  ((constNames gs).all fun n => stmtFor n asts obs gs none) && localProbesOk asts obs gs

def typeTag (obs : List String) : String :=
  match obs.head? with
  | some o => match (globalsOf o).head? with
    | some (_, v) => "bound:" ++ (v.take 1).toString ++ (if v.length > 40 then "(large)" else "")
    | none => "bound:none"
  | none => "bound:none"

def runCase (inp obs : String) : CaseResult :=
  match parseCase inp obs with
  | none => CaseResult.badLine
  | some c =>
    let a := cfgObs c "A"; let b := cfgObs c "B"; let cc := cfgObs c "C"; let d := cfgObs c "D"
    let base : Cfg := { maxDepth := c.maxDepth, deadlineAfter := c.steps }
    let m1 := runSessionH { base with cacheOn := true } c.asts
    let m0 := runSessionH { base with cacheOn := false } c.asts
    let stmtImpl := stmt c.asts a && stmt c.asts b && stmt c.asts cc && stmt c.asts d
    let nontrivial := !a.all (· == "P")
    match m1, m0 with
    | .ok h1, .ok h0 =>
      let r1 := h1.map (·.1); let r0 := h0.map (·.1)
      let model := "B:" ++ "/".intercalate r1 ++ " @@ D:" ++ "/".intercalate r0
      -- only in-place operations through a NON-constant name can excuse a difference here: a write
      -- through the constant's own name must be refused (or copy) exactly as in the model
      let okHaz := fun h => !isConstName (hazardName h) && hazardClass h != "large-array-append-shares-capacity"
      let hz0 := sharedHazards c.asts r0 (h0.map (·.2))
      let hz1 := if h1 == h0 then hz0 else sharedHazards c.asts r1 (h1.map (·.2))
      let (diff, explained, k) := combine
        [classify true okHaz hz1 b r1, classify true okHaz hz0 d r0, classify true okHaz hz1 a r1, classify true okHaz hz0 cc r0]
      let anyErr := a.any fun o => (o.splitOn ";e=1;").length > 1
      let tags := [typeTag r0, if anyErr then "some-attempt-refused" else "no-error",
                   if diff then (if explained then "differs-in-class:" ++ k else "differs") else "same-as-model"]
      let stmtModel := stmt c.asts r1 && stmt c.asts r0
      -- (the model itself changes a bound constant only on the success path of the check in `createOrSet`,
      -- which since repo fix 923cb5e demands the same types at every level: a failing `stmtModel` has no class)
      let k := if diff && explained then k else ""
      { model := model, agree := (b == r1 && d == r0) || (diff && explained), stmtModel := stmtModel,
        stmtImpl := stmtImpl, tags := tags, nontrivial := nontrivial, klass := k }
    | .error w, _ | _, .error w =>
      { model := "declined:" ++ w, agree := false, stmtModel := true, stmtImpl := stmtImpl, unmodelled := true,
        tags := ["declined:" ++ w], nontrivial := nontrivial }

end Grol.ConstsSuite

import Grol.Suite
import Grol.Save
import Grol.Printer
/-
Driver side of the `saveload` suite and the executable statement of C14
(harness/cmd/harness/saveload.go describes the line format).

The model recomputes, from the typed dump of the globals, the bytes `SaveGlobals` writes (without
and with the `MaxValueLen` of the case) and the count it returns; `agree` compares them with the
implementation's.  The statement is evaluated on the implementation's observation: what the two
fresh states hold after loading the saved bytes, the second save, the calls, the file paths.
-/
namespace Grol.SaveSuite
open Grol.Wire Grol.E Grol.Save

/-! ### reading the dump -/

def nanBits : UInt64 := 0x7FF8000000000001

structure PS where
  rest : List Char
  /-- printed text of every float met (bit pattern → `Float.Inspect()` of the implementation) -/
  ft : List (UInt64 × String) := []

abbrev P := StateT PS Option

def peek? : P (Option Char) := do pure (← get).rest.head?
def advance : P Unit := modify fun s => { s with rest := s.rest.tail }
def expect (c : Char) : P Unit := do
  match (← get).rest with
  | d :: r => if c == d then modify fun s => { s with rest := r } else failure
  | [] => failure

def isHexChar (c : Char) : Bool := ('0' ≤ c && c ≤ '9') || ('a' ≤ c && c ≤ 'f')

def takeWhileP (p : Char → Bool) : P String := do
  let s ← get
  let pre := s.rest.takeWhile p
  set { s with rest := s.rest.drop pre.length }
  pure (String.ofList pre)

/-- a hex field: `-` (empty) or hex digits -/
def hexField : P Bytes := do
  match (← peek?) with
  | some '-' => advance; pure []
  | _ =>
    let h ← takeWhileP isHexChar
    match bytesOfHexAux h.toList with
    | some b => pure b
    | none => failure

def strOfBytes (b : Bytes) : P String :=
  match String.fromUTF8? (ByteArray.mk b.toArray) with
  | some s => pure s
  | none => failure

def u64OfHex (h : String) : UInt64 :=
  h.toList.foldl (fun acc c => acc <<< 4 ||| ((hexVal c).getD 0).toUInt64) 0

partial def value : P Obj := do
  match (← peek?) with
  | some 'n' => advance; pure .null
  | some 't' => advance; pure (.bool true)
  | some 'f' => advance; pure (.bool false)
  | some 'i' =>
    advance
    let d ← takeWhileP fun c => c == '-' || c.isDigit
    match d.toInt? with
    | some v => pure (.int (Int64.ofInt v))
    | none => failure
  | some 'd' =>
    advance
    let bits ← (do
      match (← peek?) with
      | some 'N' => let _ ← takeWhileP fun c => c == 'N' || c == 'a'; pure nanBits
      | _ => pure (u64OfHex (← takeWhileP isHexChar)))
    expect '~'
    let txt ← strOfBytes (← hexField)
    modify fun s => { s with ft := (bits, txt) :: s.ft }
    pure (.float bits)
  | some 's' => advance; pure (.str (← hexField))
  | some 'a' =>
    advance; expect '['
    pure (.array (← items []))
  | some 'm' => advance; expect '['; pure (.map false (← pairs []))
  | some 'M' => advance; expect '['; pure (.map true (← pairs []))
  | some 'F' =>
    advance
    let nm ← hexField
    expect '~'
    let key ← strOfBytes (← hexField)
    expect '~'
    let clo ← takeWhileP fun c => c == '0' || c == '1'
    expect '~'
    let rep ← takeWhileP fun c => c == '0' || c == '1' || c == 'c' || c == 'a'
    let name ← if nm.isEmpty then pure none else some <$> strOfBytes nm
    -- `env` carries the two flags of the dump: +1 = defined inside a function call; +2 / +4 / +8 = the printed
    -- form parses back to the same tree only up to comments / only up to re-association of chains of one
    -- associative operator (`a+(b+c)` printed `a+b+c`: the recorded printer finding) / not at all (no class)
    pure (.func { name := name, params := [], variadic := false, lambda := name.isNone, key := key, body := .none,
                  env := (if clo == "1" then 1 else 0) + (if rep == "c" then 2 else if rep == "a" then 4 else if rep == "0" then 8 else 0) })
  | some 'X' => advance; let n ← takeWhileP fun c => c.isAlphanum || c == '_' || c == '.'; pure (.ext n)
  | some 'E' => advance; pure (.error "")
  | some 'Q' => advance; pure (.quote .none)
  | _ => failure
where
  items (acc : List Obj) : P (List Obj) := do
    match (← peek?) with
    | some ']' => advance; pure acc.reverse
    | some ',' => advance; items acc
    | _ => let v ← value; items (v :: acc)
  pairs (acc : List (Obj × Obj)) : P (List (Obj × Obj)) := do
    match (← peek?) with
    | some ']' => advance; pure acc.reverse
    | some ',' => advance; pairs acc
    | _ =>
      let k ← value
      expect ':'
      let v ← value
      pairs ((k, v) :: acc)

partial def globalsP (acc : List Binding) : P (List Binding) := do
  match (← peek?) with
  | none => pure acc.reverse
  | some ',' => advance; globalsP acc
  | some c =>
    let extra := c == '*'
    if extra then advance
    let name ← takeWhileP fun c => c != '='
    expect '='
    let v ← value
    globalsP ({ name := toBytes name, extra := extra, val := v } :: acc)

def parseGlobals (s : String) : Option (List Binding × List (UInt64 × String)) :=
  match (globalsP []).run { rest := s.toList } with
  | some (bs, ps) => some (bs, ps.ft)
  | none => none

/-! ### observation -/

structure Reload where
  errs : Nat
  globals : List Binding
  /-- the second save is byte-identical -/
  resaveSame : Bool

structure Obs where
  globals : List Binding
  ft : List (UInt64 × String)
  saved : Bytes
  n : Int
  lines : Reload
  whole : Reload
  /-- bytes saved with the case's MaxValueLen (`none` when the limit is 0) -/
  limited : Option Bytes
  calls : List (String × String × String)
  files : String

def field (fs : List String) (k : String) : Option String :=
  (fs.find? (·.startsWith (k ++ "="))).map fun f => (f.drop (k.length + 1)).toString

def parseReload (s : String) : Option Reload :=
  match splitOn s '!' with
  | [e, g, r] => do
    let (bs, _) ← parseGlobals g
    pure { errs := (← e.toNat?), globals := bs, resaveSame := r == "=" }
  | _ => none

def parseObs (s : String) : Option Obs := do
  let fs := splitOn s ';'
  let (g, ft) ← parseGlobals (← field fs "G")
  let saved ← bytesOfHex (← field fs "S")
  let n ← (← field fs "n").toInt?
  let l ← parseReload (← field fs "L")
  let w ← parseReload (← field fs "W")
  let m ← field fs "M"
  let limited ← if m == "=" then pure none else some <$> bytesOfHex m
  let c ← field fs "C"
  let calls ← (if c.isEmpty then some [] else (splitOn c '|').mapM fun t =>
    match splitOn t '^' with
    | [a, b, d] => some (a, b, d)
    | _ => none)
  pure { globals := g, ft := ft, saved := saved, n := n, lines := l, whole := w, limited := limited, calls := calls,
         files := ← field fs "X" }

/-! ### the model's part -/

/-- the driver's `Fmt`: full strconv.Quote (printer model, generated IsPrint table); float texts as
printed by the implementation, the model's own `floatStr` when the dump has none -/
def driverFmt (ft : List (UInt64 × String)) : Fmt :=
  { quote := fun s => pure (Grol.Printer.quote Grol.Printer.isPrintTable s)
    float := fun b => match ft.lookup b with
      | some t => pure (toBytes t)
      | none => floatBytes b }

/-- cross-checks between the printers used by the theorems (`stdFmt`), the evaluator model's
(`quoteBytes`, `floatStr`, `int64Str`) and the driver's (printer model's Quote, measured float text),
on every scalar of the case: where `stdFmt` is defined all three agree -/
partial def twinsAgree (ft : List (UInt64 × String)) : Obj → Bool
  | .int v => intBytes v == toBytes (int64Str v)
  | .str s =>
    (match quoteAscii s, quoteBytes s with
      | .ok a, .ok b => a == b && a == Grol.Printer.quote Grol.Printer.isPrintTable s
      | .error _, .error _ => true
      | _, _ => false)
  | .float b =>
    (match floatBytes b, floatStr b with
      | .ok a, .ok t => a == toBytes t && (match ft.lookup b with | some m => a == toBytes m | none => true)
      | .error _, .error _ => true
      | _, _ => false)
  | .array els => els.all (twinsAgree ft)
  | .map _ kvs => kvs.all fun (k, v) => twinsAgree ft k && twinsAgree ft v
  | _ => true

structure ModelObs where
  saved : Bytes
  n : Nat
  limited : Option Bytes

def ModelObs.render (m : ModelObs) : String :=
  s!"S={hexOfBytes m.saved};n={m.n};M={match m.limited with | none => "=" | some b => hexOfBytes b}"

def runModel (maxLen : Nat) (o : Obs) : R ModelObs := do
  let fm := driverFmt o.ft
  let full ← saveGlobals fm 0 o.globals
  let lim ← if maxLen == 0 then pure none else do
    pure (some (fileBytes (← saveGlobals fm maxLen o.globals)))
  pure { saved := fileBytes full, n := full.length, limited := lim }

/-! ### the statement -/

mutual
/-- equal value of the same type (floats by bit pattern, all NaNs alike; functions by name and text) -/
partial def sameVal : Obj → Obj → Bool
  | .null, .null => true
  | .bool a, .bool b => a == b
  | .int a, .int b => a == b
  | .float a, .float b => a == b
  | .str a, .str b => a == b
  | .array a, .array b => a.length == b.length && (a.zip b).all fun (x, y) => sameVal x y
  | .map _ a, .map _ b => a.length == b.length && (a.zip b).all fun ((k, v), (k', v')) => sameVal k k' && sameVal v v'
  | .func f, .func g => f.name == g.name && f.key == g.key
  | .ext a, .ext b => a == b
  | _, _ => false
end

def lookupB (bs : List Binding) (name : Bytes) : Option Obj := (bs.find? (·.name == name)).map (·.val)

/-- `SaveGlobals` writes something for this binding when there is no length limit -/
def isSaved (b : Binding) : Bool := !(constantName b.name && b.extra)

/-- written as `func name(..){..}` (not subject to the length limit) -/
def isDefinition (b : Binding) : Bool :=
  match b.val with
  | .func f => f.name.map toBytes == some b.name
  | _ => false

def splitLines (b : Bytes) : List Bytes :=
  let rec go (cur : Bytes) (acc : List Bytes) : Bytes → List Bytes
    | [] => if cur.isEmpty then acc.reverse else (cur.reverse :: acc).reverse
    | c :: rest => if c == 10 then go [] (cur.reverse :: acc) rest else go (c :: cur) acc rest
  go [] [] b

/-- the lines of the unlimited save that survive the limit: the whole line or nothing -/
def expectedLimited (maxLen : Nat) (saved : List Binding) (lines : List Bytes) : Bytes :=
  ((saved.zip lines).filter fun (b, l) =>
    isDefinition b || l.length - (b.name.length + 1) ≤ maxLen).flatMap fun (_, l) => l ++ [10]

structure Verdict where
  ok : Bool
  /-- names of the saved bindings that did not come back equal (either way of loading) -/
  failing : List Binding
  /-- the same, for the line-by-line load only -/
  failingLines : List Binding
  reasons : List String

def verdict (maxLen : Nat) (saved : Bytes) (n : Int) (o : Obs) : Verdict :=
  let sv := o.globals.filter isSaved
  let lines := splitLines saved
  let oneLine := n == sv.length && lines.length == sv.length && (saved.isEmpty || saved.getLast? == some 10)
  let back (r : Reload) (b : Binding) : Bool :=
    match lookupB r.globals b.name with
    | some v => sameVal b.val v
    | none => false
  let failing := sv.filter fun b => !(back o.lines b && back o.whole b)
  let callsOk := o.calls.all fun (a, b, c) => a == b && a == c
  let limOk := match o.limited with
    | none => true
    | some m => m == expectedLimited maxLen sv lines
  let checks := [("one-line-per-binding", oneLine), ("bindings-equal", failing.isEmpty),
    ("load-errors", o.lines.errs == 0 && o.whole.errs == 0),
    ("second-save", o.lines.resaveSame && o.whole.resaveSame), ("calls", callsOk), ("limit", limOk),
    ("files", o.files.length ≥ 8 && o.files.toList.all (· == '1'))]
  { ok := checks.all (·.2), failing := failing, failingLines := sv.filter (fun b => !back o.lines b), reasons := (checks.filter (!·.2)).map (·.1) }

/-! ### known-finding classes (decided from the value that failed) -/

def minInt64 : Int64 := Int64.ofInt (-9223372036854775808)

/-- the printed float is a run of digits with an optional sign: it reads back as an integer -/
def floatTextIntegral (ft : List (UInt64 × String)) (b : UInt64) : Bool :=
  match ft.lookup b with
  | some t => t.toList.all fun c => c.isDigit || c == '-'
  | none => false

def isInfNaN (b : UInt64) : Bool := (f64 b).isNaN || (f64 b).isInf

partial def anyObj (p : Obj → Bool) : Obj → Bool
  | .array els => p (.array els) || els.any (anyObj p)
  | .map big kvs => p (.map big kvs) || kvs.any fun (k, v) => anyObj p k || anyObj p v
  | v => p v

def classOf (o : Obs) (v : Obj) : String :=
  if anyObj (fun x => match x with | .func f => f.env % 2 == 1 | _ => false) v then "function-captured-variables-not-saved"
  else if anyObj (fun x => match x with | .func f => f.env / 4 == 1 | _ => false) v then "function-compact-text-reparses-differently"
  else if anyObj (fun x => match x with | .func f => f.env / 2 == 1 | _ => false) v then "function-comments-dropped"
  -- an extension function INSIDE an array or a map is printed with its signature and help (top level: by name, repaired)
  else if (match v with | .array _ | .map _ _ => true | _ => false) && anyObj (fun x => match x with | .ext _ => true | _ => false) v then
    "extension-value-inside-container-not-loadable"
  else if anyObj (fun x => match x with | .float b => isInfNaN b | _ => false) v &&
      o.globals.any (fun b =>
        (b.name == toBytes "Inf" && !(match b.val with | .float x => x == 0x7FF0000000000000 | _ => false)) ||
        (b.name == toBytes "NaN" && !(match b.val with | .float x => (f64 x).isNaN | _ => false))) then
    "inf-nan-printed-as-shadowed-identifier"
  else ""

def hasFunc (v : Obj) : Bool := anyObj (fun x => match x with | .func _ => true | _ => false) v

/-- names that loading the file binds AGAIN: a saved binding `h` holds a function named `n ≠ h` (an alias of a named function:
`func f(x){..}; h=f; f=3`), written `h=func n(..){..}`; evaluating that line defines `n` as well, so a global `n` that holds
something else now (saved on an earlier line, the file is sorted) comes back as the function -/
def rebindVictims (o : Obs) : List Bytes :=
  (o.globals.filter isSaved).filterMap fun b =>
    match b.val with
    | .func f =>
      match f.name with
      | some n =>
        let nb := toBytes n
        if nb != b.name && (match lookupB o.globals nb with
            | some (.func g) => g.name != some n
            | some _ => true
            | none => false) then some nb else none
      | none => none
    | _ => none

/-- one class for the case: every failing data binding must be explained by its own value; failing
functions / calls are explained by a closure, or by a classified data binding of the same case -/
def caseClass (o : Obs) (vd : Verdict) : String :=
  if vd.ok then "" else
  -- one line per binding and the length limit are properties of SaveGlobals alone: no recorded finding explains them
  if vd.reasons.contains "one-line-per-binding" || vd.reasons.contains "limit" then "" else
  -- when the whole-file load stopped at an error every binding is missing there: only the line-by-line
  -- load tells which values did not survive
  let dataFail := (if o.whole.errs > 0 then vd.failingLines else vd.failing).filter fun b => !hasFunc b.val
  let dataClasses := dataFail.map fun b => classOf o b.val
  let anyClass := (o.globals.filter isSaved).map (fun b => classOf o b.val) |>.filter (· != "")
  -- a pre-seeded identifier the session deleted is back in every fresh state
  let deleted := ["nil", "null", "NaN", "Inf", "printf", "abs", "keys", "log2", "str"].any fun n =>
    (lookupB o.globals (toBytes n)).isNone
  if deleted && vd.failing.isEmpty && vd.reasons.all (fun r => r == "second-save" || r == "files") then
    "deleted-preseeded-identifier-comes-back"
  else if !(rebindVictims o).isEmpty && !vd.failing.isEmpty && vd.failing.all (fun b => (rebindVictims o).contains b.name) then
    "alias-of-named-function-rebinds-its-name"
  else if dataClasses.any (· == "") then ""
  else match dataClasses with
    | c :: _ => c
    | [] => anyClass.headD ""

def sizeTag (n : Nat) : String := if n ≤ 12 then "≤1" else if n ≤ 16 then "≤5" else ">5"

def kindTags (o : Obs) : List String :=
  let sv := (o.globals.filter isSaved).filter (!·.extra)
  let has (p : Obj → Bool) : Bool := sv.any fun b => anyObj p b.val
  (if has (fun x => match x with | .float _ => true | _ => false) then ["float"] else []) ++
  (if has (fun x => match x with | .str s => s.any (· ≥ 128) | _ => false) then ["str-nonascii"] else []) ++
  (if has (fun x => match x with | .map true _ => true | _ => false) then ["bigmap"] else []) ++
  (if has (fun x => match x with | .array l => l.length > 8 | _ => false) then ["bigarray"] else []) ++
  (if has (fun x => match x with | .func f => f.name.isSome | _ => false) then ["named-func"] else []) ++
  (if has (fun x => match x with | .func f => f.name.isNone | _ => false) then ["lambda"] else [])

def runCase (inp obs : String) : CaseResult :=
  match splitOn inp ';', parseObs obs with
  | [mx, _, _], some o =>
    let maxLen := ((mx.drop 4).toString.toNat?).getD 0
    let vi := verdict maxLen o.saved o.n o
    let klass := caseClass o vi
    let tags := [s!"bindings{sizeTag o.globals.length}", if o.calls.isEmpty then "no-calls" else "calls",
                 if maxLen == 0 then "nolimit" else "limit"] ++ kindTags o ++ vi.reasons.map ("fail-" ++ ·)
    let nontrivial := true
    match runModel maxLen o with
    | .ok m =>
      let agree := m.saved == o.saved && (m.n : Int) == o.n && m.limited == o.limited &&
        o.globals.all (fun b => twinsAgree o.ft b.val)
      let vm := verdict maxLen m.saved m.n { o with limited := m.limited }
      { model := m.render, agree := agree, stmtModel := vm.ok, stmtImpl := vi.ok, tags := tags, nontrivial := nontrivial, klass := klass }
    | .error _ =>
      { model := "declined", agree := true, stmtModel := true, stmtImpl := vi.ok, tags := "declined" :: tags, nontrivial := nontrivial,
        unmodelled := true, klass := klass }
  | _, _ => CaseResult.badLine

end Grol.SaveSuite

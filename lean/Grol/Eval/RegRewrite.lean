import Grol.Eval.Sexp
import Grol.Registers
/-
Model of the register OPTIMISATION of eval/eval.go: `ModifyRegister` (the callback), `ast.Modify`
specialised to it (`modifyRegister`), `setupRegister`, the eligibility test written inline in both callers
(`registerEligible`; its source text is pinned in Grol/Generated/RegFacts.lean) and the decision sequences
of `evalForInteger` / `extendFunctionEnv` (`useRegister`, `useRegisters`).

Representation.  A rewritten body holds `*object.Register` nodes, which the evaluator model's `Node`
has no constructor for.  Adding one to `Node` breaks every exhaustive match and every
constructor-by-constructor proof over `Node` (Macro.lean, MacroExpand, EvalSafe*, Save, Sexp …), so
rewritten bodies live in a separate type `RNode` = `Node` + `reg name idx`; `embed : Node → RNode`
and `erase : RNode → Node` connect the two (`erase (embed b) = b`).  The INPUT of a rewrite is an
`RNode` too: the body of a loop inside a function was already rewritten for the function's integer
parameters (`Modify`'s `default:` case hands a Register node to the callback, which returns it as it is).

`Grol.Macro.modify` (the model of `ast.Modify` written for macros) has type
`(Node → X Node) → Node → X Node`: it cannot build an `RNode`, and it does not pass the parameters of
function and macro literals through the callback (for the macro callbacks that is the identity; here
a parameter named like the register makes the rewrite give up).  `modifyR` below is the same
traversal — same case list, children in the same order, callback applied bottom-up to every rebuilt
node — over `RNode`, with the callback inlined as `cb`.  Two simplifications that do not change the
result: the absent else branch / return value (`none`) is passed to the callback instead of being
skipped (`cb none = some none`), and a map literal's keys are visited before its values instead of
interleaved (the callback has no state but the replacement counter, which is `countIdent`).
-/
namespace Grol.RegRewrite
open Grol.E Grol.Wire

inductive RNode where
  | ident (name : String)
  | int (v : Int64)
  | float (bits : UInt64)
  | str (s : Bytes)
  | bool (b : Bool)
  | pre (op : String) (right : RNode)
  | post (op : String) (name : String)
  | inf (op : String) (l : RNode) (r : RNode)
  | stmts (l : List RNode)
  | none
  | ifE (c : RNode) (cons : RNode) (alt : RNode)
  | forE (c : RNode) (body : RNode)
  | ctl (kind : String)
  | ret (v : RNode)
  | builtin (name : String) (ps : List RNode)
  | fn (name : Option String) (params : List String) (variadic : Bool) (lambda : Bool) (key : String) (body : RNode)
  | call (f : RNode) (args : List RNode)
  | arr (els : List RNode)
  | mapLit (keys : List RNode) (vals : List RNode)
  | idx (tok : String) (l : RNode) (i : RNode)
  | comment
  | macroLit (params : List String) (body : RNode)
  /-- `*object.Register` used as a node: the register `idx` of the environment, standing for `name` -/
  | reg (name : String) (idx : Nat)
  deriving Inhabited, Repr, BEq

mutual
/-- a parsed body as the input of a rewrite -/
def embed : Node → RNode
  | .ident n => .ident n
  | .int v => .int v
  | .float b => .float b
  | .str s => .str s
  | .bool b => .bool b
  | .pre op r => .pre op (embed r)
  | .post op n => .post op n
  | .inf op l r => .inf op (embed l) (embed r)
  | .stmts l => .stmts (embedList l)
  | .none => .none
  | .ifE c a b => .ifE (embed c) (embed a) (embed b)
  | .forE c b => .forE (embed c) (embed b)
  | .ctl k => .ctl k
  | .ret v => .ret (embed v)
  | .builtin t ps => .builtin t (embedList ps)
  | .fn name ps variadic lambda key body => .fn name ps variadic lambda key (embed body)
  | .call f as => .call (embed f) (embedList as)
  | .arr els => .arr (embedList els)
  | .mapLit ks vs => .mapLit (embedList ks) (embedList vs)
  | .idx tok l i => .idx tok (embed l) (embed i)
  | .comment => .comment
  | .macroLit ps body => .macroLit ps (embed body)
def embedList : List Node → List RNode
  | [] => []
  | x :: xs => embed x :: embedList xs
end

mutual
/-- every register node back to the identifier it stands for -/
def erase : RNode → Node
  | .ident n => .ident n
  | .int v => .int v
  | .float b => .float b
  | .str s => .str s
  | .bool b => .bool b
  | .pre op r => .pre op (erase r)
  | .post op n => .post op n
  | .inf op l r => .inf op (erase l) (erase r)
  | .stmts l => .stmts (eraseList l)
  | .none => .none
  | .ifE c a b => .ifE (erase c) (erase a) (erase b)
  | .forE c b => .forE (erase c) (erase b)
  | .ctl k => .ctl k
  | .ret v => .ret (erase v)
  | .builtin t ps => .builtin t (eraseList ps)
  | .fn name ps variadic lambda key body => .fn name ps variadic lambda key (erase body)
  | .call f as => .call (erase f) (eraseList as)
  | .arr els => .arr (eraseList els)
  | .mapLit ks vs => .mapLit (eraseList ks) (eraseList vs)
  | .idx tok l i => .idx tok (erase l) (erase i)
  | .comment => .comment
  | .macroLit ps body => .macroLit ps (erase body)
  | .reg n _ => .ident n
def eraseList : List RNode → List Node
  | [] => []
  | x :: xs => erase x :: eraseList xs
end

/-- `in == ast.Node(register)`: the node is THIS register (pointer equality in Go; a register is
identified by its index in the environment and carries the name it stands for) -/
def isReg (name : String) (idx : Nat) : RNode → Bool
  | .reg n i => n == name && i == idx
  | _ => false

/-- the callee of a call is the identifier `eval` -/
def isEvalIdent : RNode → Bool
  | .ident n => n == "eval"
  | _ => false

/-- `ModifyRegister(register, in)` on a node whose children are already rewritten; `none` = `(nil, false)`.
The six refusals of the callback, in the order of the Go switch (the seventh refusal, a rewritten
parameter of a function or macro literal, is in `ast.Modify` itself: see `modifyR`):
`x++`/`x--`, `x = …`/`x := …`, `m.x`, `++x`/`--x`, `del(x)`, any `quote(…)`, a direct call of `eval`, any function literal. -/
def cb (name : String) (idx : Nat) : RNode → Option RNode
  | .ident n => if n == name then some (.reg name idx) else some (.ident n)
  | .post op p => if p == name then none else some (.post op p)
  | .inf op l r =>
    if (op == "ASSIGN" || op == "DEFINE") && isReg name idx l then none else some (.inf op l r)
  | .idx tok l i => if tok == "DOT" && isReg name idx i then none else some (.idx tok l i)
  | .pre op r => if (op == "INCR" || op == "DECR") && isReg name idx r then none else some (.pre op r)
  -- `quote(…)` keeps its tree as written (repo fix 3rd review: a register inside printed as R[0,x])
  | .builtin t ps =>
    if t == "QUOTE" then none
    else match ps with
      | [p] => if t == "DEL" && isReg name idx p then none else some (.builtin t [p])
      | _ => some (.builtin t ps)
  -- a direct call of `eval` looks variables up by name in the environment
  | .call f as => if isEvalIdent f then none else some (.call f as)
  | .fn .. => none
  | n => some n

mutual
/-- `ast.Modify(node, func(in){ return ModifyRegister(&register, in) })` -/
def modifyR (name : String) (idx : Nat) : RNode → Option RNode
  | .stmts l => do cb name idx (.stmts (← modifyRList name idx l))
  | .inf op l r => do
    let l' ← modifyR name idx l
    let r' ← modifyR name idx r
    cb name idx (.inf op l' r')
  | .pre op r => do cb name idx (.pre op (← modifyR name idx r))
  | .idx tok l i => do
    let l' ← modifyR name idx l
    let i' ← modifyR name idx i
    cb name idx (.idx tok l' i')
  | .ifE c a b => do
    let c' ← modifyR name idx c
    let a' ← modifyR name idx a
    let b' ← modifyR name idx b
    cb name idx (.ifE c' a' b')
  | .forE c b => do
    let c' ← modifyR name idx c
    let b' ← modifyR name idx b
    cb name idx (.forE c' b')
  | .ret v => do cb name idx (.ret (← modifyR name idx v))
  | .fn fname ps variadic lambda key body =>
    -- each parameter is an identifier passed through the callback: one named like the register comes
    -- back as a Register, `id.(*Identifier)` fails, give up
    if ps.contains name then Option.none
    else do cb name idx (.fn fname ps variadic lambda key (← modifyR name idx body))
  | .arr els => do cb name idx (.arr (← modifyRList name idx els))
  | .mapLit ks vs => do
    let ks' ← modifyRList name idx ks
    let vs' ← modifyRList name idx vs
    cb name idx (.mapLit ks' vs')
  | .builtin t ps => do cb name idx (.builtin t (← modifyRList name idx ps))
  | .call f as => do
    let f' ← modifyR name idx f
    let as' ← modifyRList name idx as
    cb name idx (.call f' as')
  | .macroLit ps body =>
    if ps.contains name then Option.none
    else do cb name idx (.macroLit ps (← modifyR name idx body))
  | .ident n => cb name idx (.ident n)
  | .int v => cb name idx (.int v)
  | .float b => cb name idx (.float b)
  | .str s => cb name idx (.str s)
  | .bool b => cb name idx (.bool b)
  | .post op n => cb name idx (.post op n)
  | .none => cb name idx .none
  | .ctl k => cb name idx (.ctl k)
  | .comment => cb name idx .comment
  | .reg n i => cb name idx (.reg n i)
def modifyRList (name : String) (idx : Nat) : List RNode → Option (List RNode)
  | [] => some []
  | x :: xs => do
    let x' ← modifyR name idx x
    let xs' ← modifyRList name idx xs
    pure (x' :: xs')
end

/-- `ast.Modify(body, ModifyRegister(register))` on a parsed body, for register number `idx` -/
def modifyRegister (name : String) (idx : Nat := 0) (body : Node) : Option RNode :=
  modifyR name idx (embed body)

mutual
/-- `register.Count` after a successful rewrite: the identifier nodes named `name` -/
def countIdent (name : String) : RNode → Nat
  | .ident n => if n == name then 1 else 0
  | .pre _ r => countIdent name r
  | .inf _ l r => countIdent name l + countIdent name r
  | .stmts l => countIdentList name l
  | .ifE c a b => countIdent name c + countIdent name a + countIdent name b
  | .forE c b => countIdent name c + countIdent name b
  | .ret v => countIdent name v
  | .builtin _ ps => countIdentList name ps
  | .fn _ _ _ _ _ body => countIdent name body
  | .call f as => countIdent name f + countIdentList name as
  | .arr els => countIdentList name els
  | .mapLit ks vs => countIdentList name ks + countIdentList name vs
  | .idx _ l i => countIdent name l + countIdent name i
  | .macroLit _ body => countIdent name body
  | .int _ | .float _ | .str _ | .bool _ | .post .. | .none | .ctl _ | .comment | .reg .. => 0
def countIdentList (name : String) : List RNode → Nat
  | [] => 0
  | x :: xs => countIdent name x + countIdentList name xs
end


/-! ### the specification of the rewrite (what `GrolProofs/RegRewrite.lean` proves `modifyR` to be)

Written without reference to the traversal: `refuses` says when the variable cannot live in a register,
`substAll` is the body with every identifier node of that name replaced. -/

/-- the node is the variable: its identifier, or the register that stands for it -/
def isVar (name : String) (idx : Nat) : RNode → Bool
  | .ident n => n == name
  | .reg n i => n == name && i == idx
  | _ => false

mutual
/-- the body cannot use a register for `name`: it contains a function literal; `name++`/`name--`;
`name = …`/`name := …` (also as the variable of an inner `for name = …`); `++name`/`--name`; `….name` (the
name as a field); `del(name)`; a `quote(…)`; a direct call `eval(…)`; or a macro literal with a parameter `name` -/
def refuses (name : String) (idx : Nat) : RNode → Bool
  | .fn .. => true
  | .post _ p => p == name
  | .inf op l r =>
    ((op == "ASSIGN" || op == "DEFINE") && isVar name idx l) || refuses name idx l || refuses name idx r
  | .idx tok l i => (tok == "DOT" && isVar name idx i) || refuses name idx l || refuses name idx i
  | .pre op r => ((op == "INCR" || op == "DECR") && isVar name idx r) || refuses name idx r
  | .builtin t ps =>
    t == "QUOTE" || (match ps with
     | [p] => t == "DEL" && isVar name idx p
     | _ => false) || refusesList name idx ps
  | .macroLit ps body => ps.contains name || refuses name idx body
  | .stmts l => refusesList name idx l
  | .ifE c a b => refuses name idx c || refuses name idx a || refuses name idx b
  | .forE c b => refuses name idx c || refuses name idx b
  | .ret v => refuses name idx v
  | .call f as => (isEvalIdent f && name != "eval") || refuses name idx f || refusesList name idx as
  | .arr els => refusesList name idx els
  | .mapLit ks vs => refusesList name idx ks || refusesList name idx vs
  | .ident _ | .int _ | .float _ | .str _ | .bool _ | .none | .ctl _ | .comment | .reg .. => false
def refusesList (name : String) (idx : Nat) : List RNode → Bool
  | [] => false
  | x :: xs => refuses name idx x || refusesList name idx xs
end

mutual
/-- the body with every identifier node `name` replaced by the register, nothing else changed -/
def substAll (name : String) (idx : Nat) : RNode → RNode
  | .ident n => if n == name then .reg name idx else .ident n
  | .pre op r => .pre op (substAll name idx r)
  | .inf op l r => .inf op (substAll name idx l) (substAll name idx r)
  | .stmts l => .stmts (substAllList name idx l)
  | .ifE c a b => .ifE (substAll name idx c) (substAll name idx a) (substAll name idx b)
  | .forE c b => .forE (substAll name idx c) (substAll name idx b)
  | .ret v => .ret (substAll name idx v)
  | .builtin t ps => .builtin t (substAllList name idx ps)
  | .fn fname ps variadic lambda key body => .fn fname ps variadic lambda key (substAll name idx body)
  | .call f as => .call (substAll name idx f) (substAllList name idx as)
  | .arr els => .arr (substAllList name idx els)
  | .mapLit ks vs => .mapLit (substAllList name idx ks) (substAllList name idx vs)
  | .idx tok l i => .idx tok (substAll name idx l) (substAll name idx i)
  | .macroLit ps body => .macroLit ps (substAll name idx body)
  | .int v => .int v
  | .float b => .float b
  | .str s => .str s
  | .bool b => .bool b
  | .post op n => .post op n
  | .none => .none
  | .ctl k => .ctl k
  | .comment => .comment
  | .reg n i => .reg n i
def substAllList (name : String) (idx : Nat) : List RNode → List RNode
  | [] => []
  | x :: xs => substAll name idx x :: substAllList name idx xs
end

mutual
/-- the register nodes `(name, idx)` of a tree -/
def countReg (name : String) (idx : Nat) : RNode → Nat
  | .reg n i => if n == name && i == idx then 1 else 0
  | .pre _ r => countReg name idx r
  | .inf _ l r => countReg name idx l + countReg name idx r
  | .stmts l => countRegList name idx l
  | .ifE c a b => countReg name idx c + countReg name idx a + countReg name idx b
  | .forE c b => countReg name idx c + countReg name idx b
  | .ret v => countReg name idx v
  | .builtin _ ps => countRegList name idx ps
  | .fn _ _ _ _ _ body => countReg name idx body
  | .call f as => countReg name idx f + countRegList name idx as
  | .arr els => countRegList name idx els
  | .mapLit ks vs => countRegList name idx ks + countRegList name idx vs
  | .idx _ l i => countReg name idx l + countReg name idx i
  | .macroLit _ body => countReg name idx body
  | .int _ | .float _ | .str _ | .bool _ | .post .. | .none | .ctl _ | .comment | .ident _ => 0
def countRegList (name : String) (idx : Nat) : List RNode → Nat
  | [] => 0
  | x :: xs => countReg name idx x + countRegList name idx xs
end

/-- `object.ReservedName` as far as it depends on the name alone: `self` and `info` are answered by `Environment.Get`
itself.  (The third kind, names of registered extension functions, depends on the process's registry: the `regrewrite`
suite is told per candidate by the harness and folds it into `isInt`; the eval suite sees it through the configurations.) -/
def reservedName (name : String) : Bool := name == "self" || name == "info"

/-- the test made before looking at the body: `useReg := name != "" && !s.NoReg && s.env.HasRegisters() &&
!object.Constant(name) && !object.ReservedName(name) && !s.env.IsOwnFunctionName(name)` in `evalForInteger` (the last conjunct, like `!ownName`
of the parameter site, is not part of this definition); the same conjunction without `name != ""` (the empty name is a
constant name) in `extendFunctionEnv`, where the integer test and `!ownName` come on top (`isInt` in `useRegister`) -/
def registerEligible (noReg : Bool) (f : Reg.File) (name : String) : Bool :=
  name != "" && !noReg && f.hasRegisters && !isConstant name && !reservedName name

/-- the outcome for one candidate variable -/
structure Decision where
  /-- `registerEligible` held (and the value is an integer): `setupRegister` was called -/
  eligible : Bool := false
  /-- the body could be rewritten -/
  ok : Bool := false
  /-- `register.Count` (meaningful when `ok`) -/
  count : Nat := 0
  /-- the register allocated by `MakeRegister` -/
  idx : Option Nat := Option.none
  /-- the variable lives in the register from here on (the caller keeps it iff `ok`) -/
  kept : Bool := false
  /-- the body to evaluate: rewritten if `ok` and `count > 0`, otherwise the one given -/
  body : RNode
  file : Reg.File

/-- `setupRegister` + what both callers do with its answer (`evalForInteger`: keep the register for the
loop, or release it and use a variable; `extendFunctionEnv`: the same per parameter).  `isInt`: the value
to bind is an integer (always the case for a counted loop). -/
def useRegister (noReg : Bool) (f : Reg.File) (name : String) (isInt : Bool) (v : Int) (body : RNode) :
    Reg.Out Decision :=
  if !(isInt && registerEligible noReg f name) then .ok { body := body, file := f }
  else
    match f.make v with
    | .goPanic s => .goPanic s
    | .ok (idx, f1) =>
      match modifyR name idx body with
      | some b' =>
        let c := countIdent name body
        .ok { eligible := true, ok := true, count := c, idx := some idx, kept := true,
              body := if c == 0 then body else b', file := f1 }
      | Option.none =>
        match f1.release idx with
        | .goPanic s => .goPanic s
        | .ok f2 => .ok { eligible := true, ok := false, idx := some idx, body := body, file := f2 }

/-- the parameter loop of `extendFunctionEnv` (one step of it is `evalForInteger`'s decision) -/
def useRegisters (noReg : Bool) (f : Reg.File) : List (String × Bool) → Nat → RNode → Reg.Out (List Decision × RNode)
  | [], _, body => .ok ([], body)
  | (name, isInt) :: rest, i, body =>
    -- `!shadowed`: a parameter that a LATER parameter of the same name shadows stays a plain variable (repo fix a353195:
    -- the last one wins, as without registers)
    let isInt := isInt && !(rest.any fun p => p.1 == name)
    match useRegister noReg f name isInt i body with
    | .goPanic s => .goPanic s
    | .ok d =>
      match useRegisters noReg d.file rest (i + 1) d.body with
      | .goPanic s => .goPanic s
      | .ok (ds, b) => .ok (d :: ds, b)

end Grol.RegRewrite

import Grol.Wire
/-
Evaluator model, part 1: syntax trees as the evaluator sees them, values, frames, state.

Mirrors ast/ast.go (node kinds), object/object.go (values) and object/state.go
(Environment).  Integers are Go int64 (`Int64`, wrap-around), floats are carried as IEEE bit
patterns, strings are byte lists.  Containers have value semantics in this model (the
in-place aliasing of large arrays/maps in the Go code is a recorded finding, see DESIGN C06);
integer registers are not modelled (this is the `NoReg` configuration).
-/
namespace Grol.E
open Grol.Wire (Bytes)

inductive Node where
  | ident (name : String)
  | int (v : Int64)
  | float (bits : UInt64)
  | str (s : Bytes)
  | bool (b : Bool)
  /-- op = token type name (MINUS, BANG, INCR, …) -/
  | pre (op : String) (right : Node)
  | post (op : String) (name : String)
  | inf (op : String) (l : Node) (r : Node)
  | stmts (l : List Node)
  /-- a Go nil pointer where a node was expected (absent else branch, absent slice end, …) -/
  | none
  | ifE (c : Node) (cons : Node) (alt : Node)
  | forE (c : Node) (body : Node)
  | ctl (kind : String)
  | ret (v : Node)
  | builtin (name : String) (ps : List Node)
  | fn (name : Option String) (params : List String) (variadic : Bool) (lambda : Bool) (key : String) (body : Node)
  | call (f : Node) (args : List Node)
  | arr (els : List Node)
  | mapLit (keys : List Node) (vals : List Node)
  /-- tok = DOT or LBRACKET -/
  | idx (tok : String) (l : Node) (i : Node)
  | comment
  /-- `macro(params){body}`; body is the `.stmts` block -/
  | macroLit (params : List String) (body : Node)
  deriving Inhabited, Repr

/-- `node.Value().Type()` as the evaluator consults it -/
def Node.tokType : Node → String
  | .ident _ => "IDENT"
  | .int _ => "INT"
  | .float _ => "FLOAT"
  | .str _ => "STRING"
  | .bool b => if b then "TRUE" else "FALSE"
  | .pre op _ => op
  | .post op _ => op
  | .inf op _ _ => op
  | .stmts _ => "LBRACE"
  | .none => "NIL"
  | .ifE .. => "IF"
  | .forE .. => "FOR"
  | .ctl k => k
  | .ret _ => "RETURN"
  | .builtin n _ => n
  | .fn _ _ _ l _ _ => if l then "LAMBDA" else "FUNC"
  | .call .. => "LPAREN"
  | .arr _ => "LBRACKET"
  | .mapLit .. => "LBRACE"
  | .idx t _ _ => t
  | .comment => "LINECOMMENT"
  | .macroLit .. => "MACRO"

/-- `node.Value().Literal()` where the evaluator uses it (identifier and string tokens) -/
def Node.literal : Node → String
  | .ident n => n
  | .str s => (String.fromUTF8? (ByteArray.mk s.toArray)).getD ""
  | _ => ""

/-- the literal as bytes (string literals may hold arbitrary bytes) -/
def Node.literalBytes : Node → Bytes
  | .ident n => n.toUTF8.toList
  | .str s => s
  | _ => []

structure FuncVal where
  name : Option String
  params : List String
  variadic : Bool
  lambda : Bool
  key : String
  body : Node
  env : Nat
  deriving Inhabited

inductive Obj where
  | null
  | bool (b : Bool)
  | int (v : Int64)
  | float (bits : UInt64)
  | str (s : Bytes)
  | array (els : List Obj)
  /-- `big` = the Go value is a *BigMap (matters only for Hashable) -/
  | map (big : Bool) (kvs : List (Obj × Obj))
  | func (f : FuncVal)
  | ext (name : String)
  | error (msg : String)
  | ret (v : Obj) (kind : String)
  | ref (env : Nat) (name : String)
  | quote (n : Node)
  deriving Inhabited

/-- object.Type, in iota order (the cross-type ordering of Cmp) -/
def Obj.typeNum : Obj → Nat
  | .int _ => 1
  | .float _ => 2
  | .bool _ => 3
  | .null => 4
  | .error _ => 5
  | .ret .. => 6
  | .func _ => 7
  | .str _ => 8
  | .array _ => 9
  | .map .. => 10
  | .quote _ => 11
  | .ext _ => 13
  | .ref .. => 14

def Obj.typeName : Obj → String
  | .int _ => "INTEGER"
  | .float _ => "FLOAT"
  | .bool _ => "BOOLEAN"
  | .null => "NIL"
  | .error _ => "ERROR"
  | .ret .. => "RETURN"
  | .func _ => "FUNC"
  | .str _ => "STRING"
  | .array _ => "ARRAY"
  | .map .. => "MAP"
  | .quote _ => "QUOTE"
  | .ext _ => "EXTENSION"
  | .ref .. => "REFERENCE"

def Obj.isError : Obj → Bool
  | .error _ => true
  | _ => false

structure Frame where
  store : List (String × Obj) := []
  outer : Option Nat := none
  depth : Nat := 0
  cacheKey : String := ""
  function : Option FuncVal := none
  getMiss : Nat := 0
  cantCache : Bool := false
  numSet : Nat := 0
  /-- `localFunc`: this function frame, or a frame of the same function it is parented to (recursion), holds a function
  in a local binding (it shadows, for the recursive calls made from here, the top level function of that name) -/
  localFunc : Bool := false
  deriving Inhabited

/-- why evaluation stopped abnormally: a Go panic (with the site), or the model ran out of
fuel (= does not terminate within the budget), or the case is outside the modelled subset -/
inductive Stop where
  | goPanic (site : String)
  | depthGuard
  | fuel
  | unmodelled (what : String)
  deriving Inhabited, Repr

structure Cfg where
  cacheOn : Bool := true
  maxDepth : Nat := 150000
  /-- `Context.Err()` becomes non-nil from this many `evalInternal` entries on -/
  deadlineAfter : Option Nat := none
  maxSmallArray : Nat := 8
  maxSmallMap : Nat := 4
  maxArgs : Nat := 4
  deriving Inhabited

structure CacheEntry where
  key : String
  args : List Obj
  result : Obj
  output : Bytes
  deriving Inhabited

structure St where
  cfg : Cfg := {}
  frames : Array Frame := #[]
  /-- `s.env` -/
  cur : Nat := 0
  /-- `s.rootEnv` -/
  root : Nat := 0
  depth : Nat := 0
  /-- the chain of output writers: head is `s.Out`; each writer is the list of chunks written so
  far, most recent first -/
  outs : List (List Bytes) := [[]]
  cache : List CacheEntry := []
  steps : Nat := 0
  extNames : List String := []
  /-- C06/C19 instrumentation, most recent first, never read by the evaluator: `<class>:<name>` for every
  operation the Go code performs IN PLACE on storage that other bindings may share (index assignment on
  an array above `maxSmallArray`, set/delete on a `*BigMap`, `+` with a large array on the left) -/
  hazards : List String := []
  deriving Inhabited

end Grol.E

import Grol.Suite
import Grol.Eval.Session
/-
Driver side of the `session` suite (C10) and the executable statement of the property.
See harness/cmd/harness/session.go for the line format.  The implementation's observations
come from the real `repl.EvalOne` on one persistent `eval.State` per history.
-/
namespace Grol.SessionSuite
open Grol.E Grol.Wire

/-- one input of run (a): a base input or an inserted failing input -/
structure In where
  fail : Bool
  kind : Char
  ast : String

/-- the fields of one per-input observation -/
structure Obs where
  /-- o, r, e, p, c: what the user sees -/
  o : String
  r : String
  e : String
  p : String
  c : String
  /-- d, t, w, n, g: the session state after the input -/
  d : String
  t : String
  w : String
  n : String
  g : String
  deriving BEq, Inhabited

def field (kvs : List String) (k : String) : String :=
  match kvs.find? (fun kv => kv.startsWith (k ++ "=")) with
  | some kv => (kv.drop (k.length + 1)).toString
  | none => ""

def parseObs (s : String) : Option Obs :=
  match s.splitOn ";g=" with
  | [pre, g] =>
    let kvs := pre.splitOn ";"
    if kvs.length != 9 then none else
    some { o := field kvs "o", r := field kvs "r", e := field kvs "e", p := field kvs "p", c := field kvs "c",
           d := field kvs "d", t := field kvs "t", w := field kvs "w", n := field kvs "n", g := g }
  | _ => none

def Obs.render (x : Obs) : String :=
  s!"o={x.o};r={x.r};e={x.e};p={x.p};c={x.c};d={x.d};t={x.t};w={x.w};n={x.n};g={x.g}"

def Obs.failed (x : Obs) : Bool := x.e == "1" || x.p == "1" || x.c == "1"

/-- **The executable statement of C10** on the two observed histories of one configuration:
`a` = the history with the failing inputs (flag = the input is an inserted failing one), `b` = the
base history alone.

* every base input shows the same output, printed result and flags in both histories, and leaves the
  same depth / scope / writer / register count / globals change;
* after every failing input that did fail: depth 0, scope at the root, the writer is the session's,
  the root register count is what it was before the input, the globals are unchanged.
-/
def statement (a : List (Bool × Obs)) (b : List Obs) : Bool :=
  let baseA := (a.filter (!·.1)).map (·.2)
  let rec clean (prevN : String) : List (Bool × Obs) → Bool
    | [] => true
    | (isFail, x) :: rest =>
      (!(isFail && x.failed) || (x.d == "0" && x.t == "1" && x.w == "1" && x.n == prevN && x.g == "=")) && clean x.n rest
  baseA == b && clean "0" a

/-! ### the model's prediction -/

def b2s (b : Bool) : String := if b then "1" else "0"

def renderSess (prevG : List (String × String)) (x : SessObs) : Obs :=
  { o := hexOrDash x.out,
    r := match x.res with
      | some b => hexOrDash b
      | none => "?",
    e := b2s x.isErr, p := b2s x.panicked, c := b2s x.cont,
    d := toString x.depth, t := b2s x.atRoot, w := b2s x.writerOk, n := toString x.numReg,
    g := globalsDelta prevG x.globals }

def itemOf (ast : String) : Option Item :=
  if ast == "P" then some .parseError
  else if ast == "I" then some .incomplete
  else (parseAst ast).map .prog

/-- the number of `evalInternal` entries after which the context of a deadline input (kind `t`)
reports cancellation in the model; the real deadline is 1 ms of wall-clock time, and the inputs of
that kind loop without side effects, so any instant gives the same observation -/
def modelDeadline : Nat := 64

/-- run the model on a history; `.error` = the model declines (reason) -/
def runHistory (cfg : Cfg) (ins : List In) : Except String (List Obs) := do
  let mut st := initState cfg
  let mut prevG : List (String × String) := []
  let mut res : List Obs := []
  for i in ins do
    match itemOf i.ast with
    | none => throw "ast-parse"
    | some it =>
      let (st', r) := sessionInput (if i.kind == 't' then some modelDeadline else none) st it
      st := st'
      match r with
      | .error w => throw w
      | .ok o =>
        res := res ++ [renderSess prevG o]
        prevG := o.globals
  pure res

/-- implementation and model agree on one input: all fields, except the printed result when it is an
error message (wording) or a value the model does not render -/
def obsAgree (impl model : Obs) : Bool :=
  let r := if impl.e == "1" || model.r == "?" then "" else impl.r
  let r' := if impl.e == "1" || model.r == "?" then "" else model.r
  { impl with r := r } == { model with r := r' }

def listAgree : List Obs → List Obs → Bool
  | [], [] => true
  | x :: xs, y :: ys => obsAgree x y && listAgree xs ys
  | _, _ => false

structure Case where
  maxDepth : Nat := 150000
  ins : List In
  /-- per configuration name: run (a), run (b) -/
  cfgs : List (String × (List Obs × List Obs))

def parseIn (s : String) : Option In :=
  match s.toList with
  | 'B' :: rest => some { fail := false, kind := 'e', ast := String.ofList rest }
  | 'F' :: k :: rest => some { fail := true, kind := k, ast := String.ofList rest }
  | _ => none

def parseRun (s : String) : Option (List Obs) :=
  if s.isEmpty then some [] else (s.splitOn "/").mapM parseObs

def parseCase (inp obs : String) : Option Case := do
  let opts := (splitOn inp ';').headD ""
  let maxDepth := (splitOn opts ',').foldl (fun d kv =>
    match splitOn kv '=' with
    | ["d", n] => n.toNat?.getD d
    | _ => d) 150000
  match obs.splitOn " @@ " with
  | items :: cfgs =>
    let ins ← (items.splitOn "|").mapM parseIn
    let cfgs ← cfgs.mapM fun c =>
      if c.length < 2 then none else
      match ((c.drop 2).toString.splitOn " ## ") with
      | [a, b] => do pure ((c.take 1).toString, (← parseRun a, ← parseRun b))
      | _ => none
    pure { maxDepth := maxDepth, ins := ins, cfgs := cfgs }
  | [] => none

def failTag (i : In) (x : Obs) : String :=
  if !x.failed then "hyp-not-failing"
  else if x.c == "1" then "fail:incomplete"
  else if i.ast == "P" then "fail:parse-error"
  else if x.p == "1" then "fail:recovered-panic"
  else if i.kind == 't' then "fail:deadline"
  else "fail:error"

def dedup (l : List String) : List String := l.foldl (fun acc x => if acc.contains x then acc else acc ++ [x]) []

/-- known-finding class: see known_findings.json -/
def cacheClass : String := "failed-input-leaves-cached-mutable-result"

def runCase (inp obs : String) : CaseResult :=
  -- a base input ran into the wall-clock limit (generated non-terminating loop): timing dependent, void case
  if obs == "DEADLINE" then
    { model := "void", agree := false, stmtModel := true, stmtImpl := true, unmodelled := true,
      tags := ["void:base-input-hit-deadline"], nontrivial := false } else
  match parseCase inp obs with
  | none => CaseResult.badLine
  | some c =>
    let flags := c.ins.map (·.fail)
    let stmtOn (ab : List Obs × List Obs) : Bool :=
      ab.1.length == flags.length && statement (flags.zip ab.1) ab.2
    let names := ["A", "B", "C", "D"]
    let stmtCfg (n : String) : Bool := match c.cfgs.lookup n with
      | some ab => stmtOn ab
      | none => false
    let stmtImpl := names.all stmtCfg
    -- listed finding class (C04's closure-result class seen through C10): the statement fails only with the
    -- function-result cache on - a call completed by the failing input left an entry whose (mutable) result
    -- a later input receives
    let cacheOnlyImpl := !stmtImpl && stmtCfg "C" && stmtCfg "D"
    let implA := ((c.cfgs.lookup "A").getD ([], [])).1
    let failTags := dedup ((c.ins.zip implA).filterMap fun (i, x) => if i.fail then some (failTag i x) else none)
    let nFail := (flags.filter id).length
    let tags := failTags ++ [if nFail > 3 then "failing-inputs>3" else s!"failing-inputs={nFail}"]
    let nontrivial := failTags.any (· != "hyp-not-failing")
    let baseIns := c.ins.filter (!·.fail)
    let model (cacheOn : Bool) : Except String (List Obs × List Obs) := do
      let cfg : Cfg := { maxDepth := c.maxDepth, cacheOn := cacheOn }
      pure (← runHistory cfg c.ins, ← runHistory cfg baseIns)
    match model true, model false with
    | .ok mB, .ok mD =>
      let agreeOn (n : String) (m : List Obs × List Obs) : Bool := match c.cfgs.lookup n with
        | some ab => listAgree ab.1 m.1 && listAgree ab.2 m.2
        | none => false
      let rend (m : List Obs × List Obs) : String :=
        "/".intercalate (m.1.map Obs.render) ++ " ## " ++ "/".intercalate (m.2.map Obs.render)
      { model := "B:" ++ rend mB ++ " @@ D:" ++ rend mD,
        agree := agreeOn "B" mB && agreeOn "D" mD,
        stmtModel := stmtOn mB && stmtOn mD, stmtImpl := stmtImpl, tags := tags, nontrivial := nontrivial,
        klass := if (cacheOnlyImpl || (stmtImpl && !stmtOn mB)) && stmtOn mD then cacheClass else "" }
    | .error w, _ | _, .error w =>
      { model := "declined:" ++ w, agree := false, stmtModel := true, stmtImpl := stmtImpl, unmodelled := true,
        tags := ("declined:" ++ w) :: tags, nontrivial := nontrivial, klass := if cacheOnlyImpl then cacheClass else "" }

end Grol.SessionSuite

import Grol.Suite
import Grol.Eval.RegRewrite
/-
Driver side of the `regrewrite` suite (C05): harness/cmd/harness/regrewrite.go.

  input: <noReg 0|1>;<registers in use>;<hex name>:<isInt>[:<isExt>],…;<hex text>
  obs:   <ast of the body> @@ k<kept>i<idx>/… @@ <ast of the final body>     (P: parse error, E: the call is refused)

The real code is `(*State).extendFunctionEnv` (driven by the hook `eval.VerifSetupRegisters`); what is
observable of its decisions is, per candidate, whether it got a register and which, and the body it
returns (the number of replaced identifiers = the register nodes in it).
`agree`: these = `Grol.RegRewrite.useRegisters` (the operational model: `modifyR`, the traversal of
ast.Modify with the ModifyRegister callback).
Statement (evaluated on the implementation's observation, using only the SPECIFICATION `refuses` /
`substAll` / `registerEligible`, never `modifyR`): for every candidate in turn
  * kept ⇔ integer value ∧ name non-empty ∧ registers enabled ∧ a register is free ∧ not a constant name ∧ not a
    reserved name (`self`, `info`, a registered extension function) ∧ no later candidate of the same name ∧ ¬ refuses; the register is then the next free one, and the number of its nodes in the final tree is the
    number of identifier nodes of that name;
  * the final tree is the body in which exactly the identifier nodes of the kept names became their registers
    (so erasing the registers gives back the body).
-/
namespace Grol.RegRewriteSuite
open Grol.E Grol.Wire Grol.RegRewrite

partial def rnodeOfSx : Sx → Option RNode
  | .atom "nil" => some .none
  | .atom _ => none
  | .list (.atom tag :: args) =>
    match tag, args with
    | "reg", [.atom h, .atom i] => do pure (.reg (← hexStr h) (← i.toNat?))
    | "id", [.atom h] => do pure (.ident (← hexStr h))
    | "int", [.atom d] => do pure (.int (Int64.ofInt (← d.toInt?)))
    | "float", [.atom h] => do
      let b ← bytesOfHex h
      pure (.float (b.foldl (fun acc x => acc <<< 8 ||| x.toUInt64) 0))
    | "str", [.atom h] => do pure (.str (← bytesOfHex h))
    | "bool", [.atom b] => pure (.bool (boolOf b))
    | "pre", [.atom op, r] => do pure (.pre op (← rnodeOfSx r))
    | "post", [.atom op, .atom h] => do pure (.post op (← hexStr h))
    | "in", [.atom op, l, r] => do pure (.inf op (← rnodeOfSx l) (← rnodeOfSx r))
    | "stmts", l => do pure (.stmts (← l.mapM rnodeOfSx))
    | "if", [c, a, b] => do pure (.ifE (← rnodeOfSx c) (← rnodeOfSx a) (← rnodeOfSx b))
    | "for", [c, b] => do pure (.forE (← rnodeOfSx c) (← rnodeOfSx b))
    | "ctl", [.atom k] => pure (.ctl k)
    | "ret", [v] => do pure (.ret (← rnodeOfSx v))
    | "bi", .atom name :: ps => do pure (.builtin name (← ps.mapM rnodeOfSx))
    | "fn", [.atom name, .atom variadic, .atom lambda, .atom key, .list (.atom "params" :: ps), body] => do
      let name ← if name == "-" then pure Option.none else some <$> hexStr name
      let params ← ps.mapM fun p => match p with
        | .atom h => hexStr h
        | _ => Option.none
      pure (.fn name params (boolOf variadic) (boolOf lambda) (← hexStr key) (← rnodeOfSx body))
    | "call", f :: as => do pure (.call (← rnodeOfSx f) (← as.mapM rnodeOfSx))
    | "arr", els => do pure (.arr (← els.mapM rnodeOfSx))
    | "map", kvs => do
      let ns ← kvs.mapM rnodeOfSx
      let rec split : List RNode → List RNode × List RNode
        | k :: v :: rest => let (ks, vs) := split rest; (k :: ks, v :: vs)
        | _ => ([], [])
      let (ks, vs) := split ns
      pure (.mapLit ks vs)
    | "idx", [.atom tok, l, i] => do pure (.idx tok (← rnodeOfSx l) (← rnodeOfSx i))
    | "cmt", [] => pure .comment
    | "macro", [.list (.atom "params" :: ps), body] => do
      let params ← ps.mapM fun p => match p with
        | .atom h => hexStr h
        | _ => Option.none
      pure (.macroLit params (← rnodeOfSx body))
    | _, _ => none
  | .list _ => none

def parseRAst (s : String) : Option RNode :=
  match parseSx (tokenize s) with
  | some (sx, []) => rnodeOfSx sx
  | _ => none

structure Flags where
  kept : Bool
  idx : Option Nat
  /-- number of identifiers replaced (register nodes of that candidate in the final body); 0 if not kept -/
  count : Nat
  deriving BEq

def Flags.render (f : Flags) : String :=
  s!"k{if f.kept then "1" else "0"}i{match f.idx with | some i => toString i | Option.none => "-1"}c{f.count}"

/-- `k1i0` (the count is filled in from the final tree) -/
def parseFlags (s : String) : Option Flags := do
  let s ← if s.startsWith "k" then some (s.drop 1).toString else Option.none
  let (k, i) ← match s.splitOn "i" with | [a, b] => some (a, b) | _ => Option.none
  let idx ← if i == "-1" then some Option.none else some <$> i.toNat?
  pure { kept := k == "1", idx := idx, count := 0 }

structure Case where
  noReg : Bool
  used : Nat
  names : List (String × Bool)

/-- `<hex name>:<isInt>[:<isExt>]`; a candidate named like a registered extension function is never eligible
(`object.ReservedName`): the flag the model calls `isInt` is "integer value and not an extension name" -/
def parseName (ni : String) : Option (String × Bool) :=
  match splitOn ni ':' with
  | [h, i] => do pure (← hexStr h, i == "1")
  | [h, i, x] => do pure (← hexStr h, i == "1" && x != "1")
  | _ => Option.none

def parseInput (inp : String) : Option Case :=
  match splitOn inp ';' with
  | [nr, used, names, _] => do
    let ns ← if names == "" then some [] else (splitOn names ',').mapM parseName
    pure { noReg := nr == "1", used := ← used.toNat?, names := ns }
  | _ => Option.none

def startFile (used : Nat) : Reg.File := { regs := List.replicate 8 0, numReg := min used 8 }

def flagsOf (d : Decision) : Flags :=
  { kept := d.kept, idx := if d.kept then d.idx else Option.none, count := if d.kept then d.count else 0 }

/-- the implementation's flags with the counts read off the final tree it returned -/
def withCounts (final : RNode) : List (String × Bool) → List Flags → List Flags
  | (name, _) :: ns, f :: fs =>
    { f with count := match f.kept, f.idx with
        | true, some i => countReg name i final
        | _, _ => 0 } :: withCounts final ns fs
  | _, fs => fs

/-- the specification run: what the flags and the final tree must be, from `registerEligible`, `refuses`,
`substAll`, `countIdent` only -/
def specRun (noReg : Bool) : Nat → List (String × Bool) → RNode → List Flags × RNode
  | _, [], body => ([], body)
  | numReg, (name, isInt) :: rest, body =>
    let f : Reg.File := { regs := [], numReg := numReg }
    -- a parameter shadowed by a later parameter of the same name is never a register (the last one wins)
    let isInt := isInt && !(rest.any fun p => p.1 == name)
    if !(isInt && registerEligible noReg f name) then
      let (fs, b) := specRun noReg numReg rest body
      ({ kept := false, idx := Option.none, count := 0 } :: fs, b)
    else if refuses name numReg body then
      let (fs, b) := specRun noReg numReg rest body
      ({ kept := false, idx := Option.none, count := 0 } :: fs, b)
    else
      let (fs, b) := specRun noReg (numReg + 1) rest (substAll name numReg body)
      ({ kept := true, idx := some numReg, count := countIdent name body } :: fs, b)

def runCase (inp obs : String) : CaseResult :=
  if obs == "P" || obs == "E" then
    { model := obs, agree := true, stmtModel := true, stmtImpl := true, nontrivial := false,
      tags := [if obs == "P" then "parse-error" else "call-refused"] }
  else match parseInput inp, obs.splitOn " @@ " with
  | some c, [astB, flagsS, astA] =>
    match parseAst astB, parseRAst astA, (if flagsS == "" then some [] else (flagsS.splitOn "/").mapM parseFlags) with
    | some body, some implFinal, some implFlags0 =>
      let implFlags := withCounts implFinal c.names implFlags0
      let (specFlags, specFinal) := specRun c.noReg (min c.used 8) c.names (embed body)
      let stmtImpl := implFlags == specFlags && implFinal == specFinal && embed (erase implFinal) == embed body
      match useRegisters c.noReg (startFile c.used) c.names 0 (embed body) with
      | .goPanic s => { model := "panic:" ++ s, agree := false, stmtModel := false, stmtImpl := stmtImpl }
      | .ok (ds, final) =>
        let mFlags := ds.map flagsOf
        let model := "/".intercalate (mFlags.map Flags.render)
        let tagOf (d : Decision) : String :=
          if !d.eligible then "not-eligible" else if !d.ok then "refused" else if d.count == 0 then "ok-count0" else "rewritten"
        { model := model ++ " @@ " ++ (if final == implFinal then "=" else reprStr final),
          agree := mFlags == implFlags && final == implFinal,
          stmtModel := mFlags == specFlags && final == specFinal,
          stmtImpl := stmtImpl,
          tags := (ds.map tagOf).eraseDups,
          nontrivial := ds.any (·.eligible) }
    | _, _, _ => CaseResult.badLine
  | _, _ => CaseResult.badLine

end Grol.RegRewriteSuite

import Grol.Eval.Ops
/-
Evaluator model, part 5: the tree walker (eval/eval.go, eval/eval_api.go Eval, eval/memo.go).
One Lean function per Go function, same case structure.  All recursion is structural on
`fuel` (every call passes the predecessor), so fuel bounds the *nesting* of model calls;
running out of it is the model of "does not terminate within the budget".
-/
namespace Grol.E
open Grol.Wire (Bytes)

def writeOut (b : Bytes) : M Unit :=
  modify fun st => match st.outs with
    | [] => { st with outs := [[b]] }
    | o :: rest => { st with outs := (b :: o) :: rest }

/-- the bytes written to a writer, in order -/
def chunksBytes (chunks : List Bytes) : Bytes := chunks.reverse.flatten

def curEnv : M Nat := do pure (← get).cur

/-- `evalIdentifier` -/
def evalIdentifier (name : String) : M Obj := do
  let st ← get
  if st.extNames.contains name then return .ext name
  match ← envGet st.cur name with
  | some v => pure v
  | none => pure (err ("identifier not found: " ++ name))

/-- `evalPrefixIncrDecr` / the arithmetic of `evalPostfixExpression` -/
def incrValue (val : Obj) (toAdd : Int64) : Option Obj :=
  match val with
  | .int v => some (.int (v + toAdd))
  | .float b => some (.float (f64 b + toAdd.toFloat).toBits)
  | _ => none

def evalPrefixIncrDecr (op : String) (node : Node) : M Obj := do
  match node with
  | .ident id =>
    let e ← curEnv
    match ← envGet e id with
    | none => pure (err ("identifier not found: " ++ id))
    | some val =>
      let val ← valueOf val
      match incrValue val (if op == "DECR" then -1 else 1) with
      | some nv => envSet e id nv
      | none => pure (err "can't prefix increment/decrement")
  | _ => pure (err "can't prefix increment/decrement")

def evalPostfix (op : String) (id : String) : M Obj := do
  let e ← curEnv
  match ← envGet e id with
  | none => pure (err ("identifier not found: " ++ id))
  | some val =>
    let val ← valueOf val
    let toAdd? : Option Int64 := if op == "INCR" then some 1 else if op == "DECR" then some (-1) else none
    match toAdd? with
    | none => pure (err "unknown postfix operator")
    | some toAdd =>
      match incrValue val toAdd with
      | none => pure (err "can't postfix increment/decrement")
      | some nv =>
        let oerr ← envSet e id nv
        if oerr.isError then pure oerr else pure val

/-- instrumentation only (see `St.hazards`) -/
def noteHazard (cond : Bool) (klass name : String) : M Unit :=
  if cond then modify fun st => { st with hazards := (klass ++ ":" ++ name) :: st.hazards } else pure ()

/-- `evalIndexAssigment` -/
def evalIndexAssignment (which : Node) (index value : Obj) : M Obj := do
  -- registers and references are live pointers: store the values they hold now
  let index ← valueOf index
  let value ← valueOf value
  match which with
  | .ident id =>
    let e ← curEnv
    match ← envGet e id with
    | none => pure (err ("identifier not found: " ++ id))
    | some val =>
      let val ← valueOf val
      match val with
      | .array els =>
        match int64Value index with
        | none => pure (err "index assignment to array with non integer index")
        | some idx =>
          let n : Int := els.length
          let i : Int := if idx < 0 then n + idx.toInt else idx.toInt
          if i < 0 || i ≥ n then pure (err "index assignment out of bounds")
          else
            noteHazard (els.length > (← get).cfg.maxSmallArray) "large-array-index-assignment-aliases" id
            let oerr ← envSet e id (newArray (els.set i.toNat value))
            if oerr.isError then pure oerr else pure value
      | .map big kvs =>
        let (big', kvs') ← liftR (mapSet (← get).cfg big kvs index value)
        noteHazard big "large-map-set-delete-aliases" id
        let oerr ← envSet e id (.map big' kvs')
        if oerr.isError then pure oerr else pure value
      | _ => pure (err "index assignment to unexpected type")
  | _ => pure (err "index assignment to non identifier")

/-- `deleteMapEntry` -/
def deleteMapEntry (left : Node) (index : Obj) : M Obj := do
  match left with
  | .ident id =>
    let e ← curEnv
    match ← envGet e id with
    | none => pure (.bool false)
    | some obj =>
      -- the map may belong to an outer scope: look through the reference (repo fix 908cebf), as `evalIndexAssigment` does
      let obj ← valueOf obj
      match obj with
      | .map big kvs =>
        match ← liftR (mapDelete kvs index) with
        | none => pure (.bool false)
        | some kvs' =>
          noteHazard big "large-map-set-delete-aliases" id
          let oerr ← envSet e id (.map big kvs')
          if oerr.isError then pure oerr else pure (.bool true)
      | _ => pure (err "delete index on non map")
  | _ => pure (err "delete index on non identifier")

/-- `object.Value` on every element (an array holds values, never references to variables) -/
def derefList : List Obj → M (List Obj)
  | [] => pure []
  | x :: xs => do
    let v ← valueOf x
    let vs ← derefList xs
    pure (v :: vs)

/-- `Cache.Get` -/
def cacheGet (key : String) (args : List Obj) : M (Option (Obj × Bytes)) := do
  let st ← get
  if !st.cfg.cacheOn then return none
  if args.length > st.cfg.maxArgs then return none
  if !(hashableList st.cfg args) then return none
  match st.cache.find? (fun c => c.key == key && keyEqList c.args args) with
  | some c => pure (some (c.result, c.output))
  | none => pure none

/-- `Cache.Set` -/
def cacheSet (key : String) (args : List Obj) (res : Obj) (output : Bytes) : M Unit := do
  let st ← get
  if !st.cfg.cacheOn then return
  if args.length > st.cfg.maxArgs then return
  if !(hashableList st.cfg args) then return
  let others := st.cache.filter (fun c => !(c.key == key && keyEqList c.args args))
  set { st with cache := { key := key, args := args, result := res, output := output } :: others }

/-- the parameter binding loop of `extendFunctionEnv`: `some e` = stop with this error -/
def bindParams (nenv : Nat) : List (String × Obj) → M (Option Obj)
  | [] => pure none
  | (p, a) :: rest => do
    let pval ← valueOf a
    -- binding an all-caps parameter depends on whether an outer constant of that name exists, now or later
    if isConstant p then triggerNoCache nenv
    let oerr ← createOrSet nenv p pval true
    if oerr.isError then pure (some oerr) else bindParams nenv rest

/-- the split of the arguments of a variadic call: (named parameters, their arguments, extra) -/
def splitArgs (f : FuncVal) (args : List Obj) : List String × List Obj × List Obj :=
  if f.variadic then
    let n := f.params.length - 1
    let params := f.params.take n
    let args := match args.getLast? with
      | some (.array els) => args.dropLast ++ els
      | _ => args
    if args.length ≥ n then (params, args.take n, args.drop n) else (params, args, [])
  else (f.params, args, [])

/-- `NewFunctionEnvironment`'s test "the callee is the function this frame is running" (a recursive call): same
printed text AND same defining environment, i.e. the same closure (repo fix 0558004: the text alone made two
closures of one factory "the same function", so the callee looked its captures up in the caller's frame) -/
def sameFunction (cf : Frame) (f : FuncVal) : Bool :=
  cf.cacheKey == f.key && (match cf.function with
    | some g => g.env == f.env
    | none => false)

/-- `extendFunctionEnv` (NoReg path) together with `NewFunctionEnvironment` -/
def extendFunctionEnv (f : FuncVal) (args : List Obj) : M (Except Obj Nat) := do
  let cur ← curEnv
  let cf ← getFrame cur
  let same := sameFunction cf f
  let parent := if same then cur else f.env
  let pf ← getFrame parent
  let nenv ← newFrame { outer := some parent, cacheKey := f.key, depth := pf.depth + 1, function := some f,
                        localFunc := same && cf.localFunc }
  -- the variadic expansion looks through a reference to an outer array
  let args ← if f.variadic then
      match args.getLast? with
      | some last => do pure (args.dropLast ++ [← valueOf last])
      | none => pure args
    else pure args
  let (params, args, extra) := splitArgs f args
  if args.length != params.length then return .error (err "wrong number of arguments")
  match ← bindParams nenv (params.zip args) with
  | some oerr => return .error oerr
  | none => pure ()
  if f.variadic then
    let _ ← setNoChecks nenv ".." (newArray extra) true
  pure (.ok nenv)

mutual
/-- `object.HoldsFunction`: the value is, or contains at any depth of arrays and maps, a function -/
def holdsFunc : Obj → Bool
  | .func _ => true
  | .array els => holdsFuncList els
  | .map _ kvs => holdsFuncPairs kvs
  | _ => false
def holdsFuncList : List Obj → Bool
  | [] => false
  | o :: os => holdsFunc o || holdsFuncList os
def holdsFuncPairs : List (Obj × Obj) → Bool
  | [] => false
  | (k, v) :: r => holdsFunc k || holdsFunc v || holdsFuncPairs r
end

/-- the end of `applyFunction`, after the body was evaluated and the caller's environment and
writer were restored: replay the captured output, then decide on caching (`before`/`after` = the
callee frame's miss counter around the body) -/
def finishCall (f : FuncVal) (args : List Obj) (curState before after : Nat) (cantCache : Bool)
    (res : Obj) (output : Bytes) : M Obj := do
  if !output.isEmpty then writeOut output
  if after != before then
    -- the callee depends on outer state (or called a non cacheable extension): so does its caller
    let _ := cantCache
    triggerNoCache curState
    return res
  if res.isError then return res
  -- nor a function: a closure over this very call's environment
  if holdsFunc res then return res
  cacheSet f.key args res output
  pure res

def isArrayObj : Obj → Option (List Obj)
  | .array els => some els
  | _ => none

def builtinArity (t : String) : Nat × Bool :=
  -- (min, vararg)
  if t == "PRINTLN" then (0, true)
  else if t == "PRINT" || t == "LOG" || t == "ERROR" then (1, true)
  else (1, false)

/-- the name recorded with an in-place append hazard: the identifier on the left of the `+`, if it is one -/
def hazardBase : Node → String
  | .ident n => n
  | _ => ""

mutual

/-- `(*State).Eval`: depth guard, unwrap return values and one reference level -/
def eval : Nat → Node → M Obj
  | 0, _ => stop .fuel
  | fuel + 1, node => do
    let st ← get
    if st.depth > st.cfg.maxDepth then stop .depthGuard
    set { st with depth := st.depth + 1 }
    let result ← evalI fuel node
    modify fun st => { st with depth := st.depth - 1 }
    let result ← match result with
      | .ret v kind => if kind != "RETURN" then pure (err "unexpected control type outside of for loops") else pure v
      | r => pure r
    match result with
    | .ref e n => refValue e n
    | r => pure r

/-- `(*State).evalInternal` -/
def evalI : Nat → Node → M Obj
  | 0, _ => stop .fuel
  | fuel + 1, node => do
    let st ← get
    set { st with steps := st.steps + 1 }
    if let some k := st.cfg.deadlineAfter then
      if st.steps ≥ k then return err "context deadline exceeded"
    match node with
    | .stmts l => evalStatements fuel l .null
    | .ifE c cons alt => evalIf fuel c cons alt
    | .forE c body => evalFor fuel c body
    | .ident name => evalIdentifier name
    | .pre op right =>
      if op == "INCR" || op == "DECR" then evalPrefixIncrDecr op right
      else do
        let r ← eval fuel right
        if r.isError then pure r else pure (evalPrefixOp op r)
    | .post op name => evalPostfix op name
    | .inf op l r =>
      if op == "ASSIGN" || op == "DEFINE" then do
        let right ← eval fuel r
        evalAssignment fuel right op l
      else do
        let left ← eval fuel l
        if left.isError then return left
        if op == "AND" then if let .bool false := left then return .bool false
        if op == "OR" then if let .bool true := left then return .bool true
        if op == "BITOR" then
          if let .str _ := left then if r.tokType == "LPAREN" then stop (.unmodelled "pipe")
        let right ← eval fuel r
        if right.isError then return right
        if let .array els := left then
          noteHazard (op == "PLUS" && els.length > (← get).cfg.maxSmallArray) "large-array-append-shares-capacity"
            (hazardBase l)
        evalInfixOp op left right
    | .int v => pure (.int v)
    | .float b => pure (.float b)
    | .bool b => pure (.bool b)
    | .str s => pure (.str s)
    | .ctl kind => pure (.ret .null kind)
    | .ret v =>
      match v with
      | .none => pure (.ret .null "RETURN")
      | v => do pure (.ret (← evalI fuel v) "RETURN")
    | .builtin name ps => evalBuiltin fuel name ps
    | .fn name params variadic lambda key body => do
      let e ← curEnv
      let f : FuncVal := { name := name, params := params, variadic := variadic,
                           lambda := lambda || name.isNone, key := key, body := body, env := e }
      match name with
      | some n =>
        let oerr ← envSet e n (.func f)
        if oerr.isError then pure oerr else pure (.func f)
      | none => pure (.func f)
    | .call fnode args => do
      let f ← eval fuel fnode
      if f.isError then return f
      match ← evalExpressions fuel args [] with
      | .error e => pure e
      | .ok argv =>
        match f with
        | .ext name => applyExtension fuel name argv
        | _ => applyFunction fuel f argv
    | .arr els => do
      match ← evalExpressions fuel els [] with
      | .error e => pure e
      | .ok v => do pure (newArray (← derefList v))
    | .mapLit keys vals => do
      let cfg := (← get).cfg
      evalMapLiteral fuel keys vals (newMapBig cfg keys.length) []
    | .idx tok l i => do
      if tok == "DOT" then
        if (← get).extNames.contains (l.literal ++ "." ++ i.literal) then stop (.unmodelled "namespaced extension")
      let left ← eval fuel l
      evalIndexExpression fuel left tok i
    | .comment => pure .null
    | .none => pure (err "unknown node type: <nil>")
    | .macroLit .. => stop (.unmodelled "macro literal reached the evaluator")

/-- `evalStatements` -/
def evalStatements : Nat → List Node → Obj → M Obj
  | 0, _, _ => stop .fuel
  | _ + 1, [], result => pure result
  | fuel + 1, stmt :: rest, result =>
    match stmt with
    | .comment => evalStatements fuel rest result
    | _ => do
      let r ← evalI fuel stmt
      match r with
      | .ret .. | .error _ => pure r
      | _ => evalStatements fuel rest r

/-- `evalExpressions` (accumulator reversed at the end) -/
def evalExpressions : Nat → List Node → List Obj → M (Except Obj (List Obj))
  | 0, _, _ => stop .fuel
  | _ + 1, [], acc => pure (.ok acc.reverse)
  | fuel + 1, e :: rest, acc => do
    let v ← evalI fuel e
    if v.isError then pure (.error v) else evalExpressions fuel rest (v :: acc)

/-- `evalAssignment` -/
def evalAssignment : Nat → Obj → String → Node → M Obj
  | 0, _, _, _ => stop .fuel
  | fuel + 1, right, op, left => do
    if right.isError then return right
    match left.tokType with
    | "DOT" =>
      match left with
      | .idx _ l i => evalIndexAssignment l (.str i.literalBytes) right
      | _ => pure (err "assignment to non index . expression")
    | "LBRACKET" =>
      match left with
      | .idx _ l i => do
        let index ← eval fuel i
        evalIndexAssignment l index right
      | _ => pure (err "assignment to non index [] expression")
    | "IDENT" =>
      match left with
      | .ident name => do createOrSet (← curEnv) name right (op == "DEFINE")
      | _ => pure (err "assignment to non identifier")
    | _ => pure (err "assignment to non identifier")

/-- `evalIfExpression` (condition dereferenced) -/
def evalIf : Nat → Node → Node → Node → M Obj
  | 0, _, _, _ => stop .fuel
  | fuel + 1, c, cons, alt => do
    let condition ← valueOf (← evalI fuel c)
    match condition with
    | .bool true => evalI fuel cons
    | .bool false =>
      match alt with
      | .none => pure .null
      | _ => evalI fuel alt
    | _ => pure (err "condition is not a boolean")

/-- `evalForExpression` -/
def evalFor : Nat → Node → Node → M Obj
  | 0, _, _ => stop .fuel
  | fuel + 1, c, body => do
    match ← evalForSpecialForms fuel c body with
    | some v => pure v
    | none => evalForLoop fuel c body .null

/-- the generic `for cond {}` loop of `evalForExpression` -/
def evalForLoop : Nat → Node → Node → Obj → M Obj
  | 0, _, _, _ => stop .fuel
  | fuel + 1, c, body, lastEval => do
    let condition ← valueOf (← evalI fuel c)
    match condition with
    | .bool true =>
      let r ← evalI fuel body
      match r with
      | .error _ => pure r
      | .ret _ kind =>
        if kind == "BREAK" then pure lastEval
        else if kind == "CONTINUE" then evalForLoop fuel c body lastEval
        else pure r
      | _ => evalForLoop fuel c body r
    | .bool false | .null => pure lastEval
    | .error _ => pure condition
    | .int n => evalForInteger fuel body 0 n.toInt "" .null
    | _ => pure (err "for condition is not a boolean nor integer nor assignment")

/-- `evalForSpecialForms`: `none` = not a special form -/
def evalForSpecialForms : Nat → Node → Node → M (Option Obj)
  | 0, _, _ => stop .fuel
  | fuel + 1, c, body => do
    match c with
    | .inf op l r =>
      if op != "ASSIGN" && op != "DEFINE" then return none
      match l with
      | .ident name =>
        match r with
        | .inf "COLON" rl rr => do
          let start ← valueOf (← evalI fuel rl)
          match int64Value start with
          | none => pure (some (err "for var = n:m n not an integer"))
          | some s =>
            let endV ← valueOf (← evalI fuel rr)
            match int64Value endV with
            | none => pure (some (err "for var = n:m m not an integer"))
            | some e => pure (some (← evalForInteger fuel body s.toInt e.toInt name .null))
        | _ => do
          let v ← valueOf (← evalI fuel r)
          match v with
          | .int n => pure (some (← evalForInteger fuel body 0 n.toInt name .null))
          | .error _ => pure (some v)
          | .array _ | .map .. | .str _ => pure (some (← evalForList fuel body v name .null))
          | _ => pure none
      | _ => pure (some (err "for var = ... not a var"))
    | _ => pure none

/-- `evalForInteger` without registers: iteration `i` of `[i, end)` -/
def evalForInteger : Nat → Node → Int → Int → String → Obj → M Obj
  | 0, _, _, _, _, _ => stop .fuel
  | fuel + 1, body, i, endV, name, lastEval => do
    -- only the first entry can see a negative count (afterwards i ≤ endV)
    if endV - i < 0 then return err "for loop with negative count"
    if i ≥ endV then return lastEval
    if name != "" then
      let oerr ← envSet (← curEnv) name (.int (Int64.ofInt i))
      if oerr.isError then return oerr
    let r ← evalI fuel body
    match r with
    | .error _ => pure r
    | .ret _ kind =>
      if kind == "BREAK" then pure lastEval
      else if kind == "CONTINUE" then evalForInteger fuel body (i + 1) endV name lastEval
      else if kind == "RETURN" then pure r
      else pure (err "for loop unexpected control type")
    | _ => evalForInteger fuel body (i + 1) endV name r

/-- `evalForList` -/
def evalForList : Nat → Node → Obj → String → Obj → M Obj
  | 0, _, _, _, _ => stop .fuel
  | fuel + 1, body, list, name, lastEval => do
    if objLen list ≤ 0 then return lastEval
    let v ← objFirst list
    let rest ← objRest list
    let oerr ← envSet (← curEnv) name v
    if oerr.isError then return oerr
    let r ← evalI fuel body
    match r with
    | .error _ => pure r
    | .ret _ kind =>
      if kind == "BREAK" then pure lastEval
      else if kind == "CONTINUE" then evalForList fuel body rest name lastEval
      else if kind == "RETURN" then pure r
      else pure (err "for loop unexpected control type")
    | _ => evalForList fuel body rest name r

/-- `evalBuiltin` -/
def evalBuiltin : Nat → String → List Node → M Obj
  | 0, _, _ => stop .fuel
  | fuel + 1, t, ps => do
    let (minV, varArg) := builtinArity t
    if (varArg && ps.length < minV) || (!varArg && ps.length != minV) then
      return err "wrong number of arguments"
    if t == "QUOTE" then stop (.unmodelled "quote")
    if t == "DEL" then return ← evalDelete fuel (ps.headD .none)
    if t == "ERROR" || t == "PRINT" || t == "PRINTLN" then
      return ← evalPrint fuel t ps true []
    if t == "LOG" then stop (.unmodelled "log")
    let val ← valueOf (← evalI fuel (ps.headD .none))
    if val.isError && t != "CATCH" then return val
    match t with
    | "CATCH" =>
      match val with
      | .error m => do
        -- an error turned into a value must not make the enclosing call cacheable (it may be due to the bindings of the moment)
        triggerNoCache (← curEnv)
        pure (.map false [(errKey, .bool true), (valueKey, .str (toBytes m))])
      | _ => pure (.map false [(errKey, .bool false), (valueKey, val)])
    | "FIRST" => do objFirst (← valueOf val)
    | "REST" => do objRest (← valueOf val)
    | "LEN" => do
      let l := objLen (← valueOf val)
      if l == -1 then pure (err "len: not supported") else pure (.int (Int64.ofInt l))
    | _ => pure (err "builtin not yet implemented")

/-- `evalPrintLogError` for print / println / error -/
def evalPrint : Nat → String → List Node → Bool → Bytes → M Obj
  | 0, _, _, _, _ => stop .fuel
  | _ + 1, t, [], _, buf => do
    if t == "ERROR" then
      match String.fromUTF8? (ByteArray.mk buf.toArray) with
      | some s => return .error s
      | none => stop (.unmodelled "error() with non UTF-8 message")
    writeOut (if t == "PRINTLN" then buf ++ [10] else buf)
    pure .null
  | fuel + 1, t, p :: rest, first, buf => do
    let buf := if first then buf else buf ++ [32]
    let r ← evalI fuel p
    if r.isError then return r
    let r ← valueOf r
    let piece ← match r with
      | .str s => pure s
      | o => liftR (inspect o)
    evalPrint fuel t rest false (buf ++ piece)

/-- `evalDelete` -/
def evalDelete : Nat → Node → M Obj
  | 0, _ => stop .fuel
  | fuel + 1, node => do
    triggerNoCache (← curEnv)
    match node with
    | .ident name =>
      if name == "" then pure (err "delete empty identifier")
      else do
        -- deleting a constant is the one way to rebind it: remembered results are dropped
        if isConstant name then modify fun st => { st with cache := [] }
        envDelete (← curEnv) name
    | .idx "DOT" l i =>
      if i.tokType != "STRING" && i.tokType != "IDENT" then pure (err "del expression with . not a string")
      else deleteMapEntry l (.str i.literalBytes)
    | .idx "LBRACKET" l i => do
      let index ← eval fuel i
      if index.isError then pure index else deleteMapEntry l index
    | _ => pure (err "delete not supported")

/-- `evalIndexExpression` -/
def evalIndexExpression : Nat → Obj → String → Node → M Obj
  | 0, _, _, _ => stop .fuel
  | fuel + 1, left, tok, i => do
    if left.isError then return left
    if tok == "DOT" then
      if i.tokType != "STRING" && i.tokType != "IDENT" then return err "index expression with . not string"
      return ← indexIdx left (.str i.literalBytes)
    match i with
    | .inf "COLON" li ri => evalIndexRange fuel left li ri
    | _ => do
      let index ← eval fuel i
      if index.isError then pure index else indexIdx left index

/-- `evalIndexRangeExpression` -/
def evalIndexRange : Nat → Obj → Node → Node → M Obj
  | 0, _, _, _ => stop .fuel
  | fuel + 1, left, li, ri => do
    let leftIndex ← eval fuel li
    let nilRight := ri matches .none
    let rightIndex ← if nilRight then pure Obj.null else eval fuel ri
    match int64Value leftIndex, (if nilRight then some 0 else int64Value rightIndex) with
    | some l0, some r0 =>
      let num : Int := objLen left
      let l : Int := if l0 < 0 then num + l0.toInt else l0.toInt
      let l : Int := if l < 0 then 0 else l
      let r : Int := if nilRight then num else if r0 < 0 then num + r0.toInt else r0.toInt
      if l > r then return err "range index invalid: left greater then right"
      let l := min l num
      let r := min r num
      match left with
      | .str s => pure (.str ((s.drop l.toNat).take (r - l).toNat))
      | .array els => pure (newArray ((els.drop l.toNat).take (r - l).toNat))
      | .map big kvs =>
        let cfg := (← get).cfg
        pure (.map (big && (r - l).toNat > cfg.maxSmallMap) ((kvs.drop l.toNat).take (r - l).toNat))
      | .null => pure .null
      | _ => pure (err "range index operator not supported")
    | _, _ => pure (err "range index not integer")

/-- `evalMapLiteral` -/
def evalMapLiteral : Nat → List Node → List Node → Bool → List (Obj × Obj) → M Obj
  | 0, _, _, _, _ => stop .fuel
  | fuel + 1, k :: ks, v :: vs, big, acc => do
    let key ← valueOf (← eval fuel k)
    if key.isError then return key
    if !(← equalsM key key) then return err "key is not hashable"
    let value ← valueOf (← eval fuel v)
    if value.isError then return value
    let (big', acc') ← liftR (mapSet (← get).cfg big acc key value)
    evalMapLiteral fuel ks vs big' acc'
  | _ + 1, _, _, big, acc => pure (.map big acc)

/-- `applyExtension`: only a small listed subset of callbacks is modelled -/
def applyExtension : Nat → String → List Obj → M Obj
  | 0, _, _ => stop .fuel
  | _ + 1, name, _ => stop (.unmodelled ("extension " ++ name))

/-- `applyFunction` with memoization -/
def applyFunction : Nat → Obj → List Obj → M Obj
  | 0, _, _ => stop .fuel
  | fuel + 1, fn, args => do
    match fn with
    | .func f =>
      -- a recursive call from a frame that holds a local function (itself or, through recursion, its callers): the
      -- callee's scope chain runs through these frames: neither looked up nor stored (repo fix eeea7a1)
      let cf ← getFrame (← curEnv)
      let skip := cf.localFunc && sameFunction cf f
      if let some (v, output) ← (if skip then pure none else cacheGet f.key args) then
        if !output.isEmpty then writeOut output
        return v
      match ← extendFunctionEnv f args with
      | .error e => pure e
      | .ok nenv =>
        let curState ← curEnv
        modify fun st => { st with cur := nenv, outs := [] :: st.outs }
        -- the frame is new: the misses made while binding the parameters count too
        let before := 0
        let res ← eval fuel f.body
        let fr ← getFrame nenv
        let after := if skip then fr.getMiss + 1 else fr.getMiss
        let cantCache := fr.cantCache
        let st ← get
        let (output, outs) := match st.outs with
          | o :: rest => (chunksBytes o, rest)
          | [] => ([], [])
        set { st with cur := curState, outs := outs }
        finishCall f args curState before after cantCache res output
    | _ => pure (err "not a function")

end

end Grol.E

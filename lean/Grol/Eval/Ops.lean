import Grol.Eval.Env
/-
Evaluator model, part 4: operators on values (eval/eval.go evalPrefixExpression,
evalInfixExpression and its per-type helpers, index and slice on values).
-/
namespace Grol.E
open Grol.Wire (Bytes)

def err (msg : String) : Obj := .error msg

def boolObj (b : Bool) : Obj := .bool b

/-- `Int64Value` (no registers in this model) -/
def int64Value : Obj → Option Int64
  | .int v => some v
  | _ => none

/-- `NewArray` is the identity on the value-semantic representation -/
def newArray (els : List Obj) : Obj := .array els

/-- the memory guard `object.MustBeOk(n)`: the model has no memory budget; requests beyond
this bound are outside the modelled subset (the real guard's decision depends on the runtime) -/
def sizeLimit : Nat := 1000000

def mustBeOk (n : Int) : M Unit :=
  if n > sizeLimit then stop (.unmodelled "allocation beyond the model's size limit") else pure ()

def evalBang : Obj → Obj
  | .bool b => .bool (!b)
  | .null => .bool true
  | _ => err "not of"

def evalMinus : Obj → Obj
  | .int v => .int (-v)
  | .float b => .float (-(f64 b)).toBits
  | _ => err "minus of"

/-- `evalPrefixExpression` -/
def evalPrefixOp (op : String) (right : Obj) : Obj :=
  match op with
  | "BLOCKCOMMENT" => right
  | "BANG" => evalBang right
  | "MINUS" => evalMinus right
  | "BITNOT" | "BITXOR" =>
    match int64Value right with
    | some v => .int (~~~v)
    | none => err "bitwise not of"
  | "PLUS" => right
  | _ => err "unknown operator"

def int64Range (l r : Int64) : List Obj :=
  let n := (r.toInt - l.toInt).toNat
  (List.range n).map fun (i : Nat) => Obj.int (Int64.ofInt (l.toInt + (i : Int)))

/-- `evalIntegerInfixExpression` -/
def evalIntegerInfix (op : String) (l r : Int64) : M Obj :=
  match op with
  | "PLUS" => pure (.int (l + r))
  | "MINUS" => pure (.int (l - r))
  | "ASTERISK" => pure (.int (l * r))
  | "SLASH" => if r == 0 then pure (err "division by zero") else pure (.int (l / r))
  | "PERCENT" => if r == 0 then pure (err "division by zero") else pure (.int (l % r))
  | "LEFTSHIFT" =>
    if r < 0 then pure (err "negative shift count")
    else if r ≥ 64 then pure (.int 0) else pure (.int (l <<< r))
  | "RIGHTSHIFT" =>
    if r < 0 then pure (err "negative shift count")
    else if r ≥ 64 then pure (.int 0) else pure (.int (l.toUInt64 >>> r.toUInt64).toInt64)
  | "BITAND" => pure (.int (l &&& r))
  | "BITOR" => pure (.int (l ||| r))
  | "BITXOR" => pure (.int (l ^^^ r))
  | "COLON" => do
    let lg := r - l   -- Go int64 subtraction, may wrap
    if lg < 0 then pure (err "range index invalid: left greater then right")
    else
      mustBeOk lg.toInt
      pure (newArray (int64Range l r))
  | _ => pure (err "unknown operator")

def getFloat : Obj → Option Float
  | .int v => some v.toFloat
  | .float b => some (f64 b)
  | _ => none

/-- `evalFloatInfixExpression` (`%` = math.Mod is outside the modelled subset) -/
def evalFloatInfix (op : String) (l r : Obj) : M Obj :=
  match getFloat l, getFloat r with
  | some a, some b =>
    match op with
    | "PLUS" => pure (.float (a + b).toBits)
    | "MINUS" => pure (.float (a - b).toBits)
    | "ASTERISK" => pure (.float (a * b).toBits)
    | "SLASH" => pure (.float (a / b).toBits)
    | "PERCENT" => stop (.unmodelled "math.Mod")
    | _ => pure (err "unknown operator")
  | _, _ => pure (err "not converting to float")

def repeatBytes (s : Bytes) : Nat → Bytes
  | 0 => []
  | n + 1 => s ++ repeatBytes s n

def repeatList (s : List Obj) : Nat → List Obj
  | 0 => []
  | n + 1 => s ++ repeatList s n

/-- `evalStringInfixExpression` -/
def evalStringInfix (op : String) (l : Bytes) (right : Obj) : M Obj :=
  match op, right with
  | "PLUS", .str r => do
    -- object.MustBeOk((len(leftVal) + len(rightVal)) / object.ObjectSize)
    mustBeOk (((l.length + r.length : Nat) : Int) / 16)
    pure (.str (l ++ r))
  | "ASTERISK", .int n =>
    if n < 0 then pure (err "right operand of * on strings must be a positive integer")
    else do
      mustBeOk (l.length * n.toInt)
      if l.isEmpty then pure (.str []) else pure (.str (repeatBytes l n.toInt.toNat))
  | _, _ => pure (err "unknown operator")

/-- `evalArrayInfixExpression` (value semantics: `append` never writes into a shared backing array) -/
def evalArrayInfix (op : String) (l : List Obj) (right : Obj) : M Obj :=
  match op with
  | "ASTERISK" =>
    match int64Value right with
    | none => pure (err "right operand of * on arrays must be an integer")
    | some n =>
      if n < 0 then pure (err "right operand of * on arrays must be a positive integer")
      else do
        mustBeOk (l.length * n.toInt)
        if l.isEmpty then pure (newArray []) else pure (newArray (repeatList l n.toInt.toNat))
  | "PLUS" =>
    match right with
    | .array r => do
      mustBeOk (l.length + r.length)
      pure (newArray (l ++ r))
    | _ => do
      let v ← valueOf right
      pure (newArray (l ++ [v]))
  | _ => pure (err "unknown operator")

/-- raw `Equals`: type test on the objects as they are, then `Cmp` on dereferenced values -/
def equalsM (a b : Obj) : M Bool := do
  if a.typeNum != b.typeNum then return false
  let x ← valueOf a
  let y ← valueOf b
  let c ← liftR (cmp x y)
  pure (c == 0)

def cmpM (a b : Obj) : M Int := do
  let x ← valueOf a
  let y ← valueOf b
  liftR (cmp x y)

/-- `evalInfixExpression` -/
def evalInfixOp (op : String) (left right : Obj) : M Obj := do
  match op with
  | "EQ" => pure (boolObj (← equalsM left right))
  | "NOTEQ" => pure (boolObj (!(← equalsM left right)))
  | "GT" => pure (boolObj ((← cmpM left right) == 1))
  | "LT" => pure (boolObj ((← cmpM left right) == -1))
  | "GTEQ" => pure (boolObj ((← cmpM left right) ≥ 0))
  | "LTEQ" => pure (boolObj ((← cmpM left right) ≤ 0))
  | "AND" => pure (boolObj (match left, right with | .bool true, .bool true => true | _, _ => false))
  | "OR" => pure (boolObj (match left, right with | .bool true, _ => true | _, .bool true => true | _, _ => false))
  | _ =>
    match left, right with
    | .int l, .int r => evalIntegerInfix op l r
    | .float _, _ | _, .float _ => evalFloatInfix op left right
    | .str l, _ => evalStringInfix op l right
    | .array l, _ => evalArrayInfix op l right
    | .map lb l, .map _ r =>
      if op == "PLUS" then do
        let (big, kvs) ← liftR (mapAppend (← get).cfg lb l r)
        pure (.map big kvs)
      else pure (err "unknown operator")
    | _, _ => pure (err "no operator on these operands")

/-! ### first / rest / len -/

def objLen : Obj → Int
  | .array els => els.length
  | .map _ kvs => kvs.length
  | .str s => s.length
  | .null => 0
  | _ => -1

def isAsciiBytes (s : Bytes) : Bool := s.all (· < 128)

/-- `object.First` (on a dereferenced value) -/
def objFirst : Obj → M Obj
  | .null => pure .null
  | .array [] => pure .null
  | .array (x :: _) => pure x
  | .map _ [] => pure .null
  | .map _ ((k, v) :: _) => pure (makeFirst k v)
  | .str [] => pure .null
  | .str (c :: rest) => if c < 128 then pure (.str [c]) else
      if isAsciiBytes rest then stop (.unmodelled "first() of non-ASCII string") else stop (.unmodelled "first() of non-ASCII string")
  | .func f => pure (newArray (f.params.map fun p => Obj.str (toBytes p)))
  | _ => pure (err "first() not supported")

/-- `object.Rest` -/
def objRest : Obj → M Obj
  | .null => pure .null
  | .str s =>
    if s.length ≤ 1 then pure .null
    else if isAsciiBytes s then pure (.str (s.drop 1)) else stop (.unmodelled "rest() of non-ASCII string")
  | .array els => if els.length ≤ 1 then pure .null else pure (newArray (els.drop 1))
  | .map big kvs => do
    if kvs.length ≤ 1 then pure .null
    else
      let cfg := (← get).cfg
      -- SmallMap.Rest stays small; BigMap.Rest demotes when the rest fits
      pure (.map (big && kvs.length - 1 > cfg.maxSmallMap) (kvs.drop 1))
  | .func _ => stop (.unmodelled "rest() of function")
  | _ => pure (err "rest() not supported")

/-- `evalArrayIndexExpression` -/
def arrayIndex (els : List Obj) (idx : Int64) : Obj :=
  let maxV : Int := els.length - 1
  let i : Int := if idx < 0 then maxV + 1 + idx.toInt else idx.toInt
  if i < 0 || i > maxV then .null else els.getD i.toNat .null

/-- `evalIndexExpressionIdx` -/
def indexIdx (left index : Obj) : M Obj := do
  let idx? : Option Int64 := match index with
    | .null => some 0
    | o => int64Value o
  match left, idx? with
  | .str s, some idx =>
    let num : Int := s.length
    let i : Int := if idx < 0 then num + idx.toInt else idx.toInt
    if i < 0 || i ≥ num then pure .null else pure (.int (Int64.ofNat (s.getD i.toNat 0).toNat))
  | .array els, some idx => pure (arrayIndex els idx)
  | .map _ kvs, _ => do
    match ← liftR (mapGet kvs index) with
    | some v => pure v
    | none => pure .null
  | .null, _ => pure .null
  | _, _ => pure (err "index operator not supported")

end Grol.E

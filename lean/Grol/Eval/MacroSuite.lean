import Grol.Suite
import Grol.Eval.Macro
import Grol.Eval.MacroSpec
/-
Driver side of the `macro` correspondence suite (C13) and the executable statement of the
property.  Line format: harness/cmd/harness/macro.go.

The statement uses its OWN definition of "the template with every unquote(parameter) replaced by
the argument's tree" (`handSubst`/`handExpand` of MacroSpec.lean, total structural recursions over
every child of every node), independent of the model's `modify`-based expansion; that the model's
expansion equals it on every program is the theorem `C13.expand_is_hand_substitution`.
-/
namespace Grol.MacroSuite
open Grol.E Grol.Macro Grol.Wire

/-! ### rendering trees back to the dump syntax (function cache keys are not dumped in this suite) -/

def hexS (s : String) : String := hexOrDash (toBytes s)

partial def renderNode : Node → String
  | .none => "nil"
  | .ident n => s!"(id {hexS n})"
  | .int v => s!"(int {v.toInt})"
  | .float b => s!"(float {hex16 b})"
  | .str s => s!"(str {hexOrDash s})"
  | .bool b => s!"(bool {if b then "1" else "0"})"
  | .pre op r => s!"(pre {op} {renderNode r})"
  | .post op n => s!"(post {op} {hexS n})"
  | .inf op l r => s!"(in {op} {renderNode l} {renderNode r})"
  | .stmts l => "(stmts" ++ String.join (l.map fun n => " " ++ renderNode n) ++ ")"
  | .ifE c a b => s!"(if {renderNode c} {renderNode a} {renderNode b})"
  | .forE c b => s!"(for {renderNode c} {renderNode b})"
  | .ctl k => s!"(ctl {k})"
  | .ret v => s!"(ret {renderNode v})"
  | .builtin n ps => s!"(bi {n}" ++ String.join (ps.map fun n => " " ++ renderNode n) ++ ")"
  | .fn name ps v l _ body =>
    let nm := match name with | some n => hexS n | none => "-"
    s!"(fn {nm} {if v then "1" else "0"} {if l then "1" else "0"} - (params" ++ String.join (ps.map fun p => " " ++ hexS p) ++ s!") {renderNode body})"
  | .call f as => s!"(call {renderNode f}" ++ String.join (as.map fun n => " " ++ renderNode n) ++ ")"
  | .arr els => "(arr" ++ String.join (els.map fun n => " " ++ renderNode n) ++ ")"
  | .mapLit ks vs => "(map" ++ String.join ((ks.zip vs).map fun (k, v) => " " ++ renderNode k ++ " " ++ renderNode v) ++ ")"
  | .idx t l i => s!"(idx {t} {renderNode l} {renderNode i})"
  | .comment => "(cmt)"
  | .macroLit ps body => "(macro (params" ++ String.join (ps.map fun p => " " ++ hexS p) ++ s!") {renderNode body})"

def insertSorted (x : String × String) : List (String × String) → List (String × String)
  | [] => [x]
  | y :: ys => if cmpStr x.1 y.1 < 0 then x :: y :: ys else y :: insertSorted x ys

def renderStore (s : Store) : String :=
  if s.isEmpty then "-" else
  let items := s.foldl (fun acc (k, m) => insertSorted (k, renderNode (.macroLit m.params m.body)) acc) []
  ",".intercalate (items.map fun (k, v) => hexS k ++ "=" ++ v)

/-- error wording is never compared: the message of every `error("…")` node with one string (what
`MacroErrorf` builds) is blanked, on both sides and in the specification's tree -/
partial def canon : Node → Node
  | .builtin "ERROR" [.str _] => .builtin "ERROR" [.str []]
  | .pre op r => .pre op (canon r)
  | .inf op l r => .inf op (canon l) (canon r)
  | .stmts l => .stmts (l.map canon)
  | .ifE c a b => .ifE (canon c) (canon a) (canon b)
  | .forE c b => .forE (canon c) (canon b)
  | .ret v => .ret (canon v)
  | .builtin n ps => .builtin n (ps.map canon)
  | .fn a b c d e body => .fn a b c d e (canon body)
  | .call f as => .call (canon f) (as.map canon)
  | .arr els => .arr (els.map canon)
  | .mapLit ks vs => .mapLit (ks.map canon) (vs.map canon)
  | .idx t l i => .idx t (canon l) (canon i)
  | .macroLit ps b => .macroLit ps (canon b)
  | n => n

def renderX : X Node → String
  | .ok n => renderNode (canon n)
  | .error (.goPanic _) => "Xgo"
  | .error .depthGuard => "Xdepth"
  | .error .fuel => "?fuel"
  | .error (.unmodelled w) => "?unmodelled:" ++ w

def declined : X Node → Option String
  | .error .fuel => some "fuel"
  | .error (.unmodelled w) => some w
  | _ => none

/-! ### the specification side -/

/-- all `unquote` nodes of the template are `unquote(p)` with `p` a parameter: the total function of
MacroSpec.lean -/
def paramOnly (ps : List String) (n : Node) : Bool := handParamOnly ps n

/-- the template with every `unquote(p)` replaced by the tree bound to `p`: `Grol.Macro.handSubst` -/
def specSubst (env : List (String × Node)) (n : Node) : Node := handSubst env n

/-- every macro call of the program replaced by its substituted template, arguments first.
`none`: the program is outside the quantifier (a called macro is not simple, or the arity is wrong).
This IS `Grol.Macro.handExpand` (MacroSpec.lean), the total function of the theorem
`Grol.Macro.C13.expand_is_hand_substitution`: the model's ExpandMacros returns exactly this tree. -/
def specExpand (store : Store) (n : Node) : Option Node := handExpand store n

/-- definitions of the property's shape (`name = macro(…){…}` as a top-level statement) recorded, and removed -/
def specDefine (store : Store) : Node → Store × Node
  | .stmts l =>
    let store' := l.foldl (fun s n => match n with
      | .inf "ASSIGN" (.ident name) (.macroLit ps b) => (s.filter (·.1 != name)) ++ [(name, { params := ps, body := b })]
      | _ => s) store
    (store', .stmts (l.filter fun n => match n with | .inf "ASSIGN" _ (.macroLit ..) => false | _ => true))
  | n => (store, n)

/-! ### the recorded printer findings of C02, as predicates on the expanded tree -/

partial def anyNode (p : Node → Bool) (n : Node) : Bool :=
  p n || match n with
  | .pre _ r => anyNode p r
  | .inf _ l r => anyNode p l || anyNode p r
  | .stmts l => l.any (anyNode p)
  | .ifE c a b => anyNode p c || anyNode p a || anyNode p b
  | .forE c b => anyNode p c || anyNode p b
  | .ret v => anyNode p v
  | .builtin _ ps => ps.any (anyNode p)
  | .fn _ _ _ _ _ b => anyNode p b
  | .call f as => anyNode p f || as.any (anyNode p)
  | .arr els => els.any (anyNode p)
  | .mapLit ks vs => ks.any (anyNode p) || vs.any (anyNode p)
  | .idx _ l i => anyNode p l || anyNode p i
  | .macroLit _ b => anyNode p b
  | _ => false

def assocOps : List String := ["PLUS", "ASTERISK", "AND", "OR", "BITAND", "BITOR", "BITXOR"]

/-- "repeated-associative-operator-on-the-right": `a + (b + c)` prints `a + b + c` -/
def repeatedAssocOnRight (n : Node) : Bool :=
  anyNode (fun n => match n with
    | .inf op _ (.inf op' _ _) => op == op' && assocOps.contains op
    | _ => false) n

/-- the text of the statement starts with `-`, `+`, `^` (leftmost operand is such a prefix expression) -/
partial def startsWithPrefixOp : Node → Bool
  | .pre op _ => ["MINUS", "PLUS", "BITXOR", "INCR", "DECR"].contains op
  | .inf _ l _ => startsWithPrefixOp l
  | .idx _ l _ => startsWithPrefixOp l
  | .call f _ => startsWithPrefixOp f
  | _ => false

/-- "statement-starts-with-prefix-operator": a non-first statement of some block starts with `-`/`+`/`^` -/
def stmtStartsWithPrefixOp (n : Node) : Bool :=
  anyNode (fun n => match n with
    | .stmts l => (l.drop 1).any startsWithPrefixOp
    | _ => false) n

/-- coarse form of "compact-adjacent-statements": some block has two statements (the exact junction
predicate needs the printer model; here every multi-statement block is put in the class) -/
def hasAdjacentStatements (n : Node) : Bool :=
  anyNode (fun n => match n with
    | .stmts l => (l.filter fun s => !(s matches .comment)).length ≥ 2
    | _ => false) n

/-- "unquote-of-non-parameter" (outside the property's quantifier): some stored template unquotes something
that is not one of its parameters; the value is evaluated in the macro-body state and converted back to
syntax — a negative integer becomes a literal node with a negative value, which prints as `-1` and reads
back as the prefix expression -(1) -/
def nonParamUnquote (s : Store) : Bool :=
  s.any fun (_, m) => match m.body with
    | .stmts l => !(l.all (paramOnly m.params))
    | _ => false

/-! ### cases -/

structure Rec where
  parseErr : Bool := false
  a : String := ""
  d : String := ""
  n : String := ""
  x : String := ""
  rn : Bool := true
  rc : Bool := true
  q : Bool := true
  ms : String := ""
  sm : Bool := true
  ev : String := ""

def fieldVal (f : String) : String := ((f.splitOn "=").drop 1) |> "=".intercalate

def parseRec (r : String) : Option Rec :=
  if r == "P" then some { parseErr := true } else
  match r.splitOn ";" with
  | a :: d :: n :: x :: _pn :: _pc :: rn :: rc :: q :: ms :: sm :: ev =>
    some { a := fieldVal a, d := fieldVal d, n := fieldVal n, x := fieldVal x, rn := fieldVal rn == "1", rc := fieldVal rc == "1",
           q := fieldVal q == "1", ms := fieldVal ms, sm := fieldVal sm == "1", ev := fieldVal (";".intercalate ev) }
  | _ => none

/-- output, value, error flag, panic kind and the non-function globals of an evaluation observation
(a function value is dumped as its printed source, which differs between the expanded and the
hand-written program by parentheses only) -/
def visibleEv (ev : String) : String :=
  match ev.splitOn ";g=" with
  | [v, g] => v ++ ";g=" ++ ",".intercalate ((g.splitOn ",").filter fun kv => !((kv.splitOn "=F").length > 1))
  | _ => ev

structure StepOut where
  d : String
  n : String
  x : String
  ms : String

/-- canonical form of a dump written by the harness (error wording cut) -/
def canonDump (s : String) : String :=
  match parseAst s with
  | some n => renderNode (canon n)
  | none => s

def runCase (inp obs : String) : CaseResult :=
  match inp.splitOn ";", obs.splitOn " ## " with
  | [kind, _, _], [recsS, handS] =>
    match (recsS.splitOn " @@ ").mapM parseRec with
    | none => CaseResult.badLine
    | some recs => Id.run do
      let hands := handS.splitOn " @@ "
      let wellFormed := kind == "W"
      let mut store : Store := []        -- the model's macro store
      let mut sstore : Store := []       -- the specification's
      let mut agree := true
      let mut stmtImpl := true
      let mut stmtModel := true
      let mut decl : Option String := none
      let mut klass := ""
      let mut otherFail := false
      let mut model : List String := []
      let mut tags : List String := []
      let mut idx := 0
      for r in recs do
        let hand := hands.getD idx ""
        idx := idx + 1
        if r.parseErr then
          model := model ++ ["P"]
          tags := tags ++ ["parse-error"]
          continue
        match parseAst r.a with
        | none => return CaseResult.badLine
        | some prog =>
          let (store', dRes, xRes) := step Macro.defaultLimits store prog
          store := store'
          let m : StepOut := { d := renderX dRes, n := toString store'.length, x := renderX xRes, ms := renderStore store' }
          model := model ++ [s!"d={m.d};n={m.n};x={m.x};ms={m.ms}"]
          match declined xRes with
          | some w => decl := some w
          | none => pure ()
          let implX := canonDump r.x
          if !(canonDump r.d == m.d && r.n == m.n && implX == m.x && r.ms == m.ms) then agree := false
          tags := tags ++ [match xRes with
            | .ok n => if renderNode n == m.d then "unchanged" else "expanded"
            | .error (.goPanic _) => "go-panic" | .error .depthGuard => "depth-panic" | .error _ => "declined"]
          -- the statement
          let (sstore', sprog) := specDefine sstore prog
          sstore := sstore'
          let spec := if wellFormed then (specExpand sstore' sprog).map fun n => renderNode (canon n) else none
          if wellFormed && spec.isNone then tags := tags ++ ["outside-quantifier"]
          let s1 (x : String) : Bool := match spec with | some e => x == e | none => true
          let s3 (ms : String) : Bool := r.sm && (!wellFormed || ms == renderStore sstore')
          let s5 := !wellFormed || visibleEv r.ev == visibleEv hand
          let printed := r.rn && r.rc
          let cls : String := match parseAst r.x with
            | some xt =>
              if !r.rn && repeatedAssocOnRight xt then "repeated-associative-operator-on-the-right"
              else if !r.rn && stmtStartsWithPrefixOp xt then "statement-starts-with-prefix-operator"
              else if r.rn && !r.rc && (hasAdjacentStatements xt || repeatedAssocOnRight xt) then "compact-adjacent-statements"
              else if nonParamUnquote sstore' then "unquote-of-non-parameter"
              else ""
            | none => if nonParamUnquote sstore' then "unquote-of-non-parameter" else ""
          let restImpl := s1 implX && r.q && s3 r.ms && s5
          let restModel := s1 m.x && r.q && s3 m.ms && s5
          if !restImpl then otherFail := true
          if !printed then
            if cls != "" && klass == "" then klass := cls
            if cls == "" then otherFail := true
          stmtImpl := stmtImpl && restImpl && printed
          stmtModel := stmtModel && restModel && printed
          if !(s1 implX) then tags := tags ++ ["FAIL:not-the-substituted-template"]
          if !r.q then tags := tags ++ ["FAIL:expansion-not-quiet"]
          if !(s3 r.ms) then tags := tags ++ ["FAIL:store-changed"]
          if !s5 then tags := tags ++ ["FAIL:evaluates-unlike-hand-substituted"]
          if !printed then tags := tags ++ ["FAIL:print-reparse" ++ (if cls == "" then "" else ":" ++ cls)]
      tags := tags.eraseDups ++ [if wellFormed then "well-formed" else "malformed-stream"]
      match decl with
      | some w =>
        return { model := "declined:" ++ w, agree := false, stmtModel := true, stmtImpl := stmtImpl, unmodelled := true,
                 tags := ("declined:" ++ w) :: tags, klass := if otherFail then "" else klass }
      | none =>
        return { model := " @@ ".intercalate model, agree := agree, stmtModel := stmtModel, stmtImpl := stmtImpl, tags := tags,
                 klass := if otherFail then "" else klass }
  | _, _ => CaseResult.badLine

end Grol.MacroSuite

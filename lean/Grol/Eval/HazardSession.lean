import Grol.Eval.Suite
/-
Shared by the `consts` (C19) and `values` (C06) suites: a session runner that also returns the
hazards the model noted per input (`St.hazards`), a reader for the `g=` dump of the globals,
and the rule that decides whether a difference between the implementation and the
value-semantic model falls in one of the listed known-finding classes.

The rule (`classify`).  The evaluator model gives containers VALUE semantics: that is the
specification C06 asks for, not what the Go code does for large containers (BigArray / *BigMap
share their storage between all copies and are written in place).  So for some programs the
implementation and the model disagree by nature.  Such a case is reported by the suites as
`agree := true`, `stmtImpl := false`, `klass := <class>` ONLY IF, in every configuration, the
first input whose observation differs from the model's comes at or after an input during which
the MODEL executed one of the hazardous operations (accepted by the suite's filter):

  large-array-index-assignment-aliases   `x[i] = v` on an array longer than `maxSmallArray`
  large-map-set-delete-aliases           `x[k] = v`, `x.k = v`, `del(x[k])`, `del(x.k)` on a *BigMap
  large-array-append-shares-capacity     `l + r` with an array longer than `maxSmallArray` on the left

AND the name the operation went through may, by the syntactic may-alias analysis below, reach
storage shared with another live name (for the append class: the base of the `+`).
Every other difference (a write through a name that owns fresh storage — e.g. the result of `+` on
maps —, aliasing of SMALL containers, a difference before any hazardous
operation, a changed threshold making a 6-element array alias, ...) stays a disagreement and,
through the statements, a violation.  The class reported is that of the first hazard noted in
the first differing input, else of the most recent hazard before it.  With `strict` (used by
the consts suite) the hazardous operation must have been executed during the first differing
input itself.  The rule over-approximates in one direction only: a difference that starts after
a hazardous operation is attributed to it even if that operation touched unshared storage
(the model does not know what is shared on the Go heap).
-/
namespace Grol.Hazard
open Grol.E Grol.Wire Grol.EvalSuite

/-- per input: rendered observation and the hazards noted during that input, oldest first -/
def runSessionH (cfg : Cfg) (asts : List String) : Except String (List (String × List String)) := do
  let mut st := initState cfg
  let mut res : List (String × List String) := []
  for a in asts do
    if a == "P" then
      res := res ++ [("P", [])]
    else
      match parseAst a with
      | none => throw "ast-parse"
      | some prog =>
        let (st', r) := runInput { st with hazards := [] } prog
        st := st'
        match r with
        | .ok o => res := res ++ [(o.render, st'.hazards.reverse)]
        | .error w => throw w
  pure res

/-- split at the commas outside brackets -/
def splitTop (s : String) : List String :=
  let (parts, cur, _) := s.toList.foldl (fun (acc : List String × List Char × Nat) c =>
    let (parts, cur, depth) := acc
    if c == '[' then (parts, c :: cur, depth + 1)
    else if c == ']' then (parts, c :: cur, depth - 1)
    else if c == ',' && depth == 0 then (String.ofList cur.reverse :: parts, [], depth)
    else (parts, c :: cur, depth)) ([], [], 0)
  if cur.isEmpty && parts.isEmpty then [] else (String.ofList cur.reverse :: parts).reverse

/-- the `g=` part of one input's observation as (name, typed value dump) pairs -/
def globalsOf (obs : String) : List (String × String) :=
  match obs.splitOn ";g=" with
  | [_, g] => (splitTop g).filterMap fun item =>
      match item.splitOn "=" with
      | name :: rest => if rest.isEmpty then none else some (name, "=".intercalate rest)
      | [] => none
  | _ => []

/-- field `k=` of the visible part (`o`, `v`, `e`, `p`) -/
def field (obs : String) (k : String) : String :=
  let vis := (obs.splitOn ";g=").headD ""
  ((vis.splitOn ";").filterMap fun kv =>
    if kv.startsWith (k ++ "=") then some (kv.drop (k.length + 1)).toString else none).headD ""

def firstDiff : List String → List String → Nat → Option Nat
  | [], [], _ => none
  | x :: xs, y :: ys, i => if x == y then firstDiff xs ys (i + 1) else some i
  | _, _, i => some i

def hazardClass (h : String) : String := (h.splitOn ":").headD ""
def hazardName (h : String) : String := ((h.splitOn ":").drop 1).headD ""

/-- `none`: no difference. `some ""`: a difference no listed class explains. `some k`: explained, class `k`.
`strict`: the hazardous operation must have been executed during the first differing input itself. -/
def classify (strict : Bool) (okHaz : String → Bool) (hazards : List (List String)) (impl model : List String) : Option String :=
  match firstDiff impl model 0 with
  | none => none
  | some d =>
    let hz := (hazards.map fun l => l.filter okHaz).take (d + 1)
    match hz.getLast? with
    | some (h :: _) => if hz.length == d + 1 then some (hazardClass h) else some (if strict then "" else lastOf hz)
    | _ => some (if strict then "" else lastOf hz)
where
  lastOf (hz : List (List String)) : String :=
    match (hz.filter (!·.isEmpty)).getLast? with
    | some l => hazardClass (l.getLast?.getD "")
    | none => ""

/-! ### syntactic may-alias analysis

Which names may share storage ON THE GO HEAP, decided from the session's syntax trees (and, for `+`,
from the kind of the left operand in the model's dump of the globals).  Names are partitioned in
alias groups.  A name joins the group(s) of the SOURCES of the expression bound to it — exactly the
ways the Go code shares the storage of large containers:
  plain copy `b = a`; a bare identifier passed as argument (the parameter joins its group, and the
  call's result may alias its arguments and what the body mentions); a container literal holding
  identifiers (`[a, a]`, `{"k": a}`: containment) and reading an element back (`c[0]`, `m.k`);
  `rest(a)`, `a[i:j]` of ARRAYS (elements only: the sub-slice has no spare capacity, so an append with
  such a base explains nothing); the loop variable of `for e = a`; `x + y` on ARRAYS (append may reuse the left
  operand's spare capacity; elements are shared).
FRESH (own storage): literals without identifiers, `*`, every other operator, `+` with a MAP on the
left (`Append` always builds a new map), and `rest(m)` / `m[i:j]` of a MAP (the pairs are copied) — so `cp = big + {}` puts `cp` alone in a new group.
A hazardous operation (in-place write through name `n`, or append with base `n`) can explain a
difference only if, at some point during that input, `n`'s group had another live member. -/

/-- one partition of the names in alias groups -/
structure Part where
  grp : List (String × Nat) := []
  next : Nat := 0
  /-- names whose group had at least two members at some point during the current input -/
  shared : List String := []

namespace Part

def groupOf (a : Part) (n : String) : Option Nat := a.grp.lookup n

def mark (a : Part) : Part :=
  let sh := a.grp.filterMap fun (n, g) =>
    if (a.grp.filter fun kv => kv.2 == g).length ≥ 2 && !a.shared.contains n then some n else none
  { a with shared := a.shared ++ sh }

def setGrp (grp : List (String × Nat)) (n : String) (g : Nat) : List (String × Nat) :=
  (n, g) :: grp.filter (·.1 != n)

def bind (a : Part) (additive : Bool) (n : String) (srcs : List String) : Part :=
  let srcs := if additive then n :: srcs else srcs
  match (srcs.filterMap a.groupOf).eraseDups with
  | [] => mark { a with grp := setGrp a.grp n a.next, next := a.next + 1 }
  | t :: others =>
    let grp := a.grp.map fun (m, g) => if others.contains g then (m, t) else (m, g)
    mark { a with grp := setGrp grp n t }

def absorb (a : Part) (n : String) (srcs : List String) : Part :=
  match ((n :: srcs).filterMap a.groupOf).eraseDups with
  | [] => a
  | t :: others =>
    mark { a with grp := a.grp.map fun (m, g) => if others.contains g then (m, t) else (m, g) }

end Part

/-- two partitions: `el` = names whose values may share ELEMENT storage (every edge), `cap` = names whose
values may be the same slice header, i.e. share SPARE CAPACITY too (every edge except `rest(a)` / `a[i:j]`,
which since repo fix e9a0cc1 hand out a sub-slice without spare capacity).  In-place writes are judged on
`el`, appends on `cap`. -/
structure Alias where
  el : Part := {}
  cap : Part := {}
  fns : List (String × (List String × Node)) := []
  /-- the input ended in an error (some statements did not run): a rebinding keeps the old membership too -/
  additive : Bool := false

namespace Alias

/-- `n` is (re)bound to a value that may share elements with `srcs` and spare capacity with `capSrcs` -/
def bind (a : Alias) (n : String) (srcs capSrcs : List String) : Alias :=
  { a with el := a.el.bind a.additive n srcs, cap := a.cap.bind a.additive n capSrcs }

/-- `n` now CONTAINS values that may alias `srcs` (index assignment `n[i] = v`) -/
def absorb (a : Alias) (n : String) (srcs capSrcs : List String) : Alias :=
  { a with el := a.el.absorb n srcs, cap := a.cap.absorb n capSrcs }

/-- `del(n)` seen in the text.  The walk is syntactic: the `del` may sit under a condition that is false or in a loop that
does not run (`if x == 1 { del(K) }`), so within the input the name keeps its membership; a name that was really deleted
is dropped at the start of the next input, where only the globals the model reports as live survive. -/
def remove (a : Alias) (_n : String) : Alias := a

end Alias

partial def identsIn : Node → List String
  | .ident n => [n]
  | .pre _ r => identsIn r
  | .post _ n => [n]
  | .inf _ l r => identsIn l ++ identsIn r
  | .stmts l => l.flatMap identsIn
  | .ifE c a b => identsIn c ++ identsIn a ++ identsIn b
  | .forE c b => identsIn c ++ identsIn b
  | .ret v => identsIn v
  | .builtin _ ps => ps.flatMap identsIn
  | .fn _ _ _ _ _ b => identsIn b
  | .call f as => identsIn f ++ as.flatMap identsIn
  | .arr els => els.flatMap identsIn
  | .mapLit ks vs => ks.flatMap identsIn ++ vs.flatMap identsIn
  | .idx _ l i => identsIn l ++ identsIn i
  | _ => []

/-- the node is known to evaluate to a MAP: a map literal, or a global the model's dump shows as `m[…]`
(anything else, including unknown identifiers, is treated like an array: may share) -/
def mapSide (isMap : String → Option Bool) : Node → Bool
  | .mapLit .. => true
  | .ident n => isMap n == some true
  | _ => false

/-- `isMap n`: the model's dump shows the global `n` bound to a map (`none` = unknown) -/
partial def sources (capOnly : Bool) (a : Alias) (isMap : String → Option Bool) : Node → List String
  | .ident n => [n]
  | .arr els => els.flatMap (sources capOnly a isMap)
  | .mapLit ks vs => ks.flatMap (sources capOnly a isMap) ++ vs.flatMap (sources capOnly a isMap)
  -- a slice of a MAP copies the pairs (BigMap.Range, repo fix f3e622e); a slice of a large ARRAY shares the backing
  -- array; reading an element (`c[0]`, `m.k`) yields what the container holds
  | .idx _ l (.inf "COLON" _ _) => if mapSide isMap l || capOnly then [] else sources capOnly a isMap l
  | .idx _ l _ => sources capOnly a isMap l
  -- `rest` of a MAP copies the pairs (BigMap.Rest, same fix); `rest` of a large ARRAY is a sub-slice
  | .builtin "REST" [x] => if mapSide isMap x || capOnly then [] else sources capOnly a isMap x
  | .inf "PLUS" l r =>
    let mapSide := mapSide isMap
    -- map + map builds a new map (fresh pairs): an operand that is an IDENTIFIER contributes nothing, but what a map
    -- LITERAL operand holds is contained in the result (`a + {"x": a}` keeps a pointer to `a`'s storage);
    -- with an ARRAY on the left the right operand (whatever it is) becomes an element
    -- spare capacity: only the LEFT operand's slice may be reused by append
    if mapSide l then (if capOnly then [] else held l ++ held r)
    else if capOnly then sources capOnly a isMap l else sources capOnly a isMap l ++ sources capOnly a isMap r
  | .inf _ _ _ => []
  | .pre _ _ | .post _ _ | .int _ | .float _ | .str _ | .bool _ | .none | .ctl _ | .comment | .macroLit .. => []
  | .fn .. => []
  | .builtin "LEN" _ => []
  | .builtin _ ps => ps.flatMap (sources capOnly a isMap)
  | .call f as =>
    let fromArgs := as.flatMap (sources capOnly a isMap)
    match f with
    | .ident fname => match a.fns.lookup fname with
      | some (params, body) => fromArgs ++ (identsIn body).filter (!params.contains ·)
      | none => fromArgs
    | .fn _ params _ _ _ body => fromArgs ++ (identsIn body).filter (!params.contains ·)
    | other => fromArgs ++ identsIn other
  | .ifE _ x y => sources capOnly a isMap x ++ sources capOnly a isMap y
  | .stmts l => l.flatMap (sources capOnly a isMap)
  | .ret v => sources capOnly a isMap v
  | other => identsIn other
where
  /-- what a map literal holds (keys and values) -/
  held : Node → List String
    | .mapLit ks vs => ks.flatMap (sources false a isMap) ++ vs.flatMap (sources false a isMap)
    | _ => []

/-- effects of evaluating a node on the alias groups (statements in order; loop bodies twice; callee
bodies inlined up to `depth` calls) -/
partial def walk (isMap : String → Option Bool) (depth : Nat) (a : Alias) : Node → Alias
  | .stmts l => l.foldl (walk isMap depth) a
  | .inf op l r =>
    if op == "ASSIGN" || op == "DEFINE" then
      let a := walk isMap depth a r
      let a := match r, l with
        | .fn _ params _ _ _ body, .ident n => { a with fns := (n, (params, body)) :: a.fns }
        -- `h = mk()` where the known function `mk` ends in a function literal: `h` is that closure
        | .call (.ident g) _, .ident n =>
          match a.fns.lookup g with
          | some (_, .stmts body) =>
            match body.getLast? with
            | some (.fn _ params _ _ _ inner) => { a with fns := (n, (params, inner)) :: a.fns }
            | _ => a
          | _ => a
        | _, _ => a
      match l with
      | .ident n => a.bind n (sources false a isMap r) (sources true a isMap r)
      | .idx _ (.ident n) i => (walk isMap depth a i).absorb n (sources false a isMap r) (sources true a isMap r)
      | other => walk isMap depth a other
    else walk isMap depth (walk isMap depth a l) r
  | .forE c body =>
    let a := match c with
      | .inf _ (.ident v) r => (walk isMap depth a r).bind v (sources false a isMap r) (sources true a isMap r)
      | other => walk isMap depth a other
    walk isMap depth (walk isMap depth a body) body
  | .ifE c x y => walk isMap depth (walk isMap depth (walk isMap depth a c) x) y
  | .ret v => walk isMap depth a v
  | .pre _ r => walk isMap depth a r
  | .arr els => els.foldl (walk isMap depth) a
  | .mapLit ks vs => vs.foldl (walk isMap depth) (ks.foldl (walk isMap depth) a)
  | .idx _ l i => walk isMap depth (walk isMap depth a l) i
  | .builtin "DEL" [.ident n] => a.remove n
  | .builtin _ ps => ps.foldl (walk isMap depth) a
  | .fn name params _ _ _ body =>
    match name with
    | some n => { a with fns := (n, (params, body)) :: a.fns }
    | none => a
  | .call f as =>
    let a := as.foldl (walk isMap depth) (walk isMap depth a f)
    let callee : Option (List String × Node) := match f with
      | .ident fname => a.fns.lookup fname
      | .fn _ params _ _ _ body => some (params, body)
      | _ => none
    match callee, depth with
    | some (params, body), d + 1 =>
      let a := (params.zip as).foldl (fun a (p, arg) => a.bind p (sources false a isMap arg) (sources true a isMap arg)) a
      walk isMap d a body
    | _, _ => a
  | _ => a

/-- per input: (names through which an in-place WRITE may reach element storage shared with another live
name, names whose spare CAPACITY may be shared with another live name).  `dumps` = the model's observations
(for the live globals and their kinds). -/
def sharedPerInput (asts : List String) (dumps : List String) : List (List String × List String) :=
  let rec go (asts : List String) (dumps : List String) (prev : List (String × String)) (a : Alias)
      (acc : List (List String × List String)) : List (List String × List String) :=
    match asts, dumps with
    | ast :: asts', dump :: dumps' =>
      let cur := globalsOf dump
      -- only live globals survive between inputs (locals and parameters of finished calls do not)
      let live := fun (kv : String × Nat) => (prev.lookup kv.1).isSome
      let a := { a with el := { a.el with grp := a.el.grp.filter live, shared := [] },
                        cap := { a.cap with grp := a.cap.grp.filter live, shared := [] },
                        additive := field dump "e" != "0" || field dump "p" != "-" }
      let isMap : String → Option Bool := fun n =>
        match prev.lookup n with
        | some v => some (v.startsWith "m[")
        | none => (cur.lookup n).map (·.startsWith "m[")
      let a := { a with el := a.el.mark, cap := a.cap.mark }
      let a := match parseAst ast with
        | some prog => walk isMap 6 a prog
        | none => a
      go asts' dumps' (if dump == "P" then prev else cur) a (acc ++ [(a.el.shared, a.cap.shared)])
    | _, _ => acc
  termination_by asts.length
  go asts dumps [] {} []

/-- keep only the hazards whose name may reach shared storage in that input: element storage for the
in-place writes, spare capacity for the append class -/
def sharedHazards (asts : List String) (dumps : List String) (hazards : List (List String)) : List (List String) :=
  (hazards.zip (sharedPerInput asts dumps)).map fun (hz, (sh, capSh)) => hz.filter fun h =>
    if hazardClass h == "large-array-append-shares-capacity" then capSh.contains (hazardName h)
    else sh.contains (hazardName h)

/-- combine the per-configuration classifications: (some difference?, all explained?, class) -/
def combine (cs : List (Option String)) : Bool × Bool × String :=
  let diffs := cs.filterMap id
  (!diffs.isEmpty, diffs.all (· != ""), diffs.headD "")

end Grol.Hazard

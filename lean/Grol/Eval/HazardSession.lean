import Grol.Eval.Suite
/-
Shared by the `consts` (C19) and `values` (C06) suites: a session runner that also returns the
hazards the model noted per input (`St.hazards`), a reader for the `g=` dump of the globals,
and the rule that decides whether a difference between the implementation and the
value-semantic model falls in one of the listed known-finding classes.

The rule (`classify`).  The evaluator model gives containers VALUE semantics: that is the
specification C06 asks for, not what the Go code does for large containers (BigArray / *BigMap
share their storage between all copies and are written in place).  So for some programs the
implementation and the model disagree by nature.  Such a case is reported by the suites as
`agree := true`, `stmtImpl := false`, `klass := <class>` ONLY IF, in every configuration, the
first input whose observation differs from the model's comes at or after an input during which
the MODEL executed one of the hazardous operations (accepted by the suite's filter):

  large-array-index-assignment-aliases   `x[i] = v` on an array longer than `maxSmallArray`
  large-map-set-delete-aliases           `x[k] = v`, `x.k = v`, `del(x[k])`, `del(x.k)` on a *BigMap
  large-array-append-shares-capacity     `l + r` with an array longer than `maxSmallArray` on the left

Every other difference (aliasing of SMALL containers, a difference before any hazardous
operation, a changed threshold making a 6-element array alias, ...) stays a disagreement and,
through the statements, a violation.  The class reported is that of the first hazard noted in
the first differing input, else of the most recent hazard before it.  With `strict` (used by
the consts suite) the hazardous operation must have been executed during the first differing
input itself.  The rule over-approximates in one direction only: a difference that starts after
a hazardous operation is attributed to it even if that operation touched unshared storage
(the model does not know what is shared on the Go heap).
-/
namespace Grol.Hazard
open Grol.E Grol.Wire Grol.EvalSuite

/-- per input: rendered observation and the hazards noted during that input, oldest first -/
def runSessionH (cfg : Cfg) (asts : List String) : Except String (List (String × List String)) := do
  let mut st := initState cfg
  let mut res : List (String × List String) := []
  for a in asts do
    if a == "P" then
      res := res ++ [("P", [])]
    else
      match parseAst a with
      | none => throw "ast-parse"
      | some prog =>
        let (st', r) := runInput { st with hazards := [] } prog
        st := st'
        match r with
        | .ok o => res := res ++ [(o.render, st'.hazards.reverse)]
        | .error w => throw w
  pure res

/-- split at the commas outside brackets -/
def splitTop (s : String) : List String :=
  let (parts, cur, _) := s.toList.foldl (fun (acc : List String × List Char × Nat) c =>
    let (parts, cur, depth) := acc
    if c == '[' then (parts, c :: cur, depth + 1)
    else if c == ']' then (parts, c :: cur, depth - 1)
    else if c == ',' && depth == 0 then (String.ofList cur.reverse :: parts, [], depth)
    else (parts, c :: cur, depth)) ([], [], 0)
  if cur.isEmpty && parts.isEmpty then [] else (String.ofList cur.reverse :: parts).reverse

/-- the `g=` part of one input's observation as (name, typed value dump) pairs -/
def globalsOf (obs : String) : List (String × String) :=
  match obs.splitOn ";g=" with
  | [_, g] => (splitTop g).filterMap fun item =>
      match item.splitOn "=" with
      | name :: rest => if rest.isEmpty then none else some (name, "=".intercalate rest)
      | [] => none
  | _ => []

/-- field `k=` of the visible part (`o`, `v`, `e`, `p`) -/
def field (obs : String) (k : String) : String :=
  let vis := (obs.splitOn ";g=").headD ""
  ((vis.splitOn ";").filterMap fun kv =>
    if kv.startsWith (k ++ "=") then some (kv.drop (k.length + 1)).toString else none).headD ""

def firstDiff : List String → List String → Nat → Option Nat
  | [], [], _ => none
  | x :: xs, y :: ys, i => if x == y then firstDiff xs ys (i + 1) else some i
  | _, _, i => some i

def hazardClass (h : String) : String := (h.splitOn ":").headD ""
def hazardName (h : String) : String := ((h.splitOn ":").drop 1).headD ""

/-- `none`: no difference. `some ""`: a difference no listed class explains. `some k`: explained, class `k`.
`strict`: the hazardous operation must have been executed during the first differing input itself. -/
def classify (strict : Bool) (okHaz : String → Bool) (hazards : List (List String)) (impl model : List String) : Option String :=
  match firstDiff impl model 0 with
  | none => none
  | some d =>
    let hz := (hazards.map fun l => l.filter okHaz).take (d + 1)
    match hz.getLast? with
    | some (h :: _) => if hz.length == d + 1 then some (hazardClass h) else some (if strict then "" else lastOf hz)
    | _ => some (if strict then "" else lastOf hz)
where
  lastOf (hz : List (List String)) : String :=
    match (hz.filter (!·.isEmpty)).getLast? with
    | some l => hazardClass (l.getLast?.getD "")
    | none => ""

/-- combine the per-configuration classifications: (some difference?, all explained?, class) -/
def combine (cs : List (Option String)) : Bool × Bool × String :=
  let diffs := cs.filterMap id
  (!diffs.isEmpty, diffs.all (· != ""), diffs.headD "")

end Grol.Hazard

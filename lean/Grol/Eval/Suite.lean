import Grol.Suite
import Grol.Eval.Sexp
/-
Driver side of the `eval` correspondence suite and the executable statements of the
evaluator properties (C01, C04, C05, C07).  See harness/cmd/harness/evalsuite.go for the
line format.
-/
namespace Grol.EvalSuite
open Grol.E Grol.Wire

structure Case where
  prop : String
  maxDepth : Nat := 150000
  steps : Option Nat := none
  asts : List String
  /-- per configuration (A, B, C, D) the per-input observations as written by the harness -/
  cfgs : List (String × List String)

def parseOpts (s : String) (c : Case) : Case :=
  (splitOn s ',').foldl (fun c kv =>
    match splitOn kv '=' with
    | ["d", n] => { c with maxDepth := n.toNat?.getD c.maxDepth }
    | ["steps", n] => { c with steps := n.toNat? }
    | _ => c) c

def parseCase (inp obs : String) : Option Case := do
  let (prop, opts) ← match splitOn inp ';' with
    | [p, o, _] => some (p, o)
    | _ => none
  match obs.splitOn " @@ " with
  | asts :: cfgs =>
    let cfgs ← cfgs.mapM fun c =>
      if c.length < 2 then none else
      some ((c.take 1).toString, ((c.drop 2).toString.splitOn "/"))
    pure (parseOpts opts { prop := prop, asts := asts.splitOn "|", cfgs := cfgs })
  | [] => none

/-- run the model session; `none` if the model declines (with the reason) -/
def runSession (cfg : Cfg) (asts : List String) : Except String (List String) := do
  let mut st := initState cfg
  let mut res : List String := []
  for a in asts do
    if a == "P" then
      res := res ++ ["P"]
    else
      match parseAst a with
      | none => throw "ast-parse"
      | some prog =>
        let (st', r) := runInput st prog
        st := st'
        match r with
        | .ok o => res := res ++ [o.render]
        | .error w => throw w
  pure res

/-- was the step budget exhausted during the input that led to `st`? (`evalI` counts a step, then refuses when the
count BEFORE it had reached the budget: the budget ran out iff the counter went past it) -/
def deadlineFired (st : St) : Bool :=
  match st.cfg.deadlineAfter with
  | some k => st.steps > k
  | none => false

/-- `runSession` with the eval suite's extra field `t=<0|1>` (step budget exhausted during this input) -/
def runSessionT (cfg : Cfg) (asts : List String) : Except String (List String) := do
  let mut st := initState cfg
  let mut res : List String := []
  for a in asts do
    if a == "P" then
      res := res ++ ["P"]
    else
      match parseAst a with
      | none => throw "ast-parse"
      | some prog =>
        let (st', r) := runInput st prog
        st := st'
        match r with
        | .ok o => res := res ++ [o.render ++ ";t=" ++ (if deadlineFired st' then "1" else "0")]
        | .error w => throw w
  pure res

def cfgObs (c : Case) (name : String) : List String := (c.cfgs.lookup name).getD []

def deadlineHit (obs : List String) : Bool := obs.any fun o => o.endsWith ";t=1"

/-- the part of an input's observation the language-level properties speak about: output, value,
error flag, panic kind (not the dump of the globals) -/
def visible (obs : List String) : List String := obs.map fun o => ((o.splitOn ";g=").headD "")

def hasGoPanic (obs : List String) : Bool := obs.any fun o => (o.splitOn ";p=go;").length > 1

/-! ### the open C05 class `loop-variable-invisible-to-callee`

While a counted loop's variable lives in a register it is not a binding of the loop's scope, so a
function CALLED from the body that reads the variable through its defining scope does not find it
(`func g(){i}; for i = 3 {println(g())}`: "identifier not found: i" with registers, 0 1 2 without).
The class is decided on the session's trees only: some counted-loop form `for NAME = …` whose body can
use a register at all (no function literal inside), contains a call, and some function literal of the
session mentions NAME without binding it as a parameter.  Every other difference between the register
configurations stays a violation. -/

partial def subnodes (n : Node) : List Node :=
  n :: match n with
    | .pre _ r => subnodes r
    | .inf _ l r => subnodes l ++ subnodes r
    | .stmts l => l.flatMap subnodes
    | .ifE c a b => subnodes c ++ subnodes a ++ subnodes b
    | .forE c b => subnodes c ++ subnodes b
    | .ret v => subnodes v
    | .builtin _ ps => ps.flatMap subnodes
    | .fn _ _ _ _ _ b => subnodes b
    | .macroLit _ b => subnodes b
    | .call f as => subnodes f ++ as.flatMap subnodes
    | .arr els => els.flatMap subnodes
    | .mapLit ks vs => ks.flatMap subnodes ++ vs.flatMap subnodes
    | .idx _ l i => subnodes l ++ subnodes i
    | _ => []

def isCall : Node → Bool
  | .call .. => true
  | _ => false

def isFnLit : Node → Bool
  | .fn .. => true
  | _ => false

/-- a function literal reading `name` from outside (not one of its parameters) -/
def isLoopOver (name : String) : Node → Bool
  | .forE (.inf op (.ident n) _) _ => n == name && (op == "ASSIGN" || op == "DEFINE")
  | _ => false

/-- a function literal reading `name` from outside: not one of its parameters, and not the variable of a counted loop
of its own (the function that CONTAINS the loop is not a callee reading the loop's variable) -/
def fnMentionsFree (name : String) : Node → Bool
  | .fn _ ps _ _ _ body => !ps.contains name && !(subnodes body).any (isLoopOver name) && mentions [name] body
  | _ => false

def loopVariableInvisibleToCallee (asts : List Node) : Bool :=
  let all := asts.flatMap subnodes
  all.any fun n =>
    match n with
    | .forE (.inf op (.ident name) _) body =>
      let inBody := subnodes body
      (op == "ASSIGN" || op == "DEFINE") && inBody.any isCall && !inBody.any isFnLit &&
        all.any (fnMentionsFree name)
    | _ => false

/-- index of the first input on which two configurations differ (visible part) -/
def firstVisibleDiff : List String → List String → Nat → Option Nat
  | [], [], _ => none
  | x :: xs, y :: ys, i => if x == y then firstVisibleDiff xs ys (i + 1) else some i
  | _, _, i => some i

/-- the class can only explain a difference that STARTS at an input by which the loop, the call in its body and the
function reading the variable have all been submitted: only the inputs up to the first differing one are inspected
(the whole session used to be, which excused differences that began before the loop was even written) -/
def c05Class (c : Case) : String :=
  let a := visible (cfgObs c "A"); let b := visible (cfgObs c "B")
  let cc := visible (cfgObs c "C"); let d := visible (cfgObs c "D")
  let upTo := match firstVisibleDiff a b 0, firstVisibleDiff cc d 0 with
    | some i, some j => min i j + 1
    | some i, none | none, some i => i + 1
    | none, none => 0
  if loopVariableInvisibleToCallee ((c.asts.take upTo).filterMap parseAst) then "loop-variable-invisible-to-callee" else ""

/-! ### the open C04 class `recursive-call-hit-ignores-callers-local-function`

A same-function (recursive) call is parented to its CALLER's frame, so a free name of the body can resolve to a local of
an outer instance of the function; a result remembered for a call from another scope chain (where the name resolved
to the top-level function) is then served to it: `g=func(){1}; func f(n){ if n==0 {return g()}; g := func(){2}; f(n-1) }; f(0); f(1)`.
Decided on the session's trees: some function literal that calls itself (by its name or `self`) and binds, in its own body,
a function literal to a name that a top-level statement of the session also binds to a function. -/

def topFunctionNames (asts : List Node) : List String :=
  asts.flatMap fun prog =>
    match prog with
    | .stmts l => l.filterMap fun st =>
        match st with
        | .inf _ (.ident n) (.fn ..) => some n
        | .fn (some n) .. => some n
        | _ => none
    | _ => []

def bindsFunctionLocally (names : List String) (body : Node) : Bool :=
  (subnodes body).any fun n =>
    match n with
    | .inf op (.ident g) (.fn ..) => (op == "ASSIGN" || op == "DEFINE") && names.contains g
    | .fn (some g) .. => names.contains g
    | _ => false

def recursiveCallSeesCallersLocalFunction (asts : List Node) : Bool :=
  let tops := topFunctionNames asts
  let all := asts.flatMap subnodes
  -- the names under which function literals are bound anywhere (a function bound by assignment calls itself by that name)
  all.any fun n =>
    match n with
    | .inf _ (.ident f) (.fn _ _ _ _ _ body) => mentions [f, "self"] body && bindsFunctionLocally tops body
    | .fn (some f) _ _ _ _ body => mentions [f, "self"] body && bindsFunctionLocally tops body
    | _ => false

def c04Class (c : Case) : String :=
  if recursiveCallSeesCallersLocalFunction (c.asts.filterMap parseAst) then "recursive-call-hit-ignores-callers-local-function" else ""

def runCase (inp obs : String) : CaseResult :=
  match parseCase inp obs with
  | none => CaseResult.badLine
  | some c =>
    let a := cfgObs c "A"; let b := cfgObs c "B"; let cc := cfgObs c "C"; let d := cfgObs c "D"
    let base : Cfg := { maxDepth := c.maxDepth, deadlineAfter := c.steps }
    let m1 := runSessionT { base with cacheOn := true } c.asts
    let m0 := runSessionT { base with cacheOn := false } c.asts
    -- a run cut by the step budget is cut at a point that depends on how the steps were spent (a cache hit and a
    -- register save steps): such a case is no evidence about C01/C04/C05 either way
    let cut := deadlineHit a || deadlineHit b || deadlineHit cc || deadlineHit d
    let anyErr := a.any fun o => (o.splitOn ";e=1;").length > 1
    let tags := [if anyErr then "ends-in-error" else "no-error", if c.asts.length > 1 then "multi-input" else "single-input"]
      ++ (if cut then ["step-budget-exhausted"] else [])
    let stmtCfg : Bool := match c.prop with
      | "C04" => cut || (visible a == visible cc && visible b == visible d)
      | "C05" => cut || (visible a == visible b && visible cc == visible d)
      | "C07" => !(hasGoPanic a || hasGoPanic b || hasGoPanic cc || hasGoPanic d)
      | _ => true
    match m1, m0 with
    | .ok r1, .ok r0 =>
      let model := "B:" ++ "/".intercalate r1 ++ " @@ D:" ++ "/".intercalate r0
      let stmtImpl := stmtCfg && (if c.prop == "C01" then cut || visible a == visible r0 else true)
      let stmtModel := match c.prop with
        | "C04" => cut || visible r1 == visible r0
        | "C07" => !(hasGoPanic r1 || hasGoPanic r0)
        | _ => true
      { model := model, agree := b == r1 && d == r0, stmtModel := stmtModel, stmtImpl := stmtImpl, tags := tags,
        nontrivial := !a.all (· == "P") && !cut,
        klass := if c.prop == "C05" && !stmtImpl then c05Class c else "" }
    | .error w, _ | _, .error w =>
      { model := "declined:" ++ w, agree := false, stmtModel := true, stmtImpl := stmtCfg, unmodelled := true,
        tags := ("declined:" ++ w) :: tags, nontrivial := !a.all (· == "P"),
        klass := if c.prop == "C05" && !stmtCfg then c05Class c else "" }

end Grol.EvalSuite

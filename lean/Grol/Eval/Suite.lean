import Grol.Suite
import Grol.Eval.Sexp
/-
Driver side of the `eval` correspondence suite and the executable statements of the
evaluator properties (C01, C04, C05, C07).  See harness/cmd/harness/evalsuite.go for the
line format.
-/
namespace Grol.EvalSuite
open Grol.E Grol.Wire

structure Case where
  prop : String
  maxDepth : Nat := 150000
  steps : Option Nat := none
  asts : List String
  /-- per configuration (A, B, C, D) the per-input observations as written by the harness -/
  cfgs : List (String × List String)

def parseOpts (s : String) (c : Case) : Case :=
  (splitOn s ',').foldl (fun c kv =>
    match splitOn kv '=' with
    | ["d", n] => { c with maxDepth := n.toNat?.getD c.maxDepth }
    | ["steps", n] => { c with steps := n.toNat? }
    | _ => c) c

def parseCase (inp obs : String) : Option Case := do
  let (prop, opts) ← match splitOn inp ';' with
    | [p, o, _] => some (p, o)
    | _ => none
  match obs.splitOn " @@ " with
  | asts :: cfgs =>
    let cfgs ← cfgs.mapM fun c =>
      if c.length < 2 then none else
      some ((c.take 1).toString, ((c.drop 2).toString.splitOn "/"))
    pure (parseOpts opts { prop := prop, asts := asts.splitOn "|", cfgs := cfgs })
  | [] => none

/-- run the model session; `none` if the model declines (with the reason) -/
def runSession (cfg : Cfg) (asts : List String) : Except String (List String) := do
  let mut st := initState cfg
  let mut res : List String := []
  for a in asts do
    if a == "P" then
      res := res ++ ["P"]
    else
      match parseAst a with
      | none => throw "ast-parse"
      | some prog =>
        let (st', r) := runInput st prog
        st := st'
        match r with
        | .ok o => res := res ++ [o.render]
        | .error w => throw w
  pure res

/-- was the step budget exhausted during the input that led to `st`? (`evalI` counts a step, then refuses when the
count BEFORE it had reached the budget: the budget ran out iff the counter went past it) -/
def deadlineFired (st : St) : Bool :=
  match st.cfg.deadlineAfter with
  | some k => st.steps > k
  | none => false

/-- `runSession` with the eval suite's extra field `t=<0|1>` (step budget exhausted during this input) -/
def runSessionT (cfg : Cfg) (asts : List String) : Except String (List String) := do
  let mut st := initState cfg
  let mut res : List String := []
  for a in asts do
    if a == "P" then
      res := res ++ ["P"]
    else
      match parseAst a with
      | none => throw "ast-parse"
      | some prog =>
        let (st', r) := runInput st prog
        st := st'
        match r with
        | .ok o => res := res ++ [o.render ++ ";t=" ++ (if deadlineFired st' then "1" else "0")]
        | .error w => throw w
  pure res

def cfgObs (c : Case) (name : String) : List String := (c.cfgs.lookup name).getD []

def deadlineHit (obs : List String) : Bool := obs.any fun o => o.endsWith ";t=1"

/-- the part of an input's observation the language-level properties speak about: output, value,
error flag, panic kind (not the dump of the globals) -/
def visible (obs : List String) : List String := obs.map fun o => ((o.splitOn ";g=").headD "")

def hasGoPanic (obs : List String) : Bool := obs.any fun o => (o.splitOn ";p=go;").length > 1

/-! ### the open C05 class `loop-variable-invisible-to-callee`

While a counted loop's variable lives in a register it is not a binding of the loop's scope, so a
function CALLED from the body that reads the variable through its defining scope does not find it
(`func g(){i}; for i = 3 {println(g())}`: "identifier not found: i" with registers, 0 1 2 without).
The class is decided on the session's trees only: some counted-loop form `for NAME = …` whose body can
use a register at all (no function literal inside), contains a call, and some function literal of the
session mentions NAME without binding it as a parameter.  Every other difference between the register
configurations stays a violation. -/

partial def subnodes (n : Node) : List Node :=
  n :: match n with
    | .pre _ r => subnodes r
    | .inf _ l r => subnodes l ++ subnodes r
    | .stmts l => l.flatMap subnodes
    | .ifE c a b => subnodes c ++ subnodes a ++ subnodes b
    | .forE c b => subnodes c ++ subnodes b
    | .ret v => subnodes v
    | .builtin _ ps => ps.flatMap subnodes
    | .fn _ _ _ _ _ b => subnodes b
    | .macroLit _ b => subnodes b
    | .call f as => subnodes f ++ as.flatMap subnodes
    | .arr els => els.flatMap subnodes
    | .mapLit ks vs => ks.flatMap subnodes ++ vs.flatMap subnodes
    | .idx _ l i => subnodes l ++ subnodes i
    | _ => []

def isCall : Node → Bool
  | .call .. => true
  | _ => false

def isFnLit : Node → Bool
  | .fn .. => true
  | _ => false

/-- a function literal reading `name` from outside (not one of its parameters) -/
def isLoopOver (name : String) : Node → Bool
  | .forE (.inf op (.ident n) _) _ => n == name && (op == "ASSIGN" || op == "DEFINE")
  | _ => false

/-- a function literal reading `name` from outside: not one of its parameters, and not the variable of a counted loop
of its own (the function that CONTAINS the loop is not a callee reading the loop's variable) -/
def fnMentionsFree (name : String) : Node → Bool
  | .fn _ ps _ _ _ body => !ps.contains name && !(subnodes body).any (isLoopOver name) && mentions [name] body
  | _ => false

def loopVariableInvisibleToCallee (asts : List Node) : Bool :=
  let all := asts.flatMap subnodes
  all.any fun n =>
    match n with
    | .forE (.inf op (.ident name) _) body =>
      let inBody := subnodes body
      (op == "ASSIGN" || op == "DEFINE") && inBody.any isCall && !inBody.any isFnLit &&
        all.any (fnMentionsFree name)
    | _ => false

def c05Class (c : Case) : String :=
  if loopVariableInvisibleToCallee (c.asts.filterMap parseAst) then "loop-variable-invisible-to-callee" else ""

def runCase (inp obs : String) : CaseResult :=
  match parseCase inp obs with
  | none => CaseResult.badLine
  | some c =>
    let a := cfgObs c "A"; let b := cfgObs c "B"; let cc := cfgObs c "C"; let d := cfgObs c "D"
    let base : Cfg := { maxDepth := c.maxDepth, deadlineAfter := c.steps }
    let m1 := runSessionT { base with cacheOn := true } c.asts
    let m0 := runSessionT { base with cacheOn := false } c.asts
    -- a run cut by the step budget is cut at a point that depends on how the steps were spent (a cache hit and a
    -- register save steps): such a case is no evidence about C01/C04/C05 either way
    let cut := deadlineHit a || deadlineHit b || deadlineHit cc || deadlineHit d
    let anyErr := a.any fun o => (o.splitOn ";e=1;").length > 1
    let tags := [if anyErr then "ends-in-error" else "no-error", if c.asts.length > 1 then "multi-input" else "single-input"]
      ++ (if cut then ["step-budget-exhausted"] else [])
    let stmtCfg : Bool := match c.prop with
      | "C04" => cut || (visible a == visible cc && visible b == visible d)
      | "C05" => cut || (visible a == visible b && visible cc == visible d)
      | "C07" => !(hasGoPanic a || hasGoPanic b || hasGoPanic cc || hasGoPanic d)
      | _ => true
    match m1, m0 with
    | .ok r1, .ok r0 =>
      let model := "B:" ++ "/".intercalate r1 ++ " @@ D:" ++ "/".intercalate r0
      let stmtImpl := stmtCfg && (if c.prop == "C01" then cut || visible a == visible r0 else true)
      let stmtModel := match c.prop with
        | "C04" => cut || visible r1 == visible r0
        | "C07" => !(hasGoPanic r1 || hasGoPanic r0)
        | _ => true
      { model := model, agree := b == r1 && d == r0, stmtModel := stmtModel, stmtImpl := stmtImpl, tags := tags,
        nontrivial := !a.all (· == "P") && !cut,
        klass := if c.prop == "C05" && !stmtImpl then c05Class c else "" }
    | .error w, _ | _, .error w =>
      { model := "declined:" ++ w, agree := false, stmtModel := true, stmtImpl := stmtCfg, unmodelled := true,
        tags := ("declined:" ++ w) :: tags, nontrivial := !a.all (· == "P") }

end Grol.EvalSuite

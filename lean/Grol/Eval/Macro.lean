import Grol.Eval.Sexp
/-
Model of macro definition and expansion: eval/macro_expension.go (DefineMacros, isMacroDefinition,
addMacro, isMacroCall, MacroErrorf, ExpandMacros, quoteArgs, extendMacroEnv), eval/quote_unquote.go
(quote, evalUnquoteCalls, convertObjectToASTNode, isUnquoteCall) and ast/modify.go (Modify,
ModifyNoOk).  One Lean function per Go function, same case structure.

What a pure model cannot express: Go-level node SHARING.  `Modify` builds new interior nodes and
copies leaves (integer literals are shared, not copied); `convertObjectToASTNode` returns the very
pointer held by the Quote, so a parameter used twice puts the SAME argument node at two places of
the expanded tree, and the nodes of a macro body are shared between the store and `ast.MacroLiteral`.
Here trees are values.  That no later pass mutates a shared node is covered only by the history
part of the correspondence suite (stored definitions re-dumped after every use).

The macro store is `State.macroState`, an `object.Environment` without outer.  After the fix of
`extendMacroEnv` (parameters are created with `SetNoChecks(…, true)`), the only objects it ever
holds are `*object.Macro`.  The model follows the fixed code: a macro body runs under the session's
depth limit and deadline with its output discarded and without cache; an unquoted value without
syntax becomes an `error("…")` node; `x.y = macro…` is not a definition; an all-caps macro keeps its
first definition.
-/
namespace Grol.Macro
open Grol.E Grol.Wire

structure MacroDef where
  params : List String
  body : Node
  deriving Inhabited

abbrev Store := List (String × MacroDef)

/-- what the macro-body state inherits from the session (`evalEnv.Context = s.Context`,
`evalEnv.MaxDepth = s.MaxDepth`) plus the model's own recursion fuel -/
structure Limits where
  fuel : Nat := 4000
  maxDepth : Nat := 150000
  deadlineAfter : Option Nat := none
  deriving Inhabited

/-- expansion stops abnormally exactly when the evaluator model does: Go panic, depth guard
(a Go panic with the "max depth" text), out of lim, outside the modelled subset -/
abbrev X := Except Stop

def lookupDef : Store → String → Option MacroDef
  | [], _ => none
  | (k, v) :: rest, name => if k == name then some v else lookupDef rest name

def setDef : Store → String → MacroDef → Store
  | [], name, v => [(name, v)]
  | (k, w) :: rest, name, v => if k == name then (k, v) :: rest else (k, w) :: setDef rest name v

/-! ### DefineMacros -/

/-- `isAssign` + `isMacroDefinition`: an infix node whose token is `=` (not `:=`), whose left operand
is a plain identifier and whose right operand is a macro literal (`m.x = macro…`, `a[0] = macro…` are
not definitions: they stay in the program) -/
def isMacroDefinition : Node → Bool
  | .inf "ASSIGN" (.ident _) (.macroLit ..) => true
  | _ => false

/-- `extraFunctions` (object.IsExtraFunction): names a binding may never take -/
def isExtraFunction (name : String) : Bool := defaultExtNames.contains name

/-- `addMacro`: `assign.Left.(*ast.Identifier)` is an unchecked type assertion, but `isMacroDefinition`
has checked it (the last case below is unreachable from `defineLoop`); `s.Set(name, macro)` = `CreateOrSet(name, macro, false)` on the macro
environment, whose result (possibly an error object) is dropped:
* a constant name (all caps) that is already bound keeps its first definition (`addMacro` returns
  before `Set`, whose `Equals` on two MACRO objects used to panic in `Cmp`);
* the name of an extension function: error object, nothing stored;
* `info`: `Get("info")` answers the environment description, never the macro; the name is not a
  constant so the macro is stored (and can never be called);
* otherwise the entry is created or replaced. -/
def addMacro (store : Store) : Node → X Store
  | .inf _ (.ident name) (.macroLit params body) =>
    if isConstant name && (lookupDef store name).isSome then .ok store
    else if isExtraFunction name then .ok store
    else .ok (setDef store name { params := params, body := body })
  | _ => .error (.goPanic "addMacro: assign.Left.(*ast.Identifier)")

/-- the loop of `DefineMacros` over the TOP-LEVEL statements only: definitions are recorded and
removed, everything else is kept in order.  On a panic the store holds what was recorded so far. -/
def defineLoop (store : Store) : List Node → List Node → Store × X (List Node)
  | [], kept => (store, .ok kept.reverse)
  | s :: rest, kept =>
    if isMacroDefinition s then
      match addMacro store s with
      | .ok store' => defineLoop store' rest kept
      | .error e => (store, .error e)
    else defineLoop store rest (s :: kept)

/-- `DefineMacros`: `programNode.(*ast.Statements)` (always the case for a parsed program) -/
def defineMacros (store : Store) : Node → Store × X Node
  | .stmts l =>
    match defineLoop store l [] with
    | (s, .ok kept) => (s, .ok (.stmts kept))
    | (s, .error e) => (s, .error e)
  | _ => (store, .error (.goPanic "DefineMacros: programNode.(*ast.Statements)"))

/-! ### ast.Modify / ModifyNoOk -/

mutual
/-- `ast.ModifyNoOk`: bottom-up copying traversal; `f` is applied to every rebuilt node.  Same case
list and same order of children as the Go switch.  Not traversed: the single token of a postfix
expression; parameters of function and macro literals are identifiers passed through `f` (for
both callbacks used here the identity).  An absent else branch / return value is not visited;
any other nil child falls in the `default:` case (`f(nil)`). -/
def modify (f : Node → X Node) : Node → X Node
  | .stmts l => do f (.stmts (← modifyList f l))
  | .inf op l r => do
    let l' ← modify f l
    let r' ← modify f r
    f (.inf op l' r')
  | .pre op r => do f (.pre op (← modify f r))
  | .idx tok l i => do
    let l' ← modify f l
    let i' ← modify f i
    f (.idx tok l' i')
  | .ifE c a .none => do
    let c' ← modify f c
    let a' ← modify f a
    f (.ifE c' a' .none)
  | .ifE c a b => do
    let c' ← modify f c
    let a' ← modify f a
    let b' ← modify f b
    f (.ifE c' a' b')
  | .forE c b => do
    let c' ← modify f c
    let b' ← modify f b
    f (.forE c' b')
  | .ret .none => f (.ret .none)
  | .ret v => do f (.ret (← modify f v))
  | .fn name ps variadic lambda key body => do f (.fn name ps variadic lambda key (← modify f body))
  | .arr els => do f (.arr (← modifyList f els))
  | .mapLit ks vs => do
    -- Go visits key, value, key, value, …; here all keys, then all values.  The rebuilt node is the
    -- same; only which of two different panics is met first could differ.
    let ks' ← modifyList f ks
    let vs' ← modifyList f vs
    f (.mapLit ks' vs')
  | .builtin name ps => do f (.builtin name (← modifyList f ps))
  | .call fn args => do
    -- the callee is traversed too (since the fix of ast.Modify; before, `newNode := *node` kept it)
    let fn' ← modify f fn
    let args' ← modifyList f args
    f (.call fn' args')
  | .macroLit ps body => do f (.macroLit ps (← modify f body))
  | n => f n

def modifyList (f : Node → X Node) : List Node → X (List Node)
  | [] => pure []
  | x :: xs => do
    let x' ← modify f x
    let xs' ← modifyList f xs
    pure (x' :: xs')
end

/-! ### quote / unquote -/

/-- `convertObjectToASTNode`: integers, booleans and quotes; anything else logs a warning and
returns a Go nil node (`none`) -/
def convertObjectToASTNode : Obj → Option Node
  | .int v => some (.int v)
  | .bool b => some (.bool b)
  | .quote n => some n
  | _ => none

/-- the environment built by `extendMacroEnv`: parameter name ↦ argument tree (every value is an
`object.Quote`).  `SetNoChecks(name, quote, true)` = `create`: a repeated name is overwritten. -/
abbrev MEnv := List (String × Node)

def lookupArg : MEnv → String → Option Node
  | [], _ => none
  | (k, v) :: rest, name => if k == name then some v else lookupArg rest name

def setArg : MEnv → String → Node → MEnv
  | [], name, v => [(name, v)]
  | (k, w) :: rest, name, v => if k == name then (k, v) :: rest else (k, w) :: setArg rest name v

/-- `quoteArgs` + `extendMacroEnv` (the caller has checked `len(args) == len(params)`) -/
def extendMacroEnv : List String → List Node → MEnv → MEnv
  | p :: ps, a :: as, env => extendMacroEnv ps as (setArg env p a)
  | _, _, env => env

/-- the state `&State{env: extended, Out: io.Discard, LogOut: io.Discard}` of `extendMacroEnv`, with
`Context` and `MaxDepth` of the session (set by `ExpandMacros`): no cache (a nil cache never
memoizes), no extensions, output discarded.  `depth = 1`: we are inside `Eval(macro.Body)`. -/
def macroSt (lim : Limits) (env : MEnv) : St :=
  { cfg := { cacheOn := false, maxDepth := lim.maxDepth, deadlineAfter := lim.deadlineAfter },
    frames := #[{}, { store := env.map fun (k, v) => (k, Obj.quote v), outer := some 0 }],
    cur := 1, root := 0, depth := 1, outs := [[]], extNames := [] }

/-- bindings and set counters of the macro store frame and the macro's own frame -/
def frameSets (st : St) : Nat := (st.frames.toList.take 2).foldl (fun n f => n + f.numSet + f.store.length) 0

/-- anything that is not a parameter lookup or a `quote(…)` statement: run the evaluator model
(`evalInternal`) in the macro state; what it writes is discarded.  Declined: expressions naming a
macro (the store's objects are not values of the evaluator model) and evaluations that change the
macro environment (this model keeps it immutable). -/
def general (lim : Limits) (store : Store) (env : MEnv) (node : Node) : X Obj :=
  if mentions ("info" :: "self" :: store.map (·.1)) node then .error (.unmodelled "macro body names a macro / info / self")
  else
    let st0 := macroSt lim env
    match (evalI lim.fuel node).run st0 |>.run with
    | (.error e, _) => .error e
    | (.ok v, st1) =>
      if frameSets st1 != frameSets st0 then .error (.unmodelled "macro environment changed")
      else match v with
        | .ref .. => .error (.unmodelled "reference result in the macro state")
        | v => .ok v

/-- `MacroErrorf`: the node `error("<message>")` -/
def macroErrorf (msg : String) : Node := .builtin "ERROR" [.str (toBytes msg)]

/-- `s.evalInternal(call.Parameters[0])` for the argument of an `unquote`.  The identifier case is
`evalIdentifier` → `Environment.Get` hitting the extended environment's own store. -/
def evalUnquoteArg (lim : Limits) (store : Store) (env : MEnv) : Node → X Obj
  | .ident name =>
    if name == "info" || name == "self" then general lim store env (.ident name)
    else match lookupArg env name with
      | some a => .ok (.quote a)
      | none => general lim store env (.ident name)
  | e => general lim store env e

/-- the callback of `evalUnquoteCalls`: `isUnquoteCall`, exactly one parameter (else the node is
kept and a warning logged), evaluate, convert -/
def unquoteCb (lim : Limits) (store : Store) (env : MEnv) : Node → X Node
  | .builtin "UNQUOTE" [e] => do
    let o ← evalUnquoteArg lim store env e
    match convertObjectToASTNode o with
    | some n => pure n
    | none => pure (macroErrorf "unquote: no syntax for this value")   -- MacroErrorf; wording not compared
  | n => pure n

/-- `evalUnquoteCalls` -/
def evalUnquoteCalls (lim : Limits) (store : Store) (env : MEnv) (quoted : Node) : X Node :=
  modify (unquoteCb lim store env) quoted

/-- `evalStatements` on the macro body, with `evalBuiltin`'s QUOTE case inlined (`argCheck`: exactly
one parameter, else an error object) -/
def evalBodyStatements (lim : Limits) (store : Store) (env : MEnv) : List Node → Obj → X Obj
  | [], result => pure result
  | stmt :: rest, result =>
    match stmt with
    | .comment => evalBodyStatements lim store env rest result
    | .builtin "QUOTE" ps =>
      match ps with
      | [t] => do
        let n ← evalUnquoteCalls lim store env t
        evalBodyStatements lim store env rest (.quote n)
      | _ => pure (err "wrong number of arguments")
    | _ => do
      let r ← general lim store env stmt
      match r with
      | .ret .. | .error _ => pure r
      | _ => evalBodyStatements lim store env rest r

/-- `evalEnv.Eval(macro.Body)`: depth 0 > MaxDepth 0 is false; statements; unwrap a return value -/
def evalBody (lim : Limits) (store : Store) (env : MEnv) : Node → X Obj
  | .stmts l => do
    let r ← evalBodyStatements lim store env l .null
    match r with
    | .ret v kind => if kind != "RETURN" then pure (err "unexpected control type outside of for loops") else pure v
    | r => pure r
  | .none => pure .null
  | other => general lim store env other

/-! ### ExpandMacros -/

def notQuoteMsg : String := "macro should return Quote."

/-- `isMacroCall`: the callee is an identifier bound in the macro store (`Get`: `info` answers the
environment description and `self` nothing) -/
def isMacroCall (store : Store) : Node → Option MacroDef
  | .ident name => if name == "info" || name == "self" then none else lookupDef store name
  | _ => none

/-- the callback of `ExpandMacros` -/
def expandCb (lim : Limits) (store : Store) : Node → X Node
  | .call fn args =>
    match isMacroCall store fn with
    | none => pure (.call fn args)
    | some m =>
      if args.length != m.params.length then
        pure (macroErrorf s!"wrong number of macro arguments, want={m.params.length}, got={args.length}")
      else do
        let evaluated ← evalBody lim store (extendMacroEnv m.params args []) m.body
        match evaluated with
        | .quote n => pure n
        | _ => pure (macroErrorf notQuoteMsg)
  | n => pure n

/-- `ExpandMacros`: a pure function of (macro store, program) -/
def expandMacros (lim : Limits) (store : Store) (program : Node) : X Node :=
  modify (expandCb lim store) program

/-- the harness configuration: default MaxDepth, a counting context of 200000 polls -/
def defaultLimits : Limits := { deadlineAfter := some 200000 }

/-- one REPL input up to (not including) evaluation, in `evalOne`'s order: DefineMacros, then
ExpandMacros only when the store is not empty -/
def step (lim : Limits) (store : Store) (program : Node) : Store × X Node × X Node :=
  match defineMacros store program with
  | (store', .error e) => (store', .error e, .error e)
  | (store', .ok p) =>
    if store'.isEmpty then (store', .ok p, .ok p)
    else (store', .ok p, expandMacros lim store' p)

end Grol.Macro

import Grol.Eval.HazardSession
/-
Driver side of the `values` suite and the executable statement of C06
("arrays and maps are values: no aliasing, at any size").  Cases: harness/cmd/harness/values.go.

Statement on the implementation (`stmtImpl`): in all four configurations, after every input,
the whole observation (output, typed value, error flag, panic kind AND the typed dump of every
global) equals the observation of the value-semantic model (cache on for A/B, off for C/D).
Since the model's containers are immutable values, this says: no operation on one binding
changes another, `x + y` leaves `x` and `y` unchanged, and nothing depends on a size.

Statement on the model (`stmtModel`): threshold independence, executed: with the cache off the
model's observations are the same for (maxSmallArray, maxSmallMap) = (8, 4), (0, 0) and
(1000, 1000).

Known-finding classes: see `Grol.Hazard` (HazardSession.lean).  For these classes the
implementation and the model DISAGREE by nature; such a case is reported as
`agree := true, stmtImpl := false, klass := <class>` only under the rule stated there
(non-strict form: the first difference comes at or after an input in which the model executed
an in-place-capable operation on a large container THROUGH A NAME THAT MAY SHARE STORAGE with another
live name, by the syntactic may-alias analysis of HazardSession.lean).  Every other difference is a
disagreement AND a failed statement without class, i.e. a violation.
-/
namespace Grol.ValuesSuite
open Grol.E Grol.Wire Grol.EvalSuite Grol.Hazard

/-- is some global a container above the thresholds (top level of the dump only)? -/
def sizeTag (obs : List String) : String :=
  let big := obs.any fun o => (globalsOf o).any fun kv =>
    let n := (splitTop ((kv.2.drop 2).dropEnd 1).toString).length
    (kv.2.startsWith "a[" && n > 8) || (kv.2.startsWith "m[" && n > 4)
  if big then "some-large-container" else "small-containers-only"

def runCase (inp obs : String) : CaseResult :=
  match parseCase inp obs with
  | none => CaseResult.badLine
  | some c =>
    let a := cfgObs c "A"; let b := cfgObs c "B"; let cc := cfgObs c "C"; let d := cfgObs c "D"
    let base : Cfg := { maxDepth := c.maxDepth, deadlineAfter := c.steps }
    let m1 := runSessionH { base with cacheOn := true } c.asts
    let m0 := runSessionH { base with cacheOn := false } c.asts
    let nontrivial := !a.all (· == "P")
    match m1, m0 with
    | .ok h1, .ok h0 =>
      let r1 := h1.map (·.1); let r0 := h0.map (·.1)
      let model := "B:" ++ "/".intercalate r1 ++ " @@ D:" ++ "/".intercalate r0
      let stmtImpl := a == r1 && b == r1 && cc == r0 && d == r0
      -- `+` on a large array no longer excuses anything: since repo fix (AppendTarget) the result gets storage of its own
      -- whenever the first free slot of the left operand's storage was already written through another array
      let okHaz := fun (h : String) => hazardClass h != "large-array-append-shares-capacity"
      -- only operations through a name that may share storage with another live name count (may-alias analysis)
      let hz0 := sharedHazards c.asts r0 (h0.map (·.2))
      let hz1 := if h1 == h0 then hz0 else sharedHazards c.asts r1 (h1.map (·.2))
      let (diff, explained, k) := combine
        [classify false okHaz hz1 b r1, classify false okHaz hz0 d r0, classify false okHaz hz1 a r1, classify false okHaz hz0 cc r0]
      -- threshold independence of the model (cache off)
      let lo := runSession { base with cacheOn := false, maxSmallArray := 0, maxSmallMap := 0 } c.asts
      let hi := runSession { base with cacheOn := false, maxSmallArray := 1000, maxSmallMap := 1000 } c.asts
      let stmtModel := (match lo with | .ok r => r == r0 | .error _ => false) && (match hi with | .ok r => r == r0 | .error _ => false)
      let anyHaz := (h0.map (·.2)).any (!·.isEmpty)
      let anyShared := hz0.any (!·.isEmpty)
      let tags := [sizeTag r0, if anyHaz then (if anyShared then "in-place-operation-on-possibly-shared-storage" else "in-place-operation-on-own-storage") else "no-in-place-capable-operation",
                   if diff then (if explained then "differs-in-class:" ++ k else "differs") else "same-as-model"]
      { model := model, agree := (b == r1 && d == r0) || (diff && explained), stmtModel := stmtModel,
        stmtImpl := stmtImpl, tags := tags, nontrivial := nontrivial, klass := if diff && explained then k else "" }
    | .error w, _ | _, .error w =>
      { model := "declined:" ++ w, agree := false, stmtModel := true, stmtImpl := a == b && cc == d, unmodelled := true,
        tags := ["declined:" ++ w], nontrivial := nontrivial }

end Grol.ValuesSuite

import Grol.Wire
/-
Data values of grol: model of the value types of /repo/object/object.go.  Core Lean only.

* `Integer`  : `int (v : Int)`; the Go value is an int64, `Obj.inRange` says `-2^63 ≤ v < 2^63`.
  Everything proved in C12/C11 holds for every `Int`, in range or not.
* `Float`    : the IEEE-754 binary64 bit pattern (`F64`).  Nothing here uses Lean's opaque `Float`.
* `String`, `Error.Value`, `Function.CacheKey`, `Extension.Name`, the printed form of a `Quote` or
  `Macro`: byte strings (`List UInt8`).
* `SmallArray`/`BigArray` : `arr` (the two representations are indistinguishable through `Elements()`).
* `SmallMap`/`BigMap` : `map` with the pairs in the order `mapElements()` returns them (the
  representation is modelled separately in `Grol.Map`).
* `*Register` : `reg v` (a register holds an int64 and is read through `Value()`).
* `Reference` is *not* a constructor: it needs an environment; `Eval` dereferences every reference
  before a value can reach an operator or a container (eval_api.go `Eval`), and `object.Value`
  does it again.  Not modelled: the "Too many references"/"Self reference" panics of `Value`.
-/
namespace Grol

abbrev Bytes := Grol.Wire.Bytes

/-- IEEE-754 binary64 as its bit pattern -/
structure F64 where
  bits : UInt64
  deriving BEq, DecidableEq, Repr

inductive Obj where
  | int (v : Int)
  | float (f : F64)
  | bool (b : Bool)
  | nil
  | err (msg : Bytes)
  | ret (v : Obj)
  | func (cacheKey : Bytes)
  | str (s : Bytes)
  | arr (els : List Obj)
  | map (kvs : List (Obj × Obj))
  | quote (text : Bytes)
  | mac (text : Bytes)
  | ext (name : Bytes)
  | reg (v : Int)
  deriving Repr

/-- Go panics are values -/
inductive Outcome (α : Type) where
  | ok (a : α)
  | panic (site : String)
  deriving Repr, BEq, DecidableEq

namespace Outcome
def isOk {α} : Outcome α → Bool
  | ok _ => true
  | panic _ => false
def getD {α} (d : α) : Outcome α → α
  | ok a => a
  | panic _ => d
def map {α β} (f : α → β) : Outcome α → Outcome β
  | ok a => ok (f a)
  | panic s => panic s
end Outcome

namespace Obj

/-- `object.Type` iota values (object.go `const ( UNKNOWN Type = iota …`) of `o.Type()` -/
def typ : Obj → Nat
  | int _ => 1      -- INTEGER
  | float _ => 2    -- FLOAT
  | bool _ => 3     -- BOOLEAN
  | nil => 4        -- NIL
  | err _ => 5      -- ERROR
  | ret _ => 6      -- RETURN
  | func _ => 7     -- FUNC
  | str _ => 8      -- STRING
  | arr _ => 9      -- ARRAY
  | map _ => 10     -- MAP
  | quote _ => 11   -- QUOTE
  | mac _ => 12   -- MACRO
  | ext _ => 13     -- EXTENSION
  | reg _ => 15     -- REGISTER   (REFERENCE = 14)

/-- `object.Value` (`CopyRegister`; references do not exist in the model) -/
def value : Obj → Obj
  | reg v => int v
  | o => o

def minInt64 : Int := -9223372036854775808
def maxInt64 : Int := 9223372036854775807

mutual
/-- every integer in the value is an int64 -/
def inRange : Obj → Bool
  | int v => decide (minInt64 ≤ v ∧ v ≤ maxInt64)
  | reg v => decide (minInt64 ≤ v ∧ v ≤ maxInt64)
  | ret v => inRange v
  | arr els => inRangeList els
  | map kvs => inRangeKVs kvs
  | _ => true
def inRangeList : List Obj → Bool
  | [] => true
  | x :: xs => inRange x && inRangeList xs
def inRangeKVs : List (Obj × Obj) → Bool
  | [] => true
  | (k, v) :: xs => inRange k && inRange v && inRangeKVs xs
end

end Obj
end Grol

import Grol.Wire
/-
Common result record of one correspondence case, produced by each suite's `runCase`.
-/
namespace Grol

structure CaseResult where
  /-- the model's observation, rendered in the same canonical syntax as the implementation's -/
  model : String
  /-- implementation observation = model observation -/
  agree : Bool
  /-- the property's executable statement evaluated on the model's observation -/
  stmtModel : Bool
  /-- the property's executable statement evaluated on the implementation's observation -/
  stmtImpl : Bool
  /-- branch tags of the model hit by this case (for the coverage histogram) -/
  tags : List String := []
  /-- the case reaches a non-default branch of the model (rule stated per suite) -/
  nontrivial : Bool := true
  /-- the model declines this case (outside the modelled subset) -/
  unmodelled : Bool := false
  /-- name of the listed known-finding class this case falls in ("" = none) -/
  klass : String := ""
  /-- malformed line -/
  bad : Bool := false

def CaseResult.badLine : CaseResult :=
  { model := "bad-line", agree := false, stmtModel := true, stmtImpl := true, bad := true }

end Grol

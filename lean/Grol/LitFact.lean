import Grol.Parser
/-
The lexer fact behind "normal-mode output ends with exactly one newline" (C03): tokens of the kinds a node can
print LAST have a non-empty literal that does not end in a newline.  Executable form `litFactB`, evaluated by
the driver on every token stream of the real lexer; `GrolProofs/ParseEnd.lean` shows it decides `LitFact`.
-/
namespace Grol.Printer
open Grol.Wire

/-- a token literal that is non-empty and does not end in a newline -/
def litOK (t : Tk) : Bool := !t.lit.isEmpty && t.lit.getLast? != some 10

end Grol.Printer

namespace Grol.Parser
open Grol.Generated Grol.Printer

/-- token kinds whose literal a node can print last (a closed block comment needs no lexer fact: the parser
checks that it ends in `*/`) -/
def lastKind (t : TokType) : Bool :=
  t = .IDENT || t = .DOTDOT || t = .INT || t = .FLOAT || t = .TRUE || t = .FALSE || t = .BREAK || t = .CONTINUE
  || t = .LINECOMMENT || t = .RETURN || t = .COLON || t = .INCR || t = .DECR
  || lookup infixRegs t == some .parseInfixExpression   -- a binary operator whose right operand is missing

def tokLitB (s : TokStream) (i : Nat) : Bool := !lastKind (s.get i).type || litOK (s.get i).tk

/-- checks every position up to the repeated end marker -/
def litFactB (s : TokStream) : Bool := (List.range (s.toks.length + 1)).all (tokLitB s)

end Grol.Parser

import Grol.Suite
import Grol.CmpTotal
import Grol.Value
import Grol.Map
/-
Driver side of the `mapops` correspondence suite and the executable statement of C11.

Case input:   <mode A|S>|<universe keys, ';' separated>|<op>;<op>;…
  ops:  L{k:v,…}  literal (pairs in source order, `NewMapSize(n)` + `Set`)      S{k:v}  m[k] = v
        D<k>      del(m[k])          A{k:v,…}  m = m + {k:v,…}        R  m = rest(m)       G<lo>-<hi>  m = m[lo:hi]
Observation after the last op:  n   (m is NULL)   or
  len=<n>;rep=<S|B>;kv={…};get=<v>/<v>/…;pr=<hex of Inspect()>;fst=<v>;eq=<0|1><0|1>
-/
namespace Grol.MapSuite
open Grol Grol.Wire Grol.Obj Grol.Value Grol.Map

/-- `object.MaxSmallMap` -/
def maxSmallMap : Nat := 4

abbrev GM := M Obj Obj

abbrev Op := Map.Op Obj Obj

def parseOp (s : String) : Option Op :=
  open Map.Op in
  match s.toList with
  | 'L' :: r => match Value.ofString (String.ofList r) with | some (.map kvs) => some (.lit kvs) | _ => none
  | 'A' :: r => match Value.ofString (String.ofList r) with | some (.map kvs) => some (.app kvs) | _ => none
  | 'S' :: r => match Value.ofString (String.ofList r) with | some (.map [(k, v)]) => some (.set k v) | _ => none
  | 'D' :: r => (Value.ofString (String.ofList r)).map .del
  | ['R'] => some .rest
  | 'G' :: r =>
    match (String.ofList r).splitOn "-" with
    | [a, b] => do pure (.range (← a.toNat?) (← b.toNat?))
    | _ => none
  | _ => none

mutual
def opData : Obj → Bool
  | .arr els => opDataList els
  | .map kvs => opDataKVs kvs
  | o => isData o
def opDataList : List Obj → Bool
  | [] => true
  | x :: xs => opData x && opDataList xs
def opDataKVs : List (Obj × Obj) → Bool
  | [] => true
  | (k, v) :: xs => opData k && opData v && opDataKVs xs
end

def keysData : Op → Bool
  | .lit ps => ps.all fun kv => isData kv.1
  | .app ps => ps.all fun kv => isData kv.1
  | .set k _ => isData k
  | .del k => isData k
  | _ => true

/-! ### printed form (`Inspect()`) for the values the suite uses -/

def natStr (n : Nat) : String := toString n

/-- `Float.Inspect`: `strconv.FormatFloat(f, 'f', -1, 64)` for NaN, ±Inf, ±0 and multiples of 1/8 below 2^20,
with `.0` appended to an integral value (C14 fix: it then reads back as a float) -/
def inspectFloat (f : F64) : Option String :=
  if f.isNaN then some "NaN"
  else if f.expo == 2047 then some (if f.sign then "-Inf" else "+Inf")
  else
    let sc := f.mag        -- |f| * 2^1074
    let unit : Nat := 2 ^ 1071   -- 1/8
    if sc % unit != 0 || sc / unit ≥ 2 ^ 23 then none else
    let n := sc / unit       -- |f| * 8
    let ip := n / 8
    let fr := n % 8 * 125    -- thousandths
    let frs := if fr == 0 then ".0" else
      let s := (if fr < 100 then "0" else "") ++ natStr fr
      "." ++ String.ofList (s.toList.reverse.dropWhile (· == '0')).reverse
    some ((if f.sign then "-" else "") ++ natStr ip ++ frs)

def inspectStr (b : Bytes) : Option String :=
  if b.all (fun c => c ≥ 0x20 && c < 0x7f && c != 0x22 && c != 0x5c) then
    some ("\"" ++ String.ofList (b.map fun c => Char.ofNat c.toNat) ++ "\"")
  else none

mutual
def inspect : Obj → Option String
  | .nil => some "nil"
  | .bool b => some (if b then "true" else "false")
  | .int v => some (toString v)
  | .reg v => some (toString v)
  | .float f => inspectFloat f
  | .str b => inspectStr b
  | .arr els => (inspectList els).map fun s => "[" ++ s ++ "]"
  | .map kvs => (inspectKVs kvs).map fun s => "{" ++ s ++ "}"
  | _ => none
def inspectList : List Obj → Option String
  | [] => some ""
  | [x] => inspect x
  | x :: xs => do pure ((← inspect x) ++ "," ++ (← inspectList xs))
def inspectKVs : List (Obj × Obj) → Option String
  | [] => some ""
  | [(k, v)] => do pure ((← inspect k) ++ ":" ++ (← inspect v))
  | (k, v) :: xs => do pure ((← inspect k) ++ ":" ++ (← inspect v) ++ "," ++ (← inspectKVs xs))
end

/-! ### observations -/

structure Obs where
  len : Nat
  rep : String
  kv : String
  get : String
  pr : String
  fst : String
  eq : String
  deriving BEq

def Obs.render (o : Obs) : String :=
  s!"len={o.len};rep={o.rep};kv={o.kv};get={o.get};pr={o.pr};fst={o.fst};eq={o.eq}"

def strKey : Obj := .str [107, 101, 121]          -- "key"
def strValue : Obj := .str [118, 97, 108, 117, 101] -- "value"

def firstObj (p : Option (Obj × Obj)) : Obj :=
  match p with
  | none => .nil
  | some (k, v) => .map [(strKey, k), (strValue, v)]

def lookupStr (r : Option Obj) : String :=
  match r with
  | none => "n"
  | some v => Value.render v

def eqChar (a b : Obj) : String :=
  match equals a b with
  | .ok true => "1"
  | .ok false => "0"
  | .panic _ => "P"

/-- observation of a model map; `implPr` is used when the printed form is outside `inspect`'s domain -/
def obsModel (keys : List Obj) (m : GM) (implPr : String) : Obs :=
  let o := Obj.map m.kvs
  let rebuilt := Obj.map (literal cmpD maxSmallMap m.kvs.reverse).kvs
  { len := m.len, rep := if m.isBig then "B" else "S", kv := Value.render o,
    get := "/".intercalate (keys.map fun k => lookupStr (get cmpD m k)),
    pr := match inspect o with | some s => hexOfBytes s.toUTF8.toList | none => implPr,
    fst := Value.render (firstObj (first m)),
    eq := eqChar o rebuilt ++ eqChar rebuilt o }

/-- the observation a reference finite map predicts (no representation) -/
def obsSpec (keys : List Obj) (l : List (Obj × Obj)) (implPr : String) (rep : String) : Obs :=
  let o := Obj.map l
  { len := l.length, rep := rep, kv := Value.render o,
    get := "/".intercalate (keys.map fun k => lookupStr (Spec.lookup cmpD k l)),
    pr := match inspect o with | some s => hexOfBytes s.toUTF8.toList | none => implPr,
    fst := Value.render (firstObj l.head?),
    eq := "11" }

def parseObs (s : String) : Option (Option Obs) :=
  if s = "n" then some none else
  match splitOn s ';' with
  | [len, rep, kv, gt, pr, fst, eq] =>
    if !(len.startsWith "len=" && rep.startsWith "rep=" && kv.startsWith "kv=" && gt.startsWith "get="
         && pr.startsWith "pr=" && fst.startsWith "fst=" && eq.startsWith "eq=") then none else do
    let n ← (len.drop 4).toString.toNat?
    pure (some { len := n, rep := (rep.drop 4).toString, kv := (kv.drop 3).toString, get := (gt.drop 4).toString,
                 pr := (pr.drop 3).toString, fst := (fst.drop 4).toString, eq := (eq.drop 3).toString })
  | _ => none

def renderOO : Option Obs → String
  | none => "n"
  | some o => o.render

def opTag : Op → String
  | .lit _ => "lit" | .set _ _ => "set" | .del _ => "del" | .app _ => "merge" | .rest => "rest" | .range _ _ => "range"

/-! ### mode I: source-level operations and observations (harness/cmd/harness/mapops_iter.go) -/

/-- an operation of mode I: one of the basic ones, or a slice with bounds as written in the source
(negative = from the end, missing upper bound = to the end) -/
inductive XOp where
  | base (op : Op)
  | slice (lo : Int) (hi : Option Int)

def parseXOp (s : String) : Option XOp :=
  match s.toList with
  | 'N' :: r =>
    match (String.ofList r).splitOn ":" with
    | [a, b] => do
      let lo ← a.toInt?
      let hi ← if b.isEmpty then some none else b.toInt?.map some
      pure (.slice lo hi)
    | _ => none
  | 'T' :: r => (parseOp (String.ofList ('S' :: r))).map .base     -- m.k = v is m["k"] = v
  | 'E' :: r => (parseOp (String.ofList ('D' :: r))).map .base     -- del(m.k) is del(m["k"])
  | _ => (parseOp s).map .base

/-- `evalIndexRangeExpression` on a container of `num` elements: the bounds handed to `object.Range`, or `none` (error) -/
def resolveSlice (num : Nat) (lo : Int) (hi : Option Int) : Option (Nat × Nat) :=
  let l := if lo < 0 then (num : Int) + lo else lo
  let l := if l < 0 then 0 else l
  let r := match hi with
    | none => (num : Int)
    | some h => if h < 0 then (num : Int) + h else h
  if l > r then none else
  some ((min l num).toNat, (min r num).toNat)

/-- the result of a history: `none` = an operation returned an error, `some none` = the variable is nil -/
def runX (step : Option α → Op → Option α) (len : α → Nat) : Option α → List XOp → Option (Option α)
  | m, [] => some m
  | m, .base op :: rest =>
    match m, op with
    | none, .lit _ => runX step len (step m op) rest
    | none, _ => some none            -- the harness stops at the first nil
    | some _, _ => runX step len (step m op) rest
  | m, .slice lo hi :: rest =>
    match m with
    | none => some none
    | some mm =>
      match resolveSlice (len mm) lo hi with
      | none => none
      | some (l, r) => runX step len (step m (.range l r)) rest

def pairsArr (l : List (Obj × Obj)) : Obj := .arr (l.map fun (k, v) => .arr [k, v])

def freshKey : Obj := .str [122, 122, 57]   -- "zz9"

/-- mode I's observation as a function of the pairs in iteration order -/
def iterObs (c : Obj → Obj → Int) (idKeys : List Obj) (l : List (Obj × Obj)) (lookup : Obj → Option Obj) : String :=
  let _ := c
  let nPert := if l.isEmpty then 1 else 3
  s!"ks={Value.render (.arr (l.map (·.1)))};it={Value.render (pairsArr l)};fr={Value.render (pairsArr l)};dg=" ++
  "/".intercalate (idKeys.map fun k => lookupStr (lookup k)) ++ ";ne=" ++ String.join (List.replicate nPert "001")

def runCaseI (keys ops obs : String) : CaseResult :=
  match (if keys = "" then some [] else (splitOn keys ';').mapM Value.ofString),
        (if ops = "" then some [] else (splitOn ops ';').mapM parseXOp) with
  | some keys, some ops =>
    let mm := runX (Map.step cmpD maxSmallMap) (fun (m : GM) => m.len) none ops
    let sm := runX (Map.Spec.step cmpD) (fun (l : List (Obj × Obj)) => l.length) none ops
    let render {α} (r : Option (Option α)) (f : α → String) : String :=
      match r with | none => "E" | some none => "n" | some (some x) => f x
    let mo := render mm fun m => iterObs cmpD keys m.kvs (get cmpD m)
    let so := render sm fun l => iterObs cmpD keys l (fun k => Spec.lookup cmpD k l)
    let dataOk := ops.all (fun o => match o with | .base op => keysData op | _ => true) && keys.all isData
    let last := match ops.getLast? with
      | some (.base op) => opTag op
      | some (.slice lo hi) => if lo < 0 || (match hi with | some h => h < 0 | none => false) then "slice-neg" else if hi.isNone then "slice-open" else "slice"
      | none => "none"
    { model := mo, agree := mo == obs, stmtModel := mo == so, stmtImpl := obs == so,
      tags := ["mode:I", "I-last:" ++ last,
               match mm with | none => "I-error" | some none => "I-null" | some (some m) => "I-" ++ (if m.isBig then "big" else "small") ++ ":" ++ toString (min m.len 6)],
      nontrivial := !ops.isEmpty, unmodelled := !dataOk }
  | _, _ => CaseResult.badLine

def runCase (inp obs : String) : CaseResult :=
  match splitOn inp '|' with
  | ["I", keys, ops] => runCaseI keys ops obs
  | ["K", _, _] =>
    -- the constant the model is instantiated with must be the code's MaxSmallMap
    let m := toString maxSmallMap
    { model := m, agree := m == obs, stmtModel := true, stmtImpl := true, tags := ["MaxSmallMap"], nontrivial := false }
  | [mode, keys, ops] =>
    match (if keys = "" then some [] else (splitOn keys ';').mapM Value.ofString),
          (if ops = "" then some [] else (splitOn ops ';').mapM parseOp), parseObs obs with
    | some keys, some ops, some io =>
      let implPr := match io with | some o => o.pr | none => ""
      let mm := Map.run cmpD maxSmallMap ops
      let sm := Map.Spec.run cmpD ops
      let mo := mm.map fun m => obsModel keys m implPr
      -- the statement: every observation (except the representation) is the reference map's
      let stmt (o : Option Obs) : Bool :=
        match o, sm with
        | none, none => true
        | some o, some l => o == obsSpec keys l implPr o.rep
        | _, _ => false
      let dataOk := ops.all keysData && keys.all isData
      let last := match ops.getLast? with | some op => opTag op | none => "none"
      { model := renderOO mo, agree := mo == io, stmtModel := stmt mo, stmtImpl := stmt io,
        tags := ["mode:" ++ mode, "last:" ++ last,
                 match mm with | none => "null" | some m => (if m.isBig then "big" else "small") ++ ":" ++ toString (min m.len 6)],
        nontrivial := !ops.isEmpty, unmodelled := !dataOk }
    | _, _, _ => CaseResult.badLine
  | _ => CaseResult.badLine

end Grol.MapSuite

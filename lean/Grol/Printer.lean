import Grol.Ast
import Grol.Generated.IsPrint
/-
Model of the PrettyPrint methods of ast/ast.go (one function per node kind, same case structure)
with the `PrintState` fields.  Go panics (method call on a nil node / nil *Statements, and
needParen's "precedence not found") are `Except.error` outcomes.
`out` is kept REVERSED (last byte written first) so that writes are O(length written).
-/
namespace Grol.Printer
open Grol.Wire Grol.Generated

inductive PrintPanic
  | nilNode              -- PrettyPrint called on a nil ast.Node
  | nilStatements        -- (*Statements)(nil).PrettyPrint
  | precedenceNotFound   -- needParen: panic("precedence not found for …")
  deriving DecidableEq, Repr

structure PrintState where
  /-- reversed output -/
  out : Bytes := []
  indentLevel : Nat := 0
  exprPrec : Nat := 0
  indentationDone : Bool := false
  compact : Bool := false
  allParens : Bool := false
  prev : Option Node := none
  last : Bytes := []
  deriving Inhabited

abbrev PR := Except PrintPanic PrintState

def str (s : String) : Bytes := s.toUTF8.toList

/-- raw `ps.Out.Write` -/
def PrintState.write (ps : PrintState) (b : Bytes) : PrintState := { ps with out := b.reverse ++ ps.out }

/-- `ps.Print(s)` with exactly one argument -/
def PrintState.print (ps : PrintState) (s : Bytes) : PrintState :=
  let ps := if !ps.compact && !ps.indentationDone && ps.indentLevel > 1 then
      { (ps.write (List.replicate (ps.indentLevel - 1) 9)) with indentationDone := true }
    else ps
  { (ps.write s) with last := s }

/-- `ps.Println()` without arguments -/
def PrintState.println (ps : PrintState) : PrintState :=
  let ps := if !ps.compact then ps.write [10] else ps
  { ps with indentationDone := false }

/-! ### strconv.Quote -/

def isPrintTable (r : Nat) : Bool :=
  isPrintRanges.any fun (lo, hi) => lo ≤ r && r ≤ hi

/-- strconv.IsPrint -/
def isPrint (tbl : Nat → Bool) (r : Nat) : Bool :=
  if r < 0x80 then 0x20 ≤ r && r < 0x7f else tbl r

def hexLower (n : Nat) : UInt8 := if n < 10 then (48 + n).toUInt8 else (87 + n).toUInt8

def hexN (digits : Nat) (v : Nat) : Bytes :=
  (List.range digits).reverse.map fun i => hexLower ((v / 16 ^ i) % 16)

/-- utf8.DecodeRune on the front of `s` (non-empty): (rune, width); (0xFFFD, 1) for invalid encodings -/
def decodeRune (s : Bytes) : Nat × Nat :=
  let bad := (0xFFFD, 1)
  let cont (b : UInt8) (lo hi : Nat) : Bool := lo ≤ b.toNat && b.toNat ≤ hi
  match s with
  | [] => bad
  | b0 :: rest =>
    let n0 := b0.toNat
    if n0 < 0x80 then (n0, 1)
    else if n0 < 0xC2 then bad
    else if n0 < 0xE0 then
      match rest with
      | b1 :: _ => if cont b1 0x80 0xBF then ((n0 % 32) * 64 + b1.toNat % 64, 2) else bad
      | _ => bad
    else if n0 < 0xF0 then
      let lo := if n0 = 0xE0 then 0xA0 else 0x80
      let hi := if n0 = 0xED then 0x9F else 0xBF
      match rest with
      | b1 :: b2 :: _ =>
        if cont b1 lo hi && cont b2 0x80 0xBF then ((n0 % 16) * 4096 + (b1.toNat % 64) * 64 + b2.toNat % 64, 3) else bad
      | _ => bad
    else if n0 < 0xF5 then
      let lo := if n0 = 0xF0 then 0x90 else 0x80
      let hi := if n0 = 0xF4 then 0x8F else 0xBF
      match rest with
      | b1 :: b2 :: b3 :: _ =>
        if cont b1 lo hi && cont b2 0x80 0xBF && cont b3 0x80 0xBF then
          ((n0 % 8) * 262144 + (b1.toNat % 64) * 4096 + (b2.toNat % 64) * 64 + b3.toNat % 64, 4) else bad
      | _ => bad
    else bad

/-- strconv.appendEscapedRune for quote `"` (not ASCIIonly, not graphicOnly); `raw` = the rune's bytes -/
def escapedRune (tbl : Nat → Bool) (r : Nat) (raw : Bytes) : Bytes :=
  if r = 34 || r = 92 then [92, r.toUInt8]
  else if isPrint tbl r then raw
  else if r = 7 then str "\\a" else if r = 8 then str "\\b" else if r = 12 then str "\\f"
  else if r = 10 then str "\\n" else if r = 13 then str "\\r" else if r = 9 then str "\\t" else if r = 11 then str "\\v"
  else if r < 32 || r = 0x7f then str "\\x" ++ hexN 2 r
  else if r < 0x10000 then str "\\u" ++ hexN 4 r
  else str "\\U" ++ hexN 8 r

def quoteLoop (tbl : Nat → Bool) : Nat → Bytes → Bytes
  | 0, _ => []
  | _, [] => []
  | fuel + 1, s@(b :: _) =>
    let (r, w) := decodeRune s
    if w = 1 && r = 0xFFFD then str "\\x" ++ hexN 2 b.toNat ++ quoteLoop tbl fuel (s.drop 1)
    else escapedRune tbl r (s.take w) ++ quoteLoop tbl fuel (s.drop w)

/-- strconv.Quote -/
def quote (tbl : Nat → Bool) (s : Bytes) : Bytes := [34] ++ quoteLoop tbl s.length s ++ [34]

/-! ### PrettyPrint -/

def lookupPrec (t : TokType) : Option Nat :=
  (precedences.find? fun (k, _) => k = t).map (·.2)

/-- `Precedences[token.COLON]` (Go map lookup: zero when absent) -/
def colonPrecedence : Nat := (lookupPrec .COLON).getD 0

/-- `ps.needParen(tok)` : (state with the new precedence, needParen, oldPrecedence) -/
def needParen (ps : PrintState) (t : Tk) : Except PrintPanic (PrintState × Bool × Nat) :=
  match lookupPrec t.type with
  | none => .error .precedenceNotFound
  | some newPrecedence =>
    let old := ps.exprPrec
    .ok ({ ps with exprPrec := newPrecedence }, ps.allParens || newPrecedence < old, old)

def keepSameLineAsPrevious : Option Node → Bool
  | some (.comment _ p _) => p
  | _ => false

def needNewLineAfter : Option Node → Bool
  | some (.comment _ _ n) => !n
  | _ => true

def isInfix : Option Node → Bool
  | some (.infix ..) => true
  | _ => false

def isArray : Option Node → Bool
  | some (.array ..) => true
  | _ => false

def isCommentO : Option Node → Bool
  | some (.comment ..) => true
  | _ => false

def isWordByte (b : UInt8) : Bool :=
  (97 ≤ b && b ≤ 122) || (65 ≤ b && b ≤ 90) || (48 ≤ b && b ≤ 57) || b = 95

/-- prettyPrintCompact's separator decision (the comment test is done by the caller); `first` is the first
byte of what `s` is going to print (0 = unknown) -/
def compactSep (ps : PrintState) (s : Option Node) (i : Nat) (first : UInt8) : PrintState :=
  if i = 0 then ps else
  let needSpace := isArray s || (isInfix ps.prev && ps.last != [125] && ps.last != [93])
  let needSpace := needSpace || first = 40 || first = 91 ||
    ((isWordByte first || first = 46) &&
     (match ps.last.getLast? with
      | some e => isWordByte e || e = 46
      | none => false))
  if needSpace then ps.write [32] else ps

def isLineComment : Option Node → Bool
  | some (.comment t _ _) => t.type = .LINECOMMENT
  | _ => false

def longFormSep (ps : PrintState) (s : Option Node) (i : Nat) : PrintState :=
  if i > 0 || ps.indentLevel > 1 then
    if (keepSameLineAsPrevious s || !needNewLineAfter ps.prev) && !isLineComment ps.prev then
      { (ps.write [32]) with indentationDone := true }
    else ps.println
  else ps

def isNumberLiteral : Option Node → Bool
  | some (.intLit _) | some (.floatLit _) => true
  | _ => false

/-- after the dot only a single token (or an identifier with its postfix operator) is read without parentheses -/
def isSingleToken : Option Node → Bool
  | some (.ident t) => t.type != .DOTDOT   -- a.(..): `a...` would be read as `a`, `..`, `.`
  | some (.post _ p) => p.type != .DOTDOT
  | some (.strLit _) | some (.boolean _) => true
  | _ => false

def litByte (t : Tk) : UInt8 := t.lit.headD 0

mutual
/-- `ps.firstByte(n, precedence)`: the first byte `n.PrettyPrint` is going to write (0 = can't tell),
following the same parentheses decisions -/
def firstByte (allParens : Bool) (n : Node) (prec : Nat) : UInt8 :=
  match n with
  | .pre t _ => if allParens || prioPREFIX ≤ prec then 40 else litByte t
  | .post t p =>
    match lookupPrec t.type with
    | none => 0
    | some q => if allParens || q < prec then 40 else litByte p
  | .infix t l _ =>
    match lookupPrec t.type with
    | none => 0
    | some q => if allParens || q < prec then 40 else firstByteO allParens l q
  | .index t l _ =>
    if t.type = .DOT && isNumberLiteral l then 40 else
    match lookupPrec t.type with
    | none => 0
    | some q => if allParens || q < prec then 40 else firstByteO allParens l q
  | .call _ f _ => firstByteO allParens f prioCALL
  | .func t _ params _ _ isLambda =>
    if !isLambda then litByte t
    else if prec > prioLAMBDA then 40
    else match params with
      | [p] => firstByteO allParens p prec
      | _ => 40
  | .strLit _ => 34
  | .array .. => 91
  | .mapLit .. => 123
  | .ifE .. => 105
  | .forE .. => 102
  | .ident t | .intLit t | .floatLit t | .boolean t | .control t | .comment t _ _ | .ret t _ | .builtin t _
  | .macroLit t _ _ => litByte t
def firstByteO (allParens : Bool) (n : Option Node) (prec : Nat) : UInt8 :=
  match n with
  | none => 0
  | some n => firstByte allParens n prec
end

/-- a repeated associative operator on the right, `1 + (2 + 3)`: the only right operand of the same
precedence printed without parentheses -/
def sameAssociativeOperator (op : Tk) : Node → Bool
  | .infix t _ _ =>
    t.type = op.type &&
      (op.type = .PLUS || op.type = .ASTERISK || op.type = .AND || op.type = .OR || op.type = .BITAND
        || op.type = .BITOR || op.type = .BITXOR)
  | _ => false

/-- printElse's test `len(Alternative.Statements) == 1 && Alternative.Statements[0].Value().Type() == token.IF` -/
inductive ElseKind | nilFirst | elseIf | block

/-- printElse: in compact mode the comments (which are not printed) do not count -/
def elseStmts (compact : Bool) (l : List (Option Node)) : List (Option Node) :=
  if compact then l.filter (fun s => !isCommentO s) else l

def elseKind : List (Option Node) → ElseKind
  | [none] => .nilFirst
  | [some a] => if a.tok.type = .IF then .elseIf else .block
  | _ => .block

mutual

def printNode (tbl : Nat → Bool) (n : Node) (ps : PrintState) : PR :=
  match n with
  | .ident t | .intLit t | .floatLit t | .boolean t | .control t | .comment t _ _ => .ok (ps.print t.lit)
  | .strLit t => .ok (ps.print (quote tbl t.lit))
  | .ret t v =>
    let ps := ps.print t.lit
    match v with
    | none => .ok ps
    | some v => printNode tbl v (ps.print [32])
  | .pre t right =>
    let oldPrecedence := ps.exprPrec
    let ps := { ps with exprPrec := prioPREFIX }
    let needP := ps.allParens || prioPREFIX ≤ oldPrecedence
    let ps := if needP then ps.print [40]
      else if ps.compact && !ps.last.isEmpty && ps.last.getLast? == t.lit.head? then ps.print [32]
      else ps
    let ps := ps.print t.lit
    match printO tbl right ps with
    | .error e => .error e
    | .ok ps =>
      let ps := { ps with exprPrec := oldPrecedence }
      .ok (if needP then ps.print [41] else ps)
  | .post t p =>
    match needParen ps t with
    | .error e => .error e
    | .ok (ps, needP, old) =>
      let ps := if needP then ps.print [40] else ps
      let ps := (ps.print p.lit).print t.lit
      let ps := if needP then ps.print [41] else ps
      .ok { ps with exprPrec := old }
  | .infix t left right =>
    match needParen ps t with
    | .error e => .error e
    | .ok (ps, needP0, old) =>
      let needP := needP0 && right.isSome   -- the open ended `n:` is never put in parentheses
      let ps := if needP then ps.print [40] else ps
      match printO tbl left ps with
      | .error e => .error e
      | .ok ps =>
        let ps := if ps.compact || right.isNone then ps.print t.lit else ((ps.print [32]).print t.lit).print [32]
        let r : PR := match right with
          | none => .ok ps
          | some r => printNode tbl r (if sameAssociativeOperator t r then ps else { ps with exprPrec := ps.exprPrec + 1 })
        match r with
        | .error e => .error e
        | .ok ps =>
          let ps := if needP then ps.print [41] else ps
          .ok { ps with exprPrec := old }
  | .forE _ cond body =>
    match printO tbl cond (ps.print [102, 111, 114, 32] /- "for " -/) with
    | .error e => .error e
    | .ok ps => printStmts tbl body (if !ps.compact then ps.print [32] else ps)
  | .ifE _ cond cons alt =>
    match printO tbl cond (ps.print [105, 102, 32] /- "if " -/) with
    | .error e => .error e
    | .ok ps =>
      match printStmts tbl cons (if !ps.compact then ps.print [32] else ps) with
      | .error e => .error e
      | .ok ps =>
        -- printElse
        let pse := if ps.compact then ps.print [101, 108, 115, 101] /- "else" -/ else ps.print [32, 101, 108, 115, 101, 32] /- " else " -/
        match alt with
        | none => .ok ps
        | some l =>
          match elseKind (elseStmts pse.compact l) with
          | .nilFirst => .error .nilNode          -- Statements[0].Value() on a nil node
          | .elseIf => printHead tbl pse.compact l (if pse.compact then pse.print [32] else pse)
          | .block => printBlock tbl l pse
  | .builtin t params =>
    match printList tbl params ((ps.print t.lit).print [40]) 0 with
    | .error e => .error e
    | .ok ps => .ok (ps.print [41])
  | .func t name params body _ isLambda =>
    if isLambda then
      let outerParen := ps.exprPrec > prioLAMBDA
      let ps := if outerParen then ps.print [40] else ps
      let needP := params.length != 1
      let ps := if needP then ps.print [40] else ps
      match printList tbl params ps 0 with
      | .error e => .error e
      | .ok ps =>
        let ps := if needP then ps.print [41] else ps
        let ps := if ps.compact then ps.print [61, 62] /- "=>" -/ else ps.print [32, 61, 62, 32] /- " => " -/
        match printStmts tbl body ps with
        | .error e => .error e
        | .ok ps => .ok (if outerParen then ps.print [41] else ps)
    else
      let ps := ps.print t.lit
      let ps := match name with
        | none => ps
        | some n => (ps.print [32]).print n.lit
      match printList tbl params (ps.print [40]) 0 with
      | .error e => .error e
      | .ok ps => printStmts tbl body (if ps.compact then ps.print [41] else ps.print [41, 32] /- ") " -/)
  | .call _ fn args =>
    let old := ps.exprPrec
    match printO tbl fn { ps with exprPrec := prioCALL } with
    | .error e => .error e
    | .ok ps =>
      let ps := ps.print [40]
      match printList tbl args { ps with exprPrec := prioLOWEST } 0 with
      | .error e => .error e
      | .ok ps => .ok ({ ps with exprPrec := old }.print [41])
  | .array _ elems =>
    match printList tbl elems (ps.print [91]) 0 with
    | .error e => .error e
    | .ok ps => .ok (ps.print [93])
  | .index t left idx =>
    match needParen ps t with
    | .error e => .error e
    | .ok (ps, needP, old) =>
      let ps := if needP then ps.print [40] else ps
      -- printDotOperand: a number next to the dot is put in parentheses
      let lp := t.type = .DOT && isNumberLiteral left
      match printO tbl left (if lp then ps.print [40] else ps) with
      | .error e => .error e
      | .ok ps =>
        let ps := if lp then ps.print [41] else ps
        let ps := ps.print t.lit
        let ps := { ps with exprPrec := prioLOWEST }
        let ip := t.type = .DOT && (isNumberLiteral idx || !isSingleToken idx)
        match printO tbl idx (if ip then ps.print [40] else ps) with
        | .error e => .error e
        | .ok ps =>
          let ps := if ip then ps.print [41] else ps
          let ps := if t.type = .LBRACKET then ps.print [93] else ps
          let ps := if needP then ps.print [41] else ps
          .ok { ps with exprPrec := old }
  | .mapLit _ kvs =>
    let old := ps.exprPrec
    match printPairs tbl kvs (ps.print [123]) 0 with
    | .error e => .error e
    | .ok ps => .ok ({ ps with exprPrec := old }.print [125])
  | .macroLit t params body =>
    match printList tbl params ((ps.print t.lit).print [40]) 0 with
    | .error e => .error e
    | .ok ps => printStmts tbl body (if ps.compact then ps.print [41] else ps.print [41, 32] /- ") " -/)

def printO (tbl : Nat → Bool) (n : Option Node) (ps : PrintState) : PR :=
  match n with
  | none => .error .nilNode
  | some n => printNode tbl n ps

/-- `stmts[0].PrettyPrint(ps)` of printElse (`else if`): the first statement, the first non-comment one in compact mode -/
def printHead (tbl : Nat → Bool) (skipComments : Bool) (l : List (Option Node)) (ps : PrintState) : PR :=
  match l with
  | [] => .ok ps
  | x :: xs => if skipComments && isCommentO x then printHead tbl skipComments xs ps else printO tbl x ps

/-- `ps.ComaList(list)` (i = index of the first element) -/
def printList (tbl : Nat → Bool) (l : List (Option Node)) (ps : PrintState) (i : Nat) : PR :=
  match l with
  | [] => .ok ps
  | x :: xs =>
    let ps := if i > 0 then ps.print (if ps.compact then [44] else [44, 32]) else ps
    match printO tbl x ps with
    | .error e => .error e
    | .ok ps => printList tbl xs ps (i + 1)

/-- MapLiteral.PrettyPrint's loop over Order -/
def printPairs (tbl : Nat → Bool) (kvs : List (Option Node)) (ps : PrintState) (i : Nat) : PR :=
  match kvs with
  | k :: v :: rest =>
    let ps := if i > 0 then ps.print (if ps.compact then [44] else [44, 32]) else ps
    -- key and value are printed as the left and right operands of ':'
    match printO tbl k { ps with exprPrec := colonPrecedence } with
    | .error e => .error e
    | .ok ps =>
      match printO tbl v { (ps.print [58]) with exprPrec := colonPrecedence + 1 } with
      | .error e => .error e
      | .ok ps => printPairs tbl rest ps (i + 1)
  | _ => .ok ps

/-- `(*Statements).PrettyPrint` through a possibly nil pointer -/
def printStmts (tbl : Nat → Bool) (s : Option (List (Option Node))) (ps : PrintState) : PR :=
  match s with
  | none => .error .nilStatements
  | some l => printBlock tbl l ps

/-- `Statements.PrettyPrint` -/
def printBlock (tbl : Nat → Bool) (l : List (Option Node)) (ps : PrintState) : PR :=
  let old := ps.exprPrec
  let ps := if ps.indentLevel > 0 then ps.print [123] else ps
  let ps := { ps with indentLevel := ps.indentLevel + 1, exprPrec := prioLOWEST, prev := none }
  match printStmtLoop tbl l ps 0 with
  | .error e => .error e
  | .ok ps =>
    let ps := ps.println
    let ps := { ps with indentLevel := ps.indentLevel - 1, exprPrec := old }
    .ok (if ps.indentLevel > 0 then ps.print [125] else ps)

def printStmtLoop (tbl : Nat → Bool) (l : List (Option Node)) (ps : PrintState) (i : Nat) : PR :=
  match l with
  | [] => .ok ps
  | s :: rest =>
    if ps.compact && isCommentO s then printStmtLoop tbl rest ps i
    else
      -- compact mode: a statement starting with - + ^ (++ --) after another one is printed in parentheses
      let first := firstByteO ps.allParens s prioLOWEST
      let paren := ps.compact && i > 0 && (first = 45 || first = 43 || first = 94)
      let ps := if ps.compact then compactSep ps s i (if paren then 40 else first) else longFormSep ps s i
      match printO tbl s (if paren then ps.print [40] else ps) with
      | .error e => .error e
      | .ok ps =>
        let ps := if paren then ps.print [41] else ps
        printStmtLoop tbl rest { ps with prev := s } (i + 1)

end

/-- `program.PrettyPrint(&PrintState{Compact, AllParens}).String()` -/
def printProgram (tbl : Nat → Bool) (prog : NList) (compact allParens : Bool) : Except PrintPanic Bytes :=
  match printStmts tbl (some prog) { compact := compact, allParens := allParens } with
  | .error e => .error e
  | .ok ps => .ok ps.out.reverse

end Grol.Printer

import Grol.Suite
/-
Driver side of the `extcache` suite (C04): a wrapper around an extension flagged DontCache is never
memoized.  The "model" here is the one-line rule of applyFunction/applyExtension: a call that reaches
`TriggerNoCache` leaves the callee frame's miss counter changed, so nothing is stored.
  input: <name>;<dontcache>;<call hex>     obs: cl1=<n>;cl2=<n>;e=<0|1>
-/
namespace Grol.ExtCacheSuite
open Grol.Wire

def field (obs key : String) : Option Nat :=
  (splitOn obs ';').findSome? fun kv => match splitOn kv '=' with
    | [k, v] => if k == key then v.toNat? else none
    | _ => none

def runCase (inp obs : String) : CaseResult :=
  match splitOn inp ';', field obs "cl1", field obs "cl2" with
  | [name, dc, _], some c1, some c2 =>
    let dont := dc == "1"
    -- statement: DontCache => no entry after either call
    let ok := !dont || (c1 == 0 && c2 == 0)
    { model := if dont then "cl1=0;cl2=0" else obs, agree := ok, stmtModel := true, stmtImpl := ok,
      tags := [if dont then "dontcache" else "cacheable", if c1 > 0 then "stored" else "not-stored"],
      nontrivial := true, klass := if ok then "" else name }
  | _, _, _ => CaseResult.badLine

end Grol.ExtCacheSuite

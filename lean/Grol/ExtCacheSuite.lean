import Grol.Suite
/-
Driver side of the `extcache` suite (C04): a wrapper around an extension flagged DontCache is never
memoized.  The "model" here is the one-line rule of applyFunction/applyExtension: a call that reaches
`TriggerNoCache` leaves the callee frame's miss counter changed, so nothing is stored.
  input: <name>;<dontcache>;<call hex>     obs: cl1=<n>;cl2=<n>;e=<0|1>
-/
namespace Grol.ExtCacheSuite
open Grol.Wire

def field (obs key : String) : Option Nat :=
  (splitOn obs ';').findSome? fun kv => match splitOn kv '=' with
    | [k, v] => if k == key then v.toNat? else none
    | _ => none

/-- extensions whose result or effect depends on something other than their arguments (state of their own such as the
image store, the clock, the random source, files, the terminal, processes).  Pinned here, independently of the
`DontCache` flag of the registration: the flag is what the suite checks, so it cannot also be the oracle.  An extension
that is in neither list is reported with the tag `unclassified` (a new extension has to be looked at), not as a failure. -/
def impure : List String :=
  ["eof", "rand", "time.now", "load", "save", "read", "exec", "run",
   "image.new", "image.set", "image.set_ycbcr", "image.set_hsl", "image.save", "image.png",
   "image.move_to", "image.line_to", "image.close_path", "image.draw", "image.draw_ycbcr", "image.draw_hsl",
   "image.add", "image.cube_to", "image.quad_to"]

/-- extensions looked at and found to be functions of their arguments (sleep only delays) -/
def pureExt : List String :=
  ["acos", "asin", "atan", "atan2", "base64", "ceil", "cos", "defun", "eval", "exp", "floor", "format", "int", "join", "json",
   "json_go", "ln", "log10", "max", "min", "pow", "regexp", "regsub", "round", "rune_len", "runes", "sin", "sleep", "split",
   "sprintf", "sqrt", "tan", "time.info", "time.parse", "trim", "trim_left", "trim_right", "trunc", "type", "unjson", "width"]

def runCase (inp obs : String) : CaseResult :=
  match splitOn inp ';', field obs "cl1", field obs "cl2" with
  | [name, dc, _], some c1, some c2 =>
    let dont := dc == "1"
    -- statement: an impure extension is flagged DontCache, and DontCache => no entry after either call
    let ok := (!dont || (c1 == 0 && c2 == 0)) && (!impure.contains name || dont)
    { model := if dont then "cl1=0;cl2=0" else obs, agree := ok, stmtModel := true, stmtImpl := ok,
      tags := [if dont then "dontcache" else "cacheable", if c1 > 0 then "stored" else "not-stored",
               if impure.contains name then "pinned-impure" else if pureExt.contains name then "pinned-pure" else "unclassified"],
      nontrivial := true, klass := if ok then "" else name }
  | _, _, _ => CaseResult.badLine

end Grol.ExtCacheSuite

import Grol.Wire
import Grol.Generated.Precedence
/-
The interface between the lexer and the parser.

The Go parser uses the lexer only through `NextToken()`, `Pos()`, `HadNewline()`,
`HadWhitespace()` and `CurrentLine()` (which reads `pos`, `lastNewLine`, `len(input)`).
A `Tok` is everything the parser can observe about one `NextToken()` call; a `TokStream`
is the sequence of all calls.  For now the harness obtains the stream by running the REAL
lexer; the Lean lexer model is to be composed in front (`Lexer.lexAll : Bytes → Bool → TokStream`).
-/
namespace Grol
open Grol.Wire Grol.Generated

/-- what `strconv.ParseInt(lit, 0, 64)` / `strconv.ParseFloat(lit, 64)` say about the literal of a
number token — an external library call, carried as data (see DESIGN 4.1 "floats") -/
inductive NumClass
  | na        -- not a number token
  | int       -- ParseInt succeeds
  | float     -- ParseInt fails, ParseFloat succeeds
  | bad       -- both fail
  deriving DecidableEq, Repr, Inhabited

structure Tok where
  type : TokType
  lit : Bytes
  /-- `l.Pos()` before the call -/
  posBefore : Nat := 0
  /-- `l.Pos()` after the call -/
  posAfter : Nat := 0
  /-- `l.HadWhitespace()` after the call: whitespace was skipped in front of this token -/
  hadWs : Bool := false
  /-- `l.HadNewline()` after the call -/
  hadNl : Bool := false
  /-- `l.LastNewLine()` after the call (position just after the most recent newline) -/
  lastNl : Nat := 0
  num : NumClass := .na
  deriving DecidableEq, Repr, Inhabited

/-- All `NextToken()` results up to the point where the lexer is stuck on its end marker (its position
is past the end of the input, or a further call returns the marker again without moving), and the
marker every later call returns (no whitespace in front).  An end marker in the middle of `toks`
(embedded NUL with the lexer as shipped) is an ordinary element. -/
structure TokStream where
  toks : List Tok
  /-- the end marker every later call returns (EOF in file mode, EOL in line mode) -/
  eof : Tok
  /-- `len(l.input)` (needed by `CurrentLine`) -/
  inputLen : Nat
  deriving Repr

def TokStream.get (s : TokStream) (i : Nat) : Tok := s.toks[i]?.getD s.eof

/-- token as stored in AST nodes: `*token.Token` up to pointer identity -/
structure Tk where
  type : TokType
  lit : Bytes
  deriving DecidableEq, Repr, Inhabited

def Tok.tk (t : Tok) : Tk := ⟨t.type, t.lit⟩

/-! ### wire format
stream := inputLen ";" tok ("," tok)*          (last token = repeated end marker)
tok    := type "." lit-hex "." posBefore "." posAfter "." flags "." lastNl
flags  := digit 0..3 (bit0 hadWs, bit1 hadNl) + 4*numclass -/

def numOfNat : Nat → NumClass
  | 1 => .int | 2 => .float | 3 => .bad | _ => .na

def parseTok (s : String) : Option Tok :=
  match splitOn s '.' with
  | [ty, lit, pb, pa, fl, nl] => do
    let ty ← ty.toNat? >>= TokType.ofNat?
    let lit ← bytesOfHex lit
    let pb ← pb.toNat?
    let pa ← pa.toNat?
    let fl ← fl.toNat?
    let nl ← nl.toNat?
    pure { type := ty, lit := lit, posBefore := pb, posAfter := pa, hadWs := fl % 2 == 1, hadNl := (fl / 2) % 2 == 1,
           lastNl := nl, num := numOfNat (fl / 4) }
  | _ => none

def parseStream (s : String) : Option TokStream :=
  match splitOn s ';' with
  | [n, ts] => do
    let n ← n.toNat?
    let ts ← (splitOn ts ',').mapM parseTok
    match ts.reverse with
    | [] => none
    | e :: rest => pure { toks := rest.reverse, eof := e, inputLen := n }
  | _ => none

end Grol

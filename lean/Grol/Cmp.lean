import Grol.Object
/-
Model of the ordering and equality of /repo/object/object.go:
`Cmp`, `Equals`, `TypeEqual`, `IsIntType`, `areIntFloat`, `Value`, Go's `cmp.Compare`
(ints, strings, float64), the comparison operators of eval/eval.go `evalInfixExpression`
and `min`/`max` of extensions/extension.go.  Core Lean only, everything kernel-evaluable.

Floats: a finite binary64 is an integer multiple of 2^-1074; `F64.scaled f` is that integer
(`value × 2^1074`), computed from sign/exponent/mantissa.  The same formula maps ±Inf to
±2^2098, beyond every finite value, so float order = integer order on `scaled` for non-NaN.
-/
namespace Grol

/-- `cmp.Compare` on integers -/
def cmpInt (a b : Int) : Int := if a < b then -1 else if b < a then 1 else 0

/-- `cmp.Compare` on strings: bytewise lexicographic -/
def cmpBytes : Bytes → Bytes → Int
  | [], [] => 0
  | [], _ :: _ => -1
  | _ :: _, [] => 1
  | a :: as, b :: bs => if a < b then -1 else if b < a then 1 else cmpBytes as bs

namespace F64

def sign (f : F64) : Bool := f.bits.toNat / 2 ^ 63 == 1
def expo (f : F64) : Nat := f.bits.toNat / 2 ^ 52 % 2048
def mant (f : F64) : Nat := f.bits.toNat % 2 ^ 52
def isNaN (f : F64) : Bool := f.expo == 2047 && f.mant != 0

/-- |f| × 2^1074 (2^2098 for the infinities) -/
def mag (f : F64) : Nat :=
  if f.expo == 0 then f.mant else (2 ^ 52 + f.mant) * 2 ^ (f.expo - 1)

/-- f × 2^1074 as an integer; −0 and +0 both give 0 -/
def scaled (f : F64) : Int := if f.sign then -(f.mag : Int) else (f.mag : Int)

/-- 2^1074 -/
def S : Int := 2 ^ 1074

/-- Go's `x < y` on float64 -/
def lt (x y : F64) : Bool := !x.isNaN && !y.isNaN && decide (x.scaled < y.scaled)

/-- `cmp.Compare[float64]`: NaN is less than everything and equal to itself; −0 = +0 -/
def compare (x y : F64) : Int :=
  if x.isNaN then (if y.isNaN then 0 else -1)
  else if y.isNaN then 1
  else if lt x y then -1
  else if lt y x then 1
  else 0

def ofParts (neg : Bool) (biasedExp mantissa : Nat) : F64 :=
  ⟨UInt64.ofNat ((if neg then 2 ^ 63 else 0) + biasedExp * 2 ^ 52 + mantissa)⟩

/-- Go's conversion `float64(i)` of an int64: round to nearest, ties to even.
(Used by the unfixed `Cmp`; kept for the refutation witness of the rounding defect.) -/
def ofInt (i : Int) : F64 :=
  let m := i.natAbs
  if m == 0 then ⟨0⟩ else
  let n := Nat.log2 m + 1          -- bit length
  if n ≤ 53 then ofParts (i < 0) (n - 1 + 1023) (m * 2 ^ (53 - n) - 2 ^ 52)
  else
    let sh := n - 53
    let q := m / 2 ^ sh
    let r := m % 2 ^ sh
    let half := 2 ^ (sh - 1)
    let q' := if r > half || (r == half && q % 2 == 1) then q + 1 else q
    if q' == 2 ^ 53 then ofParts (i < 0) (n + 1023) 0
    else ofParts (i < 0) (n - 1 + 1023) (q' - 2 ^ 52)

end F64

/-- the unfixed `Cmp` on INTEGER/FLOAT: `cmp.Compare(float64(i), f)` -/
def cmpIntFloatLegacy (i : Int) (f : F64) : Int := F64.compare (F64.ofInt i) f

/-- `cmpIntFloat` of object.go (after the fix): exact three-way comparison of an int64 with a
float64.
```
switch { case f != f: return 1; case f >= 1<<63: return -1; case f < -(1<<63): return 1 }
t := math.Trunc(f)
if c := cmp.Compare(i, int64(t)); c != 0 { return c }
return cmp.Compare(t, f)
```
-/
def cmpIntFloat (i : Int) (f : F64) : Int :=
  if f.isNaN then 1
  else if 2 ^ 63 * F64.S ≤ f.scaled then -1
  else if f.scaled < -(2 ^ 63) * F64.S then 1
  else
    let t := f.scaled.tdiv F64.S          -- int64(math.Trunc(f)), exact in this range
    if i < t then -1 else if t < i then 1
    else cmpInt (t * F64.S) f.scaled      -- cmp.Compare(math.Trunc(f), f)

namespace Obj

mutual
/-- the values a program can compare: no RETURN / MACRO object inside, every integer an int64 -/
def isData : Obj → Bool
  | .ret _ => false
  | .mac _ => false
  | .int v => decide (minInt64 ≤ v ∧ v ≤ maxInt64)
  | .reg v => decide (minInt64 ≤ v ∧ v ≤ maxInt64)
  | .arr els => isDataList els
  | .map kvs => isDataKVs kvs
  | _ => true
def isDataList : List Obj → Bool
  | [] => true
  | x :: xs => isData x && isDataList xs
def isDataKVs : List (Obj × Obj) → Bool
  | [] => true
  | (k, v) :: xs => isData k && isData v && isDataKVs xs
end

/-- `IsIntType` -/
def isIntType (t : Nat) : Bool := t == 1 || t == 15
/-- `TypeEqual` -/
def typeEqual (a b : Nat) : Bool := a == b || (isIntType a && isIntType b)
/-- `areIntFloat` -/
def areIntFloat (a b : Nat) : Bool := min a b == 1 && max a b == 2

def typeName : Nat → String
  | 6 => "RETURN" | 11 => "QUOTE" | 12 => "MACRO" | 14 => "REFERENCE" | 15 => "REGISTER" | _ => "UNKNOWN"

/-- the non-recursive cases of the `switch ti` of `Cmp` (both operands have type `ti`) -/
def cmpFlat (a b : Obj) : Outcome Int :=
  match a, b with
  | ext x, ext y => .ok (cmpBytes x y)
  | func x, func y => .ok (cmpBytes x y)
  | err x, err y => .ok (cmpBytes x y)
  | nil, nil => .ok 0
  | int x, int y => .ok (cmpInt x y)
  | float x, float y => .ok (F64.compare x y)
  | bool x, bool y => .ok (if x == y then 0 else if x then 1 else -1)
  | str x, str y => .ok (cmpBytes x y)
  | quote x, quote y => .ok (cmpBytes x y)       -- fix: quotes are ordered by their printed form
  | a, _ => .panic ("Unexpected type in Cmp: " ++ typeName a.typ)

/-- `Cmp` after `Value()` on both operands, except ARRAY/ARRAY and MAP/MAP: the int/float case,
the order by type, and the flat same-type cases -/
def cmpTop (a b : Obj) : Outcome Int :=
  if areIntFloat a.typ b.typ then
    match a, b with
    | int i, float f => .ok (cmpIntFloat i f)
    | float f, int i => .ok (-(cmpIntFloat i f))
    | _, _ => .panic "interface conversion"
  else if a.typ < b.typ then .ok (-1)
  else if b.typ < a.typ then .ok 1
  else cmpFlat a b

mutual
/-- `object.Cmp` -/
def cmp (a b : Obj) : Outcome Int :=
  match a with
  | reg x => cmpTop (int x) b.value
  | arr xs =>
    match b.value with
    | arr ys =>
      if xs.length < ys.length then .ok (-1)
      else if ys.length < xs.length then .ok 1
      else cmpList xs ys
    | b' => cmpTop (arr xs) b'
  | map xs =>
    match b.value with
    | map ys =>
      if xs.length < ys.length then .ok (-1)
      else if ys.length < xs.length then .ok 1
      else cmpKVs xs ys
    | b' => cmpTop (map xs) b'
  | ret v =>
    -- fix: break/continue/return values (they can sit in arrays: [break] == [break]) are ordered by what they carry
    match b.value with
    | ret w => cmp v w
    | b' => cmpTop (ret v) b'
  | a => cmpTop a b.value
/-- the element loop of the ARRAY case -/
def cmpList : List Obj → List Obj → Outcome Int
  | [], _ => .ok 0
  | _ :: _, [] => .panic "index out of range"
  | x :: xs, y :: ys =>
    match cmp x y with
    | .ok 0 => cmpList xs ys
    | r => r
/-- the pair loop of the MAP case -/
def cmpKVs : List (Obj × Obj) → List (Obj × Obj) → Outcome Int
  | [], _ => .ok 0
  | _ :: _, [] => .panic "index out of range"
  | (k, v) :: xs, (k', v') :: ys =>
    match cmp k k' with
    | .ok 0 =>
      match cmp v v' with
      | .ok 0 => cmpKVs xs ys
      | r => r
    | r => r
end

/-- `object.Equals` -/
def equals (a b : Obj) : Outcome Bool :=
  if !typeEqual a.typ b.typ then .ok false else (cmp a b).map (· == 0)

/-! the comparison operators of `evalInfixExpression` -/
def opEq (a b : Obj) : Outcome Bool := equals a b
def opNe (a b : Obj) : Outcome Bool := (equals a b).map (!·)
def opGt (a b : Obj) : Outcome Bool := (cmp a b).map (· == 1)
def opLt (a b : Obj) : Outcome Bool := (cmp a b).map (· == -1)
def opGe (a b : Obj) : Outcome Bool := (cmp a b).map (fun c => decide (0 ≤ c))
def opLe (a b : Obj) : Outcome Bool := (cmp a b).map (fun c => decide (c ≤ 0))

/-- the loop of the `min` extension: `if object.Cmp(a, minV) < 0 { minV = a }` -/
def minLoop (cur : Obj) : List Obj → Outcome Obj
  | [] => .ok cur
  | a :: rest =>
    match cmp a cur with
    | .ok c => minLoop (if c < 0 then a else cur) rest
    | .panic s => .panic s
/-- the loop of the `max` extension: `if object.Cmp(a, maxV) > 0 { maxV = a }` -/
def maxLoop (cur : Obj) : List Obj → Outcome Obj
  | [] => .ok cur
  | a :: rest =>
    match cmp a cur with
    | .ok c => maxLoop (if c > 0 then a else cur) rest
    | .panic s => .panic s

/-- `applyExtension` for a truly variadic extension (`MaxArgs == -1`): a last argument that is an
array is replaced by its elements -/
def expandLast : List Obj → List Obj
  | [] => []
  | [.arr els] => els
  | [x] => [x]
  | x :: xs => x :: expandLast xs

/-- `min(args…)` as called from grol (`MinArgs = 1`; `none` = the "wrong number of arguments" error) -/
def minCall (args : List Obj) : Option (Outcome Obj) :=
  match expandLast args with
  | [] => none
  | x :: rest => some (minLoop x rest)
def maxCall (args : List Obj) : Option (Outcome Obj) :=
  match expandLast args with
  | [] => none
  | x :: rest => some (maxLoop x rest)

end Obj
end Grol

import Grol.Cmp
/-
`cmpI`: the ordering of `Cmp` as a total, panic-free function on all model objects (RETURN and
MACRO objects, on which `Cmp` panics, are ordered by their content).  `GrolProofs.CmpTotal` proves it
is a total preorder, `GrolProofs.CmpModel` that `cmp a b = ok (cmpI a b)` on data values.
`cmpD` is the comparison the map model is run with: the faithful `cmp` on data values.
Core Lean only.
-/
namespace Grol.Ord

/-- three-way comparison of integers -/
def cmpZ (a b : Int) : Int := if a < b then -1 else if b < a then 1 else 0

/-- `none` (NaN) below every `some` -/
def cmpO : Option Int → Option Int → Int
  | none, none => 0
  | none, some _ => -1
  | some _, none => 1
  | some a, some b => cmpZ a b

end Grol.Ord

namespace Grol.Obj
open Grol.Ord

/-- the classes that `Cmp` orders by type: INTEGER, FLOAT (and registers) are one class -/
def cls : Obj → Nat
  | int _ => 1 | float _ => 1 | reg _ => 1
  | bool _ => 3 | nil => 4 | err _ => 5 | ret _ => 6 | func _ => 7 | str _ => 8 | arr _ => 9 | map _ => 10
  | quote _ => 11 | mac _ => 12 | ext _ => 13

/-- NaN ↦ none (least), otherwise value × 2^1074 -/
def fkey (f : F64) : Option Int := if f.isNaN then none else some f.scaled

def numKey : Obj → Option Int
  | int v => some (v * F64.S)
  | reg v => some (v * F64.S)
  | float f => fkey f
  | bool true => some 1
  | _ => some 0

def bytesOf : Obj → Bytes
  | err b => b | func b => b | str b => b | quote b => b | mac b => b | ext b => b
  | _ => []

def isBytesCls (a : Obj) : Bool :=
  match a with
  | err _ | func _ | str _ | quote _ | mac _ | ext _ => true
  | _ => false

/-- comparison inside a class without sub-objects -/
def flatI (a b : Obj) : Int :=
  if isBytesCls a then cmpBytes (bytesOf a) (bytesOf b) else cmpO (numKey a) (numKey b)

mutual
def cmpI (a b : Obj) : Int :=
  if cls a < cls b then -1 else if cls b < cls a then 1 else
  match a with
  | arr xs =>
    match b with
    | arr ys => if xs.length < ys.length then -1 else if ys.length < xs.length then 1 else listI xs ys
    | _ => 0
  | map xs =>
    match b with
    | map ys => if xs.length < ys.length then -1 else if ys.length < xs.length then 1 else kvsI xs ys
    | _ => 0
  | ret v =>
    match b with
    | ret w => cmpI v w
    | _ => 0
  | a => flatI a b
def listI : List Obj → List Obj → Int
  | [], [] => 0
  | [], _ :: _ => -1
  | _ :: _, [] => 1
  | x :: xs, y :: ys => if cmpI x y = 0 then listI xs ys else cmpI x y
def kvsI : List (Obj × Obj) → List (Obj × Obj) → Int
  | [], [] => 0
  | [], _ :: _ => -1
  | _ :: _, [] => 1
  | (k, v) :: xs, (k', v') :: ys =>
    if (if cmpI k k' = 0 then cmpI v v' else cmpI k k') = 0 then kvsI xs ys
    else (if cmpI k k' = 0 then cmpI v v' else cmpI k k')
end

/-- the comparator used to run the map model: `Cmp` itself on data values (where it cannot panic,
C12), the totalised order elsewhere; `GrolProofs.CmpModel.cmpD_eq` shows `cmpD = cmpI` -/
def cmpD (a b : Obj) : Int :=
  if isData a && isData b then (cmp a b).getD 0 else cmpI a b

end Grol.Obj

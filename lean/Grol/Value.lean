import Grol.Object
/-
Wire syntax of grol values (shared by the `cmp` and `mapops` suites; the Go side is
harness/cmd/harness/values.go):

  n | t | f | i<dec> | d<16 hex digits> | s<hex> | e<hex> | F<hex> | X<hex> | Q<hex> | M<hex> | R<value>
  | g<dec> | [v,v,…] | {k:v,k:v,…}          (the empty byte string is "-")
-/
namespace Grol.Value
open Grol Grol.Wire

def isDelim (c : Char) : Bool := c == ',' || c == ':' || c == '[' || c == ']' || c == '{' || c == '}' || c == '|' || c == ';'

def takeToken : List Char → List Char × List Char
  | [] => ([], [])
  | c :: cs => if isDelim c then ([], c :: cs) else
    let (t, r) := takeToken cs
    (c :: t, r)

def hexNat (cs : List Char) : Option Nat :=
  cs.foldlM (fun acc c => (hexVal c).map fun d => acc * 16 + d.toNat) 0

def parseInt (cs : List Char) : Option Int :=
  match cs with
  | '-' :: ds => (String.ofList ds).toNat?.map fun n => -(n : Int)
  | ds => (String.ofList ds).toNat?.map fun n => (n : Int)

mutual
/-- fuel = an upper bound on the nesting depth plus length (the input length is enough) -/
def parse (fuel : Nat) (cs : List Char) : Option (Obj × List Char) :=
  match fuel with
  | 0 => none
  | fuel + 1 =>
    match cs with
    | [] => none
    | '[' :: ']' :: rest => some (.arr [], rest)
    | '[' :: rest => do
      let (els, rest) ← parseList fuel rest
      pure (.arr els, rest)
    | '{' :: '}' :: rest => some (.map [], rest)
    | '{' :: rest => do
      let (kvs, rest) ← parseKVs fuel rest
      pure (.map kvs, rest)
    | 'R' :: rest => do
      let (v, rest) ← parse fuel rest
      pure (.ret v, rest)
    | c :: rest =>
      let (tok, rest) := takeToken rest
      match c with
      | 'n' => if tok.isEmpty then some (.nil, rest) else none
      | 't' => if tok.isEmpty then some (.bool true, rest) else none
      | 'f' => if tok.isEmpty then some (.bool false, rest) else none
      | 'i' => (parseInt tok).map fun v => (.int v, rest)
      | 'g' => (parseInt tok).map fun v => (.reg v, rest)
      | 'd' => if tok.length == 16 then (hexNat tok).map fun n => (.float ⟨UInt64.ofNat n⟩, rest) else none
      | 's' => (bytesOfHex (String.ofList tok)).map fun b => (.str b, rest)
      | 'e' => (bytesOfHex (String.ofList tok)).map fun b => (.err b, rest)
      | 'F' => (bytesOfHex (String.ofList tok)).map fun b => (.func b, rest)
      | 'X' => (bytesOfHex (String.ofList tok)).map fun b => (.ext b, rest)
      | 'Q' => (bytesOfHex (String.ofList tok)).map fun b => (.quote b, rest)
      | 'M' => (bytesOfHex (String.ofList tok)).map fun b => (.mac b, rest)
      | _ => none
def parseList (fuel : Nat) (cs : List Char) : Option (List Obj × List Char) :=
  match fuel with
  | 0 => none
  | fuel + 1 => do
    let (v, rest) ← parse fuel cs
    match rest with
    | ',' :: rest => do
      let (vs, rest) ← parseList fuel rest
      pure (v :: vs, rest)
    | ']' :: rest => pure ([v], rest)
    | _ => none
def parseKVs (fuel : Nat) (cs : List Char) : Option (List (Obj × Obj) × List Char) :=
  match fuel with
  | 0 => none
  | fuel + 1 => do
    let (k, rest) ← parse fuel cs
    match rest with
    | ':' :: rest => do
      let (v, rest) ← parse fuel rest
      match rest with
      | ',' :: rest => do
        let (kvs, rest) ← parseKVs fuel rest
        pure ((k, v) :: kvs, rest)
      | '}' :: rest => pure ([(k, v)], rest)
      | _ => none
    | _ => none
end

def ofString (s : String) : Option Obj :=
  let cs := s.toList
  match parse (cs.length + 1) cs with
  | some (v, []) => some v
  | _ => none

def hexb (b : Bytes) : String := if b.isEmpty then "-" else hexOfBytes b

def hex16 (n : Nat) : String :=
  let ds := (List.range 16).map fun i => hexDigit (UInt8.ofNat ((n / 16 ^ (15 - i)) % 16))
  String.ofList ds

mutual
def render : Obj → String
  | .nil => "n"
  | .bool true => "t"
  | .bool false => "f"
  | .int v => s!"i{v}"
  | .reg v => s!"g{v}"
  | .float f => "d" ++ hex16 f.bits.toNat
  | .str b => "s" ++ hexb b
  | .err b => "e" ++ hexb b
  | .func b => "F" ++ hexb b
  | .ext b => "X" ++ hexb b
  | .quote b => "Q" ++ hexb b
  | .mac b => "M" ++ hexb b
  | .ret v => "R" ++ render v
  | .arr els => "[" ++ renderList els ++ "]"
  | .map kvs => "{" ++ renderKVs kvs ++ "}"
def renderList : List Obj → String
  | [] => ""
  | [x] => render x
  | x :: xs => render x ++ "," ++ renderList xs
def renderKVs : List (Obj × Obj) → String
  | [] => ""
  | [(k, v)] => render k ++ ":" ++ render v
  | (k, v) :: xs => render k ++ ":" ++ render v ++ "," ++ renderKVs xs
end

end Grol.Value

import Grol.Printer
import Grol.Parser
/-
Token-level rendering of the printer (C02): `progToks compact allParens prog` is the token
sequence the lexer reads back from `printProgram prog compact allParens`, for the trees of the
fragment `fragProg` (expressions built from identifiers, number / string / boolean literals, prefix
operators, every binary operator, calls, `[]`- and `.`-index expressions, array literals; a program is
a list of such expression statements).  It follows Printer.lean construct by construct: the same
parenthesis decisions (`ExpressionPrecedence` / `AllParens`), the same context precedences for the
operands, the same separators.

The tie to the code is the `printtokens` suite: on every generated case whose tree is in the
fragment, the REAL lexer's token stream of the REAL printer's output is compared with this
rendering, up to `key` (what an error-free parse reads of a token: type, literal, number class, and
"whitespace in front" for `(` and `[`).  Positions, newline flags and the whitespace flag of the other
tokens are not rendered.
-/
namespace Grol.PrintTokens
open Grol.Wire Grol.Generated Grol.Printer

/-- what an error-free run of the parser reads of a token -/
def key (t : Tok) : Tok :=
  { type := t.type, lit := t.lit, num := t.num,
    hadWs := t.hadWs && (t.type == .LPAREN || t.type == .LBRACKET) }

/-- the token of a tree node, printed as its literal -/
def tk (t : Tk) (ws : Bool) : Tok := { type := t.type, lit := t.lit, hadWs := ws }
def tkNum (t : Tk) (n : NumClass) (ws : Bool) : Tok := { type := t.type, lit := t.lit, hadWs := ws, num := n }
/-- a token the printer writes as a fixed text -/
def sym (ty : TokType) (lit : Bytes) (ws : Bool) : Tok := { type := ty, lit := lit, hadWs := ws }

def lparen (ws : Bool) : Tok := sym .LPAREN [40] ws
def rparen : Tok := sym .RPAREN [41] false
def rbracket : Tok := sym .RBRACKET [93] false
def comma : Tok := sym .COMMA [44] false

/-- tokens registered with parseInfixExpression: the binary operators (`:` included) -/
def binOp (t : TokType) : Bool := Parser.lookup infixRegs t == some .parseInfixExpression
/-- tokens registered with parsePrefixExpression -/
def preOp (t : TokType) : Bool := Parser.lookup prefixRegs t == some .parsePrefixExpression

/-! ### the fragment -/

mutual
def fragN : Node → Bool
  | .ident t => t.type == .IDENT
  | .intLit t => t.type == .INT
  | .floatLit t => t.type == .INT || t.type == .FLOAT
  | .strLit t => t.type == .STRING
  | .boolean t => t.type == .TRUE || t.type == .FALSE
  | .pre t r => preOp t.type && fragO r
  | .infix t l r =>
    binOp t.type && fragO l &&
      (match r with
       | some r => !sameAssociativeOperator t r && fragN r
       | none => false)
  | .call t f args => t == ⟨.LPAREN, [40]⟩ && fragO f && fragL args
  | .array t es => t == ⟨.LBRACKET, [91]⟩ && fragL es
  | .index t l i => (t.type == .LBRACKET || t.type == .DOT) && fragO l && fragO i
  | _ => false
def fragO : Option Node → Bool
  | none => false
  | some n => fragN n
def fragL : List (Option Node) → Bool
  | [] => true
  | x :: xs => fragO x && fragL xs
end

/-! ### expressions -/

mutual
/-- `n.PrettyPrint(ps)` with `ps.ExpressionPrecedence = q`; `ws`: whitespace was written in front -/
def exprToks (c ap : Bool) (q : Nat) (ws : Bool) : Node → List Tok
  | .ident t | .strLit t | .boolean t => [tk t ws]
  | .intLit t => [tkNum t .int ws]
  | .floatLit t => [tkNum t .float ws]
  | .pre t r =>
    if ap || decide (prioPREFIX ≤ q) then
      lparen ws :: tk t false :: exprToksO c ap prioPREFIX false r ++ [rparen]
    else tk t ws :: exprToksO c ap prioPREFIX false r
  | .infix t l (some r) =>
    -- `needParen`: the operator's precedence (the printer panics when it has none: outside the fragment)
    if ap || decide (Parser.precOf t.type < q) then
      lparen ws :: exprToksO c ap (Parser.precOf t.type) false l ++ tk t (!c) ::
        exprToks c ap (if sameAssociativeOperator t r then Parser.precOf t.type else Parser.precOf t.type + 1) (!c) r ++ [rparen]
    else
      exprToksO c ap (Parser.precOf t.type) ws l ++ tk t (!c) ::
        exprToks c ap (if sameAssociativeOperator t r then Parser.precOf t.type else Parser.precOf t.type + 1) (!c) r
  | .infix _ _ none => []
  | .call _ f args =>
    exprToksO c ap prioCALL ws f ++ lparen false :: listToks c ap prioLOWEST false args ++ [rparen]
  | .array _ es => sym .LBRACKET [91] ws :: listToks c ap q false es ++ [rbracket]
  | .index t l i =>
    (if ap || decide (Parser.precOf t.type < q) then [lparen ws] else []) ++
    (if t.type == .DOT && isNumberLiteral l then
       lparen (!(ap || decide (Parser.precOf t.type < q)) && ws) :: exprToksO c ap (Parser.precOf t.type) false l ++ [rparen]
     else exprToksO c ap (Parser.precOf t.type) (!(ap || decide (Parser.precOf t.type < q)) && ws) l) ++
    tk t false ::
    (if t.type == .DOT && (isNumberLiteral i || !isSingleToken i) then
       lparen false :: exprToksO c ap prioLOWEST false i ++ [rparen]
     else exprToksO c ap prioLOWEST false i) ++
    (if t.type == .LBRACKET then [rbracket] else []) ++
    (if ap || decide (Parser.precOf t.type < q) then [rparen] else [])
  | _ => []
def exprToksO (c ap : Bool) (q : Nat) (ws : Bool) : Option Node → List Tok
  | none => []
  | some n => exprToks c ap q ws n
/-- `ps.ComaList(list)`; `notFirst`: a separator comes first -/
def listToks (c ap : Bool) (q : Nat) (notFirst : Bool) : List (Option Node) → List Tok
  | [] => []
  | x :: xs =>
    (if notFirst then [comma] else []) ++ exprToksO c ap q (notFirst && !c) x ++ listToks c ap q true xs
end

/-! ### statements -/

/-- `-`, `+`, `^`, `++`, `--`: a prefix operator that also continues an expression -/
def ambiguousOp (t : TokType) : Bool :=
  t == .MINUS || t == .PLUS || t == .BITXOR || t == .INCR || t == .DECR

def startsAmbiguous (l : List Tok) : Bool :=
  match l with
  | x :: _ => ambiguousOp x.type
  | [] => false

/-- one statement of a statement list; `first`: it is the first one (no separator in front).  In compact
mode a later statement starting with `-`, `+`, `^` is printed in parentheses. -/
def stmtToks (c ap : Bool) (first : Bool) (n : Node) : List Tok :=
  if c && !first && startsAmbiguous (exprToks c ap prioLOWEST (!first) n) then
    lparen true :: exprToks c ap prioLOWEST false n ++ [rparen]
  else exprToks c ap prioLOWEST (!first) n

def progToksAux (c ap : Bool) : Bool → List (Option Node) → List Tok
  | _, [] => []
  | first, some n :: rest => stmtToks c ap first n ++ progToksAux c ap false rest
  | _, none :: _ => []

/-- the tokens of `printProgram prog c ap` (without the end marker) -/
def progToks (c ap : Bool) (prog : List (Option Node)) : List Tok := progToksAux c ap true prog

/-- normal mode: no statement but the first starts with `-`, `+`, `^`, `++`, `--` (recorded class
"statement-starts-with-prefix-operator": on its own line such a statement continues the previous one) -/
def noAmbiguousStart (ap : Bool) : Bool → List (Option Node) → Bool
  | _, [] => true
  | first, some n :: rest => (first || !startsAmbiguous (stmtToks false ap first n)) && noAmbiguousStart ap false rest
  | _, none :: _ => false

/-- the fragment of programs, per print mode -/
def fragProg (c ap : Bool) (prog : List (Option Node)) : Bool :=
  fragL prog && (c || noAmbiguousStart ap true prog)

/-- the end marker as the lexer returns it -/
def eofTok : Tok := sym .EOF [] false

/-- the keys of a rendered program followed by the end marker -/
def progKeys (c ap : Bool) (prog : List (Option Node)) : List Tok :=
  (progToks c ap prog).map key ++ [key eofTok]

/-- a stream showing the tokens `toks` and the end marker (all positions zero) -/
def streamOf (toks : List Tok) : TokStream := { toks := toks ++ [eofTok], eof := eofTok, inputLen := 0 }

end Grol.PrintTokens

import Grol.Printer
import Grol.Parser
/-
Token-level rendering of the printer (C02): `progToks compact allParens prog` is the token
sequence the lexer reads back from `printProgram prog compact allParens`, for the trees of the
fragment `fragProg` (expressions built from identifiers, number / string / boolean literals, prefix
operators, every binary operator, calls, `[]`- and `.`-index expressions, array literals; a program is
a list of such expression statements).  It follows Printer.lean construct by construct: the same
parenthesis decisions (`ExpressionPrecedence` / `AllParens`), the same context precedences for the
operands, the same separators.

The tie to the code is the `printtokens` suite: on every generated case whose tree is in the
fragment, the REAL lexer's token stream of the REAL printer's output is compared with this
rendering, up to `key` (what an error-free parse reads of a token: type, literal, number class, and
"whitespace in front" for `(` and `[`).  Positions, newline flags and the whitespace flag of the other
tokens are not rendered.
-/
namespace Grol.PrintTokens
open Grol.Wire Grol.Generated Grol.Printer

/-- what an error-free run of the parser reads of a token -/
def key (t : Tok) : Tok :=
  { type := t.type, lit := t.lit, num := t.num,
    hadWs := t.hadWs && (t.type == .LPAREN || t.type == .LBRACKET) }

/-- the token of a tree node, printed as its literal -/
def tk (t : Tk) (ws : Bool) : Tok := { type := t.type, lit := t.lit, hadWs := ws }
def tkNum (t : Tk) (n : NumClass) (ws : Bool) : Tok := { type := t.type, lit := t.lit, hadWs := ws, num := n }
/-- a token the printer writes as a fixed text -/
def sym (ty : TokType) (lit : Bytes) (ws : Bool) : Tok := { type := ty, lit := lit, hadWs := ws }

def lparen (ws : Bool) : Tok := sym .LPAREN [40] ws
def rparen : Tok := sym .RPAREN [41] false
def rbracket : Tok := sym .RBRACKET [93] false
def comma : Tok := sym .COMMA [44] false

/-- tokens registered with parseInfixExpression: the binary operators (`:` included) -/
def binOp (t : TokType) : Bool := Parser.lookup infixRegs t == some .parseInfixExpression
/-- tokens registered with parsePrefixExpression -/
def preOp (t : TokType) : Bool := Parser.lookup prefixRegs t == some .parsePrefixExpression

/-- tokens registered with parseBuiltin -/
def builtinOp (t : TokType) : Bool := Parser.lookup prefixRegs t == some .parseBuiltin

/-- `-`, `+`, `^`, `++`, `--`: a prefix operator that also continues an expression -/
def ambiguousOp (t : TokType) : Bool :=
  t == .MINUS || t == .PLUS || t == .BITXOR || t == .INCR || t == .DECR

def startsAmbiguous (l : List Tok) : Bool :=
  match l with
  | x :: _ => ambiguousOp x.type
  | [] => false

def lbrace : Tok := sym .LBRACE [123] false
def rbrace : Tok := sym .RBRACE [125] false

/-! ### expressions, blocks, statement lists -/

mutual
/-- `n.PrettyPrint(ps)` with `ps.ExpressionPrecedence = q`; `ws`: whitespace was written in front -/
def exprToks (c ap : Bool) (q : Nat) (ws : Bool) : Node → List Tok
  | .ident t | .strLit t | .boolean t | .control t => [tk t ws]
  | .intLit t => [tkNum t .int ws]
  | .floatLit t => [tkNum t .float ws]
  | .pre t r =>
    if ap || decide (prioPREFIX ≤ q) then
      lparen ws :: tk t false :: exprToksO c ap prioPREFIX false r ++ [rparen]
    else tk t ws :: exprToksO c ap prioPREFIX false r
  | .post t p =>
    if ap || decide (Parser.precOf t.type < q) then [lparen ws, tk p false, tk t false, rparen]
    else [tk p ws, tk t false]
  | .infix t l (some r) =>
    -- `needParen`: the operator's precedence (the printer panics when it has none: outside the fragment)
    if ap || decide (Parser.precOf t.type < q) then
      lparen ws :: exprToksO c ap (Parser.precOf t.type) false l ++ tk t (!c) ::
        exprToks c ap (if sameAssociativeOperator t r then Parser.precOf t.type else Parser.precOf t.type + 1) (!c) r ++ [rparen]
    else
      exprToksO c ap (Parser.precOf t.type) ws l ++ tk t (!c) ::
        exprToks c ap (if sameAssociativeOperator t r then Parser.precOf t.type else Parser.precOf t.type + 1) (!c) r
  | .infix t l none => exprToksO c ap (Parser.precOf t.type) ws l ++ [tk t false]   -- the open-ended `n:` (never in parentheses)
  | .call _ f args =>
    exprToksO c ap prioCALL ws f ++ lparen false :: listToks c ap prioLOWEST false args ++ [rparen]
  | .array _ es => sym .LBRACKET [91] ws :: listToks c ap q false es ++ [rbracket]
  | .builtin t ps => tk t ws :: lparen false :: listToks c ap q false ps ++ [rparen]
  | .index t l i =>
    (if ap || decide (Parser.precOf t.type < q) then [lparen ws] else []) ++
    (if t.type == .DOT && isNumberLiteral l then
       lparen (!(ap || decide (Parser.precOf t.type < q)) && ws) :: exprToksO c ap (Parser.precOf t.type) false l ++ [rparen]
     else exprToksO c ap (Parser.precOf t.type) (!(ap || decide (Parser.precOf t.type < q)) && ws) l) ++
    tk t false ::
    (if t.type == .DOT && (isNumberLiteral i || !isSingleToken i) then
       lparen false :: exprToksO c ap prioLOWEST false i ++ [rparen]
     else exprToksO c ap prioLOWEST false i) ++
    (if t.type == .LBRACKET then [rbracket] else []) ++
    (if ap || decide (Parser.precOf t.type < q) then [rparen] else [])
  | .func t name params body _ isLambda =>
    if isLambda then
      (if decide (prioLAMBDA < q) then [lparen ws] else []) ++
      (if params.length == 1 then listToks c ap q false params
       else lparen (!decide (prioLAMBDA < q) && ws) :: listToks c ap q false params ++ [rparen]) ++
      sym .LAMBDA [61, 62] (!c) :: blockToks c ap body ++
      (if decide (prioLAMBDA < q) then [rparen] else [])
    else
    tk t ws :: (match name with | some nm => [tk nm true] | none => []) ++
      lparen false :: listToks c ap q false params ++ rparen :: blockToks c ap body
  | .macroLit t params body => tk t ws :: lparen false :: listToks c ap q false params ++ rparen :: blockToks c ap body
  | .mapLit _ kvs => sym .LBRACE [123] ws :: pairsToks c ap false kvs ++ [rbrace]
  | .forE _ cond body => sym .FOR [102, 111, 114] ws :: exprToksO c ap q true cond ++ blockToks c ap body
  | .ifE _ cond cons alt =>
    sym .IF [105, 102] ws :: exprToksO c ap q true cond ++ blockToks c ap cons ++ altToks c ap q alt
  | _ => []
def exprToksO (c ap : Bool) (q : Nat) (ws : Bool) : Option Node → List Tok
  | none => []
  | some n => exprToks c ap q ws n
/-- `ps.ComaList(list)`; `notFirst`: a separator comes first -/
def listToks (c ap : Bool) (q : Nat) (notFirst : Bool) : List (Option Node) → List Tok
  | [] => []
  | x :: xs =>
    (if notFirst then [comma] else []) ++ exprToksO c ap q (notFirst && !c) x ++ listToks c ap q true xs
/-- MapLiteral.PrettyPrint's loop: key and value are printed as the operands of `:` -/
def pairsToks (c ap : Bool) (notFirst : Bool) : List (Option Node) → List Tok
  | k :: v :: rest =>
    (if notFirst then [comma] else []) ++ exprToksO c ap (Parser.precOf .COLON) (notFirst && !c) k ++
      sym .COLON [58] false :: exprToksO c ap (Parser.precOf .COLON + 1) false v ++ pairsToks c ap true rest
  | _ => []
/-- `(*Statements).PrettyPrint` inside braces -/
def blockToks (c ap : Bool) : Option (List (Option Node)) → List Tok
  | none => []
  | some l => lbrace :: stmtsToks c ap true true l ++ [rbrace]
/-- printElse: `else if …` when the alternative is a single `if`, a block otherwise -/
def altToks (c ap : Bool) (q : Nat) : Option (List (Option Node)) → List Tok
  | none => []
  | some [some a] =>
    sym .ELSE [101, 108, 115, 101] true ::
      (if a.tok.type = .IF then exprToks c ap q true a else lbrace :: stmtsToks c ap true true [some a] ++ [rbrace])
  | some l => sym .ELSE [101, 108, 115, 101] true :: lbrace :: stmtsToks c ap true true l ++ [rbrace]
/-- `Statements.PrettyPrint`'s loop; `inBlock`: inside braces (normal mode: every statement on its own indented line);
`first`: no statement precedes.  In compact mode a later statement starting with `-`, `+`, `^` is printed in parentheses. -/
def stmtsToks (c ap : Bool) (inBlock first : Bool) : List (Option Node) → List Tok
  | [] => []
  | none :: _ => []
  | some n :: rest =>
    (match n with
     | .ret t v => tk t (!first || (inBlock && !c)) :: exprToksO c ap prioLOWEST true v
     | n =>
       if c && !first && startsAmbiguous (exprToks c ap prioLOWEST (!first || (inBlock && !c)) n) then
         lparen true :: exprToks c ap prioLOWEST false n ++ [rparen]
       else exprToks c ap prioLOWEST (!first || (inBlock && !c)) n) ++
    stmtsToks c ap inBlock false rest
end

/-- the tokens of `printProgram prog c ap` (without the end marker) -/
def progToks (c ap : Bool) (prog : List (Option Node)) : List Tok := stmtsToks c ap false true prog

/-! ### the fragment (per print mode: the statement lists of normal mode must not have a statement, other than
the first, that starts with `-`, `+`, `^`, `++`, `--` — recorded class "statement-starts-with-prefix-operator") -/

/-- a parameter of `func(a, b, ..)`: an identifier or `..` -/
def isParam : Option Node → Bool
  | some (.ident t) => t.type == .IDENT || t.type == .DOTDOT
  | _ => false

def isDotDot : Option Node → Bool
  | some (.ident t) => t.type == .DOTDOT
  | _ => false

/-- is the last parameter `..` (`d` for the empty list) -/
def lastDotDot (d : Bool) : List (Option Node) → Bool
  | [] => d
  | x :: rest => lastDotDot (isDotDot x) rest

/-- the parameters of a lambda, as `okParamList` accepts them: identifiers, the last one may be `..` (exactly then the
lambda is variadic) -/
def lambdaParamsOK (variadic : Bool) (params : List (Option Node)) : Bool :=
  params.all isParam &&
    (match Parser.okParamList params with
     | some (t, true) => t.isSome == variadic
     | _ => false)

/-- the parameters of a function literal: the same rule since `parseFunctionParameters` checks its list with `okParamList` -/
def paramsOK (variadic : Bool) (params : List (Option Node)) : Bool := lambdaParamsOK variadic params

/-- the parameters of a macro literal (the variadic flag of `parseFunctionParameters` is dropped) -/
def macroParamsOK (params : List (Option Node)) : Bool :=
  params.all isParam && (match Parser.okParamList params with | some (_, true) => true | _ => false)

mutual
def fragN (c ap : Bool) : Node → Bool
  | .ident t => t.type == .IDENT || t.type == .DOTDOT
  | .intLit t => t.type == .INT
  | .floatLit t => t.type == .INT || t.type == .FLOAT
  | .strLit t => t.type == .STRING
  | .boolean t => t.type == .TRUE || t.type == .FALSE
  | .control t => t.type == .BREAK || t.type == .CONTINUE
  | .pre t r => preOp t.type && fragO c ap r
  | .post t p => (t.type == .INCR || t.type == .DECR) && (p.type == .IDENT || p.type == .DOTDOT)
  | .infix t l r =>
    binOp t.type && fragO c ap l &&
      (match r with
       | some r => !sameAssociativeOperator t r && fragN c ap r
       | none => false)
  | .call t f args => t == ⟨.LPAREN, [40]⟩ && fragO c ap f && fragL c ap args
  | .array t es => t == ⟨.LBRACKET, [91]⟩ && fragL c ap es
  | .builtin t ps => builtinOp t.type && fragL c ap ps
  | .index t l i =>
    fragO c ap l &&
      (if t.type == .LBRACKET then fragIdx c ap i else t.type == .DOT && fragO c ap i)
  | .func t name params body variadic isLambda =>
    if isLambda then t == ⟨.LAMBDA, [61, 62]⟩ && name.isNone && lambdaParamsOK variadic params && fragB c ap body
    else t.type == .FUNC && (match name with | some nm => nm.type == .IDENT | none => true) &&
      paramsOK variadic params && fragB c ap body
  | .macroLit t params body => t.type == .MACRO && macroParamsOK params && fragB c ap body
  | .mapLit t kvs => t == ⟨.LBRACE, [123]⟩ && fragPairs c ap kvs
  | .forE t cond body => t == ⟨.FOR, [102, 111, 114]⟩ && fragO c ap cond && fragB c ap body
  | .ifE t cond cons alt => t == ⟨.IF, [105, 102]⟩ && fragO c ap cond && fragB c ap cons && fragAlt c ap alt
  | _ => false
def fragO (c ap : Bool) : Option Node → Bool
  | none => false
  | some n => fragN c ap n
/-- the index of `a[…]`: an expression, or the open-ended `n:` of `a[n:]` -/
def fragIdx (c ap : Bool) : Option Node → Bool
  | some (.infix tc lc none) => tc.type == .COLON && fragO c ap lc
  | some n => fragN c ap n
  | none => false
def fragL (c ap : Bool) : List (Option Node) → Bool
  | [] => true
  | x :: xs => fragO c ap x && fragL c ap xs
def fragPairs (c ap : Bool) : List (Option Node) → Bool
  | [] => true
  | k :: v :: rest => fragO c ap k && fragO c ap v && fragPairs c ap rest
  | [_] => false
def fragB (c ap : Bool) : Option (List (Option Node)) → Bool
  | none => false
  | some l => fragS c ap true true l
def fragAlt (c ap : Bool) : Option (List (Option Node)) → Bool
  | none => true
  | some [some a] =>
    if a.tok.type = .IF then (match a with | .ifE .. => fragN c ap a | _ => false) else fragS c ap true true [some a]
  | some l => fragS c ap true true l
/-- a statement list: expression statements and `return`; a `return` without a value only at the end -/
def fragS (c ap : Bool) (inBlock first : Bool) : List (Option Node) → Bool
  | [] => true
  | none :: _ => false
  | some n :: rest =>
    (match n with
     | .ret t v => t.type == .RETURN && (match v with | none => rest.isEmpty | some v => fragN c ap v)
     | n => fragN c ap n &&
         (c || first || !startsAmbiguous (exprToks c ap prioLOWEST (!first || (inBlock && !c)) n))) &&
    fragS c ap inBlock false rest
end

/-- the fragment of programs, per print mode -/
def fragProg (c ap : Bool) (prog : List (Option Node)) : Bool := fragS c ap false true prog

/-- the end marker as the lexer returns it -/
def eofTok : Tok := sym .EOF [] false

/-- the keys of a rendered program followed by the end marker -/
def progKeys (c ap : Bool) (prog : List (Option Node)) : List Tok :=
  (progToks c ap prog).map key ++ [key eofTok]

/-- a stream showing the tokens `toks` and the end marker (all positions zero) -/
def streamOf (toks : List Tok) : TokStream := { toks := toks ++ [eofTok], eof := eofTok, inputLen := 0 }

end Grol.PrintTokens

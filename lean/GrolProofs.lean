import GrolProofs.Props.C20
import GrolProofs.Props.C08
import GrolProofs.Props.C02
import GrolProofs.Props.C03
import GrolProofs.Props.C15
import GrolProofs.Precedence

import GrolProofs.PrintParse
/-
C02, positive half: statement lists, blocks, `return`, function literals, `for`, `if`/`else`, and the
assembly of the round-trip property for every tree of the fragment (`gpx_node`).
-/
set_option linter.unusedVariables false
set_option linter.unusedSimpArgs false
namespace Grol.RT
open Grol Grol.Wire Grol.Generated Grol.Parser Grol.Printer Grol.PrintTokens
variable {s : TokStream} {c ap : Bool}

/-! ### one statement -/

/-- one statement as `stmtsToks` renders it -/
def stmtToks1 (c ap inBlock first : Bool) (n : Node) : List Tok :=
  match n with
  | .ret t v => tk t (!first || (inBlock && !c)) :: exprToksO c ap prioLOWEST true v
  | n =>
    if c && !first && startsAmbiguous (exprToks c ap prioLOWEST (!first || (inBlock && !c)) n) then
      lparen true :: exprToks c ap prioLOWEST false n ++ [rparen]
    else exprToks c ap prioLOWEST (!first || (inBlock && !c)) n

theorem stmtsToks_cons (ib first : Bool) (n : Node) (rest : NList) :
    stmtsToks c ap ib first (some n :: rest) = stmtToks1 c ap ib first n ++ stmtsToks c ap ib false rest := by
  cases n <;> rfl

/-- the condition `fragS` puts on one statement -/
def fragStmt (c ap inBlock first : Bool) (n : Node) (rest : NList) : Bool :=
  match n with
  | .ret t v => t.type == .RETURN && (match v with | none => rest.isEmpty | some v => fragN c ap v)
  | n => fragN c ap n && (c || first || !startsAmbiguous (exprToks c ap prioLOWEST (!first || (inBlock && !c)) n))

theorem fragS_cons (ib first : Bool) (n : Node) (rest : NList) :
    fragS c ap ib first (some n :: rest) = (fragStmt c ap ib first n rest && fragS c ap ib false rest) := by
  cases n with
  | ret t v => cases v <;> simp only [fragS, fragStmt]
  | _ => simp only [fragS, fragStmt]

def isRet : Node → Bool
  | .ret .. => true
  | _ => false

def NotRet (n : Node) : Prop := isRet n = false

theorem isRet_elim {n : Node} (h : isRet n = true) : ∃ t v, n = .ret t v := by
  cases n <;> first | exact ⟨_, _, rfl⟩ | simp [isRet] at h

theorem stmtToks1_expr {n : Node} (h : NotRet n) (ib first : Bool) :
    stmtToks1 c ap ib first n =
      if c && !first && startsAmbiguous (exprToks c ap prioLOWEST (!first || (ib && !c)) n) then
        lparen true :: exprToks c ap prioLOWEST false n ++ [rparen]
      else exprToks c ap prioLOWEST (!first || (ib && !c)) n := by
  cases n <;> first | rfl | simp [NotRet, isRet] at h

theorem fragStmt_expr {n : Node} (h : NotRet n) (ib first : Bool) (rest : NList) :
    fragStmt c ap ib first n rest =
      (fragN c ap n && (c || first || !startsAmbiguous (exprToks c ap prioLOWEST (!first || (ib && !c)) n))) := by
  cases n <;> first | rfl | simp [NotRet, isRet] at h

/-- what the induction provides for one statement -/
def StmtP (s : TokStream) (c ap : Bool) (n : Node) : Prop :=
  (∀ t v, n = .ret t (some v) → GP s c ap v) ∧ (NotRet n → GP s c ap n)

/-- the first token of a statement -/
def startTyS (t : TokType) : Bool := startTy t || t == .RETURN

theorem startTyS_facts : ∀ t : TokType, startTyS t = true →
    t ≠ .RBRACE ∧ t ≠ .EOF ∧ t ≠ .EOL ∧ t ≠ .SEMICOLON ∧ t ≠ .LAMBDA ∧ t ≠ .ELSE := by
  intro t; cases t <;> decide

theorem startTyS_stop : ∀ t : TokType, startTyS t = true → ambiguousOp t = false →
    t ≠ .INCR ∧ t ≠ .DECR ∧ ((precOf t ≤ 1 ∧ t ≠ .ELSE) ∨ t = .LPAREN ∨ t = .LBRACKET) := by
  intro t; cases t <;> decide

theorem stmtToks1_head {n : Node} {rest : NList} (ib first : Bool) (hf : fragStmt c ap ib first n rest = true) :
    ∃ x r, stmtToks1 c ap ib first n = x :: r ∧ startTyS x.type = true ∧
      (first = false → (isOpener x.type → x.hadWs = true) ∧ ambiguousOp x.type = false) := by
  cases hr : isRet n
  · rw [fragStmt_expr hr] at hf
    simp only [Bool.and_eq_true, Bool.or_eq_true, Bool.not_eq_true'] at hf
    rw [stmtToks1_expr hr]
    by_cases hc : (c && !first && startsAmbiguous (exprToks c ap prioLOWEST (!first || (ib && !c)) n)) = true
    · rw [if_pos hc]
      exact ⟨lparen true, _, rfl, by decide, fun _ => ⟨fun _ => rfl, by decide⟩⟩
    · rw [if_neg hc]
      obtain ⟨x, r, hx, h1, h2⟩ := head_node n hf.1 prioLOWEST (!first || (ib && !c))
      refine ⟨x, r, hx, by simp [startTyS, h1], fun hfirst => ?_⟩
      subst hfirst
      simp only [Bool.not_false, Bool.true_or, Bool.and_true] at hc h2 hx hf
      refine ⟨h2, ?_⟩
      have : startsAmbiguous (exprToks c ap prioLOWEST true n) = false := by
        cases c with
        | true => simpa using hc
        | false => rcases hf.2 with h | h
                   · exact absurd h (by simp)
                   · exact h
      rw [hx] at this
      simpa [startsAmbiguous] using this
  · obtain ⟨t, v, rfl⟩ := isRet_elim hr
    simp only [fragStmt, Bool.and_eq_true, beq_iff_eq] at hf
    refine ⟨tk t (!first || (ib && !c)), _, rfl, by simp [tk, hf.1, startTyS], fun hfirst => ?_⟩
    subst hfirst
    exact ⟨fun _ => by simp [tk], by simp [tk, hf.1]; decide⟩

/-- one statement of a statement list, parsed by `parseStatement` -/
theorem stmt1_parse {n : Node} {rest : NList} (ib first : Bool) (hf : fragStmt c ap ib first n rest = true) (hp : StmtP s c ap n)
    (i j : Nat) (hseg : Seg s i (stmtToks1 c ap ib first n)) (hj : j + 1 = i + (stmtToks1 c ap ib first n).length)
    (hstop : Stop prioLOWEST (s.get (j + 1))) (hsemi : (s.get (j + 1)).type ≠ .SEMICOLON)
    (hlast : rest = [] → (s.get (j + 1)).type = .RBRACE ∨ (s.get (j + 1)).type = .EOF) :
    Ev (fun f => parseStatement s f (stAt s i) = .ok (some n, stAt s j)) := by
  cases hr : isRet n
  · -- an expression statement
    have hgp := hp.2 hr
    rw [fragStmt_expr hr] at hf
    simp only [Bool.and_eq_true] at hf
    obtain ⟨x, r, hx, hstart, _⟩ := stmtToks1_head (rest := rest) ib first (by rw [fragStmt_expr hr]; simpa using hf)
    have hcur : startTyS (s.get i).type = true := by
      rw [hx, Seg_cons] at hseg; rw [seg_type hseg.1]; exact hstart
    have hnr : (s.get i).type ≠ .RETURN := by
      intro h
      rw [stmtToks1_expr hr] at hseg
      by_cases hc : (c && !first && startsAmbiguous (exprToks c ap prioLOWEST (!first || (ib && !c)) n)) = true
      · rw [if_pos hc, List.cons_append, Seg_cons] at hseg
        have := seg_type hseg.1; rw [h] at this; cases this
      · rw [if_neg hc] at hseg
        have := (head_node n hf.1 prioLOWEST (!first || (ib && !c))).seg_start hseg
        rw [h] at this; exact absurd this (by decide)
    have hE : Ev (fun f => parseExpression s f prioLOWEST (stAt s i) = .ok (some n, stAt s j)) := by
      rw [stmtToks1_expr hr] at hseg hj
      by_cases hc : (c && !first && startsAmbiguous (exprToks c ap prioLOWEST (!first || (ib && !c)) n)) = true
      · rw [if_pos hc] at hseg hj
        simp only [List.cons_append, Seg_cons, Seg_append, Seg_nil, and_true, List.length_cons, List.length_append, List.length_nil] at hseg hj
        obtain ⟨j', rfl⟩ : ∃ j', j = j' + 1 := ⟨j - 1, by omega⟩
        have hcl : key (s.get (j' + 1)) = key rparen := by
          have := hseg.2.2; rwa [show i + 1 + (exprToks c ap prioLOWEST false n).length = j' + 1 by omega] at this
        refine grp (t := n) (i := i) (j := j') (fun res' => ?_) (by have := seg_type hseg.1; simpa [lparen, sym] using this)
          (by have := seg_type hcl; simpa [rparen, sym] using this) hstop.1 (ev_loop_stop hstop)
        exact hgp false prioLOWEST prioLOWEST (i + 1) j' res' (Compat_low (Nat.le_refl _)) hseg.2.1 (by omega)
          (stop_rparen hcl (Nat.le_refl _))
      · rw [if_neg hc] at hseg hj
        exact hgp _ prioLOWEST prioLOWEST i j _ (Compat_low (Nat.le_refl _)) hseg hj hstop (ev_loop_stop hstop)
    refine Ev.step 0 1 (fun F _ ha f hf' => ?_) hE
    exact parseStatement_ok (by simp only [stAt_cur]; exact hnr) (ha f hf') (by simp only [stAt_peek]; exact hsemi)
  · obtain ⟨t, v, rfl⟩ := isRet_elim hr
    simp only [fragStmt, Bool.and_eq_true, beq_iff_eq] at hf
    simp only [stmtToks1, Seg_cons, List.length_cons] at hseg hj
    have hty : (s.get i).type = .RETURN := by rw [seg_type hseg.1]; exact hf.1
    cases v with
    | none =>
      simp only [exprToksO, List.length_nil, Seg_nil] at hseg hj
      obtain rfl : j = i := by omega
      have hl := hlast (by simpa using hf.2)
      refine ⟨2, fun f hf' => ?_⟩
      obtain ⟨g, rfl⟩ : ∃ g, f = g + 2 := ⟨f - 2, by omega⟩
      rw [parseStatement_ret (by simpa using hty), parseReturnStatement_bare (by
        simp only [stAt_peek]; rcases hl with h | h
        · exact Or.inr (Or.inl h)
        · exact Or.inr (Or.inr (Or.inl h))), stAt_cur, seg_tk hseg.1]
    | some v =>
      simp only [exprToksO] at hseg hj
      have hgv := hp.1 t v rfl
      have hstart := (head_node v hf.2 prioLOWEST true).seg_start hseg.2
      have hsf := startTy_facts _ hstart
      have hE := hgv true prioLOWEST prioLOWEST (i + 1) j (some v, stAt s j) (Compat_low (Nat.le_refl _)) hseg.2 (by omega) hstop
        (ev_loop_stop hstop)
      refine Ev.step 0 2 (fun F _ ha f hf' => ?_) hE
      rw [parseStatement_ret (by simpa using hty), parseReturnStatement_value (st1 := stAt s j) (v := some v)
        (by simp only [stAt_peek]; exact ⟨hsf.2.2.2.2.2.2.1, hsf.2.2.2.2.2.2.2.2, hsf.2.2.2.1, hsf.2.2.2.2.1⟩)
        (by simp only [advance_stAt]; exact ha f hf') (by simp only [stAt_peek]; exact hsemi), stAt_cur, seg_tk hseg.1]

/-! ### statement lists -/

/-- the token after a statement: the closing token of the list, or the first token of a statement that does not continue the previous one -/
def FollowOK (endTok y : Tok) : Prop :=
  y = endTok ∨ (startTyS y.type = true ∧ (isOpener y.type → y.hadWs = true) ∧ ambiguousOp y.type = false)

theorem followOK_stop {endTok y : Tok} {j : Nat} (hend : endTok = eofTok ∨ endTok = rbrace) (hy : FollowOK endTok y)
    (h : key (s.get j) = key y) : Stop prioLOWEST (s.get j) ∧ (s.get j).type ≠ .SEMICOLON := by
  have hty := seg_type h
  rcases hy with rfl | ⟨h1, h2, h3⟩
  · have : (s.get j).type = .EOF ∨ (s.get j).type = .RBRACE := by
      rcases hend with rfl | rfl
      · exact Or.inl hty
      · exact Or.inr hty
    rcases this with this | this <;>
      exact ⟨Stop_of_type (by rw [this]; decide) (by rw [this]; decide) (by rw [this]; decide) (by rw [this]; decide), by rw [this]; decide⟩
  · have hs := startTyS_stop _ h1 h3
    have hf := startTyS_facts _ h1
    rw [← hty] at hs hf h1
    refine ⟨⟨hf.2.2.2.2.1, hs.1, hs.2.1, ?_⟩, hf.2.2.2.1⟩
    rcases hs.2.2 with hp | hp | hp
    · exact Or.inl hp
    · exact Or.inr ⟨Or.inl hp, by rw [key_ws h (Or.inl (by rw [← hty]; exact hp))]; exact h2 (Or.inl (by rw [← hty]; exact hp))⟩
    · exact Or.inr ⟨Or.inr hp, by rw [key_ws h (Or.inr (by rw [← hty]; exact hp))]; exact h2 (Or.inr (by rw [← hty]; exact hp))⟩

/-- what follows a statement in the rendering of a statement list -/
theorem stmts_follow (endTok : Tok) (ib : Bool) : ∀ (more : NList), fragS c ap ib false more = true →
    ∃ y rest, stmtsToks c ap ib false more ++ [endTok] = y :: rest ∧ FollowOK endTok y
  | [], _ => ⟨endTok, [], rfl, Or.inl rfl⟩
  | none :: _, h => by simp [fragS] at h
  | some n :: more, h => by
    rw [fragS_cons, Bool.and_eq_true] at h
    obtain ⟨x, r, hx, h1, h2⟩ := stmtToks1_head ib false h.1
    exact ⟨x, r ++ (stmtsToks c ap ib false more ++ [endTok]), by rw [stmtsToks_cons, hx]; simp, Or.inr ⟨h1, (h2 rfl).1, (h2 rfl).2⟩⟩

def SPL (s : TokStream) (c ap : Bool) (l : NList) : Prop := ∀ x ∈ l, ∃ n, x = some n ∧ StmtP s c ap n

theorem SPL.head {x : ONode} {xs : NList} (h : SPL s c ap (x :: xs)) : ∃ n, x = some n ∧ StmtP s c ap n :=
  h x (List.mem_cons_self ..)
theorem SPL.tail {x : ONode} {xs : NList} (h : SPL s c ap (x :: xs)) : SPL s c ap xs :=
  fun y hy => h y (List.mem_cons_of_mem _ hy)

/-- one step of a statement loop: the first statement is parsed, the rest of the list follows -/
theorem stmts_step {endTok : Tok} (hend : endTok = eofTok ∨ endTok = rbrace) {n : Node} {rest : NList} {ib first : Bool} {i : Nat}
    (hf : fragS c ap ib first (some n :: rest) = true) (hp : StmtP s c ap n)
    (hseg : Seg s i (stmtsToks c ap ib first (some n :: rest) ++ [endTok])) :
    ∃ j, j + 1 = i + (stmtToks1 c ap ib first n).length ∧
      Ev (fun f => parseStatement s f (stAt s i) = .ok (some n, stAt s j)) ∧
      Seg s (j + 1) (stmtsToks c ap ib false rest ++ [endTok]) ∧ startTyS (s.get i).type = true := by
  rw [fragS_cons, Bool.and_eq_true] at hf
  rw [stmtsToks_cons, List.append_assoc, Seg_append] at hseg
  obtain ⟨x, r, hx, hstart, _⟩ := stmtToks1_head ib first hf.1
  have hpos : 1 ≤ (stmtToks1 c ap ib first n).length := by rw [hx]; simp
  obtain ⟨j, hj⟩ : ∃ j, j + 1 = i + (stmtToks1 c ap ib first n).length := ⟨i + (stmtToks1 c ap ib first n).length - 1, by omega⟩
  rw [← hj] at hseg
  obtain ⟨y, rest', hy, hok⟩ := stmts_follow endTok ib rest hf.2
  have hfol : key (s.get (j + 1)) = key y := by have := hseg.2; rw [hy, Seg_cons] at this; exact this.1
  have hst := followOK_stop hend hok hfol
  have hlast : rest = [] → (s.get (j + 1)).type = .RBRACE ∨ (s.get (j + 1)).type = .EOF := by
    intro hr; subst hr
    simp only [stmtsToks, List.nil_append, List.cons.injEq] at hy
    rw [seg_type hfol, ← hy.1]
    rcases hend with rfl | rfl
    · exact Or.inr rfl
    · exact Or.inl rfl
  refine ⟨j, hj, stmt1_parse ib first hf.1 hp i j hseg.1 hj hst.1 hst.2 hlast, hseg.2, ?_⟩
  have := hseg.1; rw [hx, Seg_cons] at this; rw [seg_type this.1]; exact hstart

/-- the statement loop of a block -/
theorem block_loop : ∀ (l acc : NList) (first : Bool) (i : Nat), fragS c ap true first l = true → SPL s c ap l →
    Seg s i (stmtsToks c ap true first l ++ [rbrace]) →
    Ev (fun f => parseBlockLoop s f acc (stAt s i) = .ok (some (acc ++ l), stAt s (i + (stmtsToks c ap true first l).length)))
  | [], acc, first, i, _, _, hseg => by
    simp only [stmtsToks, List.nil_append, Seg_cons, Seg_nil, and_true, List.length_nil, Nat.add_zero, List.append_nil] at hseg ⊢
    have hty : (s.get i).type = .RBRACE := seg_type hseg
    refine ⟨1, fun f hf => ?_⟩
    obtain ⟨g, rfl⟩ : ∃ g, f = g + 1 := ⟨f - 1, by omega⟩
    exact parseBlockLoop_stop (by simpa using hty)
  | none :: _, _, _, _, h, _, _ => by simp [fragS] at h
  | some n :: rest, acc, first, i, h, hp, hseg => by
    obtain ⟨n', hn', hpn⟩ := hp.head
    cases hn'
    obtain ⟨j, hj, h1, hseg', hstart⟩ := stmts_step (Or.inr rfl) h hpn hseg
    have h' := h; rw [fragS_cons, Bool.and_eq_true] at h'
    have h2 := block_loop rest (acc ++ [some n]) false (j + 1) h'.2 hp.tail hseg'
    have hsf := startTyS_facts _ hstart
    refine Ev.step2 0 1 (fun F _ ha hb f hf => ?_) h1 h2
    rw [parseBlockLoop_step (st1 := stAt s j) (stmt := some n) (by simp only [stAt_cur]; exact hsf.1)
      (by simp only [stAt_cur]; exact hsf.2.1) (by simp only [stAt_cur]; exact hsf.2.2.1) (ha f hf), advance_stAt, hb f hf,
      List.append_assoc, stmtsToks_cons, List.length_append]
    have : j + 1 + (stmtsToks c ap true false rest).length = i + ((stmtToks1 c ap true first n).length + (stmtsToks c ap true false rest).length) := by omega
    rw [this]; rfl

/-- a block `{ … }` from the `{` at `i` to the `}` -/
theorem block_parse (l : NList) (i : Nat) (hf : fragS c ap true true l = true) (hp : SPL s c ap l)
    (hseg : Seg s i (lbrace :: stmtsToks c ap true true l ++ [rbrace])) :
    Ev (fun f => parseBlockStatement s f (stAt s i) = .ok (some l, stAt s (i + 1 + (stmtsToks c ap true true l).length))) := by
  rw [List.cons_append, Seg_cons] at hseg
  have h := block_loop l [] true (i + 1) hf hp hseg.2
  refine Ev.step 0 1 (fun F _ ha f hf' => ?_) h
  rw [parseBlockStatement_eq, advance_stAt, ha f hf']
  rfl

/-! ### function literals -/

theorem isParam_elim {x : ONode} (h : isParam x = true) : ∃ t, x = some (.ident t) ∧ (t.type = .IDENT ∨ t.type = .DOTDOT) := by
  cases x with
  | none => simp [isParam] at h
  | some n => cases n <;> first | (simp only [isParam, Bool.or_eq_true, beq_iff_eq] at h; exact ⟨_, rfl, h⟩) | simp [isParam] at h

/-- the rest of a parameter list, from the last token of the previous parameter at `k` to the last parameter token at `j` -/
theorem params_loop (q : Nat) : ∀ (rest acc : NList) (k j : Nat), (∀ x ∈ rest, isParam x = true) →
    Seg s (k + 1) (listToks c ap q true rest ++ [rparen]) → j = k + (listToks c ap q true rest).length →
    Ev (fun f => parseFunctionParametersLoop s f acc (stAt s k) = .ok (acc ++ rest, stAt s j)) ∧
    ((s.get j).type == .DOTDOT) = lastDotDot ((s.get k).type == .DOTDOT) rest
  | [], acc, k, j, _, hseg, hj => by
    simp only [listToks, List.nil_append, Seg_cons, Seg_nil, and_true, List.length_nil, Nat.add_zero] at hseg hj
    subst hj
    have hty : (s.get (j + 1)).type = .RPAREN := seg_type hseg
    refine ⟨⟨1, fun f hf => ?_⟩, rfl⟩
    obtain ⟨g, rfl⟩ : ∃ g, f = g + 1 := ⟨f - 1, by omega⟩
    rw [parseFunctionParametersLoop_stop (by simp only [stAt_peek, hty]; decide), List.append_nil]
  | x :: rest, acc, k, j, hall, hseg, hj => by
    obtain ⟨t, rfl, ht⟩ := isParam_elim (hall x (List.mem_cons_self ..))
    simp only [listToks, if_true, exprToksO, exprToks, Bool.true_and, List.cons_append, List.nil_append, List.append_assoc, Seg_cons,
      List.length_cons, List.length_append, List.length_nil] at hseg hj
    have hcomma : (s.get (k + 1)).type = .COMMA := seg_type hseg.1
    have htk : (s.get (k + 2)).tk = t := seg_tk hseg.2.1
    have hty2 : (s.get (k + 2)).type = t.type := seg_type hseg.2.1
    have ih := params_loop q rest (acc ++ [some (.ident t)]) (k + 2) j (fun y hy => hall y (List.mem_cons_of_mem _ hy)) hseg.2.2 (by omega)
    refine ⟨Ev.step 0 1 (fun F _ ha f hf => ?_) ih.1, ?_⟩
    · rw [parseFunctionParametersLoop_step (by simpa using hcomma),
        advance_stAt, advance_stAt, stAt_cur, htk, ha f hf, List.append_assoc]
      rfl
    · rw [ih.2, lastDotDot, hty2]; rfl

/-- the parameter lists `parseFunctionParameters` accepts (`okParamList`): identifiers, the last one may be `..` -/
theorem paramsOK_elim {variadic : Bool} {params : NList} (h : paramsOK variadic params = true) :
    (∀ x ∈ params, isParam x = true) ∧ ∃ t, okParamList params = some (t, true) ∧ t.isSome = variadic := by
  simp only [paramsOK, lambdaParamsOK, Bool.and_eq_true, List.all_eq_true] at h
  refine ⟨h.1, ?_⟩
  have h2 := h.2
  cases hk : okParamList params with
  | none => rw [hk] at h2; cases h2
  | some r =>
    obtain ⟨t, b⟩ := r
    rw [hk] at h2
    cases b with
    | false => cases h2
    | true => exact ⟨t, rfl, by simpa using h2⟩

/-- `parseFunctionParameters` from the `(` at `k` to the `)` at `j` -/
theorem params_parse (q : Nat) (params : NList) (variadic : Bool) (k j : Nat) (hok : paramsOK variadic params = true)
    (hseg : Seg s (k + 1) (listToks c ap q false params ++ [rparen])) (hj : j = k + 1 + (listToks c ap q false params).length) :
    Ev (fun f => parseFunctionParameters s f (stAt s k) = .ok ((params, variadic), stAt s j)) := by
  obtain ⟨hall, tk, hk, hv⟩ := paramsOK_elim hok
  cases params with
  | nil =>
    simp only [listToks, List.nil_append, Seg_cons, Seg_nil, and_true, List.length_nil, Nat.add_zero] at hseg hj
    subst hj
    have hty : (s.get (k + 1)).type = .RPAREN := seg_type hseg
    simp only [okParamList, Option.some.injEq, Prod.mk.injEq, and_true] at hk
    subst hk
    refine ⟨0, fun f _ => ?_⟩
    show parseFunctionParameters s f (stAt s k) = _
    rw [parseFunctionParameters_empty (by simp only [stAt_peek]; exact hty), advance_stAt, ← hv]
    rfl
  | cons x rest =>
    obtain ⟨t, rfl, ht⟩ := isParam_elim (hall _ (List.mem_cons_self ..))
    simp only [listToks, Bool.false_eq_true, if_false, exprToksO, exprToks, Bool.false_and, List.nil_append, List.cons_append,
      List.append_assoc, Seg_cons, List.length_cons, List.length_append, List.length_nil] at hseg hj
    have htk : (s.get (k + 1)).tk = t := seg_tk hseg.1
    have hty : (s.get (k + 1)).type = t.type := seg_type hseg.1
    obtain ⟨j', rfl⟩ : ∃ j', j = j' + 1 := ⟨j - 1, by omega⟩
    have ih := params_loop (s := s) (c := c) (ap := ap) q rest [some (.ident t)] (k + 1) j' (fun y hy => hall y (List.mem_cons_of_mem _ hy)) hseg.2
      (by omega)
    have hclose : (s.get (j' + 1)).type = .RPAREN := by
      have := hseg.2; rw [Seg_append, Seg_cons] at this
      have h2 := seg_type this.2.1
      rwa [show k + 1 + 1 + (listToks c ap q true rest).length = j' + 1 by omega] at h2
    refine Ev.step 0 0 (fun F _ ha f hf => ?_) ih.1
    show parseFunctionParameters s f (stAt s k) = _
    rw [parseFunctionParameters_ok (st1 := stAt s j') (ids := [some (.ident t)] ++ rest) (t := tk)
      (by simp only [stAt_peek, hty]; rcases ht with h | h <;> rw [h] <;> decide)
      (by simp only [stAt_peek, htk, advance_stAt]; exact ha f hf) (by simp only [stAt_peek]; exact hclose) hk, advance_stAt, hv]
    rfl

theorem stop_lbrace {q j : Nat} (h : key (s.get j) = key lbrace) (hq : 1 ≤ q) : Stop q (s.get j) := by
  have := seg_type h
  simp only [lbrace, sym] at this
  exact Stop_of_type (by rw [this]; decide) (by rw [this]; decide) (by rw [this]; decide) (by rw [this]; exact ⟨hq, by decide⟩)

theorem gp_func {t : Tk} {name : Option Tk} {params l : NList} {variadic : Bool} (ht : t.type = .FUNC)
    (hname : ∀ nm, name = some nm → nm.type = .IDENT) (hpar : paramsOK variadic params = true)
    (hfl : fragS c ap true true l = true) (hpl : SPL s c ap l) : GP s c ap (.func t name params (some l) variadic false) := by
  intro ws q P i j res hc hseg hj hstop
  simp only [exprToks, Bool.false_eq_true, if_false, blockToks, List.cons_append, List.append_assoc, List.length_cons,
    List.length_append, List.length_nil] at hseg hj
  rw [Seg_cons] at hseg
  have hty : (s.get i).type = .FUNC := by rw [seg_type hseg.1]; exact ht
  cases name with
  | none =>
    simp only [List.nil_append, List.length_nil, Seg_cons] at hseg hj
    have hlp : (s.get (i + 1)).type = .LPAREN := seg_type hseg.2.1
    obtain ⟨kr, hkr⟩ : ∃ kr, kr = i + 1 + 1 + (listToks c ap q false params).length := ⟨_, rfl⟩
    have hseg2 := hseg.2.2
    rw [show listToks c ap q false params ++ rparen :: lbrace :: (stmtsToks c ap true true l ++ [rbrace])
        = (listToks c ap q false params ++ [rparen]) ++ (lbrace :: stmtsToks c ap true true l ++ [rbrace]) by simp, Seg_append] at hseg2
    simp only [List.length_append, List.length_cons, List.length_nil] at hseg2
    have hp1 := params_parse q params variadic (i + 1) kr hpar hseg2.1 (by omega)
    have hsegb : Seg s (kr + 1) (lbrace :: stmtsToks c ap true true l ++ [rbrace]) := by
      have := hseg2.2; rwa [show i + 1 + 1 + ((listToks c ap q false params).length + (0 + 1)) = kr + 1 by omega] at this
    have hlb : (s.get (kr + 1)).type = .LBRACE := by
      rw [List.cons_append, Seg_cons] at hsegb; exact seg_type hsegb.1
    have hb := block_parse l (kr + 1) hfl hpl hsegb
    have hjj : kr + 1 + 1 + (stmtsToks c ap true true l).length = j := by omega
    rw [hjj] at hb
    refine Ev.step2 0 3 (fun F _ ha hb' f hf' => ?_) (hp1.and hb)
    rw [pE_step (s := s) (st := stAt s i) (fn := .parseFunctionLiteral) (l := some (.func t none params (some l) variadic false))
      (st1 := stAt s j) (by simp only [stAt_cur, hty]; decide) (by simp only [stAt_cur, hty]; decide) ?_ (by simpa using hstop.1)]
    · exact hb' _ (by omega)
    · rw [pd_func, parseFunctionLiteral_anon (st1 := stAt s kr) (st2 := stAt s j) (params := params) (variadic := variadic) (body := some l)
        (by simp only [stAt_peek]; exact hlp) (by simp only [advance_stAt]; exact (ha f hf').1) (by simp only [stAt_peek]; exact hlb)
        (by simp only [advance_stAt]; exact (ha f hf').2) rfl, stAt_cur, seg_tk hseg.1]
  | some nm =>
    simp only [List.cons_append, List.nil_append, List.length_cons, List.length_nil, Seg_cons] at hseg hj
    have hnm : (s.get (i + 1)).type = .IDENT := by rw [seg_type hseg.2.1]; exact hname nm rfl
    have hlp : (s.get (i + 1 + 1)).type = .LPAREN := seg_type hseg.2.2.1
    obtain ⟨kr, hkr⟩ : ∃ kr, kr = i + 1 + 1 + 1 + (listToks c ap q false params).length := ⟨_, rfl⟩
    have hseg2 := hseg.2.2.2
    rw [show listToks c ap q false params ++ rparen :: lbrace :: (stmtsToks c ap true true l ++ [rbrace])
        = (listToks c ap q false params ++ [rparen]) ++ (lbrace :: stmtsToks c ap true true l ++ [rbrace]) by simp, Seg_append] at hseg2
    simp only [List.length_append, List.length_cons, List.length_nil] at hseg2
    have hp1 := params_parse q params variadic (i + 1 + 1) kr hpar hseg2.1 (by omega)
    have hsegb : Seg s (kr + 1) (lbrace :: stmtsToks c ap true true l ++ [rbrace]) := by
      have := hseg2.2; rwa [show i + 1 + 1 + 1 + ((listToks c ap q false params).length + (0 + 1)) = kr + 1 by omega] at this
    have hlb : (s.get (kr + 1)).type = .LBRACE := by
      rw [List.cons_append, Seg_cons] at hsegb; exact seg_type hsegb.1
    have hb := block_parse l (kr + 1) hfl hpl hsegb
    have hjj : kr + 1 + 1 + (stmtsToks c ap true true l).length = j := by omega
    rw [hjj] at hb
    refine Ev.step2 0 3 (fun F _ ha hb' f hf' => ?_) (hp1.and hb)
    rw [pE_step (s := s) (st := stAt s i) (fn := .parseFunctionLiteral) (l := some (.func t (some nm) params (some l) variadic false))
      (st1 := stAt s j) (by simp only [stAt_cur, hty]; decide) (by simp only [stAt_cur, hty]; decide) ?_ (by simpa using hstop.1)]
    · exact hb' _ (by omega)
    · rw [pd_func, parseFunctionLiteral_named (st1 := stAt s kr) (st2 := stAt s j) (params := params) (variadic := variadic) (body := some l)
        (by simp only [stAt_peek]; exact hnm) (by simp only [advance_stAt, stAt_peek]; exact hlp)
        (by simp only [advance_stAt]; exact (ha f hf').1) (by simp only [stAt_peek]; exact hlb)
        (by simp only [advance_stAt]; exact (ha f hf').2) rfl, stAt_cur, stAt_peek, seg_tk hseg.1, seg_tk hseg.2.1]

theorem paramsOK_of_macro {params : NList} (h : macroParamsOK params = true) : ∃ v, paramsOK v params = true := by
  simp only [macroParamsOK, Bool.and_eq_true] at h
  cases hk : okParamList params with
  | none => rw [hk] at h; exact absurd h.2 (by simp)
  | some r =>
    obtain ⟨t, b⟩ := r
    rw [hk] at h
    cases b with
    | false => exact absurd h.2 (by simp)
    | true => exact ⟨t.isSome, by simp [paramsOK, lambdaParamsOK, h.1, hk]⟩

theorem gp_macro {t : Tk} {params l : NList} (ht : t.type = .MACRO) (hpar : macroParamsOK params = true)
    (hfl : fragS c ap true true l = true) (hpl : SPL s c ap l) : GP s c ap (.macroLit t params (some l)) := by
  intro ws q P i j res hc hseg hj hstop
  simp only [exprToks, blockToks, List.cons_append, List.append_assoc, List.length_cons, List.length_append, List.length_nil] at hseg hj
  rw [Seg_cons, Seg_cons] at hseg
  have hty : (s.get i).type = .MACRO := by rw [seg_type hseg.1]; exact ht
  have hlp : (s.get (i + 1)).type = .LPAREN := seg_type hseg.2.1
  obtain ⟨kr, hkr⟩ : ∃ kr, kr = i + 1 + 1 + (listToks c ap q false params).length := ⟨_, rfl⟩
  have hseg2 := hseg.2.2
  rw [show listToks c ap q false params ++ rparen :: lbrace :: (stmtsToks c ap true true l ++ [rbrace])
      = (listToks c ap q false params ++ [rparen]) ++ (lbrace :: stmtsToks c ap true true l ++ [rbrace]) by simp, Seg_append] at hseg2
  simp only [List.length_append, List.length_cons, List.length_nil] at hseg2
  obtain ⟨vv, hvv⟩ := paramsOK_of_macro hpar
  have hp1 := params_parse q params vv (i + 1) kr hvv hseg2.1 (by omega)
  have hsegb : Seg s (kr + 1) (lbrace :: stmtsToks c ap true true l ++ [rbrace]) := by
    have := hseg2.2; rwa [show i + 1 + 1 + ((listToks c ap q false params).length + (0 + 1)) = kr + 1 by omega] at this
  have hlb : (s.get (kr + 1)).type = .LBRACE := by
    rw [List.cons_append, Seg_cons] at hsegb; exact seg_type hsegb.1
  have hb := block_parse l (kr + 1) hfl hpl hsegb
  have hjj : kr + 1 + 1 + (stmtsToks c ap true true l).length = j := by omega
  rw [hjj] at hb
  refine Ev.step2 0 3 (fun F _ ha hb' f hf' => ?_) (hp1.and hb)
  rw [pE_step (s := s) (st := stAt s i) (fn := .parseMacroLiteral) (l := some (.macroLit t params (some l)))
    (st1 := stAt s j) (by simp only [stAt_cur, hty]; decide) (by simp only [stAt_cur, hty]; decide) ?_ (by simpa using hstop.1)]
  · exact hb' _ (by omega)
  · rw [pd_macro, parseMacroLiteral_ok (st1 := stAt s kr) (st2 := stAt s j) (params := params) (body := some l)
      (by simp only [stAt_peek]; exact hlp) (by simp only [advance_stAt]; exact (ha f hf').1) (by simp only [stAt_peek]; exact hlb)
      (by simp only [advance_stAt]; exact (ha f hf').2) rfl, stAt_cur, seg_tk hseg.1]

/-! ### map literals -/

def colonTk : Tk := ⟨.COLON, [58]⟩

/-- the key/value pairs of a map literal: nodes of the fragment with the round-trip property -/
def MPL (s : TokStream) (c ap : Bool) : NList → Prop
  | [] => True
  | some k :: some v :: rest => fragN c ap k = true ∧ fragN c ap v = true ∧ GP s c ap k ∧ GP s c ap v ∧ MPL s c ap rest
  | _ => False

/-- what remains of the pairs after the `{` or a `,`; `w`: whitespace in front of the first key -/
def pairsRem (c ap : Bool) : Bool → NList → List Tok
  | w, k :: v :: rest =>
    exprToksO c ap 4 w k ++ tk colonTk false :: exprToksO c ap 5 false v ++
      (if rest.isEmpty then [] else comma :: pairsRem c ap (!c) rest)
  | _, _ => []

theorem pairsToks_true : ∀ (kvs : NList), MPL s c ap kvs →
    pairsToks c ap true kvs = (if kvs.isEmpty then [] else comma :: pairsRem c ap (!c) kvs) ∧
    pairsToks c ap false kvs = pairsRem c ap false kvs
  | [], _ => ⟨rfl, rfl⟩
  | [_], h => by cases ‹Option Node› <;> exact absurd h (by simp [MPL])
  | some k :: some v :: rest, h => by
    have ih := pairsToks_true rest h.2.2.2.2
    have e4 : precOf TokType.COLON = 4 := by decide
    constructor
    · simp only [pairsToks, pairsRem, ih.1, if_true, Bool.true_and, List.isEmpty_cons, Bool.false_eq_true, if_false, e4, List.cons_append,
        List.nil_append]
      rfl
    · simp only [pairsToks, pairsRem, ih.1, Bool.false_eq_true, if_false, Bool.false_and, e4, List.nil_append]
      rfl
  | none :: _ :: _, h => absurd h (by simp [MPL])
  | some _ :: none :: _, h => absurd h (by simp [MPL])

/-- one `key: value` pair, parsed as the binary expression `key : value` -/
theorem map_pair {k v : Node} (hk : GP s c ap k) (hv : GP s c ap v) (hfk : fragN c ap k = true) (hfv : fragN c ap v = true)
    (w : Bool) (i j : Nat)
    (hseg : Seg s i (exprToks c ap 4 w k ++ tk colonTk false :: exprToks c ap 5 false v))
    (hj : j + 1 = i + (exprToks c ap 4 w k).length + 1 + (exprToks c ap 5 false v).length)
    (hstop : Stop prioLOWEST (s.get (j + 1))) :
    Ev (fun f => parseExpression s f prioLOWEST (stAt s i) = .ok (some (.infix colonTk (some k) (some v)), stAt s j)) :=
  infix_body (t := colonTk) hk hv hfk hfv (by decide) w false false prioLOWEST prioLOWEST i j _ (by decide) (Compat_low (Nat.le_refl _))
    hseg hj hstop (ev_loop_stop hstop)

theorem stop_comma_rbrace {j : Nat} (h : (s.get j).type = .COMMA ∨ (s.get j).type = .RBRACE) : Stop prioLOWEST (s.get j) := by
  rcases h with h | h <;>
    exact Stop_of_type (by rw [h]; decide) (by rw [h]; decide) (by rw [h]; decide) (by rw [h]; decide)

/-- the loop of `parseMapLiteral`, from the `{` or `,` at `k` -/
theorem map_loop (tok : Tk) : ∀ (kvs acc : NList) (w : Bool) (k : Nat), MPL s c ap kvs →
    Seg s (k + 1) (pairsRem c ap w kvs ++ [rbrace]) →
    Ev (fun f => parseMapLoop s f tok acc (stAt s k) =
      .ok (some (.mapLit tok (acc ++ kvs)), stAt s (k + 1 + (pairsRem c ap w kvs).length)))
  | [], acc, w, k, _, hseg => by
    simp only [pairsRem, List.nil_append, Seg_cons, Seg_nil, and_true, List.length_nil, Nat.add_zero, List.append_nil] at hseg ⊢
    have hty : (s.get (k + 1)).type = .RBRACE := seg_type hseg
    refine ⟨1, fun f hf => ?_⟩
    obtain ⟨g, rfl⟩ : ∃ g, f = g + 1 := ⟨f - 1, by omega⟩
    rw [parseMapLoop_close (by simp only [stAt_peek]; exact hty), advance_stAt]
  | [_], _, _, _, h, _ => by cases ‹Option Node› <;> exact absurd h (by simp [MPL])
  | none :: _ :: _, _, _, _, h, _ => absurd h (by simp [MPL])
  | some _ :: none :: _, _, _, _, h, _ => absurd h (by simp [MPL])
  | some kn :: some vn :: rest, acc, w, k, h, hseg => by
    obtain ⟨hfk, hfv, hk, hv, hrest⟩ := h
    simp only [pairsRem, exprToksO, List.append_assoc, List.cons_append, List.length_append, List.length_cons] at hseg ⊢
    have hK := (head_node kn hfk 4 w).length_pos
    have hV := (head_node vn hfv 5 false).length_pos
    have hstartK : startTy (s.get (k + 1)).type = true := by
      rw [Seg_append] at hseg; exact (head_node kn hfk 4 w).seg_start hseg.1
    obtain ⟨jv, hjv⟩ : ∃ jv, jv + 1 = k + 1 + (exprToks c ap 4 w kn).length + 1 + (exprToks c ap 5 false vn).length :=
      ⟨k + (exprToks c ap 4 w kn).length + 1 + (exprToks c ap 5 false vn).length, by omega⟩
    have hsplit : Seg s (k + 1) ((exprToks c ap 4 w kn ++ tk colonTk false :: exprToks c ap 5 false vn) ++
        ((if rest.isEmpty then [] else comma :: pairsRem c ap (!c) rest) ++ [rbrace])) := by simpa using hseg
    rw [Seg_append] at hsplit
    simp only [List.length_append, List.length_cons] at hsplit
    have hnext : Seg s (jv + 1) ((if rest.isEmpty then [] else comma :: pairsRem c ap (!c) rest) ++ [rbrace]) := by
      have := hsplit.2
      rwa [show k + 1 + ((exprToks c ap 4 w kn).length + ((exprToks c ap 5 false vn).length + 1)) = jv + 1 by omega] at this
    cases rest with
    | nil =>
      simp only [List.isEmpty_nil, if_true, List.nil_append, Seg_cons, Seg_nil, and_true, List.length_nil, Nat.add_zero] at hnext ⊢
      have hrb : (s.get (jv + 1)).type = .RBRACE := seg_type hnext
      have hp := map_pair hk hv hfk hfv w (k + 1) jv hsplit.1 (by omega) (stop_comma_rbrace (Or.inr hrb))
      refine Ev.step 1 2 (fun F hF1 ha f hf => ?_) hp
      rw [parseMapLoop_last (st1 := stAt s jv) (t := colonTk) (k := kn) (v := some vn)
        (by simp only [stAt_peek]; exact (startTy_facts _ hstartK).2.2.2.2.2.2.2.2) rfl
        (by simp only [advance_stAt]; exact ha (f + 1) (by omega)) rfl (by simp only [stAt_peek]; exact hrb)]
      obtain ⟨g, rfl⟩ : ∃ g, f = g + 1 := ⟨f - 1, by omega⟩
      rw [parseMapLoop_close (by simp only [stAt_peek]; exact hrb), advance_stAt]
      have : jv + 1 = k + 1 + ((exprToks c ap 4 w kn).length + ((exprToks c ap 5 false vn).length + 1 + 0)) := by omega
      rw [this]
    | cons x xs =>
      simp only [List.isEmpty_cons, Bool.false_eq_true, if_false, List.cons_append, Seg_cons] at hnext
      have hcm : (s.get (jv + 1)).type = .COMMA := seg_type hnext.1
      have hp := map_pair hk hv hfk hfv w (k + 1) jv hsplit.1 (by omega) (stop_comma_rbrace (Or.inl hcm))
      have ih := map_loop tok (x :: xs) (acc ++ [some kn, some vn]) (!c) (jv + 1) hrest hnext.2
      refine Ev.step2 0 1 (fun F _ ha hb f hf => ?_) hp ih
      rw [parseMapLoop_comma (st1 := stAt s jv) (t := colonTk) (k := kn) (v := some vn)
        (by simp only [stAt_peek]; exact (startTy_facts _ hstartK).2.2.2.2.2.2.2.2) rfl
        (by simp only [advance_stAt]; exact ha f hf) rfl (by simp only [stAt_peek]; exact hcm), advance_stAt, hb f hf]
      simp only [List.isEmpty_cons, Bool.false_eq_true, if_false, List.length_cons, List.append_assoc, List.cons_append, List.nil_append]
      refine congrArg (fun n => Res.ok (some (Node.mapLit tok (acc ++ some kn :: some vn :: x :: xs)), stAt s n)) ?_
      omega

theorem gp_map {kvs : NList} (h : MPL s c ap kvs) : GP s c ap (.mapLit ⟨.LBRACE, [123]⟩ kvs) := by
  intro ws q P i j res hc hseg hj hstop
  simp only [exprToks, (pairsToks_true kvs h).2, List.cons_append, List.length_cons, List.length_append, List.length_nil] at hseg hj
  rw [Seg_cons] at hseg
  have hty : (s.get i).type = .LBRACE := seg_type hseg.1
  have h1 := map_loop ⟨.LBRACE, [123]⟩ kvs [] false i h hseg.2
  have hjj : i + 1 + (pairsRem c ap false kvs).length = j := by omega
  rw [hjj] at h1
  refine Ev.step2 0 3 (fun F _ ha hb f hf => ?_) h1
  rw [pE_step (s := s) (st := stAt s i) (fn := .parseMapLiteral) (l := some (.mapLit ⟨.LBRACE, [123]⟩ kvs)) (st1 := stAt s j)
    (by simp only [stAt_cur, hty]; decide) (by simp only [stAt_cur, hty]; decide) ?_ (by simpa using hstop.1)]
  · exact hb _ (by omega)
  · rw [pd_map, parseMapLiteral_eq, stAt_cur, key_tk hseg.1]
    exact ha f hf

/-! ### lambdas -/

def lamTk : Tk := ⟨.LAMBDA, [61, 62]⟩

theorem lambdaParamsOK_elim {variadic : Bool} {params : NList} (h : lambdaParamsOK variadic params = true) :
    (∀ x ∈ params, isParam x = true) ∧ ∃ t, okParamList params = some (t, true) ∧ t.isSome = variadic := by
  simp only [lambdaParamsOK, Bool.and_eq_true, List.all_eq_true] at h
  refine ⟨h.1, ?_⟩
  have h2 := h.2
  cases hk : okParamList params with
  | none => rw [hk] at h2; cases h2
  | some r =>
    obtain ⟨t, b⟩ := r
    rw [hk] at h2
    cases b with
    | false => cases h2
    | true => exact ⟨t, rfl, by simpa using h2⟩

/-- the `=> { … }` part: `parseLambdaMulti` from the `=>` at `kl` -/
theorem lambda_tail_some {p : Node} {more l : NList} {t : Option Tk} (hok : okParamList (some p :: more) = some (t, true))
    (hfl : fragS c ap true true l = true) (hpl : SPL s c ap l) (kl : Nat)
    (hseg : Seg s kl (sym .LAMBDA [61, 62] (!c) :: (lbrace :: stmtsToks c ap true true l ++ [rbrace]))) :
    Ev (fun f => parseLambdaMulti s f (some p) more (stAt s kl) =
      .ok (some (.func lamTk none (some p :: more) (some l) t.isSome true), stAt s (kl + 1 + 1 + (stmtsToks c ap true true l).length))) := by
  rw [Seg_cons] at hseg
  have hb := block_parse l (kl + 1) hfl hpl hseg.2
  have hlb : (s.get (kl + 1)).type = .LBRACE := by have := hseg.2; rw [List.cons_append, Seg_cons] at this; exact seg_type this.1
  refine Ev.step 0 1 (fun F _ ha f hf => ?_) hb
  rw [parseLambdaMulti_some (st2 := stAt s (kl + 1 + 1 + (stmtsToks c ap true true l).length)) (body := some l) hok
    (by simp only [stAt_peek]; exact hlb) (by simp only [advance_stAt]; exact ha f hf) rfl, stAt_cur, key_tk hseg.1]
  rfl

theorem lambda_tail_none {l : NList} (hfl : fragS c ap true true l = true) (hpl : SPL s c ap l) (kl : Nat)
    (hseg : Seg s kl (sym .LAMBDA [61, 62] (!c) :: (lbrace :: stmtsToks c ap true true l ++ [rbrace]))) :
    Ev (fun f => parseLambdaMulti s f none [] (stAt s kl) =
      .ok (some (.func lamTk none [] (some l) false true), stAt s (kl + 1 + 1 + (stmtsToks c ap true true l).length))) := by
  rw [Seg_cons] at hseg
  have hb := block_parse l (kl + 1) hfl hpl hseg.2
  have hlb : (s.get (kl + 1)).type = .LBRACE := by have := hseg.2; rw [List.cons_append, Seg_cons] at this; exact seg_type this.1
  refine Ev.step 0 1 (fun F _ ha f hf => ?_) hb
  rw [parseLambdaMulti_none (st2 := stAt s (kl + 1 + 1 + (stmtsToks c ap true true l).length)) (body := some l) (t := none) rfl
    (by simp only [stAt_peek]; exact hlb) (by simp only [advance_stAt]; exact ha f hf) rfl, stAt_cur, key_tk hseg.1]
  rfl

/-- `x => { … }` without outer parentheses, at a level up to LAMBDA -/
theorem lambda1 {x : Tk} {l : NList} {t : Option Tk} (hx : x.type = .IDENT ∨ x.type = .DOTDOT)
    (hok : okParamList [some (.ident x)] = some (t, true))
    (hfl : fragS c ap true true l = true) (hpl : SPL s c ap l) (P i j : Nat) (res : ONode × PState) (hP : P ≤ 5)
    (hseg : Seg s i (tk x false :: sym .LAMBDA [61, 62] (!c) :: (lbrace :: stmtsToks c ap true true l ++ [rbrace])))
    (hj : j = i + 1 + 1 + 1 + (stmtsToks c ap true true l).length) (hstop : Stop 5 (s.get (j + 1))) :
    Ev (fun f => parseExpressionLoop s f P (some (.func lamTk none [some (.ident x)] (some l) t.isSome true)) (stAt s j) = .ok res) →
    Ev (fun f => parseExpression s f P (stAt s i) = .ok res) := by
  rw [Seg_cons] at hseg
  have hty : (s.get i).type = x.type := seg_type hseg.1
  have hlam : (s.get (i + 1)).type = .LAMBDA := by have := hseg.2; rw [Seg_cons] at this; exact seg_type this.1
  have htail := lambda_tail_some (p := .ident x) (more := []) hok hfl hpl (i + 1) hseg.2
  rw [show i + 1 + 1 + 1 + (stmtsToks c ap true true l).length = j by omega] at htail
  have hpre : ∀ g, prefixDispatch s (g + 1) .parseIdentifier (stAt s i) = .ok (some (.ident x), stAt s i) := fun g => by
    rw [pd_ident, parseIdentifier_ok (by simp only [stAt_peek, hlam]; decide), stAt_cur, seg_tk hseg.1]
  have hne : (s.get i).type ≠ .EOL := by rw [hty]; rcases hx with h | h <;> rw [h] <;> decide
  have hreg : lookup prefixRegs (s.get i).type = some .parseIdentifier := by rw [hty]; rcases hx with h | h <;> rw [h] <;> decide
  intro hres
  by_cases h5 : P = 5
  · subst h5
    -- the lambda is built directly; the loop at level LAMBDA then stops
    obtain ⟨F2, hF2⟩ := hres
    have hr : res = (some (.func lamTk none [some (.ident x)] (some l) t.isSome true), stAt s j) := by
      have := hF2 (F2 + 1) (by omega)
      simp only [] at this
      rw [loop_stop_of_Stop (by simp only [stAt_peek]; exact hstop)] at this
      exact (Res.ok.inj this).symm
    subst hr
    refine Ev.step 0 2 (fun F _ ha f hf => ?_) htail
    rw [show (5 : Nat) = prioLAMBDA from rfl, pE_lambda5 (s := s) (st := stAt s i) (fn := .parseIdentifier) (st1 := stAt s i)
      (by simp only [stAt_cur]; exact hne) (by simp only [stAt_cur]; exact hreg) (hpre f) (by simp only [stAt_peek]; exact hlam),
      advance_stAt]
    exact ha (f + 1) (by omega)
  · refine Ev.step2 0 4 (fun F _ ha hb f hf => ?_) htail hres
    rw [pE_step' (s := s) (st := stAt s i) (fn := .parseIdentifier) (st1 := stAt s i)
      (by simp only [stAt_cur]; exact hne) (by simp only [stAt_cur]; exact hreg) (hpre (f + 2)) (fun h => h5 h.2),
      loop_step (s := s) (st := stAt s i) (fn := .parseLambdaExpression) (st1 := stAt s j)
        (l' := some (.func lamTk none [some (.ident x)] (some l) t.isSome true))
        (by simp only [stAt_peek, hlam]; decide) (by simp only [stAt_peek, hlam]; show P < 5; omega)
        (by simp only [stAt_peek, hlam]; decide) (by simp only [stAt_peek, hlam]; simp) (by simp only [stAt_peek, hlam]; simp) ?_]
    · exact hb _ (by omega)
    · rw [id_lambda, advance_stAt]; exact ha (f + 1) (by omega)

/-- `() => { … }`, at any level -/
theorem lambda0 {l : NList} (hfl : fragS c ap true true l = true) (hpl : SPL s c ap l) (w : Bool) (P i j : Nat) (res : ONode × PState)
    (hseg : Seg s i (lparen w :: rparen :: sym .LAMBDA [61, 62] (!c) :: (lbrace :: stmtsToks c ap true true l ++ [rbrace])))
    (hj : j = i + 1 + 1 + 1 + 1 + (stmtsToks c ap true true l).length) (hfollow : (s.get (j + 1)).type ≠ .LAMBDA) :
    Ev (fun f => parseExpressionLoop s f P (some (.func lamTk none [] (some l) false true)) (stAt s j) = .ok res) →
    Ev (fun f => parseExpression s f P (stAt s i) = .ok res) := by
  rw [Seg_cons, Seg_cons] at hseg
  have hlp : (s.get i).type = .LPAREN := seg_type hseg.1
  have hrp : (s.get (i + 1)).type = .RPAREN := seg_type hseg.2.1
  have hlam : (s.get (i + 1 + 1)).type = .LAMBDA := by have := hseg.2.2; rw [Seg_cons] at this; exact seg_type this.1
  have htail := lambda_tail_none hfl hpl (i + 1 + 1) hseg.2.2
  rw [show i + 1 + 1 + 1 + 1 + (stmtsToks c ap true true l).length = j by omega] at htail
  refine Ev.step2 0 4 (fun F _ ha hb f hf => ?_) htail
  rw [pE_step (s := s) (st := stAt s i) (fn := .parseGroupedExpression) (st1 := stAt s j)
    (l := some (.func lamTk none [] (some l) false true))
    (by simp only [stAt_cur, hlp]; decide) (by simp only [stAt_cur, hlp]; decide) ?_ (by simp only [stAt_peek]; exact hfollow)]
  · exact hb _ (by omega)
  · rw [pd_grp, parseGroupedExpression_lambda0 (st1 := stAt s (i + 1)) (e := none)
      (by rw [advance_stAt, pE_empty_parens (by simp only [stAt_cur, hrp]; decide) (by simp only [stAt_cur, hrp]; decide)
            (by simp only [stAt_peek]; exact hlam)])
      (by simp only [stAt_peek]; exact hlam), advance_stAt]
    exact ha (f + 1) (by omega)

theorem key_tk_ws {t : Tk} (w w' : Bool) (h1 : t.type ≠ .LPAREN) (h2 : t.type ≠ .LBRACKET) : key (tk t w) = key (tk t w') := by
  have e1 : (t.type == TokType.LPAREN) = false := by simpa using h1
  have e2 : (t.type == TokType.LBRACKET) = false := by simpa using h2
  simp [key, tk, e1, e2]

theorem gpl_params {more : NList} (h : ∀ x ∈ more, isParam x = true) : GPL s c ap more := by
  intro x hx
  obtain ⟨t, rfl, ht⟩ := isParam_elim (h x hx)
  exact ⟨.ident t, rfl, by simp only [fragN, Bool.or_eq_true, beq_iff_eq]; exact ht, (gpa_ident t ht).gp⟩

/-- `(p1, p2, …) => { … }`, at any level -/
theorem lambdaN {p1 : Tk} {m1 : ONode} {more l : NList} {t : Option Tk} (q : Nat) (hq : 1 ≤ q)
    (hp1 : p1.type = .IDENT ∨ p1.type = .DOTDOT) (hmore : ∀ x ∈ m1 :: more, isParam x = true)
    (hok : okParamList (some (.ident p1) :: m1 :: more) = some (t, true))
    (hfl : fragS c ap true true l = true) (hpl : SPL s c ap l) (w : Bool) (P i j : Nat) (res : ONode × PState)
    (hseg : Seg s i (lparen w :: (listToks c ap q false (some (.ident p1) :: m1 :: more) ++ [rparen]) ++
      sym .LAMBDA [61, 62] (!c) :: (lbrace :: stmtsToks c ap true true l ++ [rbrace])))
    (hj : j = i + 1 + (listToks c ap q false (some (.ident p1) :: m1 :: more)).length + 1 + 1 + 1 + (stmtsToks c ap true true l).length)
    (hfollow : (s.get (j + 1)).type ≠ .LAMBDA) :
    Ev (fun f => parseExpressionLoop s f P (some (.func lamTk none (some (.ident p1) :: m1 :: more) (some l) t.isSome true)) (stAt s j) = .ok res) →
    Ev (fun f => parseExpression s f P (stAt s i) = .ok res) := by
  obtain ⟨t2, rfl, ht2⟩ := isParam_elim (hmore m1 (List.mem_cons_self ..))
  simp only [listToks, Bool.false_eq_true, if_false, if_true, exprToksO, exprToks, Bool.false_and, Bool.true_and, List.nil_append,
    List.cons_append, List.append_assoc, List.length_cons, List.length_append, List.length_nil] at hseg hj
  rw [Seg_cons, Seg_cons, Seg_cons, Seg_cons] at hseg
  have hlp : (s.get i).type = .LPAREN := seg_type hseg.1
  have hid : (s.get (i + 1)).type = p1.type := seg_type hseg.2.1
  have hcm : (s.get (i + 1 + 1)).type = .COMMA := seg_type hseg.2.2.1
  -- the parameters after the first comma, as an expression list
  have hlist : Seg s (i + 1 + 1 + 1) ((listToks c ap q false (some (.ident t2) :: more) ++ [rparen]) ++
      (sym .LAMBDA [61, 62] (!c) :: (lbrace :: stmtsToks c ap true true l ++ [rbrace]))) := by
    simp only [listToks, Bool.false_eq_true, if_false, exprToksO, exprToks, Bool.false_and, List.nil_append, List.cons_append, List.append_assoc]
    rw [Seg_cons]
    refine ⟨?_, hseg.2.2.2.2⟩
    rw [hseg.2.2.2.1]
    exact key_tk_ws _ _ (by rcases ht2 with h | h <;> rw [h] <;> decide) (by rcases ht2 with h | h <;> rw [h] <;> decide)
  rw [Seg_append] at hlist
  obtain ⟨kr, hkr⟩ : ∃ kr, kr = i + 1 + 1 + 1 + (listToks c ap q false (some (.ident t2) :: more)).length := ⟨_, rfl⟩
  have hl2 := list_parse c ap q hq rparen (Or.inl rfl) (some (.ident t2) :: more) (i + 1 + 1) kr (gpl_params hmore) hlist.1 (by omega)
  have htl : Seg s (kr + 1) (sym .LAMBDA [61, 62] (!c) :: (lbrace :: stmtsToks c ap true true l ++ [rbrace])) := by
    have := hlist.2
    simp only [List.length_append, List.length_cons, List.length_nil] at this
    rwa [show i + 1 + 1 + 1 + ((listToks c ap q false (some (.ident t2) :: more)).length + (0 + 1)) = kr + 1 by omega] at this
  have hlam : (s.get (kr + 1)).type = .LAMBDA := by rw [Seg_cons] at htl; exact seg_type htl.1
  have htail := lambda_tail_some (p := .ident p1) (more := some (.ident t2) :: more) hok hfl hpl (kr + 1) htl
  have hlen : (listToks c ap q false (some (.ident t2) :: more)).length = 1 + (listToks c ap q true more).length := by
    simp only [listToks, Bool.false_eq_true, if_false, exprToksO, exprToks, Bool.false_and, List.nil_append, List.cons_append, List.length_cons]
    omega
  rw [show kr + 1 + 1 + 1 + (stmtsToks c ap true true l).length = j by omega] at htail
  -- the first parameter, as an expression in front of the comma
  have hfirst : Ev (fun f => parseExpression s f prioLOWEST (stAt s (i + 1)) = .ok (some (.ident p1), stAt s (i + 1))) := by
    have hst : Stop prioLOWEST (s.get (i + 1 + 1)) :=
      Stop_of_type (by rw [hcm]; decide) (by rw [hcm]; decide) (by rw [hcm]; decide) (by rw [hcm]; decide)
    exact gpa_ident p1 hp1 c ap false q prioLOWEST (i + 1) (i + 1) _ (by simp only [exprToks, Seg_cons, Seg_nil, and_true]; exact hseg.2.1)
      (by simp [exprToks]) hst.notCont (ev_loop_stop hst)
  refine Ev.step2 0 4 (fun F _ ha hb f hf => ?_) ((hfirst.and hl2).and htail)
  rw [pE_step (s := s) (st := stAt s i) (fn := .parseGroupedExpression) (st1 := stAt s j)
    (l := some (.func lamTk none (some (.ident p1) :: some (.ident t2) :: more) (some l) t.isSome true))
    (by simp only [stAt_cur, hlp]; decide) (by simp only [stAt_cur, hlp]; decide) ?_ (by simp only [stAt_peek]; exact hfollow)]
  · exact hb _ (by omega)
  · rw [pd_grp, parseGroupedExpression_lambdaN (st1 := stAt s (i + 1)) (st2 := stAt s kr) (e := some (.ident p1))
      (el := some (.ident t2) :: more)
      (by rw [advance_stAt]; exact (ha (f + 1) (by omega)).1.1) (by simp only [stAt_peek]; exact hcm)
      (by rw [advance_stAt]; exact (ha (f + 1) (by omega)).1.2) (by simp only [stAt_peek]; exact hlam), advance_stAt]
    exact (ha (f + 1) (by omega)).2

/-- the parameter list of a lambda as the printer writes it -/
def lamParams (c ap : Bool) (q : Nat) (w : Bool) (params : NList) : List Tok :=
  if params.length == 1 then listToks c ap q false params else lparen w :: listToks c ap q false params ++ [rparen]

/-- a lambda without its outer parentheses -/
theorem lambda_inner {params l : NList} {variadic : Bool} (hpar : lambdaParamsOK variadic params = true)
    (hfl : fragS c ap true true l = true) (hpl : SPL s c ap l) (q : Nat) (hq : 1 ≤ q) (w : Bool) (P i j : Nat) (res : ONode × PState)
    (hP : params.length = 1 → P ≤ 5)
    (hseg : Seg s i (lamParams c ap q w params ++ sym .LAMBDA [61, 62] (!c) :: (lbrace :: stmtsToks c ap true true l ++ [rbrace])))
    (hj : j + 1 = i + (lamParams c ap q w params ++ sym .LAMBDA [61, 62] (!c) :: (lbrace :: stmtsToks c ap true true l ++ [rbrace])).length)
    (hstop : Stop 5 (s.get (j + 1))) :
    Ev (fun f => parseExpressionLoop s f P (some (.func lamTk none params (some l) variadic true)) (stAt s j) = .ok res) →
    Ev (fun f => parseExpression s f P (stAt s i) = .ok res) := by
  obtain ⟨hall, t, hok, hv⟩ := lambdaParamsOK_elim hpar
  subst hv
  match params, hall, hok, hP, hseg, hj with
  | [], _, hok, _, hseg, hj =>
    have : t = none := by simp [okParamList] at hok; exact hok.symm
    subst this
    simp only [lamParams, List.length_nil, listToks, List.nil_append, List.cons_append, List.length_cons, List.length_append] at hseg hj
    exact lambda0 hfl hpl w P i j res (by simpa using hseg) (by simp at hj ⊢; omega) hstop.1
  | [x], hall, hok, hP, hseg, hj =>
    obtain ⟨tx, rfl, htx⟩ := isParam_elim (hall x (List.mem_cons_self ..))
    simp only [lamParams, List.length_cons, List.length_nil, listToks, Bool.false_eq_true, if_false, exprToksO, exprToks, Bool.false_and,
      List.nil_append, List.cons_append, List.append_nil, List.length_append] at hseg hj
    exact lambda1 htx hok hfl hpl P i j res (hP rfl) (by simpa using hseg) (by simp at hj ⊢; omega) hstop
  | x :: m1 :: more, hall, hok, _, hseg, hj =>
    obtain ⟨tx, rfl, htx⟩ := isParam_elim (hall x (List.mem_cons_self ..))
    have hne : ((some (Node.ident tx) :: m1 :: more).length == 1) = false := by simp
    simp only [lamParams, hne, Bool.false_eq_true, if_false] at hseg hj
    refine lambdaN q hq htx (fun y hy => hall y (List.mem_cons_of_mem _ hy)) hok hfl hpl w P i j res (by simpa using hseg) ?_ hstop.1
    simp only [List.length_append, List.length_cons, List.length_nil] at hj ⊢
    omega

theorem lambda_toks (params l : NList) (variadic : Bool) (q : Nat) (ws : Bool) :
    exprToks c ap q ws (.func lamTk none params (some l) variadic true) =
      if prioLAMBDA < q then
        lparen ws :: (lamParams c ap q false params ++ sym .LAMBDA [61, 62] (!c) :: (lbrace :: stmtsToks c ap true true l ++ [rbrace])) ++ [rparen]
      else lamParams c ap q ws params ++ sym .LAMBDA [61, 62] (!c) :: (lbrace :: stmtsToks c ap true true l ++ [rbrace]) := by
  simp only [exprToks, if_true, blockToks, lamParams]
  by_cases ho : prioLAMBDA < q
  · simp [ho]
  · simp [ho]

theorem gp_lambda {params l : NList} {variadic : Bool} (hpar : lambdaParamsOK variadic params = true)
    (hfl : fragS c ap true true l = true) (hpl : SPL s c ap l) : GP s c ap (.func lamTk none params (some l) variadic true) := by
  intro ws q P i j res hc hseg hj hstop
  rw [lambda_toks] at hseg hj
  by_cases ho : prioLAMBDA < q
  · rw [if_pos ho] at hseg hj
    rw [List.cons_append, Seg_cons, Seg_append] at hseg
    simp only [List.length_cons, List.length_append, List.length_nil] at hj
    obtain ⟨j', rfl⟩ : ∃ j', j = j' + 1 := ⟨j - 1, by omega⟩
    have hcl : key (s.get (j' + 1)) = key rparen := by
      have := hseg.2.2; rw [Seg_cons] at this
      have h2 := this.1
      simp only [List.length_append, List.length_cons, List.length_nil] at h2
      rwa [show i + 1 + ((lamParams c ap q false params).length + ((stmtsToks c ap true true l).length + (0 + 1) + 1 + 1)) = j' + 1 by omega] at h2
    refine grp (t := .func lamTk none params (some l) variadic true) (i := i) (j := j') (fun res' => ?_)
      (by have := seg_type hseg.1; simpa [lparen, sym] using this) (by have := seg_type hcl; simpa [rparen, sym] using this) hstop.1
    exact lambda_inner hpar hfl hpl q hc.2.1 false prioLOWEST (i + 1) j' res' (fun _ => by decide) hseg.2.1
      (by simp only [List.length_append, List.length_cons, List.length_nil]; omega) (stop_rparen hcl (by decide))
  · rw [if_neg ho] at hseg hj
    have hq5 : q ≤ 5 := by simp [prioLAMBDA] at ho; omega
    have hP6 : P < 6 := hc.2.2 .EQ (by decide) (by show q ≤ 6; omega)
    exact lambda_inner hpar hfl hpl q hc.2.1 ws P i j res (fun _ => by omega) hseg hj (hstop.mono hq5)

/-! ### `for` and `if` -/

/-- the condition and the first block of `for` / `if`: from the keyword at `i`, the condition ends at `jc`, the block's `}` is at `jb` -/
theorem cond_block {cond : Node} {l : NList} (hgc : GP s c ap cond) (hfc : fragN c ap cond = true)
    (hfl : fragS c ap true true l = true) (hpl : SPL s c ap l) (q i : Nat) (hq : 1 ≤ q) (rest : List Tok)
    (hseg : Seg s (i + 1) (exprToks c ap q true cond ++ (lbrace :: (stmtsToks c ap true true l ++ rbrace :: rest)))) :
    ∃ jc jb, jc + 1 = i + 1 + (exprToks c ap q true cond).length ∧ jb = jc + 1 + 1 + (stmtsToks c ap true true l).length ∧
      Ev (fun f => parseExpression s f prioLOWEST (stAt s (i + 1)) = .ok (some cond, stAt s jc) ∧
                   parseBlockStatement s f (stAt s (jc + 1)) = .ok (some l, stAt s jb)) ∧
      (s.get (jc + 1)).type = .LBRACE ∧ Seg s (jb + 1) rest := by
  have hL := (head_node cond hfc q true).length_pos
  obtain ⟨jc, hjc⟩ : ∃ jc, jc + 1 = i + 1 + (exprToks c ap q true cond).length := ⟨i + 1 + (exprToks c ap q true cond).length - 1, by omega⟩
  rw [Seg_append, ← hjc] at hseg
  have hlbk : key (s.get (jc + 1)) = key lbrace := by have := hseg.2; rw [Seg_cons] at this; exact this.1
  have hst := stop_lbrace hlbk hq
  have h1 := hgc true q prioLOWEST (i + 1) jc (some cond, stAt s jc) (Compat_low hq) hseg.1 hjc hst
    (ev_loop_stop (stop_lbrace hlbk (Nat.le_refl 1)))
  have hsegb : Seg s (jc + 1) ((lbrace :: stmtsToks c ap true true l ++ [rbrace]) ++ rest) := by
    have := hseg.2; simpa using this
  rw [Seg_append] at hsegb
  have hb := block_parse l (jc + 1) hfl hpl hsegb.1
  refine ⟨jc, jc + 1 + 1 + (stmtsToks c ap true true l).length, hjc, rfl, h1.and hb, seg_type hlbk, ?_⟩
  have := hsegb.2
  simp only [List.cons_append, List.length_cons, List.length_append, List.length_nil] at this
  rwa [show jc + 1 + ((stmtsToks c ap true true l).length + (0 + 1) + 1) = jc + 1 + 1 + (stmtsToks c ap true true l).length + 1 by omega] at this

theorem gp_for {cond : Node} {l : NList} (hgc : GP s c ap cond) (hfc : fragN c ap cond = true)
    (hfl : fragS c ap true true l = true) (hpl : SPL s c ap l) : GP s c ap (.forE ⟨.FOR, [102, 111, 114]⟩ (some cond) (some l)) := by
  intro ws q P i j res hc hseg hj hstop
  simp only [exprToks, exprToksO, blockToks, List.cons_append, List.length_cons, List.length_append, List.length_nil] at hseg hj
  rw [Seg_cons] at hseg
  have hty : (s.get i).type = .FOR := seg_type hseg.1
  obtain ⟨jc, jb, hjc, hjb, hev, hlb, _⟩ := cond_block hgc hfc hfl hpl q i hc.2.1 [] (by simpa using hseg.2)
  obtain rfl : jb = j := by omega
  refine Ev.step2 0 3 (fun F _ ha hb' f hf' => ?_) hev
  rw [pE_step (s := s) (st := stAt s i) (fn := .parseForExpression) (l := some (.forE ⟨.FOR, [102, 111, 114]⟩ (some cond) (some l)))
    (st1 := stAt s jb) (by simp only [stAt_cur, hty]; decide) (by simp only [stAt_cur, hty]; decide) ?_ (by simpa using hstop.1)]
  · exact hb' _ (by omega)
  · rw [pd_for, parseForExpression_ok (st1 := stAt s jc) (st2 := stAt s jb) (cond := some cond) (body := some l)
      (by simp only [advance_stAt]; exact (ha f hf').1) (by simp only [stAt_peek]; exact hlb)
      (by simp only [advance_stAt]; exact (ha f hf').2) rfl, stAt_cur, key_tk hseg.1]
    rfl

/-- an `if` expression parsed by `parseIfExpression` itself (the `else if` path calls it directly) -/
def IFP (s : TokStream) (c ap : Bool) (t : Node) : Prop :=
  ∀ (ws : Bool) (q i j : Nat), 1 ≤ q → Seg s i (exprToks c ap q ws t) → j + 1 = i + (exprToks c ap q ws t).length →
    (s.get (j + 1)).type ≠ .ELSE → Ev (fun f => parseIfExpression s f (stAt s i) = .ok (some t, stAt s j))

theorem gp_if_of_ifp {tk' : Tk} {cond : ONode} {cons alt : Stmts} (h : IFP s c ap (.ifE tk' cond cons alt)) :
    GP s c ap (.ifE tk' cond cons alt) := by
  intro ws q P i j res hc hseg hj hstop
  have h1 := h ws q i j hc.2.1 hseg hj hstop.notElse
  simp only [exprToks, List.cons_append] at hseg
  rw [Seg_cons] at hseg
  have hty : (s.get i).type = .IF := seg_type hseg.1
  refine Ev.step2 0 2 (fun F _ ha hb f hf => ?_) h1
  rw [pE_step (s := s) (st := stAt s i) (fn := .parseIfExpression) (l := some (.ifE tk' cond cons alt)) (st1 := stAt s j)
    (by simp only [stAt_cur, hty]; decide) (by simp only [stAt_cur, hty]; decide) ?_ (by simpa using hstop.1)]
  · exact hb _ (by omega)
  · rw [pd_if]; exact ha f hf

theorem ifp_none {cond : Node} {l : NList} (hgc : GP s c ap cond) (hfc : fragN c ap cond = true)
    (hfl : fragS c ap true true l = true) (hpl : SPL s c ap l) : IFP s c ap (.ifE ⟨.IF, [105, 102]⟩ (some cond) (some l) none) := by
  intro ws q i j hq hseg hj helse
  simp only [exprToks, exprToksO, blockToks, altToks, List.append_nil, List.cons_append, List.length_cons, List.length_append,
    List.length_nil] at hseg hj
  rw [Seg_cons] at hseg
  obtain ⟨jc, jb, hjc, hjb, hev, hlb, _⟩ := cond_block hgc hfc hfl hpl q i hq [] (by simpa using hseg.2)
  obtain rfl : jb = j := by omega
  refine Ev.step 0 1 (fun F _ ha f hf' => ?_) hev
  rw [parseIfExpression_noelse (st1 := stAt s jc) (st2 := stAt s jb) (cond := some cond) (cons := some l)
    (by simp only [advance_stAt]; exact (ha f hf').1) (by simp only [stAt_peek]; exact hlb)
    (by simp only [advance_stAt]; exact (ha f hf').2) rfl (by simp only [stAt_peek]; exact helse), stAt_cur, key_tk hseg.1]
  rfl

def elseTok : Tok := sym .ELSE [101, 108, 115, 101] true

theorem ifp_block {cond : Node} {l l2 : NList} (hgc : GP s c ap cond) (hfc : fragN c ap cond = true)
    (hfl : fragS c ap true true l = true) (hpl : SPL s c ap l) (hfl2 : fragS c ap true true l2 = true) (hpl2 : SPL s c ap l2)
    (halt : ∀ q, altToks c ap q (some l2) = elseTok :: lbrace :: stmtsToks c ap true true l2 ++ [rbrace]) :
    IFP s c ap (.ifE ⟨.IF, [105, 102]⟩ (some cond) (some l) (some l2)) := by
  intro ws q i j hq hseg hj helse
  simp only [exprToks, exprToksO, blockToks, halt, List.cons_append, List.append_assoc, List.length_cons, List.length_append,
    List.length_nil] at hseg hj
  rw [Seg_cons] at hseg
  obtain ⟨jc, jb, hjc, hjb, hev, hlb, hrest⟩ := cond_block hgc hfc hfl hpl q i hq
    (elseTok :: lbrace :: (stmtsToks c ap true true l2 ++ [rbrace])) (by simpa using hseg.2)
  rw [Seg_cons] at hrest
  have hel : (s.get (jb + 1)).type = .ELSE := seg_type hrest.1
  have hb2 := block_parse l2 (jb + 1 + 1) hfl2 hpl2 (by simpa using hrest.2)
  have hlb2 : (s.get (jb + 1 + 1)).type = .LBRACE := by have := hrest.2; rw [Seg_cons] at this; exact seg_type this.1
  have hjj : jb + 1 + 1 + 1 + (stmtsToks c ap true true l2).length = j := by omega
  rw [hjj] at hb2
  refine Ev.step 0 1 (fun F _ ha f hf' => ?_) (hev.and hb2)
  rw [parseIfExpression_else (st1 := stAt s jc) (st2 := stAt s jb) (st3 := stAt s j) (cond := some cond) (cons := some l) (alt := some l2)
    (by simp only [advance_stAt]; exact (ha f hf').1.1) (by simp only [stAt_peek]; exact hlb)
    (by simp only [advance_stAt]; exact (ha f hf').1.2) rfl (by simp only [stAt_peek]; exact hel)
    (by simp only [advance_stAt, stAt_peek]; exact hlb2) (by simp only [advance_stAt]; exact (ha f hf').2) rfl, stAt_cur, key_tk hseg.1]
  rfl

theorem ifp_elseif {cond a : Node} {l : NList} (hgc : GP s c ap cond) (hfc : fragN c ap cond = true)
    (hfl : fragS c ap true true l = true) (hpl : SPL s c ap l) (ha : IFP s c ap a)
    (hif : ∀ q ws, ∃ r, exprToks c ap q ws a = sym .IF [105, 102] ws :: r)
    (halt : ∀ q, altToks c ap q (some [some a]) = elseTok :: exprToks c ap q true a) :
    IFP s c ap (.ifE ⟨.IF, [105, 102]⟩ (some cond) (some l) (some [some a])) := by
  intro ws q i j hq hseg hj helse
  simp only [exprToks, exprToksO, blockToks, halt, List.cons_append, List.append_assoc, List.length_cons, List.length_append,
    List.length_nil] at hseg hj
  rw [Seg_cons] at hseg
  obtain ⟨jc, jb, hjc, hjb, hev, hlb, hrest⟩ := cond_block hgc hfc hfl hpl q i hq
    (elseTok :: exprToks c ap q true a) (by simpa using hseg.2)
  rw [Seg_cons] at hrest
  have hel : (s.get (jb + 1)).type = .ELSE := seg_type hrest.1
  have h2 := ha true q (jb + 1 + 1) j hq hrest.2 (by omega) helse
  have hif2 : (s.get (jb + 1 + 1)).type = .IF := by
    obtain ⟨r, hr⟩ := hif q true
    have := hrest.2; rw [hr, Seg_cons] at this; exact seg_type this.1
  refine Ev.step 0 1 (fun F _ ha' f hf' => ?_) (hev.and h2)
  rw [parseIfExpression_elseif (st1 := stAt s jc) (st2 := stAt s jb) (st3 := stAt s j) (cond := some cond) (cons := some l) (altN := some a)
    (by simp only [advance_stAt]; exact (ha' f hf').1.1) (by simp only [stAt_peek]; exact hlb)
    (by simp only [advance_stAt]; exact (ha' f hf').1.2) rfl (by simp only [stAt_peek]; exact hel)
    (by simp only [advance_stAt, stAt_peek]; exact hif2) (by simp only [advance_stAt]; exact (ha' f hf').2), stAt_cur, key_tk hseg.1]
  rfl

/-! ### every tree of the fragment has the round-trip property -/

/-- what the structural induction proves of a node: the round-trip property if it is an expression of the fragment;
for an `if`, also on the direct path of `else if`; for a `return`, the property of its value -/
def GPX (s : TokStream) (c ap : Bool) (t : Node) : Prop :=
  (fragN c ap t = true → GP s c ap t) ∧
  (∀ tk' cond cons alt, t = .ifE tk' cond cons alt → fragN c ap t = true → IFP s c ap t) ∧
  (∀ t' v, t = .ret t' (some v) → fragN c ap v = true → GP s c ap v) ∧
  (∀ tc lc, t = .infix tc (some lc) none → fragN c ap lc = true → GP s c ap lc)

theorem GPX.of_gp {t : Node} (hni : ∀ a b c d, t ≠ .ifE a b c d) (hnr : ∀ a b, t ≠ .ret a (some b))
    (hno : ∀ a b, t ≠ .infix a (some b) none) (h : fragN c ap t = true → GP s c ap t) : GPX s c ap t :=
  ⟨h, fun a b c d e => absurd e (hni a b c d), fun a b e => absurd e (hnr a b), fun a b e => absurd e (hno a b)⟩

theorem GPX.of_false {t : Node} (hni : ∀ a b c d, t ≠ .ifE a b c d) (hnr : ∀ a b, t ≠ .ret a (some b))
    (hno : ∀ a b, t ≠ .infix a (some b) none) (h : fragN c ap t = false) : GPX s c ap t :=
  GPX.of_gp hni hnr hno (fun h' => by rw [h] at h'; cases h')

theorem GPX.of_false' {t : Node} (hnr : ∀ a b, t ≠ .ret a (some b)) (hno : ∀ a b, t ≠ .infix a (some b) none)
    (h : fragN c ap t = false) : GPX s c ap t :=
  ⟨fun h' => (by rw [h] at h'; cases h'), fun _ _ _ _ _ h' => (by rw [h] at h'; cases h'), fun a b e => absurd e (hnr a b),
   fun a b e => absurd e (hno a b)⟩

theorem fragIdx_elim {i : Node} (h : fragIdx c ap (some i) = true) :
    (∃ tc lc, i = .infix tc (some lc) none ∧ tc.type = .COLON ∧ fragN c ap lc = true) ∨ fragN c ap i = true := by
  cases i with
  | «infix» tc lc rc =>
    cases rc with
    | none =>
      cases lc with
      | none => simp [fragIdx, fragO] at h
      | some l => simp only [fragIdx, fragO, Bool.and_eq_true, beq_iff_eq] at h; exact Or.inl ⟨tc, l, rfl, h.1, h.2⟩
    | some r => simp only [fragIdx] at h; exact Or.inr h
  | _ => simp only [fragIdx] at h; exact Or.inr h

theorem stmtP_of_gpx {n : Node} {ib first : Bool} {rest : NList} (hx : GPX s c ap n) (hf : fragStmt c ap ib first n rest = true) :
    StmtP s c ap n := by
  refine ⟨fun t v e => ?_, fun hnr => ?_⟩
  · subst e
    simp only [fragStmt, Bool.and_eq_true] at hf
    exact hx.2.2.1 t v rfl hf.2
  · rw [fragStmt_expr hnr, Bool.and_eq_true] at hf
    exact hx.1 hf.1

theorem altToks_block (q : Nat) (l2 : NList) (h : ∀ a, l2 = [some a] → a.tok.type ≠ .IF) :
    altToks c ap q (some l2) = elseTok :: lbrace :: stmtsToks c ap true true l2 ++ [rbrace] := by
  match l2, h with
  | [], _ => rfl
  | none :: r, _ => rfl
  | [some a], h => simp only [altToks, if_neg (h a rfl)]; rfl
  | some a :: b :: r, _ => rfl

theorem ifE_head (tk' : Tk) (cond : ONode) (cons alt : Stmts) (q : Nat) (ws : Bool) :
    ∃ r, exprToks c ap q ws (.ifE tk' cond cons alt) = sym .IF [105, 102] ws :: r :=
  ⟨exprToksO c ap q true cond ++ blockToks c ap cons ++ altToks c ap q alt, by simp only [exprToks, List.cons_append]⟩

mutual
theorem gpx_node (s : TokStream) (c ap : Bool) : ∀ (t : Node), GPX s c ap t
  | .ident t => GPX.of_gp (fun _ _ _ _ e => nomatch e) (fun _ _ e => nomatch e) (fun _ _ e => nomatch e) (fun h => by
      simp only [fragN, Bool.or_eq_true, beq_iff_eq] at h; exact (gpa_ident t h).gp)
  | .strLit t => GPX.of_gp (fun _ _ _ _ e => nomatch e) (fun _ _ e => nomatch e) (fun _ _ e => nomatch e) (fun h => by simp only [fragN, beq_iff_eq] at h; exact (gpa_strLit t h).gp)
  | .boolean t => GPX.of_gp (fun _ _ _ _ e => nomatch e) (fun _ _ e => nomatch e) (fun _ _ e => nomatch e) (fun h => by simp only [fragN, Bool.or_eq_true, beq_iff_eq] at h; exact (gpa_boolean t h).gp)
  | .intLit t => GPX.of_gp (fun _ _ _ _ e => nomatch e) (fun _ _ e => nomatch e) (fun _ _ e => nomatch e) (fun h => by simp only [fragN, beq_iff_eq] at h; exact (gpa_intLit t h).gp)
  | .floatLit t => GPX.of_gp (fun _ _ _ _ e => nomatch e) (fun _ _ e => nomatch e) (fun _ _ e => nomatch e) (fun h => by simp only [fragN, Bool.or_eq_true, beq_iff_eq] at h; exact (gpa_floatLit t h).gp)
  | .control t => GPX.of_gp (fun _ _ _ _ e => nomatch e) (fun _ _ e => nomatch e) (fun _ _ e => nomatch e) (fun h => by simp only [fragN, Bool.or_eq_true, beq_iff_eq] at h; exact (gpa_control t h).gp)
  | .post t p => GPX.of_gp (fun _ _ _ _ e => nomatch e) (fun _ _ e => nomatch e) (fun _ _ e => nomatch e) (fun h => by
      simp only [fragN, Bool.and_eq_true, Bool.or_eq_true, beq_iff_eq] at h; exact (gpa_post t p h.1 h.2).gp)
  | .comment _ _ _ => GPX.of_false (fun _ _ _ _ e => nomatch e) (fun _ _ e => nomatch e) (fun _ _ e => nomatch e) (by simp [fragN])
  | .mapLit t kvs => GPX.of_gp (fun _ _ _ _ e => nomatch e) (fun _ _ e => nomatch e) (fun _ _ e => nomatch e) (fun h => by
      simp only [fragN, Bool.and_eq_true, beq_iff_eq] at h
      obtain ⟨rfl, hk⟩ := h
      exact gp_map (gp_pairs s c ap kvs hk))
  | .macroLit t params none => GPX.of_false (fun _ _ _ _ e => nomatch e) (fun _ _ e => nomatch e) (fun _ _ e => nomatch e) (by simp [fragN, fragB])
  | .macroLit t params (some l) => GPX.of_gp (fun _ _ _ _ e => nomatch e) (fun _ _ e => nomatch e) (fun _ _ e => nomatch e) (fun h => by
      simp only [fragN, fragB, Bool.and_eq_true, beq_iff_eq] at h
      exact gp_macro h.1.1 h.1.2 h.2 (gp_stmts s c ap l true true h.2))
  | .ret t none => ⟨fun h => by simp [fragN] at h, nofun, nofun, nofun⟩
  | .ret t (some v) => ⟨fun h => by simp [fragN] at h, nofun, fun t' v' e hv => (by
      cases e; exact (gpx_node s c ap v).1 hv), nofun⟩
  | .pre t none => GPX.of_false (fun _ _ _ _ e => nomatch e) (fun _ _ e => nomatch e) (fun _ _ e => nomatch e) (by simp [fragN, fragO])
  | .pre t (some r) => GPX.of_gp (fun _ _ _ _ e => nomatch e) (fun _ _ e => nomatch e) (fun _ _ e => nomatch e) (fun h => by
      simp only [fragN, fragO, Bool.and_eq_true] at h
      exact gp_pre ((gpx_node s c ap r).1 h.2) h.1)
  | .infix t none r => GPX.of_false (fun _ _ _ _ e => nomatch e) (fun _ _ e => nomatch e) (fun _ _ e => nomatch e) (by cases r <;> simp [fragN, fragO])
  | .infix t (some l) none => ⟨fun h => by simp [fragN, fragO] at h, nofun, nofun, fun tc lc e hf => by
      cases e; exact (gpx_node s c ap l).1 hf⟩
  | .infix t (some l) (some r) => GPX.of_gp (fun _ _ _ _ e => nomatch e) (fun _ _ e => nomatch e) (fun _ _ e => nomatch e) (fun h => by
      simp only [fragN, fragO, Bool.and_eq_true, Bool.not_eq_true'] at h
      exact gp_infix ((gpx_node s c ap l).1 h.1.2) ((gpx_node s c ap r).1 h.2.2) h.1.2 h.2.2 h.1.1 h.2.1)
  | .call t none args => GPX.of_false (fun _ _ _ _ e => nomatch e) (fun _ _ e => nomatch e) (fun _ _ e => nomatch e) (by simp [fragN, fragO])
  | .call t (some f) args => GPX.of_gp (fun _ _ _ _ e => nomatch e) (fun _ _ e => nomatch e) (fun _ _ e => nomatch e) (fun h => by
      simp only [fragN, fragO, Bool.and_eq_true, beq_iff_eq] at h
      obtain ⟨⟨rfl, hf⟩, ha⟩ := h
      exact gp_call ((gpx_node s c ap f).1 hf) hf (gp_list s c ap args ha))
  | .array t es => GPX.of_gp (fun _ _ _ _ e => nomatch e) (fun _ _ e => nomatch e) (fun _ _ e => nomatch e) (fun h => by
      simp only [fragN, Bool.and_eq_true, beq_iff_eq] at h
      obtain ⟨rfl, ha⟩ := h
      exact gp_array (gp_list s c ap es ha))
  | .builtin t ps => GPX.of_gp (fun _ _ _ _ e => nomatch e) (fun _ _ e => nomatch e) (fun _ _ e => nomatch e) (fun h => by
      simp only [fragN, Bool.and_eq_true] at h
      exact gp_builtin h.1 (gp_list s c ap ps h.2))
  | .index t none i => GPX.of_false (fun _ _ _ _ e => nomatch e) (fun _ _ e => nomatch e) (fun _ _ e => nomatch e) (by simp [fragN, fragO])
  | .index t (some l) none => GPX.of_false (fun _ _ _ _ e => nomatch e) (fun _ _ e => nomatch e) (fun _ _ e => nomatch e) (by
      simp only [fragN, fragO, fragIdx]; split <;> simp)
  | .index t (some l) (some i) =>
    have hl := gpx_node s c ap l
    have hi := gpx_node s c ap i
    GPX.of_gp (fun _ _ _ _ e => nomatch e) (fun _ _ e => nomatch e) (fun _ _ e => nomatch e) (fun h => by
      simp only [fragN, fragO, Bool.and_eq_true] at h
      by_cases hb : t.type = .LBRACKET
      · have hb' : (t.type == TokType.LBRACKET) = true := by simpa using hb
        rw [hb', if_pos rfl] at h
        rcases fragIdx_elim h.2 with ⟨tc, lc, rfl, htc, hlc⟩ | hfi
        · exact gp_index_br hb (hl.1 h.1) (ipb_open (hi.2.2.2 tc lc rfl hlc) hlc htc) h.1
        · exact gp_index_br hb (hl.1 h.1) (ipb_of_gp (hi.1 hfi)) h.1
      · have hb' : (t.type == TokType.LBRACKET) = false := by simpa using hb
        rw [hb'] at h
        simp only [Bool.false_eq_true, if_false, Bool.and_eq_true, beq_iff_eq, fragO] at h
        exact gp_index_dot h.2.1 (hl.1 h.1) (hi.1 h.2.2) h.1 h.2.2)
  | .func t name params none v isL => GPX.of_false (fun _ _ _ _ e => nomatch e) (fun _ _ e => nomatch e) (fun _ _ e => nomatch e) (by
      cases isL <;> simp [fragN, fragB])
  | .func t name params (some l) v false => GPX.of_gp (fun _ _ _ _ e => nomatch e) (fun _ _ e => nomatch e) (fun _ _ e => nomatch e) (fun h => by
      simp only [fragN, fragB, Bool.false_eq_true, if_false, Bool.and_eq_true, beq_iff_eq] at h
      obtain ⟨⟨⟨ht, hname⟩, hpar⟩, hl⟩ := h
      refine gp_func ht (fun nm e => ?_) hpar hl (gp_stmts s c ap l true true hl)
      subst e; simpa using hname)
  | .func t name params (some l) v true => GPX.of_gp (fun _ _ _ _ e => nomatch e) (fun _ _ e => nomatch e) (fun _ _ e => nomatch e) (fun h => by
      simp only [fragN, fragB, if_true, Bool.and_eq_true, beq_iff_eq, Option.isNone_iff_eq_none] at h
      obtain ⟨⟨⟨rfl, rfl⟩, hpar⟩, hl⟩ := h
      exact gp_lambda hpar hl (gp_stmts s c ap l true true hl))
  | .forE t none b => GPX.of_false (fun _ _ _ _ e => nomatch e) (fun _ _ e => nomatch e) (fun _ _ e => nomatch e) (by simp [fragN, fragO])
  | .forE t (some cnd) none => GPX.of_false (fun _ _ _ _ e => nomatch e) (fun _ _ e => nomatch e) (fun _ _ e => nomatch e) (by simp [fragN, fragB])
  | .forE t (some cnd) (some l) => GPX.of_gp (fun _ _ _ _ e => nomatch e) (fun _ _ e => nomatch e) (fun _ _ e => nomatch e) (fun h => by
      simp only [fragN, fragO, fragB, Bool.and_eq_true, beq_iff_eq] at h
      obtain ⟨⟨rfl, hc⟩, hl⟩ := h
      exact gp_for ((gpx_node s c ap cnd).1 hc) hc hl (gp_stmts s c ap l true true hl))
  | .ifE t none cons alt =>
    GPX.of_false' (fun _ _ e => nomatch e) (fun _ _ e => nomatch e) (by simp [fragN, fragO])
  | .ifE t (some cnd) none alt =>
    GPX.of_false' (fun _ _ e => nomatch e) (fun _ _ e => nomatch e) (by simp [fragN, fragB])
  | .ifE t (some cnd) (some l) none =>
    have hi : fragN c ap (.ifE t (some cnd) (some l) none) = true → IFP s c ap (.ifE t (some cnd) (some l) none) := fun h => by
      simp only [fragN, fragO, fragB, fragAlt, Bool.and_eq_true, beq_iff_eq, and_true] at h
      obtain ⟨⟨rfl, hc⟩, hl⟩ := h
      exact ifp_none ((gpx_node s c ap cnd).1 hc) hc hl (gp_stmts s c ap l true true hl)
    ⟨fun h => gp_if_of_ifp (hi h), fun _ _ _ _ _ h => hi h, nofun, nofun⟩
  | .ifE t (some cnd) (some l) (some []) =>
    have hi : fragN c ap (.ifE t (some cnd) (some l) (some [])) = true → IFP s c ap (.ifE t (some cnd) (some l) (some [])) := fun h => by
      simp only [fragN, fragO, fragB, fragAlt, Bool.and_eq_true, beq_iff_eq] at h
      obtain ⟨⟨⟨rfl, hc⟩, hl⟩, hl2⟩ := h
      exact ifp_block ((gpx_node s c ap cnd).1 hc) hc hl (gp_stmts s c ap l true true hl) hl2 (fun x hx => by simp at hx)
        (fun q => altToks_block q [] (fun a e => by cases e))
    ⟨fun h => gp_if_of_ifp (hi h), fun _ _ _ _ _ h => hi h, nofun, nofun⟩
  | .ifE t (some cnd) (some l) (some (none :: r)) =>
    GPX.of_false' (fun _ _ e => nomatch e) (fun _ _ e => nomatch e) (by cases r <;> simp [fragN, fragAlt, fragS])
  | .ifE t (some cnd) (some l) (some [some a]) =>
    have hi : fragN c ap (.ifE t (some cnd) (some l) (some [some a])) = true → IFP s c ap (.ifE t (some cnd) (some l) (some [some a])) := fun h => by
      simp only [fragN, fragO, fragB, fragAlt, Bool.and_eq_true, beq_iff_eq] at h
      obtain ⟨⟨⟨rfl, hc⟩, hl⟩, hl2⟩ := h
      by_cases hif : a.tok.type = .IF
      · rw [if_pos hif] at hl2
        cases a with
        | ifE ta ca la aa =>
          simp only at hl2
          exact ifp_elseif ((gpx_node s c ap cnd).1 hc) hc hl (gp_stmts s c ap l true true hl)
            ((gpx_node s c ap (.ifE ta ca la aa)).2.1 ta ca la aa rfl hl2) (fun q ws => ifE_head ta ca la aa q ws)
            (fun q => by simp only [altToks, if_pos hif]; rfl)
        | _ => simp at hl2
      · rw [if_neg hif] at hl2
        have hl2' := hl2
        rw [fragS_cons, Bool.and_eq_true] at hl2'
        exact ifp_block ((gpx_node s c ap cnd).1 hc) hc hl (gp_stmts s c ap l true true hl) hl2
          (fun x hx => by
            simp only [List.mem_singleton] at hx
            exact ⟨a, hx, stmtP_of_gpx (gpx_node s c ap a) hl2'.1⟩)
          (fun q => altToks_block q [some a] (fun a' e => by cases e; exact hif))
    ⟨fun h => gp_if_of_ifp (hi h), fun _ _ _ _ _ h => hi h, nofun, nofun⟩
  | .ifE t (some cnd) (some l) (some (some a :: b :: r)) =>
    have hi : fragN c ap (.ifE t (some cnd) (some l) (some (some a :: b :: r))) = true →
        IFP s c ap (.ifE t (some cnd) (some l) (some (some a :: b :: r))) := fun h => by
      simp only [fragN, fragO, fragB, fragAlt, Bool.and_eq_true, beq_iff_eq] at h
      obtain ⟨⟨⟨rfl, hc⟩, hl⟩, hl2⟩ := h
      exact ifp_block ((gpx_node s c ap cnd).1 hc) hc hl (gp_stmts s c ap l true true hl) hl2
        (gp_stmts s c ap (some a :: b :: r) true true hl2) (fun q => altToks_block q _ (fun a' e => by cases e))
    ⟨fun h => gp_if_of_ifp (hi h), fun _ _ _ _ _ h => hi h, nofun, nofun⟩
theorem gp_list (s : TokStream) (c ap : Bool) : ∀ (xs : NList), fragL c ap xs = true → GPL s c ap xs
  | [], _ => fun x hx => by simp at hx
  | none :: xs, h => by simp [fragL, fragO] at h
  | some n :: xs, h => by
    simp only [fragL, fragO, Bool.and_eq_true] at h
    intro x hx
    rcases List.mem_cons.mp hx with rfl | hx
    · exact ⟨n, rfl, h.1, (gpx_node s c ap n).1 h.1⟩
    · exact gp_list s c ap xs h.2 x hx
theorem gp_pairs (s : TokStream) (c ap : Bool) : ∀ (kvs : NList), fragPairs c ap kvs = true → MPL s c ap kvs
  | [], _ => trivial
  | [_], h => by simp [fragPairs] at h
  | none :: _ :: _, h => by simp [fragPairs, fragO] at h
  | some _ :: none :: _, h => by simp [fragPairs, fragO] at h
  | some k :: some v :: rest, h => by
    simp only [fragPairs, fragO, Bool.and_eq_true] at h
    exact ⟨h.1.1, h.1.2, (gpx_node s c ap k).1 h.1.1, (gpx_node s c ap v).1 h.1.2, gp_pairs s c ap rest h.2⟩
theorem gp_stmts (s : TokStream) (c ap : Bool) : ∀ (l : NList) (ib first : Bool), fragS c ap ib first l = true → SPL s c ap l
  | [], _, _, _ => fun x hx => by simp at hx
  | none :: _, _, _, h => by simp [fragS] at h
  | some n :: rest, ib, first, h => by
    rw [fragS_cons, Bool.and_eq_true] at h
    intro x hx
    rcases List.mem_cons.mp hx with rfl | hx
    · exact ⟨n, rfl, stmtP_of_gpx (gpx_node s c ap n) h.1⟩
    · exact gp_stmts s c ap rest ib false h.2 x hx
end

end Grol.RT

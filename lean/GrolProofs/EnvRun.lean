import GrolProofs.EvalOps
/-
Symbolic execution of the evaluator model's monad `M = ExceptT Stop (StateM St)`:
`run x st = (outcome, state after)`, with one rewriting lemma per primitive, and the
read-only lemmas of the environment layer (object/state.go) used by C19 and C06.
-/
namespace Grol.E

def run (x : M α) (st : St) : Except Stop α × St := (x.run st |>.run)

theorem outcome_eq_run (x : M α) (st : St) : outcome x st = (run x st).1 := rfl
theorem stateAfter_eq_run (x : M α) (st : St) : stateAfter x st = (run x st).2 := rfl

@[simp] theorem run_pure (a : α) (st : St) : run (pure a : M α) st = (.ok a, st) := rfl

theorem run_bind (x : M α) (f : α → M β) (st : St) :
    run (x >>= f) st =
      match run x st with
      | (.ok a, st') => run (f a) st'
      | (.error e, st') => (.error e, st') := by
  unfold run
  simp only [bind, ExceptT.bind, ExceptT.run, ExceptT.mk, StateT.bind, ExceptT.bindCont, Id.run]
  split
  next a s h =>
    simp only [h]
    cases a <;> rfl

@[simp] theorem run_get (st : St) : run (get : M St) st = (.ok st, st) := rfl
@[simp] theorem run_set (s' st : St) : run (set s' : M Unit) st = (.ok (), s') := rfl
@[simp] theorem run_modify (g : St → St) (st : St) : run (modify g : M Unit) st = (.ok (), g st) := rfl
@[simp] theorem run_stop (s : Stop) (st : St) : run (stop s : M α) st = (.error s, st) := rfl
@[simp] theorem run_throw (s : Stop) (st : St) : run (throw s : M α) st = (.error s, st) := rfl

@[simp] theorem run_liftR (r : R α) (st : St) :
    run (liftR r) st = (match r with | .ok a => (.ok a, st) | .error e => (.error e, st)) := by
  cases r <;> rfl

/-- a computation that never changes the state -/
def ReadOnly (x : M α) : Prop := ∀ st, (run x st).2 = st

theorem ReadOnly.pure (a : α) : ReadOnly (pure a : M α) := fun _ => rfl
theorem ReadOnly.stop (s : Stop) : ReadOnly (stop s : M α) := fun _ => rfl
theorem ReadOnly.throw (s : Stop) : ReadOnly (throw s : M α) := fun _ => rfl
theorem ReadOnly.get : ReadOnly (get : M St) := fun _ => rfl
theorem ReadOnly.liftR (r : R α) : ReadOnly (liftR r) := by
  intro st; cases r <;> rfl

theorem ReadOnly.bind {x : M α} {f : α → M β} (hx : ReadOnly x) (hf : ∀ a, ReadOnly (f a)) :
    ReadOnly (x >>= f) := by
  intro st
  rw [run_bind]
  have h := hx st
  split
  next a st' heq => rw [heq] at h; simp only at h; rw [h]; exact hf a st
  next e st' heq => rw [heq] at h; exact h

theorem ReadOnly.ite {c : Prop} [Decidable c] {x y : M α} (hx : ReadOnly x) (hy : ReadOnly y) :
    ReadOnly (if c then x else y) := by
  split <;> assumption

theorem run_getFrame (e : Nat) (st : St) :
    run (getFrame e) st = match st.frames[e]? with
      | some f => (.ok f, st)
      | none => (.error (.goPanic "nil environment"), st) := by
  unfold getFrame
  rw [run_bind, run_get]
  simp only
  cases st.frames[e]? <;> rfl

theorem ReadOnly.getFrame (e : Nat) : ReadOnly (getFrame e) := by
  intro st; rw [run_getFrame]; split <;> rfl

theorem run_setFrame (e : Nat) (f : Frame) (st : St) :
    run (setFrame e f) st = (.ok (), { st with frames := st.frames.setIfInBounds e f }) := rfl

theorem run_modifyFrame (e : Nat) (g : Frame → Frame) (st : St) :
    run (modifyFrame e g) st = match st.frames[e]? with
      | some f => (.ok (), { st with frames := st.frames.setIfInBounds e (g f) })
      | none => (.error (.goPanic "nil environment"), st) := by
  unfold modifyFrame
  rw [run_bind, run_getFrame]
  cases st.frames[e]? <;> rfl

theorem readOnly_refValue (env : Nat) (name : String) : ReadOnly (refValue env name) := by
  unfold refValue
  refine ReadOnly.bind (ReadOnly.getFrame _) fun f => ?_
  split
  · exact ReadOnly.ite (ReadOnly.stop _) (ReadOnly.pure _)
  · exact ReadOnly.pure _
  · exact ReadOnly.pure _

theorem readOnly_refAlive (env : Nat) (name : String) : ReadOnly (refAlive env name) := by
  unfold refAlive
  exact ReadOnly.bind (ReadOnly.getFrame _) fun f => ReadOnly.pure _

theorem readOnly_valueOf_go (n : Nat) (o : Obj) : ReadOnly (valueOf.go n o) := by
  induction n generalizing o with
  | zero => cases o <;> (unfold valueOf.go; first | exact ReadOnly.stop _ | exact ReadOnly.pure _)
  | succ n ih =>
    cases o
    case ref e name =>
      unfold valueOf.go
      refine ReadOnly.bind (readOnly_refValue _ _) fun v => ?_
      dsimp only
      split
      · refine ReadOnly.bind (ReadOnly.getFrame _) fun _ => ?_
        refine ReadOnly.bind (ReadOnly.getFrame _) fun _ => ?_
        split
        · exact ReadOnly.bind (ReadOnly.stop _) fun _ => ih _
        · exact ih _
      · exact ih _
    all_goals (unfold valueOf.go; exact ReadOnly.pure _)

theorem readOnly_valueOf (o : Obj) : ReadOnly (valueOf o) := by
  unfold valueOf
  exact ReadOnly.bind (fun _ => rfl) fun _ => readOnly_valueOf_go _ _

end Grol.E

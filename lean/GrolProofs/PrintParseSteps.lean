import GrolProofs.PrintParseBase
/-
C02, positive half: one step lemma per parse function — its result on the success path, in terms
of the results of the calls it makes (total correctness: the result is `.ok`).
-/
namespace Grol.RT
open Grol Grol.Wire Grol.Generated Grol.Parser Grol.Printer Grol.PrintTokens
variable {s : TokStream}

theorem pE_step {f P : Nat} {st st1 : PState} {fn : PrefixFn} {l : ONode}
    (h1 : st.cur.type ≠ .EOL) (h2 : lookup prefixRegs st.cur.type = some fn)
    (h3 : prefixDispatch s f fn st = .ok (l, st1)) (h4 : st1.peek.type ≠ .LAMBDA) :
    parseExpression s (f + 1) P st = parseExpressionLoop s f P l st1 := by
  conv => lhs; unfold parseExpression
  simp [bind_apply, h1, h2, h3, h4]

/-- the loop stops at a token that does not bind tighter than `P` -/
theorem loop_stop {f P : Nat} {st : PState} {l : ONode} (h : precOf st.peek.type ≤ P) :
    parseExpressionLoop s (f + 1) P l st = .ok (l, st) := by
  unfold parseExpressionLoop
  have : ¬ (P < precOf st.peek.type) := by omega
  simp [bind_apply, this]

/-- the loop stops at a `(` or `[` with whitespace in front -/
theorem loop_stop_ws {f P : Nat} {st : PState} {l : ONode}
    (h : st.peek.type = .LPAREN ∨ st.peek.type = .LBRACKET) (hw : st.peek.hadWs = true) :
    parseExpressionLoop s (f + 1) P l st = .ok (l, st) := by
  unfold parseExpressionLoop
  rcases h with h | h
  · by_cases c : P < precOf TokType.LPAREN <;> simp [bind_apply, h, hw, c] <;> rfl
  · by_cases c : P < precOf TokType.LBRACKET <;> simp [bind_apply, h, hw, c] <;> rfl

theorem loop_step {f P : Nat} {st st1 : PState} {fn : InfixFn} {l l' : ONode}
    (h1 : st.peek.type ≠ .SEMICOLON) (h2 : P < precOf st.peek.type) (h3 : lookup infixRegs st.peek.type = some fn)
    (h4 : ¬ (st.peek.type = .LPAREN ∧ st.peek.hadWs = true)) (h5 : ¬ (st.peek.type = .LBRACKET ∧ st.peek.hadWs = true))
    (h6 : infixDispatch s f fn l (advance s st) = .ok (l', st1)) :
    parseExpressionLoop s (f + 1) P l st = parseExpressionLoop s f P l' st1 := by
  conv => lhs; unfold parseExpressionLoop
  simp [bind_apply, h1, h2, h3, h4, h5, h6]

/-! ### dispatch -/

@[simp] theorem pd_ident (f : Nat) : prefixDispatch s (f + 1) .parseIdentifier = parseIdentifier s := rfl
@[simp] theorem pd_int (f : Nat) : prefixDispatch s (f + 1) .parseIntegerLiteral = parseIntegerLiteral s := rfl
@[simp] theorem pd_float (f : Nat) : prefixDispatch s (f + 1) .parseFloatLiteral = parseFloatLiteral s := rfl
@[simp] theorem pd_bool (f : Nat) : prefixDispatch s (f + 1) .parseBoolean = parseBoolean := rfl
@[simp] theorem pd_str (f : Nat) : prefixDispatch s (f + 1) .parseStringLiteral = parseStringLiteral := rfl
@[simp] theorem pd_pre (f : Nat) : prefixDispatch s (f + 1) .parsePrefixExpression = parsePrefixExpression s f := rfl
@[simp] theorem pd_grp (f : Nat) : prefixDispatch s (f + 1) .parseGroupedExpression = parseGroupedExpression s f := rfl
@[simp] theorem pd_arr (f : Nat) : prefixDispatch s (f + 1) .parseArrayLiteral = parseArrayLiteral s f := rfl
@[simp] theorem id_infix (f : Nat) (l : ONode) : infixDispatch s (f + 1) .parseInfixExpression l = parseInfixExpression s f l := rfl
@[simp] theorem id_call (f : Nat) (l : ONode) : infixDispatch s (f + 1) .parseCallExpression l = parseCallExpression s f l := rfl
@[simp] theorem id_index (f : Nat) (l : ONode) : infixDispatch s (f + 1) .parseIndexExpression l = parseIndexExpression s f l := rfl

/-! ### leaves -/

theorem parseIdentifier_ok {st : PState} (h : lookup postfixRegs st.peek.type = none) :
    parseIdentifier s st = .ok (some (.ident st.cur.tk), st) := by
  unfold parseIdentifier
  simp [bind_apply, h]

theorem parseIntegerLiteral_int {st : PState} (h : st.cur.num = .int) :
    parseIntegerLiteral s st = .ok (some (.intLit st.cur.tk), st) := by
  unfold parseIntegerLiteral
  simp [bind_apply, h]

theorem parseFloatLiteral_ok {st : PState} (h : st.cur.num = .float) :
    parseFloatLiteral s st = .ok (some (.floatLit st.cur.tk), st) := by
  unfold parseFloatLiteral
  simp [bind_apply, h]

theorem parseIntegerLiteral_float {st : PState} (h : st.cur.num = .float) :
    parseIntegerLiteral s st = .ok (some (.floatLit st.cur.tk), st) := by
  unfold parseIntegerLiteral
  simp [bind_apply, h, parseFloatLiteral_ok h]

theorem parseBoolean_ok (st : PState) : parseBoolean st = .ok (some (.boolean st.cur.tk), st) := rfl
theorem parseStringLiteral_ok (st : PState) : parseStringLiteral st = .ok (some (.strLit st.cur.tk), st) := rfl

/-! ### compound expressions -/

theorem parsePrefixExpression_ok {f : Nat} {st st1 : PState} {r : ONode}
    (h : parseExpression s f prioPREFIX (advance s st) = .ok (r, st1)) :
    parsePrefixExpression s (f + 1) st = .ok (some (.pre st.cur.tk r), st1) := by
  unfold parsePrefixExpression
  simp [bind_apply, h]

theorem parseInfixExpression_ok {f : Nat} {st st1 : PState} {l r : ONode}
    (h0 : ¬ (st.cur.type = .COLON ∧ st.peek.type = .RBRACKET))
    (h : parseExpression s f (precOf st.cur.type) (advance s st) = .ok (r, st1)) :
    parseInfixExpression s (f + 1) l st = .ok (some (.infix st.cur.tk l r), st1) := by
  unfold parseInfixExpression
  have h0' : ¬ ((st.cur.tk).type = .COLON ∧ st.peek.type = .RBRACKET) := h0
  simp [bind_apply, h, h0']

theorem parseGroupedExpression_ok {f : Nat} {st st1 : PState} {e : ONode}
    (h : parseExpression s f prioLOWEST (advance s st) = .ok (e, st1)) (hp : st1.peek.type = .RPAREN) :
    parseGroupedExpression s (f + 1) st = .ok (e, advance s st1) := by
  unfold parseGroupedExpression
  simp [bind_apply, h, hp, expectPeek_ok hp]

theorem parseCallExpression_ok {f : Nat} {st st1 : PState} {fn : ONode} {el : NList}
    (h : parseExpressionList s f .RPAREN st = .ok (some el, st1)) :
    parseCallExpression s (f + 1) fn st = .ok (some (.call st.cur.tk fn el), st1) := by
  unfold parseCallExpression
  simp [bind_apply, h]

theorem parseArrayLiteral_ok {f : Nat} {st st1 : PState} {el : NList}
    (h : parseExpressionList s f .RBRACKET st = .ok (some el, st1)) :
    parseArrayLiteral s (f + 1) st = .ok (some (.array st.cur.tk el), st1) := by
  unfold parseArrayLiteral
  simp [bind_apply, h]

theorem parseExpressionList_empty {f : Nat} {st : PState} {e : TokType} (h : st.peek.type = e) :
    parseExpressionList s (f + 1) e st = .ok (some [], advance s st) := by
  unfold parseExpressionList
  simp [bind_apply, h]

theorem parseExpressionList_ok {f : Nat} {st st1 st2 : PState} {e : TokType} {x : ONode} {args : NList}
    (h0 : st.peek.type ≠ e) (h1 : parseExpression s f prioLOWEST (advance s st) = .ok (x, st1))
    (h2 : parseExpressionListLoop s f [x] st1 = .ok (args, st2)) (h3 : st2.peek.type = e) :
    parseExpressionList s (f + 1) e st = .ok (some args, advance s st2) := by
  unfold parseExpressionList
  simp [bind_apply, h0, h1, h2, expectPeek_ok h3]

theorem parseExpressionListLoop_stop {f : Nat} {st : PState} {args : NList} (h : st.peek.type ≠ .COMMA) :
    parseExpressionListLoop s (f + 1) args st = .ok (args, st) := by
  unfold parseExpressionListLoop
  simp [bind_apply, h]

theorem parseExpressionListLoop_step {f : Nat} {st st1 : PState} {args : NList} {x : ONode}
    (h : st.peek.type = .COMMA) (h1 : parseExpression s f prioLOWEST (advance s (advance s st)) = .ok (x, st1)) :
    parseExpressionListLoop s (f + 1) args st = parseExpressionListLoop s f (args ++ [x]) st1 := by
  conv => lhs; unfold parseExpressionListLoop
  simp [bind_apply, h, h1]

theorem parseIndexExpression_bracket {f : Nat} {st st1 : PState} {l idx : ONode}
    (h0 : st.cur.type = .LBRACKET) (h : parseExpression s f prioLOWEST (advance s st) = .ok (idx, st1))
    (hp : st1.peek.type = .RBRACKET) :
    parseIndexExpression s (f + 1) l st = .ok (some (.index st.cur.tk l idx), advance s st1) := by
  unfold parseIndexExpression
  simp [bind_apply, h0, h, expectPeek_ok hp]

theorem parseIndexExpression_dot {f : Nat} {st st1 : PState} {l idx : ONode}
    (h0 : st.cur.type = .DOT) (h : parseExpression s f prioDOTINDEX (advance s st) = .ok (idx, st1)) :
    parseIndexExpression s (f + 1) l st = .ok (some (.index st.cur.tk l idx), st1) := by
  unfold parseIndexExpression
  simp [bind_apply, h0, h]

/-! ### statements -/

theorem parseStatement_ok {f : Nat} {st st1 : PState} {e : ONode}
    (h0 : st.cur.type ≠ .RETURN) (h : parseExpression s f prioLOWEST st = .ok (e, st1)) (hp : st1.peek.type ≠ .SEMICOLON) :
    parseStatement s (f + 1) st = .ok (e, st1) := by
  unfold parseStatement
  simp [bind_apply, h0, h, hp]

theorem parseProgramLoop_stop {f : Nat} {st : PState} {acc : NList} (h : st.cur.type = .EOF) :
    parseProgramLoop s (f + 1) acc st = .ok (acc, st) := by
  unfold parseProgramLoop
  simp [bind_apply, h]

theorem parseProgramLoop_step {f : Nat} {st st1 : PState} {acc : NList} {n : Node}
    (h0 : st.cur.type ≠ .EOF) (h1 : st.cur.type ≠ .EOL) (h : parseStatement s f st = .ok (some n, st1)) :
    parseProgramLoop s (f + 1) acc st = parseProgramLoop s f (acc ++ [some n]) (advance s st1) := by
  conv => lhs; unfold parseProgramLoop
  simp [bind_apply, h0, h1, h]

end Grol.RT

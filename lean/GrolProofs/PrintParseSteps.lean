import GrolProofs.PrintParseBase
/-
C02, positive half: one step lemma per parse function — its result on the success path, in terms
of the results of the calls it makes (total correctness: the result is `.ok`).
-/
namespace Grol.RT
open Grol Grol.Wire Grol.Generated Grol.Parser Grol.Printer Grol.PrintTokens
variable {s : TokStream}

theorem pE_step {f P : Nat} {st st1 : PState} {fn : PrefixFn} {l : ONode}
    (h1 : st.cur.type ≠ .EOL) (h2 : lookup prefixRegs st.cur.type = some fn)
    (h3 : prefixDispatch s f fn st = .ok (l, st1)) (h4 : st1.peek.type ≠ .LAMBDA) :
    parseExpression s (f + 1) P st = parseExpressionLoop s f P l st1 := by
  conv => lhs; unfold parseExpression
  simp [bind_apply, h1, h2, h3, h4]

/-- the loop stops at a token that does not bind tighter than `P` -/
theorem loop_stop {f P : Nat} {st : PState} {l : ONode} (h : precOf st.peek.type ≤ P) :
    parseExpressionLoop s (f + 1) P l st = .ok (l, st) := by
  unfold parseExpressionLoop
  have : ¬ (P < precOf st.peek.type) := by omega
  simp [bind_apply, this]

/-- the loop stops at a `(` or `[` with whitespace in front -/
theorem loop_stop_ws {f P : Nat} {st : PState} {l : ONode}
    (h : st.peek.type = .LPAREN ∨ st.peek.type = .LBRACKET) (hw : st.peek.hadWs = true) :
    parseExpressionLoop s (f + 1) P l st = .ok (l, st) := by
  unfold parseExpressionLoop
  rcases h with h | h
  · by_cases c : P < precOf TokType.LPAREN <;> simp [bind_apply, h, hw, c] <;> rfl
  · by_cases c : P < precOf TokType.LBRACKET <;> simp [bind_apply, h, hw, c] <;> rfl

theorem loop_step {f P : Nat} {st st1 : PState} {fn : InfixFn} {l l' : ONode}
    (h1 : st.peek.type ≠ .SEMICOLON) (h2 : P < precOf st.peek.type) (h3 : lookup infixRegs st.peek.type = some fn)
    (h4 : ¬ (st.peek.type = .LPAREN ∧ st.peek.hadWs = true)) (h5 : ¬ (st.peek.type = .LBRACKET ∧ st.peek.hadWs = true))
    (h6 : infixDispatch s f fn l (advance s st) = .ok (l', st1)) :
    parseExpressionLoop s (f + 1) P l st = parseExpressionLoop s f P l' st1 := by
  conv => lhs; unfold parseExpressionLoop
  simp [bind_apply, h1, h2, h3, h4, h5, h6]

/-! ### dispatch -/

@[simp] theorem pd_ident (f : Nat) : prefixDispatch s (f + 1) .parseIdentifier = parseIdentifier s := rfl
@[simp] theorem pd_int (f : Nat) : prefixDispatch s (f + 1) .parseIntegerLiteral = parseIntegerLiteral s := rfl
@[simp] theorem pd_float (f : Nat) : prefixDispatch s (f + 1) .parseFloatLiteral = parseFloatLiteral s := rfl
@[simp] theorem pd_bool (f : Nat) : prefixDispatch s (f + 1) .parseBoolean = parseBoolean := rfl
@[simp] theorem pd_str (f : Nat) : prefixDispatch s (f + 1) .parseStringLiteral = parseStringLiteral := rfl
@[simp] theorem pd_pre (f : Nat) : prefixDispatch s (f + 1) .parsePrefixExpression = parsePrefixExpression s f := rfl
@[simp] theorem pd_grp (f : Nat) : prefixDispatch s (f + 1) .parseGroupedExpression = parseGroupedExpression s f := rfl
@[simp] theorem pd_arr (f : Nat) : prefixDispatch s (f + 1) .parseArrayLiteral = parseArrayLiteral s f := rfl
@[simp] theorem id_infix (f : Nat) (l : ONode) : infixDispatch s (f + 1) .parseInfixExpression l = parseInfixExpression s f l := rfl
@[simp] theorem id_call (f : Nat) (l : ONode) : infixDispatch s (f + 1) .parseCallExpression l = parseCallExpression s f l := rfl
@[simp] theorem id_index (f : Nat) (l : ONode) : infixDispatch s (f + 1) .parseIndexExpression l = parseIndexExpression s f l := rfl

/-! ### leaves -/

theorem parseIdentifier_ok {st : PState} (h : lookup postfixRegs st.peek.type = none) :
    parseIdentifier s st = .ok (some (.ident st.cur.tk), st) := by
  unfold parseIdentifier
  simp [bind_apply, h]

theorem parseIntegerLiteral_int {st : PState} (h : st.cur.num = .int) :
    parseIntegerLiteral s st = .ok (some (.intLit st.cur.tk), st) := by
  unfold parseIntegerLiteral
  simp [bind_apply, h]

theorem parseFloatLiteral_ok {st : PState} (h : st.cur.num = .float) :
    parseFloatLiteral s st = .ok (some (.floatLit st.cur.tk), st) := by
  unfold parseFloatLiteral
  simp [bind_apply, h]

theorem parseIntegerLiteral_float {st : PState} (h : st.cur.num = .float) :
    parseIntegerLiteral s st = .ok (some (.floatLit st.cur.tk), st) := by
  unfold parseIntegerLiteral
  simp [bind_apply, h, parseFloatLiteral_ok h]

theorem parseBoolean_ok (st : PState) : parseBoolean st = .ok (some (.boolean st.cur.tk), st) := rfl
theorem parseStringLiteral_ok (st : PState) : parseStringLiteral st = .ok (some (.strLit st.cur.tk), st) := rfl

/-! ### compound expressions -/

theorem parsePrefixExpression_ok {f : Nat} {st st1 : PState} {r : ONode}
    (h : parseExpression s f prioPREFIX (advance s st) = .ok (r, st1)) :
    parsePrefixExpression s (f + 1) st = .ok (some (.pre st.cur.tk r), st1) := by
  unfold parsePrefixExpression
  simp [bind_apply, h]

theorem parseInfixExpression_ok {f : Nat} {st st1 : PState} {l r : ONode}
    (h0 : ¬ (st.cur.type = .COLON ∧ st.peek.type = .RBRACKET))
    (h : parseExpression s f (precOf st.cur.type) (advance s st) = .ok (r, st1)) :
    parseInfixExpression s (f + 1) l st = .ok (some (.infix st.cur.tk l r), st1) := by
  unfold parseInfixExpression
  have h0' : ¬ ((st.cur.tk).type = .COLON ∧ st.peek.type = .RBRACKET) := h0
  simp [bind_apply, h, h0']

theorem parseInfixExpression_open {f : Nat} {st : PState} {l : ONode}
    (h0 : st.cur.type = .COLON) (h1 : st.peek.type = .RBRACKET) :
    parseInfixExpression s (f + 1) l st = .ok (some (.infix st.cur.tk l none), st) := by
  unfold parseInfixExpression
  have h0' : (st.cur.tk).type = .COLON := h0
  simp [bind_apply, h0', h1]

theorem parseGroupedExpression_ok {f : Nat} {st st1 : PState} {e : ONode}
    (h : parseExpression s f prioLOWEST (advance s st) = .ok (e, st1)) (hp : st1.peek.type = .RPAREN) :
    parseGroupedExpression s (f + 1) st = .ok (e, advance s st1) := by
  unfold parseGroupedExpression
  simp [bind_apply, h, hp, expectPeek_ok hp]

theorem parseCallExpression_ok {f : Nat} {st st1 : PState} {fn : ONode} {el : NList}
    (h : parseExpressionList s f .RPAREN st = .ok (some el, st1)) :
    parseCallExpression s (f + 1) fn st = .ok (some (.call st.cur.tk fn el), st1) := by
  unfold parseCallExpression
  simp [bind_apply, h]

theorem parseArrayLiteral_ok {f : Nat} {st st1 : PState} {el : NList}
    (h : parseExpressionList s f .RBRACKET st = .ok (some el, st1)) :
    parseArrayLiteral s (f + 1) st = .ok (some (.array st.cur.tk el), st1) := by
  unfold parseArrayLiteral
  simp [bind_apply, h]

theorem parseExpressionList_empty {f : Nat} {st : PState} {e : TokType} (h : st.peek.type = e) :
    parseExpressionList s (f + 1) e st = .ok (some [], advance s st) := by
  unfold parseExpressionList
  simp [bind_apply, h]

theorem parseExpressionList_ok {f : Nat} {st st1 st2 : PState} {e : TokType} {x : ONode} {args : NList}
    (h0 : st.peek.type ≠ e) (h1 : parseExpression s f prioLOWEST (advance s st) = .ok (x, st1))
    (h2 : parseExpressionListLoop s f [x] st1 = .ok (args, st2)) (h3 : st2.peek.type = e) :
    parseExpressionList s (f + 1) e st = .ok (some args, advance s st2) := by
  unfold parseExpressionList
  simp [bind_apply, h0, h1, h2, expectPeek_ok h3]

theorem parseExpressionListLoop_stop {f : Nat} {st : PState} {args : NList} (h : st.peek.type ≠ .COMMA) :
    parseExpressionListLoop s (f + 1) args st = .ok (args, st) := by
  unfold parseExpressionListLoop
  simp [bind_apply, h]

theorem parseExpressionListLoop_step {f : Nat} {st st1 : PState} {args : NList} {x : ONode}
    (h : st.peek.type = .COMMA) (h1 : parseExpression s f prioLOWEST (advance s (advance s st)) = .ok (x, st1)) :
    parseExpressionListLoop s (f + 1) args st = parseExpressionListLoop s f (args ++ [x]) st1 := by
  conv => lhs; unfold parseExpressionListLoop
  simp [bind_apply, h, h1]

theorem parseIndexExpression_bracket {f : Nat} {st st1 : PState} {l idx : ONode}
    (h0 : st.cur.type = .LBRACKET) (h : parseExpression s f prioLOWEST (advance s st) = .ok (idx, st1))
    (hp : st1.peek.type = .RBRACKET) :
    parseIndexExpression s (f + 1) l st = .ok (some (.index st.cur.tk l idx), advance s st1) := by
  unfold parseIndexExpression
  simp [bind_apply, h0, h, expectPeek_ok hp]

theorem parseIndexExpression_dot {f : Nat} {st st1 : PState} {l idx : ONode}
    (h0 : st.cur.type = .DOT) (h : parseExpression s f prioDOTINDEX (advance s st) = .ok (idx, st1)) :
    parseIndexExpression s (f + 1) l st = .ok (some (.index st.cur.tk l idx), st1) := by
  unfold parseIndexExpression
  simp [bind_apply, h0, h]

/-! ### statements -/

theorem parseStatement_ok {f : Nat} {st st1 : PState} {e : ONode}
    (h0 : st.cur.type ≠ .RETURN) (h : parseExpression s f prioLOWEST st = .ok (e, st1)) (hp : st1.peek.type ≠ .SEMICOLON) :
    parseStatement s (f + 1) st = .ok (e, st1) := by
  unfold parseStatement
  simp [bind_apply, h0, h, hp]

theorem parseProgramLoop_stop {f : Nat} {st : PState} {acc : NList} (h : st.cur.type = .EOF) :
    parseProgramLoop s (f + 1) acc st = .ok (acc, st) := by
  unfold parseProgramLoop
  simp [bind_apply, h]

theorem parseProgramLoop_step {f : Nat} {st st1 : PState} {acc : NList} {n : Node}
    (h0 : st.cur.type ≠ .EOF) (h1 : st.cur.type ≠ .EOL) (h : parseStatement s f st = .ok (some n, st1)) :
    parseProgramLoop s (f + 1) acc st = parseProgramLoop s f (acc ++ [some n]) (advance s st1) := by
  conv => lhs; unfold parseProgramLoop
  simp [bind_apply, h0, h1, h]

/-! ### postfix, control, builtins -/

@[simp] theorem pd_control (f : Nat) : prefixDispatch s (f + 1) .parseControlExpression = parseControlExpression := rfl
@[simp] theorem pd_builtin (f : Nat) : prefixDispatch s (f + 1) .parseBuiltin = parseBuiltin s f := rfl
@[simp] theorem pd_func (f : Nat) : prefixDispatch s (f + 1) .parseFunctionLiteral = parseFunctionLiteral s f := rfl
@[simp] theorem pd_if (f : Nat) : prefixDispatch s (f + 1) .parseIfExpression = parseIfExpression s f := rfl
@[simp] theorem pd_for (f : Nat) : prefixDispatch s (f + 1) .parseForExpression = parseForExpression s f := rfl

theorem parseControlExpression_ok (st : PState) : parseControlExpression st = .ok (some (.control st.cur.tk), st) := rfl

theorem parseIdentifier_post {st : PState} (h : lookup postfixRegs st.peek.type = some .parsePostfixExpression) :
    parseIdentifier s st = .ok (some (.post st.peek.tk st.cur.tk), advance s st) := by
  unfold parseIdentifier parsePostfixExpression
  simp [bind_apply, h]

theorem parseBuiltin_ok {f : Nat} {st st1 : PState} {el : NList} (h0 : st.peek.type = .LPAREN)
    (h : parseExpressionList s f .RPAREN (advance s st) = .ok (some el, st1)) :
    parseBuiltin s (f + 1) st = .ok (some (.builtin st.cur.tk el), st1) := by
  unfold parseBuiltin
  simp [bind_apply, expectPeek_ok h0, h]

/-! ### blocks and return -/

theorem parseBlockStatement_eq (f : Nat) (st : PState) :
    parseBlockStatement s (f + 1) st = parseBlockLoop s f [] (advance s st) := by
  conv => lhs; unfold parseBlockStatement
  simp [bind_apply]

theorem parseBlockLoop_stop {f : Nat} {st : PState} {acc : NList} (h : st.cur.type = .RBRACE) :
    parseBlockLoop s (f + 1) acc st = .ok (some acc, st) := by
  unfold parseBlockLoop
  simp [bind_apply, h]

theorem parseBlockLoop_step {f : Nat} {st st1 : PState} {acc : NList} {stmt : ONode}
    (h0 : st.cur.type ≠ .RBRACE) (h1 : st.cur.type ≠ .EOF) (h2 : st.cur.type ≠ .EOL)
    (h : parseStatement s f st = .ok (stmt, st1)) :
    parseBlockLoop s (f + 1) acc st = parseBlockLoop s f (acc ++ [stmt]) (advance s st1) := by
  conv => lhs; unfold parseBlockLoop
  simp [bind_apply, h0, h1, h2, h]

theorem parseStatement_ret {f : Nat} {st : PState} (h : st.cur.type = .RETURN) :
    parseStatement s (f + 1) st = parseReturnStatement s f st := by
  conv => lhs; unfold parseStatement
  simp [bind_apply, h]

theorem parseReturnStatement_bare {f : Nat} {st : PState}
    (h : st.peek.type = .SEMICOLON ∨ st.peek.type = .RBRACE ∨ st.peek.type = .EOF ∨ st.peek.type = .EOL) :
    parseReturnStatement s (f + 1) st = .ok (some (.ret st.cur.tk none), st) := by
  unfold parseReturnStatement
  rcases h with h | h | h | h <;> simp [bind_apply, h]

theorem parseReturnStatement_value {f : Nat} {st st1 : PState} {v : ONode}
    (h0 : st.peek.type ≠ .SEMICOLON ∧ st.peek.type ≠ .RBRACE ∧ st.peek.type ≠ .EOF ∧ st.peek.type ≠ .EOL)
    (h : parseExpression s f prioLOWEST (advance s st) = .ok (v, st1)) (hp : st1.peek.type ≠ .SEMICOLON) :
    parseReturnStatement s (f + 1) st = .ok (some (.ret st.cur.tk v), st1) := by
  unfold parseReturnStatement
  simp [bind_apply, h0.1, h0.2.1, h0.2.2.1, h0.2.2.2, h, hp]

/-! ### function literals, `for`, `if` -/

theorem parseFunctionParametersLoop_stop {f : Nat} {st : PState} {acc : NList} (h : st.peek.type ≠ .COMMA) :
    parseFunctionParametersLoop s (f + 1) acc st = .ok (acc, st) := by
  unfold parseFunctionParametersLoop
  simp [bind_apply, h]

theorem parameter_ok {st : PState} : parameter s st = .ok (some (.ident st.cur.tk), st) := by
  unfold parameter
  simp [bind_apply]

theorem parseFunctionParametersLoop_step {f : Nat} {st : PState} {acc : NList} (h : st.peek.type = .COMMA) :
    parseFunctionParametersLoop s (f + 1) acc st =
      parseFunctionParametersLoop s f (acc ++ [some (.ident (advance s (advance s st)).cur.tk)]) (advance s (advance s st)) := by
  conv => lhs; unfold parseFunctionParametersLoop
  simp [bind_apply, h, parameter_ok]

theorem parseFunctionParameters_empty {f : Nat} {st : PState} (h : st.peek.type = .RPAREN) :
    parseFunctionParameters s f st = .ok (([], false), advance s st) := by
  unfold parseFunctionParameters
  simp [bind_apply, h]

/-- the list passes `okParamList` (identifiers, the last one may be `..`): the parameters and the variadic flag -/
theorem parseFunctionParameters_ok {f : Nat} {st st1 : PState} {ids : NList} {t : Option Tk} (h0 : st.peek.type ≠ .RPAREN)
    (h : parseFunctionParametersLoop s f [some (.ident st.peek.tk)] (advance s st) = .ok (ids, st1))
    (hp : st1.peek.type = .RPAREN) (hk : okParamList ids = some (t, true)) :
    parseFunctionParameters s f st = .ok ((ids, t.isSome), advance s st1) := by
  unfold parseFunctionParameters
  simp [bind_apply, h0, parameter_ok, h, expectPeek_ok hp, hk]

theorem parseFunctionLiteral_anon {f : Nat} {st st1 st2 : PState} {params : NList} {variadic : Bool} {body : Stmts}
    (h0 : st.peek.type = .LPAREN) (h1 : parseFunctionParameters s f (advance s st) = .ok ((params, variadic), st1))
    (h2 : st1.peek.type = .LBRACE) (h3 : parseBlockStatement s f (advance s st1) = .ok (body, st2)) (h4 : st2.cont = false) :
    parseFunctionLiteral s (f + 1) st = .ok (some (.func st.cur.tk none params body variadic false), st2) := by
  unfold parseFunctionLiteral
  have hn : st.peek.type ≠ .IDENT := by rw [h0]; decide
  simp [bind_apply, hn, expectPeek_ok h0, h1, expectPeek_ok h2, h3, h4]

theorem parseFunctionLiteral_named {f : Nat} {st st1 st2 : PState} {params : NList} {variadic : Bool} {body : Stmts}
    (hn : st.peek.type = .IDENT) (h0 : (advance s st).peek.type = .LPAREN)
    (h1 : parseFunctionParameters s f (advance s (advance s st)) = .ok ((params, variadic), st1))
    (h2 : st1.peek.type = .LBRACE) (h3 : parseBlockStatement s f (advance s st1) = .ok (body, st2)) (h4 : st2.cont = false) :
    parseFunctionLiteral s (f + 1) st = .ok (some (.func st.cur.tk (some st.peek.tk) params body variadic false), st2) := by
  unfold parseFunctionLiteral
  simp [bind_apply, hn, expectPeek_ok h0, h1, expectPeek_ok h2, h3, h4]

theorem parseForExpression_ok {f : Nat} {st st1 st2 : PState} {cond : ONode} {body : Stmts}
    (h1 : parseExpression s f prioLOWEST (advance s st) = .ok (cond, st1)) (h2 : st1.peek.type = .LBRACE)
    (h3 : parseBlockStatement s f (advance s st1) = .ok (body, st2)) (h4 : st2.cont = false) :
    parseForExpression s (f + 1) st = .ok (some (.forE st.cur.tk cond body), st2) := by
  unfold parseForExpression
  simp [bind_apply, h1, expectPeek_ok h2, h3, h4]

theorem parseIfExpression_noelse {f : Nat} {st st1 st2 : PState} {cond : ONode} {cons : Stmts}
    (h1 : parseExpression s f prioLOWEST (advance s st) = .ok (cond, st1)) (h2 : st1.peek.type = .LBRACE)
    (h3 : parseBlockStatement s f (advance s st1) = .ok (cons, st2)) (h4 : st2.cont = false) (h5 : st2.peek.type ≠ .ELSE) :
    parseIfExpression s (f + 1) st = .ok (some (.ifE st.cur.tk cond cons none), st2) := by
  unfold parseIfExpression
  simp [bind_apply, h1, expectPeek_ok h2, h3, h4, h5]

theorem parseIfExpression_else {f : Nat} {st st1 st2 st3 : PState} {cond : ONode} {cons alt : Stmts}
    (h1 : parseExpression s f prioLOWEST (advance s st) = .ok (cond, st1)) (h2 : st1.peek.type = .LBRACE)
    (h3 : parseBlockStatement s f (advance s st1) = .ok (cons, st2)) (h4 : st2.cont = false) (h5 : st2.peek.type = .ELSE)
    (h6 : (advance s st2).peek.type = .LBRACE) (h7 : parseBlockStatement s f (advance s (advance s st2)) = .ok (alt, st3))
    (h8 : st3.cont = false) :
    parseIfExpression s (f + 1) st = .ok (some (.ifE st.cur.tk cond cons alt), st3) := by
  conv => lhs; unfold parseIfExpression
  have hn : (advance s st2).peek.type ≠ .IF := by rw [h6]; decide
  simp [bind_apply, h1, expectPeek_ok h2, h3, h4, h5, hn, expectPeek_ok h6, h7, h8]

theorem parseIfExpression_elseif {f : Nat} {st st1 st2 st3 : PState} {cond altN : ONode} {cons : Stmts}
    (h1 : parseExpression s f prioLOWEST (advance s st) = .ok (cond, st1)) (h2 : st1.peek.type = .LBRACE)
    (h3 : parseBlockStatement s f (advance s st1) = .ok (cons, st2)) (h4 : st2.cont = false) (h5 : st2.peek.type = .ELSE)
    (h6 : (advance s st2).peek.type = .IF) (h7 : parseIfExpression s f (advance s (advance s st2)) = .ok (altN, st3)) :
    parseIfExpression s (f + 1) st = .ok (some (.ifE st.cur.tk cond cons (some [altN])), st3) := by
  conv => lhs; unfold parseIfExpression
  simp [bind_apply, h1, expectPeek_ok h2, h3, h4, h5, h6, h7]

/-! ### macros, map literals, lambdas -/

@[simp] theorem pd_macro (f : Nat) : prefixDispatch s (f + 1) .parseMacroLiteral = parseMacroLiteral s f := rfl
@[simp] theorem pd_map (f : Nat) : prefixDispatch s (f + 1) .parseMapLiteral = parseMapLiteral s f := rfl
@[simp] theorem id_lambda (f : Nat) (l : ONode) : infixDispatch s (f + 1) .parseLambdaExpression l = parseLambdaMulti s f l [] := rfl

theorem parseMacroLiteral_ok {f : Nat} {st st1 st2 : PState} {params : NList} {variadic : Bool} {body : Stmts}
    (h0 : st.peek.type = .LPAREN) (h1 : parseFunctionParameters s f (advance s st) = .ok ((params, variadic), st1))
    (h2 : st1.peek.type = .LBRACE) (h3 : parseBlockStatement s f (advance s st1) = .ok (body, st2)) (h4 : st2.cont = false) :
    parseMacroLiteral s (f + 1) st = .ok (some (.macroLit st.cur.tk params body), st2) := by
  unfold parseMacroLiteral
  simp [bind_apply, expectPeek_ok h0, h1, expectPeek_ok h2, h3, h4]

theorem parseMapLiteral_eq (f : Nat) (st : PState) : parseMapLiteral s (f + 1) st = parseMapLoop s f st.cur.tk [] st := by
  conv => lhs; unfold parseMapLiteral
  simp [bind_apply]

theorem parseMapLoop_close {f : Nat} {st : PState} {tok : Tk} {kvs : NList} (h : st.peek.type = .RBRACE) :
    parseMapLoop s (f + 1) tok kvs st = .ok (some (.mapLit tok kvs), advance s st) := by
  unfold parseMapLoop
  simp [bind_apply, h, expectPeek_ok h]

theorem parseMapLoop_comma {f : Nat} {st st1 : PState} {tok t : Tk} {kvs : NList} {k : Node} {v : ONode}
    (h0 : st.peek.type ≠ .RBRACE) (hc : st.cont = false)
    (h1 : parseExpression s f prioLOWEST (advance s st) = .ok (some (.infix t (some k) v), st1)) (ht : t.type = .COLON)
    (h2 : st1.peek.type = .COMMA) :
    parseMapLoop s (f + 1) tok kvs st = parseMapLoop s f tok (kvs ++ [some k, v]) (advance s st1) := by
  conv => lhs; unfold parseMapLoop
  have hn : st1.peek.type ≠ .RBRACE := by rw [h2]; decide
  simp [bind_apply, h0, hc, h1, ht, hn, expectPeek_ok h2, mapInsert]

theorem parseMapLoop_last {f : Nat} {st st1 : PState} {tok t : Tk} {kvs : NList} {k : Node} {v : ONode}
    (h0 : st.peek.type ≠ .RBRACE) (hc : st.cont = false)
    (h1 : parseExpression s f prioLOWEST (advance s st) = .ok (some (.infix t (some k) v), st1)) (ht : t.type = .COLON)
    (h2 : st1.peek.type = .RBRACE) :
    parseMapLoop s (f + 1) tok kvs st = parseMapLoop s f tok (kvs ++ [some k, v]) st1 := by
  conv => lhs; unfold parseMapLoop
  simp [bind_apply, h0, hc, h1, ht, h2, mapInsert]

/-- `parseExpression` when the prefix expression is followed by `=>` at a level other than LAMBDA: the loop takes it -/
theorem pE_step' {f P : Nat} {st st1 : PState} {fn : PrefixFn} {l : ONode}
    (h1 : st.cur.type ≠ .EOL) (h2 : lookup prefixRegs st.cur.type = some fn)
    (h3 : prefixDispatch s f fn st = .ok (l, st1)) (h4 : ¬ (st1.peek.type = .LAMBDA ∧ P = prioLAMBDA)) :
    parseExpression s (f + 1) P st = parseExpressionLoop s f P l st1 := by
  conv => lhs; unfold parseExpression
  simp [bind_apply, h1, h2, h3, h4]

/-- … and at level LAMBDA: the lambda is built directly -/
theorem pE_lambda5 {f : Nat} {st st1 : PState} {fn : PrefixFn} {l : ONode}
    (h1 : st.cur.type ≠ .EOL) (h2 : lookup prefixRegs st.cur.type = some fn)
    (h3 : prefixDispatch s f fn st = .ok (l, st1)) (h4 : st1.peek.type = .LAMBDA) :
    parseExpression s (f + 1) prioLAMBDA st = parseLambdaMulti s f l [] (advance s st1) := by
  conv => lhs; unfold parseExpression
  simp [bind_apply, h1, h2, h3, h4]

/-- `()` of `() => …`: no expression, no error -/
theorem pE_empty_parens {f P : Nat} {st : PState} (h1 : st.cur.type ≠ .EOL) (h2 : lookup prefixRegs st.cur.type = none)
    (h3 : st.peek.type = .LAMBDA) : parseExpression s (f + 1) P st = .ok (none, st) := by
  unfold parseExpression
  simp [bind_apply, h1, h2, h3]

theorem parseGroupedExpression_lambda0 {f : Nat} {st st1 : PState} {e : ONode}
    (h : parseExpression s f prioLOWEST (advance s st) = .ok (e, st1)) (hp : st1.peek.type = .LAMBDA) :
    parseGroupedExpression s (f + 1) st = parseLambdaMulti s f e [] (advance s st1) := by
  conv => lhs; unfold parseGroupedExpression
  simp [bind_apply, h, hp]

theorem parseGroupedExpression_lambdaN {f : Nat} {st st1 st2 : PState} {e : ONode} {el : NList}
    (h : parseExpression s f prioLOWEST (advance s st) = .ok (e, st1)) (hp : st1.peek.type = .COMMA)
    (h2 : parseExpressionList s f .RPAREN (advance s st1) = .ok (some el, st2)) (hp2 : st2.peek.type = .LAMBDA) :
    parseGroupedExpression s (f + 1) st = parseLambdaMulti s f e el (advance s st2) := by
  conv => lhs; unfold parseGroupedExpression
  have hn : st1.peek.type ≠ .LAMBDA := by rw [hp]; decide
  simp [bind_apply, h, hn, hp, h2, expectPeek_ok hp2]

theorem parseLambdaMulti_some {f : Nat} {st st2 : PState} {l : Node} {more : NList} {t : Option Tk} {body : Stmts}
    (hok : okParamList (some l :: more) = some (t, true))
    (h2 : st.peek.type = .LBRACE) (h3 : parseBlockStatement s f (advance s st) = .ok (body, st2)) (h4 : st2.cont = false) :
    parseLambdaMulti s (f + 1) (some l) more st = .ok (some (.func st.cur.tk none (some l :: more) body t.isSome true), st2) := by
  unfold parseLambdaMulti
  simp [bind_apply, hok, h2, h3, h4]

theorem parseLambdaMulti_none {f : Nat} {st st2 : PState} {more : NList} {t : Option Tk} {body : Stmts}
    (hok : okParamList more = some (t, true))
    (h2 : st.peek.type = .LBRACE) (h3 : parseBlockStatement s f (advance s st) = .ok (body, st2)) (h4 : st2.cont = false) :
    parseLambdaMulti s (f + 1) none more st = .ok (some (.func st.cur.tk none more body t.isSome true), st2) := by
  unfold parseLambdaMulti
  simp [bind_apply, hok, h2, h3, h4]

end Grol.RT

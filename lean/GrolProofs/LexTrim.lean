import Grol.Lexer
import Grol.LexSuite
/-
C16 lemmas, part 5: the model of `strings.TrimSpace` used by `readLineComment` (`trimSpaceRight`,
a loop that strips space runes from the right, modelled on Go's `TrimRightFunc` with
`DecodeLastRune`) against the statement's decoder `LexSuite.isTrimOf` (prefix + forward parse of
the removed text into space runes + "does not end in a space rune").
-/
namespace Grol.Lexer
open Grol.Token Grol.LexSuite

/-- the 25 encodings, written out -/
theorem spaceSeqs_eq : spaceSeqs =
    [[9], [10], [11], [12], [13], [32], [0xC2, 0x85], [0xC2, 0xA0], [0xE1, 0x9A, 0x80],
     [0xE2, 0x80, 0x80], [0xE2, 0x80, 0x81], [0xE2, 0x80, 0x82], [0xE2, 0x80, 0x83], [0xE2, 0x80, 0x84],
     [0xE2, 0x80, 0x85], [0xE2, 0x80, 0x86], [0xE2, 0x80, 0x87], [0xE2, 0x80, 0x88], [0xE2, 0x80, 0x89],
     [0xE2, 0x80, 0x8A], [0xE2, 0x80, 0xA8], [0xE2, 0x80, 0xA9], [0xE2, 0x80, 0xAF], [0xE2, 0x81, 0x9F],
     [0xE3, 0x80, 0x80]] := by decide

/-- a space rune at the end is recognised with its length -/
theorem tsl_of_seq : ∀ q ∈ spaceSeqs, ∀ tail : Bytes, trailingSpaceLen (q.reverse ++ tail) = q.length := by
  intro q hq tail
  rw [spaceSeqs_eq] at hq
  simp only [List.mem_cons, List.not_mem_nil, or_false] at hq
  rcases hq with rfl | rfl | rfl | rfl | rfl | rfl | rfl | rfl | rfl | rfl | rfl | rfl | rfl | rfl | rfl | rfl | rfl
    | rfl | rfl | rfl | rfl | rfl | rfl | rfl | rfl <;> rfl

theorem seq_ne_nil : ∀ q ∈ spaceSeqs, q ≠ [] := by decide
theorem seq_head_ne_slash : ∀ q ∈ spaceSeqs, q.head? ≠ some 47 := by decide

theorem seq_range : ∀ n, n < 256 → ((0x80 : UInt8) ≤ UInt8.ofNat n && UInt8.ofNat n ≤ 0x8A) = true →
    [0xE2, 0x80, UInt8.ofNat n] ∈ spaceSeqs := by decide +kernel

/-- what `trailingSpaceLen` answers: 0, or the length of a space rune the text ends with -/
theorem tsl_spec (rev : Bytes) :
    trailingSpaceLen rev = 0 ∨ ∃ q ∈ spaceSeqs, ∃ tail, rev = q.reverse ++ tail := by
  unfold trailingSpaceLen
  split
  · exact Or.inl rfl
  · rename_i c rest
    split
    · rename_i h
      right
      simp only [Bool.or_eq_true, beq_iff_eq] at h
      rcases h with ((((h | h) | h) | h) | h) | h <;> subst h
      · exact ⟨[9], by decide, rest, rfl⟩
      · exact ⟨[10], by decide, rest, rfl⟩
      · exact ⟨[11], by decide, rest, rfl⟩
      · exact ⟨[12], by decide, rest, rfl⟩
      · exact ⟨[13], by decide, rest, rfl⟩
      · exact ⟨[32], by decide, rest, rfl⟩
    · split
      · rename_i t
        split
        · rename_i h
          right
          simp only [Bool.or_eq_true, beq_iff_eq] at h
          rcases h with h | h <;> subst h
          · exact ⟨[0xC2, 0x85], by decide, t, rfl⟩
          · exact ⟨[0xC2, 0xA0], by decide, t, rfl⟩
        · exact Or.inl rfl
      · rename_i t
        split
        · rename_i h
          right
          have h := beq_iff_eq.mp h; subst h
          exact ⟨[0xE1, 0x9A, 0x80], by decide, t, rfl⟩
        · exact Or.inl rfl
      · rename_i t
        split
        · rename_i h
          right
          simp only [Bool.or_eq_true, beq_iff_eq] at h
          rcases h with ((h | h) | h) | h
          · have := seq_range c.toNat c.toNat_lt (by rw [UInt8.ofNat_toNat]; exact h)
            rw [UInt8.ofNat_toNat] at this
            exact ⟨_, this, t, rfl⟩
          · subst h; exact ⟨[0xE2, 0x80, 0xA8], by decide, t, rfl⟩
          · subst h; exact ⟨[0xE2, 0x80, 0xA9], by decide, t, rfl⟩
          · subst h; exact ⟨[0xE2, 0x80, 0xAF], by decide, t, rfl⟩
        · exact Or.inl rfl
      · rename_i t
        split
        · rename_i h
          right
          have h := beq_iff_eq.mp h; subst h
          exact ⟨[0xE2, 0x81, 0x9F], by decide, t, rfl⟩
        · exact Or.inl rfl
      · rename_i t
        split
        · rename_i h
          right
          have h := beq_iff_eq.mp h; subst h
          exact ⟨[0xE3, 0x80, 0x80], by decide, t, rfl⟩
        · exact Or.inl rfl
      · exact Or.inl rfl

/-- a text that is a concatenation of space runes -/
inductive Spaces : Bytes → Prop
  | nil : Spaces []
  | cons (q : Bytes) (l : Bytes) : q ∈ spaceSeqs → Spaces l → Spaces (q ++ l)

theorem Spaces.append {l1 l2 : Bytes} (h1 : Spaces l1) (h2 : Spaces l2) : Spaces (l1 ++ l2) := by
  induction h1 with
  | nil => exact h2
  | cons q l hq _ ih => rw [List.append_assoc]; exact Spaces.cons q _ hq ih

theorem Spaces.single {q : Bytes} (hq : q ∈ spaceSeqs) : Spaces q := by
  have := Spaces.cons q [] hq Spaces.nil
  rwa [List.append_nil] at this

/-- the statement's forward parser accepts every concatenation of space runes -/
theorem allSpaces_of_spaces {l : Bytes} (h : Spaces l) : ∀ F, l.length ≤ F → allSpaces F l = true := by
  induction h with
  | nil => intro F _; cases F <;> rfl
  | cons q l hq _ ih =>
    intro F hF
    have hne := seq_ne_nil q hq
    have hlen : 1 ≤ q.length := by
      cases q with
      | nil => exact absurd rfl hne
      | cons a t => simp
    rw [List.length_append] at hF
    obtain ⟨F', rfl⟩ : ∃ k, F = k + 1 := ⟨F - 1, by omega⟩
    have hnn : q ++ l ≠ [] := by
      intro h; exact hne (List.append_eq_nil_iff.mp h).1
    obtain ⟨a, t, hat⟩ : ∃ a t, q ++ l = a :: t := by
      cases hql : q ++ l with
      | nil => exact absurd hql hnn
      | cons a t => exact ⟨a, t, rfl⟩
    rw [hat]
    show (spaceSeqs.any fun q' => q'.isPrefixOf (a :: t) && allSpaces F' ((a :: t).drop q'.length)) = true
    rw [← hat, List.any_eq_true]
    refine ⟨q, hq, ?_⟩
    simp only [Bool.and_eq_true]
    refine ⟨List.isPrefixOf_iff_prefix.mpr (List.prefix_append q l), ?_⟩
    rw [List.drop_left]
    exact ih F' (by omega)

/-- the loop of `trimSpaceRight`: it removes a concatenation of space runes and stops where the
text no longer ends in one -/
theorem trimRightLoop_spec : ∀ fuel (rev : Bytes), rev.length ≤ fuel →
    ∃ pre, Spaces pre.reverse ∧ rev = pre ++ trimRightLoop fuel rev ∧ trailingSpaceLen (trimRightLoop fuel rev) = 0 := by
  intro fuel
  induction fuel with
  | zero =>
    intro rev h
    have : rev = [] := List.eq_nil_of_length_eq_zero (by omega)
    subst this
    exact ⟨[], Spaces.nil, rfl, rfl⟩
  | succ f ih =>
    intro rev h
    unfold trimRightLoop
    simp only []
    by_cases hk : (trailingSpaceLen rev == 0) = true
    · simp only [hk, ↓reduceIte]
      exact ⟨[], Spaces.nil, rfl, by simpa using hk⟩
    · simp only [hk, Bool.false_eq_true, ↓reduceIte]
      have hk0 : trailingSpaceLen rev ≠ 0 := by simpa using hk
      rcases tsl_spec rev with h0 | ⟨q, hq, tail, hrev⟩
      · exact absurd h0 hk0
      · have hlen := tsl_of_seq q hq tail
        rw [← hrev] at hlen
        have hne := seq_ne_nil q hq
        have hql : 1 ≤ q.length := by
          cases q with
          | nil => exact absurd rfl hne
          | cons a t => simp
        have hdrop : rev.drop (trailingSpaceLen rev) = tail := by
          rw [hlen, hrev]; exact List.drop_left' (by simp)
        rw [hdrop]
        obtain ⟨pre, hs, he, ht⟩ := ih tail (by rw [hrev] at h; simp at h; omega)
        refine ⟨q.reverse ++ pre, ?_, ?_, ht⟩
        · rw [List.reverse_append, List.reverse_reverse]
          exact hs.append (Spaces.single hq)
        · rw [List.append_assoc, ← he]; exact hrev

/-- `trimSpaceRight b` is `b` without a final run of space runes, and does not end in one -/
theorem trimSpaceRight_spec (b : Bytes) :
    ∃ suf, Spaces suf ∧ b = trimSpaceRight b ++ suf ∧ trailingSpaceLen (trimSpaceRight b).reverse = 0 := by
  obtain ⟨pre, hs, he, ht⟩ := trimRightLoop_spec b.length b.reverse (by simp)
  refine ⟨pre.reverse, hs, ?_, ?_⟩
  · unfold trimSpaceRight
    have := congrArg List.reverse he
    rw [List.reverse_reverse, List.reverse_append] at this
    exact this
  · unfold trimSpaceRight
    rw [List.reverse_reverse]; exact ht

/-- **`trimSpaceRight` against the statement's decoder**: the literal the model computes for a
line comment passes `LexSuite.isTrimOf` -/
theorem isTrimOf_trimSpaceRight (b : Bytes) : isTrimOf (trimSpaceRight b) b = true := by
  obtain ⟨suf, hs, he, ht⟩ := trimSpaceRight_spec b
  unfold isTrimOf
  simp only [Bool.and_eq_true, Bool.not_eq_eq_eq_not, Bool.not_true]
  refine ⟨⟨?_, ?_⟩, ?_⟩
  · rw [List.isPrefixOf_iff_prefix]
    exact ⟨suf, he.symm⟩
  · have hd : (trimSpaceRight b ++ suf).drop (trimSpaceRight b).length = suf := List.drop_left
    rw [← he] at hd
    rw [hd]
    exact allSpaces_of_spaces hs _ (by rw [he]; simp)
  · unfold endsWithSpace
    apply Bool.eq_false_iff.mpr
    intro h
    rw [List.any_eq_true] at h
    obtain ⟨q, hq, hsuf⟩ := h
    rw [List.isSuffixOf_iff_suffix] at hsuf
    obtain ⟨t, ht'⟩ := List.reverse_prefix.mpr hsuf
    have := tsl_of_seq q hq t
    rw [ht', ht] at this
    have hne := seq_ne_nil q hq
    cases q with
    | nil => exact hne rfl
    | cons a r => simp at this


/-! ### … and conversely: `isTrimOf` determines the literal -/

theorem spaces_of_allSpaces : ∀ F (l : Bytes), allSpaces F l = true → Spaces l := by
  intro F
  induction F with
  | zero =>
    intro l h
    cases l with
    | nil => exact Spaces.nil
    | cons a t => cases h
  | succ F ih =>
    intro l h
    cases l with
    | nil => exact Spaces.nil
    | cons a t =>
      have h' : (spaceSeqs.any fun q' => q'.isPrefixOf (a :: t) && allSpaces F ((a :: t).drop q'.length)) = true := h
      rw [List.any_eq_true] at h'
      obtain ⟨q, hq, hp⟩ := h'
      simp only [Bool.and_eq_true] at hp
      have hpre := List.isPrefixOf_iff_prefix.mp hp.1
      have := List.prefix_iff_eq_append.mp hpre
      rw [← this]
      exact Spaces.cons q _ hq (ih _ hp.2)

theorem Spaces.snoc {suf : Bytes} (h : Spaces suf) :
    suf = [] ∨ ∃ l q, suf = l ++ q ∧ q ∈ spaceSeqs ∧ Spaces l := by
  induction h with
  | nil => exact Or.inl rfl
  | cons q l hq hl ih =>
    right
    rcases ih with rfl | ⟨l', q', rfl, hq', hl'⟩
    · exact ⟨[], q, by simp, hq, Spaces.nil⟩
    · exact ⟨q ++ l', q', by simp, hq', Spaces.cons q l' hq hl'⟩

theorem trimRightLoop_strip : ∀ fuel (suf r : Bytes), Spaces suf → suf.length ≤ fuel → trailingSpaceLen r = 0 →
    trimRightLoop fuel (suf.reverse ++ r) = r := by
  intro fuel
  induction fuel with
  | zero =>
    intro suf r _ hl _
    have : suf = [] := List.eq_nil_of_length_eq_zero (by omega)
    subst this; rfl
  | succ f ih =>
    intro suf r hs hl hr
    rcases hs.snoc with rfl | ⟨l, q, rfl, hq, hl'⟩
    · unfold trimRightLoop
      simp only [List.reverse_nil, List.nil_append, hr, beq_self_eq_true, ↓reduceIte]
    · have hne := seq_ne_nil q hq
      have hql : 1 ≤ q.length := by
        cases q with
        | nil => exact absurd rfl hne
        | cons a t => simp
      have e : (l ++ q).reverse ++ r = q.reverse ++ (l.reverse ++ r) := by simp
      have ht := tsl_of_seq q hq (l.reverse ++ r)
      unfold trimRightLoop
      simp only [e, ht]
      have : (q.length == 0) = false := by simp; omega
      simp only [this, Bool.false_eq_true, ↓reduceIte]
      rw [List.drop_left' (by simp)]
      exact ih l r hl' (by simp at hl; omega) hr

/-- **`isTrimOf` is exactly the model's `TrimSpace`**: a literal passes the statement's check on a
span iff it is what the model computes from that span -/
theorem isTrimOf_iff (lit b : Bytes) : isTrimOf lit b = true ↔ lit = trimSpaceRight b := by
  constructor
  · intro h
    unfold isTrimOf at h
    simp only [Bool.and_eq_true, Bool.not_eq_eq_eq_not, Bool.not_true] at h
    obtain ⟨⟨hp, ha⟩, he⟩ := h
    have hb := List.prefix_iff_eq_append.mp (List.isPrefixOf_iff_prefix.mp hp)
    have hs := spaces_of_allSpaces _ _ ha
    have hr : trailingSpaceLen lit.reverse = 0 := by
      rcases tsl_spec lit.reverse with h0 | ⟨q, hq, tail, hrev⟩
      · exact h0
      · exfalso
        have : q <:+ lit := List.reverse_prefix.mp ⟨tail, hrev.symm⟩
        have : endsWithSpace lit = true := by
          unfold endsWithSpace
          rw [List.any_eq_true]
          exact ⟨q, hq, List.isSuffixOf_iff_suffix.mpr this⟩
        rw [this] at he; cases he
    unfold trimSpaceRight
    have e : b.reverse = (b.drop lit.length).reverse ++ lit.reverse := by
      conv => lhs; rw [← hb]
      rw [List.reverse_append]
    rw [e, trimRightLoop_strip _ _ _ hs (by simp) hr, List.reverse_reverse]
  · intro h; rw [h]; exact isTrimOf_trimSpaceRight b

end Grol.Lexer

import GrolProofs.EnvRun
/-
The environment layer of the evaluator model (lean/Grol/Eval/Env.lean = object/state.go):
what `Get` may change (references and miss counters, never a value), and the constant check
of `CreateOrSet`.  Used by C19 and C06.
-/
namespace Grol.E

/-! ### stores -/

theorem lookupStore_setStore_eq (s : List (String × Obj)) (n : String) (v : Obj) :
    lookupStore (setStore s n v) n = some v := by
  induction s with
  | nil => simp [setStore, lookupStore]
  | cons kv rest ih =>
    obtain ⟨k, w⟩ := kv
    unfold setStore
    by_cases h : (k == n) = true
    · simp only [h, if_true]; unfold lookupStore; simp [h]
    · simp only [h]; unfold lookupStore; simp [h, ih]

theorem lookupStore_setStore_ne (s : List (String × Obj)) (n m : String) (v : Obj) (h : m ≠ n) :
    lookupStore (setStore s n v) m = lookupStore s m := by
  induction s with
  | nil =>
    have : (n == m) = false := by simp [Ne.symm h]
    simp [setStore, lookupStore, this]
  | cons kv rest ih =>
    obtain ⟨k, w⟩ := kv
    unfold setStore
    by_cases hk : (k == n) = true
    · have hkn : k = n := by simpa using hk
      have : (k == m) = false := by simp [hkn, Ne.symm h]
      simp only [hk, if_true]; unfold lookupStore; simp [this]
    · simp only [hk]; unfold lookupStore
      by_cases hm : (k == m) = true
      · simp [hm]
      · simp [hm, ih]

theorem lookupStore_cons (k : String) (v : Obj) (rest : List (String × Obj)) (m : String) :
    lookupStore ((k, v) :: rest) m = if k == m then some v else lookupStore rest m := by
  rw [lookupStore]

theorem delStore_cons (k : String) (v : Obj) (rest : List (String × Obj)) (n : String) :
    delStore ((k, v) :: rest) n = if k != n then (k, v) :: delStore rest n else delStore rest n := by
  simp only [delStore, List.filter_cons]

theorem lookupStore_delStore_ne (s : List (String × Obj)) (n m : String) (h : m ≠ n) :
    lookupStore (delStore s n) m = lookupStore s m := by
  induction s with
  | nil => rfl
  | cons kv rest ih =>
    obtain ⟨k, w⟩ := kv
    rw [delStore_cons, lookupStore_cons]
    by_cases hk : k = n
    · have hkm : (k == m) = false := by simp [hk, Ne.symm h]
      simp [hk, hkm, ih]
      intro hnm; exact absurd hnm.symm h
    · have hne : (k != n) = true := by simp [hk]
      simp only [hne, if_true, lookupStore_cons, ih]

theorem lookupStore_delStore_self (s : List (String × Obj)) (n : String) :
    lookupStore (delStore s n) n = none := by
  induction s with
  | nil => rfl
  | cons kv rest ih =>
    obtain ⟨k, w⟩ := kv
    rw [delStore_cons]
    by_cases hk : k = n
    · simp [hk, ih]
    · have hne : (k != n) = true := by simp [hk]
      have hkn : (k == n) = false := by simp [hk]
      simp only [hne, if_true, lookupStore_cons, hkn, ih]
      simp

/-! ### values held by frames -/

/-- the VALUE a store binds to a name: reference entries (caches of an outer binding) do not count -/
def lookupVal (store : List (String × Obj)) (name : String) : Option Obj :=
  match lookupStore store name with
  | some (.ref ..) => none
  | r => r

def frameVal (st : St) (e : Nat) (name : String) : Option Obj :=
  match st.frames[e]? with
  | some f => lookupVal f.store name
  | none => none

/-- `st'` differs from `st` at most by reference entries and counters (miss counters, `numSet`,
`cantCache`): same frames, same value bound to every name in every frame, same scope chain -/
structure SameValues (st st' : St) : Prop where
  size : st'.frames.size = st.frames.size
  vals : ∀ e name, frameVal st' e name = frameVal st e name
  outer : ∀ e : Nat, (st'.frames[e]?).map Frame.outer = (st.frames[e]?).map Frame.outer
  cfg : st'.cfg = st.cfg
  cur : st'.cur = st.cur
  root : st'.root = st.root
  ext : st'.extNames = st.extNames

theorem SameValues.refl (st : St) : SameValues st st :=
  ⟨rfl, fun _ _ => rfl, fun _ => rfl, rfl, rfl, rfl, rfl⟩

theorem SameValues.trans {a b c : St} (h1 : SameValues a b) (h2 : SameValues b c) : SameValues a c :=
  ⟨h2.size.trans h1.size, fun e n => (h2.vals e n).trans (h1.vals e n), fun e => (h2.outer e).trans (h1.outer e),
   h2.cfg.trans h1.cfg, h2.cur.trans h1.cur, h2.root.trans h1.root, h2.ext.trans h1.ext⟩

/-- replacing one frame by one that binds the same values and has the same parent -/
theorem sameValues_setFrame (st : St) (e : Nat) (f f' : Frame) (h : st.frames[e]? = some f)
    (hv : ∀ name, lookupVal f'.store name = lookupVal f.store name) (ho : f'.outer = f.outer) :
    SameValues st { st with frames := st.frames.setIfInBounds e f' } := by
  obtain ⟨hlt, hfe⟩ := Array.getElem?_eq_some_iff.mp h
  refine ⟨Array.size_setIfInBounds, ?_, ?_, rfl, rfl, rfl, rfl⟩
  · intro e' name
    unfold frameVal
    simp only [Array.getElem?_setIfInBounds]
    by_cases he : e = e'
    · subst he; simp [hlt, hv, hfe]
    · simp [he]
  · intro e'
    simp only [Array.getElem?_setIfInBounds]
    by_cases he : e = e'
    · subst he; simp [hlt, ho, hfe]
    · simp [he]

theorem lookupVal_setStore_ref (s : List (String × Obj)) (n : String) (re : Nat) (rn : String) (m : String)
    (hn : lookupVal s n = none) : lookupVal (setStore s n (.ref re rn)) m = lookupVal s m := by
  unfold lookupVal at *
  by_cases h : m = n
  · subst h; rw [lookupStore_setStore_eq]; simp only; exact hn.symm
  · rw [lookupStore_setStore_ne _ _ _ _ h]

theorem lookupVal_delStore_ref (s : List (String × Obj)) (n m : String)
    (hn : lookupVal s n = none) : lookupVal (delStore s n) m = lookupVal s m := by
  unfold lookupVal at *
  by_cases h : m = n
  · subst h; rw [lookupStore_delStore_self]; simp only; exact hn.symm
  · rw [lookupStore_delStore_ne _ _ _ h]

/-! ### `Get` changes no value -/

theorem sv_bind {x : M α} {f : α → M β} {st : St}
    (hx : SameValues st (run x st).2)
    (hf : ∀ a st1, run x st = (.ok a, st1) → SameValues st1 (run (f a) st1).2) :
    SameValues st (run (x >>= f) st).2 := by
  rw [run_bind]
  split
  next a st1 h => rw [h] at hx; exact hx.trans (hf a st1 h)
  next e st1 h => rw [h] at hx; exact hx

theorem sv_bind_ro {x : M α} {f : α → M β} {st : St} (hx : ReadOnly x)
    (hf : ∀ a, run x st = (.ok a, st) → SameValues st (run (f a) st).2) :
    SameValues st (run (x >>= f) st).2 := by
  refine sv_bind (by rw [hx st]; exact SameValues.refl _) ?_
  intro a st1 h
  have h2 := hx st
  rw [h] at h2; simp only at h2; subst h2
  exact hf a h

theorem sv_pure (a : α) (st : St) : SameValues st (run (pure a : M α) st).2 := SameValues.refl _

theorem sv_modifyFrame (e : Nat) (g : Frame → Frame) (st : St)
    (hg : ∀ f, st.frames[e]? = some f →
      (∀ name, lookupVal (g f).store name = lookupVal f.store name) ∧ (g f).outer = f.outer) :
    SameValues st (run (modifyFrame e g) st).2 := by
  rw [run_modifyFrame]
  cases h : st.frames[e]? with
  | none => exact SameValues.refl _
  | some f => exact sameValues_setFrame st e f (g f) h (hg f h).1 (hg f h).2

theorem run_getFrame_ok {e : Nat} {st st1 : St} {f : Frame} (h : run (getFrame e) st = (.ok f, st1)) :
    st.frames[e]? = some f ∧ st1 = st := by
  rw [run_getFrame] at h
  cases hf : st.frames[e]? with
  | none => rw [hf] at h; simp at h
  | some f' => rw [hf] at h; simp at h; exact ⟨by rw [h.1], h.2.symm⟩

theorem refTo_isRef (o : Nat) (name : String) (obj : Obj) : ∃ re rn, refTo o name obj = .ref re rn := by
  cases obj <;> exact ⟨_, _, rfl⟩

/-- `makeRef` only adds a reference entry (and bumps a miss counter) in the frame it was asked
from — provided that frame holds no VALUE under the name, which is how `Get` and `SetNoChecks` call it -/
theorem makeRef_go_sameValues (orig : Nat) (name : String) (fuel e : Nat) (st : St)
    (hn : frameVal st orig name = none) :
    SameValues st (run (makeRef.go orig name fuel e) st).2 := by
  induction fuel generalizing e with
  | zero => unfold makeRef.go; exact sv_pure _ _
  | succ fuel ih =>
    unfold makeRef.go
    refine sv_bind_ro (ReadOnly.getFrame _) fun f _ => ?_
    split
    · exact sv_pure _ _
    · next o _ =>
      refine sv_bind_ro (ReadOnly.getFrame _) fun fo _ => ?_
      split
      · exact ih o
      · next obj _ =>
        obtain ⟨re, rn, hr⟩ := refTo_isRef o name obj
        dsimp only
        refine sv_bind (sv_modifyFrame _ _ _ ?_) fun _ st1 _ => ?_
        · intro f0 hf0
          refine ⟨fun m => ?_, rfl⟩
          show lookupVal (setStore f0.store name (refTo o name obj)) m = lookupVal f0.store m
          rw [hr]
          refine lookupVal_setStore_ref _ _ _ _ _ ?_
          unfold frameVal at hn; rw [hf0] at hn; exact hn
        · split
          · refine sv_bind_ro (ReadOnly.getFrame _) fun _ _ => ?_
            refine sv_bind_ro (ReadOnly.pure _) fun _ _ => ?_
            split
            · exact sv_bind (sv_modifyFrame _ _ _ fun f0 _ => ⟨fun _ => rfl, rfl⟩) fun _ _ _ => sv_pure _ _
            · exact sv_pure _ _
          · refine sv_bind_ro (ReadOnly.pure _) fun _ _ => ?_
            split
            · exact sv_bind (sv_modifyFrame _ _ _ fun f0 _ => ⟨fun _ => rfl, rfl⟩) fun _ _ _ => sv_pure _ _
            · exact sv_pure _ _

theorem makeRef_sameValues (orig : Nat) (name : String) (st : St) (hn : frameVal st orig name = none) :
    SameValues st (run (makeRef orig name) st).2 := by
  unfold makeRef
  refine sv_bind_ro ReadOnly.get fun s h => ?_
  exact makeRef_go_sameValues _ _ _ _ _ hn

theorem frameVal_none_of_lookup {st : St} {e : Nat} {f : Frame} {name : String}
    (hf : st.frames[e]? = some f) (hl : lookupStore f.store name = none) : frameVal st e name = none := by
  unfold frameVal lookupVal; rw [hf]; simp only [hl]

/-- **`Get` never changes a value**: whatever the state, after `envGet e name` every frame binds
the same VALUE to every name and has the same parent; only reference entries (added by `makeRef`,
or a stale one removed) and the miss counters may differ. -/
theorem envGet_sameValues (e : Nat) (name : String) (st : St) :
    SameValues st (run (envGet e name) st).2 := by
  unfold envGet
  dsimp only
  split
  · exact sv_bind_ro (ReadOnly.stop _) fun _ h => by simp at h
  · refine sv_bind_ro (ReadOnly.getFrame _) fun f hf => ?_
    have hfe := (run_getFrame_ok hf).1
    split
    · split <;> exact sv_pure _ _
    · have main : SameValues st (run (match lookupStore f.store name with
          | some (Obj.ref re rn) => do
            let alive ← refAlive re rn
            if (!alive) = true then do
                modifyFrame e fun f => { f with store := delStore f.store name }
                match f.outer with
                  | none => pure none
                  | some _ => makeRef e name
              else do
                let tgt ← refValue re rn
                let fr ← getFrame re
                if (!(isConstant rn && fr.depth == 0) && !(isFuncObj tgt && fr.depth == 0)) = true then do
                    modifyFrame e fun f => { f with getMiss := f.getMiss + 1 }
                    pure (some (Obj.ref re rn))
                  else pure (some (Obj.ref re rn))
          | some obj => pure (some obj)
          | none =>
            match f.outer with
            | none => pure none
            | some _ => makeRef e name : M (Option Obj)) st).2 := by
        split
        · next re rn hl =>
          refine sv_bind_ro (readOnly_refAlive _ _) fun alive _ => ?_
          split
          · have hnone : lookupVal f.store name = none := by unfold lookupVal; simp only [hl]
            refine sv_bind (sv_modifyFrame _ _ _ ?_) fun _ st1 h1 => ?_
            · intro f0 hf0
              have : f0 = f := by rw [hfe] at hf0; exact (Option.some.inj hf0).symm
              subst this
              exact ⟨fun m => lookupVal_delStore_ref _ _ _ hnone, rfl⟩
            · split
              · exact sv_pure _ _
              · refine makeRef_sameValues _ _ _ ?_
                rw [run_modifyFrame, hfe] at h1
                simp only [Prod.mk.injEq, true_and] at h1
                subst h1
                obtain ⟨hlt, _⟩ := Array.getElem?_eq_some_iff.mp hfe
                unfold frameVal lookupVal
                simp [Array.getElem?_setIfInBounds, hlt, lookupStore_delStore_self]
          · refine sv_bind_ro (readOnly_refValue _ _) fun tgt _ => ?_
            refine sv_bind_ro (ReadOnly.getFrame _) fun fr _ => ?_
            split
            · exact sv_bind (sv_modifyFrame _ _ _ fun f0 _ => ⟨fun _ => rfl, rfl⟩) fun _ _ _ => sv_pure _ _
            · exact sv_pure _ _
        · exact sv_pure _ _
        · next hl =>
          split
          · exact sv_pure _ _
          · exact makeRef_sameValues _ _ _ (frameVal_none_of_lookup hfe hl)
      split
      · split
        · exact sv_pure _ _
        · exact main
      · exact main

/-! ### the constant check of `CreateOrSet` -/

/-- `sameValue(old, val)` is false in state `st1`: different object types (a Reference is not type-equal
to a value), or the dereferenced values compare unequal, or they compare equal but differ in a type
at some level (`[1,2]` against `[1.0,2]`) -/
def NotEqualsIn (st1 : St) (old val : Obj) : Prop :=
  old.typeNum ≠ val.typeNum ∨
  ∃ o v c, (run (valueOf old) st1).1 = .ok o ∧ (run (valueOf val) st1).1 = .ok v ∧ cmp o v = .ok c ∧
    (c ≠ 0 ∨ sameTypes o v = false)

theorem run_of_readOnly {x : M α} (hx : ReadOnly x) {st : St} {a : α} (h : (run x st).1 = .ok a) :
    run x st = (.ok a, st) := by
  have := hx st
  exact Prod.ext h this

/-- **C19 (1)**: `CreateOrSet` on a constant name that `Get` finds bound (in the frame itself or, through
a reference, anywhere up the scope chain) to a value not `Equals` to the new one returns an error object
and changes no value in any frame: the state differs from the initial one at most by the reference
entries and miss counters `Get` maintains. -/
theorem createOrSet_constant_refused (e : Nat) (name : String) (val : Obj) (create : Bool) (st st1 : St) (old : Obj)
    (hc : isConstant name = true)
    (hget : run (envGet e name) st = (.ok (some old), st1))
    (hne : NotEqualsIn st1 old val) :
    (run (createOrSet e name val create) st).1 = .ok (.error ("attempt to change constant " ++ name)) ∧
    SameValues st (run (createOrSet e name val create) st).2 := by
  have hsv : SameValues st st1 := by
    have := envGet_sameValues e name st; rw [hget] at this; exact this
  unfold createOrSet
  dsimp only
  simp only [hc, if_true]
  rw [run_bind, hget]
  dsimp only
  rcases hne with hty | ⟨o, v, c, ho, hv, hcmp, hc0⟩
  · have : (old.typeNum != val.typeNum) = true := by simp [hty]
    simp only [this, if_true]
    rw [run_bind, run_pure]
    exact ⟨rfl, hsv⟩
  · by_cases hty : (old.typeNum != val.typeNum) = true
    · simp only [hty, if_true]
      rw [run_bind, run_pure]
      exact ⟨rfl, hsv⟩
    · simp only [hty, Bool.false_eq_true, if_false]
      rw [run_bind, run_of_readOnly (readOnly_valueOf old) ho]
      dsimp only
      rw [run_bind, run_of_readOnly (readOnly_valueOf val) hv]
      dsimp only
      rw [run_bind, run_liftR, hcmp]
      dsimp only
      rw [run_bind, run_pure]
      have : (c == 0 && sameTypes o v) = false := by
        rcases hc0 with h | h
        · simp [h]
        · simp [h]
      simp only [this]
      exact ⟨rfl, hsv⟩

/-- if the comparison itself stops (e.g. a Go panic inside `Cmp`), nothing was written either -/
theorem createOrSet_constant_reads_only_before_check (e : Nat) (name : String) (val : Obj) (create : Bool) (st : St)
    (hc : isConstant name = true) (err : Stop) (st1 : St)
    (hget : run (envGet e name) st = (.error err, st1)) :
    (run (createOrSet e name val create) st).1 = .error err ∧
    SameValues st (run (createOrSet e name val create) st).2 := by
  have hsv : SameValues st st1 := by
    have := envGet_sameValues e name st; rw [hget] at this; exact this
  unfold createOrSet
  dsimp only
  simp only [hc, if_true]
  rw [run_bind, hget]
  exact ⟨rfl, hsv⟩

end Grol.E

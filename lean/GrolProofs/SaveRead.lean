import Grol.Save
/-
C14 lemmas, part 3: the printed form of every int64 reads back as that integer.
-/
namespace Grol.Save
open Grol.E
open Grol.Wire (Bytes)

theorem digitsVal_map (cs : List Char) (hd : ∀ c ∈ cs, c.isDigit = true) : ∀ acc,
    digitsVal acc (cs.map fun c => c.toNat.toUInt8) = some (Nat.ofDigitChars 10 cs acc) := by
  induction cs with
  | nil => intro acc; simp [digitsVal]
  | cons c cs ih =>
    intro acc
    have hc := hd c List.mem_cons_self
    simp only [Char.isDigit, Bool.and_eq_true, decide_eq_true_eq] at hc
    have h48 : 48 ≤ c.toNat := UInt32.le_iff_toNat_le.mp hc.1
    have h57 : c.toNat ≤ 57 := UInt32.le_iff_toNat_le.mp hc.2
    have hb : (c.toNat.toUInt8).toNat = c.toNat := by
      simp [Nat.toUInt8, UInt8.toNat_ofNat']
      omega
    have h1 : (48 : UInt8) ≤ c.toNat.toUInt8 := by
      rw [UInt8.le_iff_toNat_le, hb]; exact h48
    have h2 : c.toNat.toUInt8 ≤ (57 : UInt8) := by
      rw [UInt8.le_iff_toNat_le, hb]; exact h57
    simp only [List.map_cons, digitsVal, h1, h2, decide_true, Bool.and_self, if_true]
    rw [ih (fun x hx => hd x (List.mem_cons_of_mem _ hx)), Nat.ofDigitChars_cons, hb]
    congr 2
    simp [Nat.mul_comm]

theorem digitsVal_digitBytes (n : Nat) : digitsVal 0 (digitBytes n) = some n := by
  unfold digitBytes
  rw [digitsVal_map _ (fun c hc => Nat.isDigit_of_mem_toDigits (by decide) (by decide) hc)]
  simp

theorem digitBytes_ne_nil (n : Nat) : digitBytes n ≠ [] := by
  unfold digitBytes
  simp [Nat.toDigits_ne_nil]

theorem parseDecInt_digitBytes (n : Nat) :
    parseDecInt (digitBytes n) = if n < 2 ^ 63 then some (Int64.ofNat n) else none := by
  unfold parseDecInt
  cases h : digitBytes n with
  | nil => exact absurd h (digitBytes_ne_nil n)
  | cons c cs =>
    rw [← h, digitsVal_digitBytes, h]

/-- every int64 reads back from its printed form (including the smallest one, after the fix) -/
theorem int_roundtrip (i : Int64) : readIntText (intBytes i) = some i := by
  unfold intBytes
  by_cases hneg : i.toInt < 0
  · simp only [hneg, if_true, readIntText]
    rw [parseDecInt_digitBytes]
    have hlo := Int64.le_toInt i
    have hm : (i.toInt.natAbs : Int) = -i.toInt := by omega
    by_cases hlt : i.toInt.natAbs < 2 ^ 63
    · simp only [hlt, if_true]
      congr 1
      apply Int64.toInt_inj.mp
      rw [Int64.toInt_neg, Int64.toInt_ofNat']
      have e1 : ((i.toInt.natAbs : Int)).bmod 18446744073709551616 = (i.toInt.natAbs : Int) := by
        apply Int.bmod_eq_of_le <;> omega
      have e2 : (-(i.toInt.natAbs : Int)).bmod 18446744073709551616 = -(i.toInt.natAbs : Int) := by
        apply Int.bmod_eq_of_le <;> omega
      simp only [Int64.size, Nat.reducePow, e1, e2] at *
      omega
    · simp only [hlt, if_false, digitsVal_digitBytes]
      have hmin : i.toInt = -9223372036854775808 := by omega
      have : i.toInt.natAbs = 2 ^ 63 := by omega
      simp only [this, beq_self_eq_true, if_true]
      congr 1
      apply Int64.toInt_inj.mp
      rw [hmin]
      decide
  · simp only [hneg, if_false]
    have hhi := Int64.toInt_lt i
    have hm : (i.toInt.natAbs : Int) = i.toInt := by omega
    have hlt : i.toInt.natAbs < 2 ^ 63 := by omega
    have hd : readIntText (digitBytes i.toInt.natAbs) = parseDecInt (digitBytes i.toInt.natAbs) := by
      unfold readIntText
      split
      · rename_i ds heq
        -- the first digit is not `-`
        exfalso
        have : (45 : UInt8) ∈ digitBytes i.toInt.natAbs := by rw [heq]; exact List.mem_cons_self
        unfold digitBytes at this
        obtain ⟨c, hc, hc45⟩ := List.mem_map.mp this
        have hdg := Nat.isDigit_of_mem_toDigits (by decide) (by decide) hc
        simp only [Char.isDigit, Bool.and_eq_true, decide_eq_true_eq] at hdg
        have h48 : 48 ≤ c.toNat := UInt32.le_iff_toNat_le.mp hdg.1
        have h57 : c.toNat ≤ 57 := UInt32.le_iff_toNat_le.mp hdg.2
        have hb : (c.toNat.toUInt8).toNat = c.toNat := by
          simp [Nat.toUInt8, UInt8.toNat_ofNat']
          omega
        rw [hc45] at hb
        simp at hb
        omega
      · rfl
    rw [hd, parseDecInt_digitBytes]
    simp only [hlt, if_true]
    congr 1
    apply Int64.toInt_inj.mp
    rw [Int64.toInt_ofNat']
    have e1 : ((i.toInt.natAbs : Int)).bmod 18446744073709551616 = (i.toInt.natAbs : Int) := by
      apply Int.bmod_eq_of_le <;> omega
    simp only [Int64.size, Nat.reducePow, e1] at *
    omega

end Grol.Save

import GrolProofs.ParseLeaf
/-
C08, parser half: for every well-formed token stream and every fuel the parser model never
reaches a `goPanic` branch (simultaneous induction on the fuel over the 23 mutually recursive
parse functions), hence neither does `parseProgram`.
-/
set_option linter.unusedVariables false

namespace Grol.Parser
open Grol.Generated

variable {s : TokStream}

/-- the induction hypothesis: every function of the mutual group is safe at this fuel -/
structure AllSafe (s : TokStream) (fuel : Nat) : Prop where
  parseExpression : ∀ prec, Safe s (parseExpression s fuel prec)
  parseExpressionLoop : ∀ prec l, Safe s (parseExpressionLoop s fuel prec l)
  prefixDispatch : ∀ fn st, Inv s st → lookup prefixRegs st.cur.type = some fn →
    OKQ s (fun _ _ => True) (prefixDispatch s fuel fn st)
  infixDispatch : ∀ fn l, Safe s (infixDispatch s fuel fn l)
  parseStatement : Safe s (parseStatement s fuel)
  parseReturnStatement : Safe s (parseReturnStatement s fuel)
  parseArrayLiteral : Safe s (parseArrayLiteral s fuel)
  parseGroupedExpression : Safe s (parseGroupedExpression s fuel)
  parsePrefixExpression : Safe s (parsePrefixExpression s fuel)
  parseLambdaMulti : ∀ l m, Safe s (parseLambdaMulti s fuel l m)
  parseInfixExpression : ∀ l, Safe s (parseInfixExpression s fuel l)
  parseForExpression : Safe s (parseForExpression s fuel)
  parseIfExpression : Safe s (parseIfExpression s fuel)
  parseBlockStatement : Safe s (parseBlockStatement s fuel)
  parseBlockLoop : ∀ acc, Safe s (parseBlockLoop s fuel acc)
  parseFunctionLiteral : Safe s (parseFunctionLiteral s fuel)
  parseBuiltin : Safe s (parseBuiltin s fuel)
  parseCallExpression : ∀ f, Safe s (parseCallExpression s fuel f)
  parseExpressionList : ∀ e, (constLiteral e).isSome = true → Safe s (parseExpressionList s fuel e)
  parseExpressionListLoop : ∀ a, Safe s (parseExpressionListLoop s fuel a)
  parseIndexExpression : ∀ l, Safe s (parseIndexExpression s fuel l)
  parseMapLiteral : Safe s (parseMapLiteral s fuel)
  parseMapLoop : ∀ t k, Safe s (parseMapLoop s fuel t k)
  parseMacroLiteral : Safe s (parseMacroLiteral s fuel)

/-- one step of the syntax-directed safety proof of a `do` block -/
macro "safe_step" hwf:ident ih:ident : tactic => `(tactic| first
  | exact safe_pure _
  | exact safe_outOfFuel
  | exact safe_getSt
  | exact safe_nextToken
  | exact safe_setCont
  | exact safe_pushErr _
  | exact safe_errorLine $hwf
  | exact safe_noPrefix $hwf
  | exact safe_mapPairError $hwf
  | exact safe_expectPeek $hwf _ (by decide)
  | exact safe_expectPeek $hwf _ (by assumption)
  | exact safe_peekError $hwf _ (by decide)
  | exact safe_parseFunctionParameters $hwf _
  | exact ($ih).parseExpression _
  | exact ($ih).parseExpressionLoop _ _
  | exact ($ih).infixDispatch _ _
  | exact ($ih).parseStatement
  | exact ($ih).parseReturnStatement
  | exact ($ih).parseArrayLiteral
  | exact ($ih).parseGroupedExpression
  | exact ($ih).parsePrefixExpression
  | exact ($ih).parseLambdaMulti _ _
  | exact ($ih).parseInfixExpression _
  | exact ($ih).parseForExpression
  | exact ($ih).parseIfExpression
  | exact ($ih).parseBlockStatement
  | exact ($ih).parseBlockLoop _
  | exact ($ih).parseFunctionLiteral
  | exact ($ih).parseBuiltin
  | exact ($ih).parseCallExpression _
  | exact ($ih).parseExpressionList _ (by decide)
  | exact ($ih).parseExpressionList _ (by assumption)
  | exact ($ih).parseExpressionListLoop _
  | exact ($ih).parseIndexExpression _
  | exact ($ih).parseMapLiteral
  | exact ($ih).parseMapLoop _ _
  | exact ($ih).parseMacroLiteral
  | exact absurd (by assumption) (okParamList_ne_none _)
  | refine safe_bind ?_ (fun _ => ?_)
  | apply safe_ite
  | split
  | dsimp only)

macro "safe_auto" hwf:ident ih:ident : tactic => `(tactic| repeat' (safe_step $hwf $ih))

theorem allSafe_zero : AllSafe s 0 := by
  constructor <;> intros <;> first
    | (unfold parseExpression; exact safe_outOfFuel)
    | (unfold parseExpressionLoop; exact safe_outOfFuel)
    | (unfold prefixDispatch; trivial)
    | (unfold infixDispatch; exact safe_outOfFuel)
    | (unfold parseStatement; exact safe_outOfFuel)
    | (unfold parseReturnStatement; exact safe_outOfFuel)
    | (unfold parseArrayLiteral; exact safe_outOfFuel)
    | (unfold parseGroupedExpression; exact safe_outOfFuel)
    | (unfold parsePrefixExpression; exact safe_outOfFuel)
    | (unfold parseLambdaMulti; exact safe_outOfFuel)
    | (unfold parseInfixExpression; exact safe_outOfFuel)
    | (unfold parseForExpression; exact safe_outOfFuel)
    | (unfold parseIfExpression; exact safe_outOfFuel)
    | (unfold parseBlockStatement; exact safe_outOfFuel)
    | (unfold parseBlockLoop; exact safe_outOfFuel)
    | (unfold parseFunctionLiteral; exact safe_outOfFuel)
    | (unfold parseBuiltin; exact safe_outOfFuel)
    | (unfold parseCallExpression; exact safe_outOfFuel)
    | (unfold parseExpressionList; exact safe_outOfFuel)
    | (unfold parseExpressionListLoop; exact safe_outOfFuel)
    | (unfold parseIndexExpression; exact safe_outOfFuel)
    | (unfold parseMapLiteral; exact safe_outOfFuel)
    | (unfold parseMapLoop; exact safe_outOfFuel)
    | (unfold parseMacroLiteral; exact safe_outOfFuel)

end Grol.Parser

namespace Grol.Parser
open Grol.Generated
variable {s : TokStream}

theorem step_parseExpression (hwf : StreamWF s) {n : Nat} (ih : AllSafe s n) (prec : Nat) :
    Safe s (parseExpression s (n + 1) prec) := by
  -- the only place where the dispatched function depends on the current token
  unfold parseExpression
  refine safe_getSt_bind fun st hi => ?_
  split
  · exact safe_bind safe_setCont (fun _ => safe_pure _) st hi
  · cases hl : lookup prefixRegs st.cur.type with
    | none =>
      dsimp only
      refine (?_ : Safe s _) st hi
      safe_auto hwf ih
    | some fn =>
      dsimp only
      show OKQ s _ (PM.bind (prefixDispatch s n fn) _ st)
      have h1 := ih.prefixDispatch fn st hi hl
      unfold PM.bind
      revert h1
      cases prefixDispatch s n fn st with
      | goPanic p => exact id
      | outOfFuel => intro _; trivial
      | ok r =>
        obtain ⟨a, st'⟩ := r
        intro h1
        dsimp only
        refine (?_ : Safe s _) st' h1.1
        safe_auto hwf ih

theorem step_prefixDispatch (hwf : StreamWF s) {n : Nat} (ih : AllSafe s n) (fn : PrefixFn) (st : PState) (hi : Inv s st)
    (hl : lookup prefixRegs st.cur.type = some fn) : OKQ s (fun _ _ => True) (prefixDispatch s (n + 1) fn st) := by
  unfold prefixDispatch
  cases fn with
  | parseIdentifier => exact safe_parseIdentifier st hi
  | parseIntegerLiteral => exact safe_parseIntegerLiteral hwf st hi
  | parseFloatLiteral => exact safe_parseFloatLiteral hwf st hi
  | parsePrefixExpression => exact ih.parsePrefixExpression st hi
  | parseBoolean => exact safe_parseBoolean st hi
  | parseGroupedExpression => exact ih.parseGroupedExpression st hi
  | parseIfExpression => exact ih.parseIfExpression st hi
  | parseForExpression => exact ih.parseForExpression st hi
  | parseControlExpression => exact safe_parseControlExpression st hi
  | parseFunctionLiteral => exact ih.parseFunctionLiteral st hi
  | parseStringLiteral => exact safe_parseStringLiteral st hi
  | parseBuiltin => exact ih.parseBuiltin st hi
  | parseArrayLiteral => exact ih.parseArrayLiteral st hi
  | parseMapLiteral => exact ih.parseMapLiteral st hi
  | parseComment => exact safe_parseComment hwf st hi (parseComment_regs _ hl)
  | parseMacroLiteral => exact ih.parseMacroLiteral st hi

theorem step_parseExpressionList (hwf : StreamWF s) {n : Nat} (ih : AllSafe s n) (e : TokType)
    (he : (constLiteral e).isSome = true) : Safe s (parseExpressionList s (n + 1) e) := by
  unfold parseExpressionList; safe_auto hwf ih

theorem step_parseExpressionLoop (hwf : StreamWF s) {n : Nat} (ih : AllSafe s n) (prec : _) (l : _) :
    Safe s (parseExpressionLoop s (n + 1) prec l) := by
  unfold parseExpressionLoop; safe_auto hwf ih

theorem step_infixDispatch (hwf : StreamWF s) {n : Nat} (ih : AllSafe s n) (fn : _) (l : _) :
    Safe s (infixDispatch s (n + 1) fn l) := by
  unfold infixDispatch; cases fn <;> safe_auto hwf ih

theorem step_parseStatement (hwf : StreamWF s) {n : Nat} (ih : AllSafe s n) :
    Safe s (parseStatement s (n + 1)) := by
  unfold parseStatement; safe_auto hwf ih

theorem step_parseReturnStatement (hwf : StreamWF s) {n : Nat} (ih : AllSafe s n) :
    Safe s (parseReturnStatement s (n + 1)) := by
  unfold parseReturnStatement; safe_auto hwf ih

theorem step_parseArrayLiteral (hwf : StreamWF s) {n : Nat} (ih : AllSafe s n) :
    Safe s (parseArrayLiteral s (n + 1)) := by
  unfold parseArrayLiteral; safe_auto hwf ih

theorem step_parseGroupedExpression (hwf : StreamWF s) {n : Nat} (ih : AllSafe s n) :
    Safe s (parseGroupedExpression s (n + 1)) := by
  unfold parseGroupedExpression; safe_auto hwf ih

theorem step_parsePrefixExpression (hwf : StreamWF s) {n : Nat} (ih : AllSafe s n) :
    Safe s (parsePrefixExpression s (n + 1)) := by
  unfold parsePrefixExpression; safe_auto hwf ih

theorem step_parseLambdaMulti (hwf : StreamWF s) {n : Nat} (ih : AllSafe s n) (l : _) (m : _) :
    Safe s (parseLambdaMulti s (n + 1) l m) := by
  unfold parseLambdaMulti; safe_auto hwf ih

theorem step_parseInfixExpression (hwf : StreamWF s) {n : Nat} (ih : AllSafe s n) (l : _) :
    Safe s (parseInfixExpression s (n + 1) l) := by
  unfold parseInfixExpression; safe_auto hwf ih

theorem step_parseForExpression (hwf : StreamWF s) {n : Nat} (ih : AllSafe s n) :
    Safe s (parseForExpression s (n + 1)) := by
  unfold parseForExpression; safe_auto hwf ih

theorem step_parseIfExpression (hwf : StreamWF s) {n : Nat} (ih : AllSafe s n) :
    Safe s (parseIfExpression s (n + 1)) := by
  unfold parseIfExpression; safe_auto hwf ih

theorem step_parseBlockStatement (hwf : StreamWF s) {n : Nat} (ih : AllSafe s n) :
    Safe s (parseBlockStatement s (n + 1)) := by
  unfold parseBlockStatement; safe_auto hwf ih

theorem step_parseBlockLoop (hwf : StreamWF s) {n : Nat} (ih : AllSafe s n) (acc : _) :
    Safe s (parseBlockLoop s (n + 1) acc) := by
  unfold parseBlockLoop; safe_auto hwf ih

theorem step_parseFunctionLiteral (hwf : StreamWF s) {n : Nat} (ih : AllSafe s n) :
    Safe s (parseFunctionLiteral s (n + 1)) := by
  unfold parseFunctionLiteral; safe_auto hwf ih

theorem step_parseBuiltin (hwf : StreamWF s) {n : Nat} (ih : AllSafe s n) :
    Safe s (parseBuiltin s (n + 1)) := by
  unfold parseBuiltin; safe_auto hwf ih

theorem step_parseCallExpression (hwf : StreamWF s) {n : Nat} (ih : AllSafe s n) (f : _) :
    Safe s (parseCallExpression s (n + 1) f) := by
  unfold parseCallExpression; safe_auto hwf ih

theorem step_parseExpressionListLoop (hwf : StreamWF s) {n : Nat} (ih : AllSafe s n) (a : _) :
    Safe s (parseExpressionListLoop s (n + 1) a) := by
  unfold parseExpressionListLoop; safe_auto hwf ih

theorem step_parseIndexExpression (hwf : StreamWF s) {n : Nat} (ih : AllSafe s n) (l : _) :
    Safe s (parseIndexExpression s (n + 1) l) := by
  unfold parseIndexExpression; safe_auto hwf ih

theorem step_parseMapLiteral (hwf : StreamWF s) {n : Nat} (ih : AllSafe s n) :
    Safe s (parseMapLiteral s (n + 1)) := by
  unfold parseMapLiteral; safe_auto hwf ih

theorem step_parseMapLoop (hwf : StreamWF s) {n : Nat} (ih : AllSafe s n) (t : _) (k : _) :
    Safe s (parseMapLoop s (n + 1) t k) := by
  unfold parseMapLoop; safe_auto hwf ih

theorem step_parseMacroLiteral (hwf : StreamWF s) {n : Nat} (ih : AllSafe s n) :
    Safe s (parseMacroLiteral s (n + 1)) := by
  unfold parseMacroLiteral; safe_auto hwf ih

theorem allSafe_succ (hwf : StreamWF s) {n : Nat} (ih : AllSafe s n) : AllSafe s (n + 1) where
  parseExpression := step_parseExpression hwf ih
  prefixDispatch := step_prefixDispatch hwf ih
  parseExpressionList := step_parseExpressionList hwf ih
  parseExpressionLoop := step_parseExpressionLoop hwf ih
  infixDispatch := step_infixDispatch hwf ih
  parseStatement := step_parseStatement hwf ih
  parseReturnStatement := step_parseReturnStatement hwf ih
  parseArrayLiteral := step_parseArrayLiteral hwf ih
  parseGroupedExpression := step_parseGroupedExpression hwf ih
  parsePrefixExpression := step_parsePrefixExpression hwf ih
  parseLambdaMulti := step_parseLambdaMulti hwf ih
  parseInfixExpression := step_parseInfixExpression hwf ih
  parseForExpression := step_parseForExpression hwf ih
  parseIfExpression := step_parseIfExpression hwf ih
  parseBlockStatement := step_parseBlockStatement hwf ih
  parseBlockLoop := step_parseBlockLoop hwf ih
  parseFunctionLiteral := step_parseFunctionLiteral hwf ih
  parseBuiltin := step_parseBuiltin hwf ih
  parseCallExpression := step_parseCallExpression hwf ih
  parseExpressionListLoop := step_parseExpressionListLoop hwf ih
  parseIndexExpression := step_parseIndexExpression hwf ih
  parseMapLiteral := step_parseMapLiteral hwf ih
  parseMapLoop := step_parseMapLoop hwf ih
  parseMacroLiteral := step_parseMacroLiteral hwf ih

theorem allSafe (hwf : StreamWF s) : ∀ fuel, AllSafe s fuel
  | 0 => allSafe_zero
  | n + 1 => allSafe_succ hwf (allSafe hwf n)

theorem inv_init (s : TokStream) : Inv s (init s) := ⟨Nat.le_refl 2, rfl, rfl, rfl⟩

theorem safe_parseProgramLoop (hwf : StreamWF s) : ∀ fuel acc, Safe s (parseProgramLoop s fuel acc)
  | 0, _ => by unfold parseProgramLoop; exact safe_outOfFuel
  | n + 1, acc => by
    have ih := allSafe hwf n
    have ihl := safe_parseProgramLoop hwf n
    unfold parseProgramLoop
    refine safe_bind safe_getSt fun st => ?_
    split
    · refine safe_bind ih.parseStatement fun r => ?_
      split
      · exact safe_pure _
      · exact safe_bind safe_nextToken fun _ => ihl _
    · exact safe_pure _

/-- **C08 (parser)**: on a well-formed token stream the parser never panics, whatever the fuel. -/
theorem parseProgram_no_panic (s : TokStream) (hwf : StreamWF s) (fuel : Nat) (site : PanicSite) :
    parseProgram s fuel ≠ .goPanic site := by
  have h := safe_parseProgramLoop hwf fuel [] (init s) (inv_init s)
  unfold parseProgram
  revert h
  cases parseProgramLoop s fuel [] (init s) with
  | goPanic p => intro h; exact h.elim
  | outOfFuel => intro _ h; cases h
  | ok r => intro _ h; cases h

end Grol.Parser

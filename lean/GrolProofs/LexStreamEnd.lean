import GrolProofs.LexStream
/-
The repeated end marker of the lexer model's token stream is EOF (file mode) or EOL (line mode): the
hypothesis of the parser's termination theorem (`Parser.parseProgram_terminates`).
-/
namespace Grol.LexStream
open Grol.Lexer Grol.Generated

theorem tokStream_eof (nc : Grol.Token.Tok → NumClass) (input : Array UInt8) (lineMode : Bool) :
    (tokStream nc input lineMode).eof.type = .EOF ∨ (tokStream nc input lineMode).eof.type = .EOL := by
  have hk := markerIdx_spec input.size (State.new input lineMode) (Nat.zero_le _) (by simp [State.new])
  obtain ⟨k, hkdef⟩ : ∃ k, markerIdx (input.size + 1) (State.new input lineMode) = k := ⟨_, rfl⟩
  rw [hkdef] at hk
  have hk1 : (next (iter (k + 1) (State.new input lineMode))).1 = Grol.Token.eolEof lineMode := by
    have st := C16.sticky (iter k (State.new input lineMode)) hk 1
    have e : iter 1 (iter k (State.new input lineMode)) = iter (k + 1) (State.new input lineMode) :=
      (iter_succ' k (State.new input lineMode)).symm
    rw [e] at st
    rw [st.1]
    cases C16.cases (iter k (State.new input lineMode)) with
    | inl m =>
      rw [m.1]
      have : ∀ k, (iter k (State.new input lineMode)).lineMode = lineMode := by
        intro k
        induction k with
        | zero => rfl
        | succ k ih => rw [iter_succ', (C16.tiling _).2.2.2.2.2]; exact ih
      rw [this k]
    | inr ok => exact absurd hk ok.notMarker
  have he : (tokStream nc input lineMode).eof.type = genType (Grol.Token.eolEof lineMode).type := by
    show (entry nc (State.new input lineMode) (markerIdx (input.size + 1) (State.new input lineMode) + 1)).type = _
    rw [hkdef]
    unfold entry toTok
    simp only [hk1]
  rw [he]
  cases lineMode
  · left; decide
  · right; decide

end Grol.LexStream

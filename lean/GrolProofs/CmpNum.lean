import Grol.Cmp
import GrolProofs.CmpTotal
/-
The numeric comparisons of the model (`cmp.Compare` on int64 and float64, `cmpIntFloat`) are the
integer order on the exact keys (value × 2^1074, NaN least).
-/
namespace Grol.Obj
open Grol.Ord Grol.F64

theorem S_pos : 0 < F64.S := by unfold F64.S; exact Int.pow_pos (by omega)

theorem cmpInt_eq_cmpZ (a b : Int) : cmpInt a b = cmpZ a b := rfl

theorem cmpZ_scale (x y : Int) : cmpZ (x * F64.S) (y * F64.S) = cmpZ x y := by
  have hS := S_pos
  simp only [cmpZ]
  by_cases h1 : x < y
  · rw [if_pos h1, if_pos (Int.mul_lt_mul_of_pos_right h1 hS)]
  · by_cases h2 : y < x
    · have := Int.mul_lt_mul_of_pos_right h2 hS
      rw [if_neg h1, if_pos h2, if_neg (by omega), if_pos this]
    · have : x = y := by omega
      subst this
      simp

theorem compare_eq (x y : F64) : F64.compare x y = cmpO (fkey x) (fkey y) := by
  unfold F64.compare fkey F64.lt
  cases hx : x.isNaN <;> cases hy : y.isNaN <;> simp [cmpO, cmpZ]

theorem cmpIntFloat_eq (i : Int) (f : F64) (h1 : minInt64 ≤ i) (h2 : i ≤ maxInt64) :
    cmpIntFloat i f = cmpO (some (i * F64.S)) (fkey f) := by
  have hS := S_pos
  unfold cmpIntFloat fkey
  cases hn : f.isNaN
  · simp only [Bool.false_eq_true, if_false, cmpO]
    generalize f.scaled = sc
    unfold minInt64 at h1
    unfold maxInt64 at h2
    have hlo : -(2 ^ 63) * F64.S ≤ i * F64.S := Int.mul_le_mul_of_nonneg_right (by omega) (by omega)
    have hhi : i * F64.S < 2 ^ 63 * F64.S := Int.mul_lt_mul_of_pos_right (by omega) hS
    split
    · simp only [cmpZ]; rw [if_pos (by omega)]
    · split
      · simp only [cmpZ]; rw [if_neg (by omega), if_pos (by omega)]
      · have hd := Int.tdiv_mul_add_tmod sc F64.S
        have hr1 := Int.tmod_lt_of_pos sc hS
        have hr2 := Int.lt_tmod_of_pos sc hS
        generalize sc.tdiv F64.S = t at *
        generalize sc.tmod F64.S = r at *
        split
        · rename_i hit
          have : (i + 1) * F64.S ≤ t * F64.S := Int.mul_le_mul_of_nonneg_right (by omega) (by omega)
          rw [Int.add_mul] at this
          simp only [cmpZ]; rw [if_pos (by omega)]
        · split
          · rename_i hti
            have : (t + 1) * F64.S ≤ i * F64.S := Int.mul_le_mul_of_nonneg_right (by omega) (by omega)
            rw [Int.add_mul] at this
            simp only [cmpZ]; rw [if_neg (by omega), if_pos (by omega)]
          · have : i = t := by omega
            subst this
            rfl
  · simp [cmpO]

end Grol.Obj

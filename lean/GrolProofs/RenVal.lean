import GrolProofs.RenBase
/-
C10 (two-run simulation), part 1: the pure value operations do not look at frame indices.
-/
namespace Grol.R
open Grol.E

mutual
theorem cmp_ren (σ : Sh) : ∀ (a b : Obj), cmp (ren σ a) (ren σ b) = cmp a b
  | a, b => by
    cases a <;> cases b
    all_goals first
      | rfl
      | skip
    · -- array
      rename_i x y
      simp only [ren]
      unfold cmp
      simp only [renL_length]
      rw [cmpList_ren σ x y]
    · -- map
      rename_i b1 x b2 y
      simp only [ren]
      unfold cmp
      simp only [renP_length]
      rw [cmpPairs_ren σ x y]
    · -- ret
      rename_i x k1 y k2
      simp only [ren]
      unfold cmp
      exact cmp_ren σ x y
theorem cmpList_ren (σ : Sh) : ∀ (a b : List Obj), cmpList (renL σ a) (renL σ b) = cmpList a b
  | [], [] => rfl
  | [], _ :: _ => rfl
  | _ :: _, [] => rfl
  | x :: xs, y :: ys => by
    simp only [renL]
    unfold cmpList
    rw [cmp_ren σ x y, cmpList_ren σ xs ys]
theorem cmpPairs_ren (σ : Sh) : ∀ (a b : List (Obj × Obj)), cmpPairs (renP σ a) (renP σ b) = cmpPairs a b
  | [], [] => rfl
  | [], _ :: _ => rfl
  | _ :: _, [] => rfl
  | (ka, va) :: xs, (kb, vb) :: ys => by
    simp only [renP]
    unfold cmpPairs
    rw [cmp_ren σ ka kb, cmp_ren σ va vb, cmpPairs_ren σ xs ys]
end

mutual
theorem inspect_ren (σ : Sh) : ∀ (o : Obj), inspect (ren σ o) = inspect o
  | .array els => by simp only [ren]; unfold inspect; rw [inspectList_ren σ els]
  | .map _ kvs => by simp only [ren]; unfold inspect; rw [inspectPairs_ren σ kvs]
  | .ret v _ => by simp only [ren]; unfold inspect; exact inspect_ren σ v
  | .func f => rfl
  | .ref .. => rfl
  | .null | .bool _ | .int _ | .float _ | .str _ | .ext _ | .error _ | .quote _ => rfl
theorem inspectList_ren (σ : Sh) : ∀ (l : List Obj), inspectList (renL σ l) = inspectList l
  | [] => rfl
  | [x] => by simp only [renL]; unfold inspectList; exact inspect_ren σ x
  | x :: y :: ys => by
    simp only [renL]
    unfold inspectList
    rw [inspect_ren σ x]
    have := inspectList_ren σ (y :: ys)
    simp only [renL] at this
    rw [this]
theorem inspectPairs_ren (σ : Sh) : ∀ (l : List (Obj × Obj)), inspectPairs (renP σ l) = inspectPairs l
  | [] => rfl
  | [(k, v)] => by simp only [renP]; unfold inspectPairs; rw [inspect_ren σ k, inspect_ren σ v]
  | (k, v) :: y :: ys => by
    obtain ⟨k2, v2⟩ := y
    simp only [renP]
    unfold inspectPairs
    rw [inspect_ren σ k, inspect_ren σ v]
    have := inspectPairs_ren σ ((k2, v2) :: ys)
    simp only [renP] at this
    rw [this]
end

mutual
theorem hashable_ren (σ : Sh) (cfg : Cfg) : ∀ (o : Obj), hashable cfg (ren σ o) = hashable cfg o
  | .array els => by simp only [ren]; unfold hashable; rw [renL_length, hashableList_ren σ cfg els]
  | .map _ kvs => by simp only [ren]; unfold hashable; rw [hashablePairs_ren σ cfg kvs]
  | .ret .. | .func _ | .ref .. | .null | .bool _ | .int _ | .float _ | .str _ | .ext _ | .error _ | .quote _ => rfl
theorem hashableList_ren (σ : Sh) (cfg : Cfg) : ∀ (l : List Obj), hashableList cfg (renL σ l) = hashableList cfg l
  | [] => rfl
  | x :: xs => by simp only [renL]; unfold hashableList; rw [hashable_ren σ cfg x, hashableList_ren σ cfg xs]
theorem hashablePairs_ren (σ : Sh) (cfg : Cfg) :
    ∀ (l : List (Obj × Obj)), hashablePairs cfg (renP σ l) = hashablePairs cfg l
  | [] => rfl
  | (k, v) :: xs => by
    simp only [renP]; unfold hashablePairs
    rw [hashable_ren σ cfg k, hashable_ren σ cfg v, hashablePairs_ren σ cfg xs]
end

mutual
theorem keyEq_ren_left (σ : Sh) : ∀ (a x : Obj), keyEq (ren σ a) x = keyEq a x
  | a, x => by
    cases a <;> cases x
    all_goals first
      | rfl
      | skip
    · rename_i l m; simp only [ren]; unfold keyEq; exact keyEqList_ren_left σ l m
    · rename_i b1 l b2 m; simp only [ren]; unfold keyEq; exact keyEqPairs_ren_left σ l m
theorem keyEqList_ren_left (σ : Sh) : ∀ (a x : List Obj), keyEqList (renL σ a) x = keyEqList a x
  | [], [] => rfl
  | [], _ :: _ => rfl
  | _ :: _, [] => rfl
  | a :: as, b :: bs => by
    simp only [renL]; unfold keyEqList; rw [keyEq_ren_left σ a b, keyEqList_ren_left σ as bs]
theorem keyEqPairs_ren_left (σ : Sh) : ∀ (a x : List (Obj × Obj)), keyEqPairs (renP σ a) x = keyEqPairs a x
  | [], [] => rfl
  | [], _ :: _ => rfl
  | _ :: _, [] => rfl
  | (ka, va) :: as, (kb, vb) :: bs => by
    simp only [renP]; unfold keyEqPairs
    rw [keyEq_ren_left σ ka kb, keyEq_ren_left σ va vb, keyEqPairs_ren_left σ as bs]
end

mutual
theorem keyEq_ren_right (σ : Sh) : ∀ (a x : Obj), keyEq a (ren σ x) = keyEq a x
  | a, x => by
    cases a <;> cases x
    all_goals first
      | rfl
      | skip
    · rename_i l m; simp only [ren]; unfold keyEq; exact keyEqList_ren_right σ l m
    · rename_i b1 l b2 m; simp only [ren]; unfold keyEq; exact keyEqPairs_ren_right σ l m
theorem keyEqList_ren_right (σ : Sh) : ∀ (a x : List Obj), keyEqList a (renL σ x) = keyEqList a x
  | [], [] => rfl
  | [], _ :: _ => rfl
  | _ :: _, [] => rfl
  | a :: as, b :: bs => by
    simp only [renL]; unfold keyEqList; rw [keyEq_ren_right σ a b, keyEqList_ren_right σ as bs]
theorem keyEqPairs_ren_right (σ : Sh) : ∀ (a x : List (Obj × Obj)), keyEqPairs a (renP σ x) = keyEqPairs a x
  | [], [] => rfl
  | [], _ :: _ => rfl
  | _ :: _, [] => rfl
  | (ka, va) :: as, (kb, vb) :: bs => by
    simp only [renP]; unfold keyEqPairs
    rw [keyEq_ren_right σ ka kb, keyEq_ren_right σ va vb, keyEqPairs_ren_right σ as bs]
end

mutual
theorem sameTypes_ren (σ : Sh) : ∀ (a b : Obj), sameTypes (ren σ a) (ren σ b) = sameTypes a b
  | a, b => by
    cases a <;> cases b
    all_goals first
      | rfl
      | skip
    · rename_i l m; simp only [ren]; unfold sameTypes; exact sameTypesList_ren σ l m
    · rename_i b1 l b2 m; simp only [ren]; unfold sameTypes; exact sameTypesPairs_ren σ l m
theorem sameTypesList_ren (σ : Sh) : ∀ (a b : List Obj), sameTypesList (renL σ a) (renL σ b) = sameTypesList a b
  | [], [] => rfl
  | [], _ :: _ => rfl
  | _ :: _, [] => rfl
  | a :: as, b :: bs => by
    simp only [renL]; unfold sameTypesList; rw [sameTypes_ren σ a b, sameTypesList_ren σ as bs]
theorem sameTypesPairs_ren (σ : Sh) :
    ∀ (a b : List (Obj × Obj)), sameTypesPairs (renP σ a) (renP σ b) = sameTypesPairs a b
  | [], [] => rfl
  | [], _ :: _ => rfl
  | _ :: _, [] => rfl
  | (ka, va) :: as, (kb, vb) :: bs => by
    simp only [renP]; unfold sameTypesPairs
    rw [sameTypes_ren σ ka kb, sameTypes_ren σ va vb, sameTypesPairs_ren σ as bs]
end

mutual
theorem holdsFunc_ren (σ : Sh) : ∀ (o : Obj), holdsFunc (ren σ o) = holdsFunc o
  | .array els => by simp only [ren]; unfold holdsFunc; exact holdsFuncList_ren σ els
  | .map _ kvs => by simp only [ren]; unfold holdsFunc; exact holdsFuncPairs_ren σ kvs
  | .ret .. | .func _ | .ref .. | .null | .bool _ | .int _ | .float _ | .str _ | .ext _ | .error _ | .quote _ => rfl
theorem holdsFuncList_ren (σ : Sh) : ∀ (l : List Obj), holdsFuncList (renL σ l) = holdsFuncList l
  | [] => rfl
  | x :: xs => by simp only [renL]; unfold holdsFuncList; rw [holdsFunc_ren σ x, holdsFuncList_ren σ xs]
theorem holdsFuncPairs_ren (σ : Sh) : ∀ (l : List (Obj × Obj)), holdsFuncPairs (renP σ l) = holdsFuncPairs l
  | [] => rfl
  | (k, v) :: xs => by
    simp only [renP]; unfold holdsFuncPairs
    rw [holdsFunc_ren σ k, holdsFunc_ren σ v, holdsFuncPairs_ren σ xs]
end

/-! ### maps -/

theorem mapFind_go_ren (σ : Sh) (key : Obj) : ∀ (kvs : List (Obj × Obj)) (i : Nat),
    mapFind.go (ren σ key) (renP σ kvs) i = (mapFind.go key kvs i).map (fun p => (p.1.map (ren σ), p.2))
  | [], i => rfl
  | (k, v) :: rest, i => by
    simp only [renP]
    unfold mapFind.go
    rw [cmp_ren σ k key]
    cases cmp k key with
    | error e => rfl
    | ok c =>
      simp only [bind, Except.bind]
      split
      · rfl
      · split
        · rfl
        · exact mapFind_go_ren σ key rest (i + 1)

theorem mapGet_ren (σ : Sh) (kvs : List (Obj × Obj)) (key : Obj) :
    mapGet (renP σ kvs) (ren σ key) = (mapGet kvs key).map (Option.map (ren σ)) := by
  unfold mapGet mapFind
  rw [mapFind_go_ren]
  cases mapFind.go key kvs 0 <;> rfl

theorem renP_getElem? (σ : Sh) (kvs : List (Obj × Obj)) (i : Nat) :
    (renP σ kvs)[i]? = (kvs[i]?).map (fun kv => (ren σ kv.1, ren σ kv.2)) := by
  rw [renP_eq]; simp

theorem oldKey_ren (σ : Sh) (kvs : List (Obj × Obj)) (i : Nat) (key : Obj) :
    mapSet.oldKey (renP σ kvs) i (ren σ key) = ren σ (mapSet.oldKey kvs i key) := by
  unfold mapSet.oldKey
  rw [renP_getElem?]
  cases kvs[i]? with
  | none => rfl
  | some kv => rfl

theorem mapSet_ren (σ : Sh) (cfg : Cfg) (big : Bool) (kvs : List (Obj × Obj)) (key val : Obj) :
    mapSet cfg big (renP σ kvs) (ren σ key) (ren σ val) =
      (mapSet cfg big kvs key val).map (fun p => (p.1, renP σ p.2)) := by
  unfold mapSet mapFind
  rw [mapFind_go_ren]
  cases mapFind.go key kvs 0 with
  | error e => rfl
  | ok r =>
    obtain ⟨found, i⟩ := r
    cases found with
    | some w =>
      simp only [bind, Except.bind, Except.map, Option.map, pure, Except.pure]
      rw [oldKey_ren]
      congr 2
      rw [renP_eq, renP_eq, List.map_set]
    | none =>
      simp only [bind, Except.bind, Except.map, Option.map, pure, Except.pure]
      congr 2
      · simp [renP_eq]
      · simp [renP_eq, List.map_take, List.map_drop]

theorem map_eraseIdx' {α β : Type} (f : α → β) : ∀ (l : List α) (i : Nat), (l.map f).eraseIdx i = (l.eraseIdx i).map f
  | [], _ => rfl
  | _ :: _, 0 => rfl
  | x :: xs, i + 1 => by simp only [List.map_cons, List.eraseIdx_cons_succ]; rw [map_eraseIdx' f xs i]

theorem mapDelete_ren (σ : Sh) (kvs : List (Obj × Obj)) (key : Obj) :
    mapDelete (renP σ kvs) (ren σ key) = (mapDelete kvs key).map (Option.map (renP σ)) := by
  unfold mapDelete mapFind
  rw [mapFind_go_ren]
  cases mapFind.go key kvs 0 with
  | error e => rfl
  | ok r =>
    obtain ⟨found, i⟩ := r
    cases found with
    | some w =>
      simp only [bind, Except.bind, Except.map, Option.map, pure, Except.pure]
      congr 2
      rw [renP_eq, renP_eq, map_eraseIdx']
    | none => rfl

theorem mapAppend_go_ren (σ : Sh) (cfg : Cfg) : ∀ (r : List (Obj × Obj)) (acc : Bool × List (Obj × Obj)),
    mapAppend.go cfg (acc.1, renP σ acc.2) (renP σ r) = (mapAppend.go cfg acc r).map (fun p => (p.1, renP σ p.2))
  | [], acc => rfl
  | (k, v) :: rest, acc => by
    simp only [renP]
    unfold mapAppend.go
    simp only
    rw [mapSet_ren]
    cases mapSet cfg acc.1 acc.2 k v with
    | error e => rfl
    | ok acc' =>
      simp only [bind, Except.bind, Except.map]
      exact mapAppend_go_ren σ cfg rest acc'

theorem mapAppend_ren (σ : Sh) (cfg : Cfg) (lbig : Bool) (l r : List (Obj × Obj)) :
    mapAppend cfg lbig (renP σ l) (renP σ r) = (mapAppend cfg lbig l r).map (fun p => (p.1, renP σ p.2)) := by
  unfold mapAppend
  rw [renP_length]
  exact mapAppend_go_ren σ cfg r (lbig || r.length > cfg.maxSmallMap, l)

theorem makeFirst_ren (σ : Sh) (k v : Obj) : makeFirst (ren σ k) (ren σ v) = ren σ (makeFirst k v) := rfl

end Grol.R

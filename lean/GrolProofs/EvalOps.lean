import Grol.Eval.Sexp
/-
Lemmas about the evaluator model's monad and operators (eval/eval.go evalIntegerInfixExpression …).
-/
namespace Grol.E

/-- the outcome of running a model computation -/
def outcome (x : M α) (st : St) : Except Stop α := (x.run st |>.run).1

/-- the state after running a model computation -/
def stateAfter (x : M α) (st : St) : St := (x.run st |>.run).2

def isGoPanic : Except Stop α → Bool
  | .error (.goPanic _) => true
  | _ => false

theorem outcome_pure (a : α) (st : St) : outcome (pure a : M α) st = .ok a := rfl

theorem outcome_bind (x : M α) (f : α → M β) (st : St) :
    outcome (x >>= f) st =
      match outcome x st with
      | .ok a => outcome (f a) (stateAfter x st)
      | .error e => .error e := by
  unfold outcome stateAfter
  simp only [bind, ExceptT.bind, ExceptT.run, ExceptT.mk, StateT.bind, ExceptT.bindCont, StateT.run, Id.run]
  split
  next a s h =>
    simp only [h]
    cases a <;> rfl

theorem bind_no_panic (x : M α) (f : α → M β) (st : St)
    (hx : isGoPanic (outcome x st) = false)
    (hf : ∀ a st', isGoPanic (outcome (f a) st') = false) :
    isGoPanic (outcome (x >>= f) st) = false := by
  rw [outcome_bind]
  split
  · exact hf _ _
  · next e h => rw [h] at hx; cases e <;> simp_all [isGoPanic]

theorem mustBeOk_no_panic (n : Int) (st : St) : isGoPanic (outcome (mustBeOk n) st) = false := by
  unfold mustBeOk outcome
  split <;> rfl

/-- integer `/` and `%` by zero, shifts by negative counts: language-level errors, never a Go panic -/
theorem evalIntegerInfix_no_panic (op : String) (l r : Int64) (st : St) :
    isGoPanic (outcome (evalIntegerInfix op l r) st) = false := by
  unfold evalIntegerInfix
  split
  all_goals first
    | rfl
    | (split <;> first | rfl | (split <;> rfl))
    | skip
  all_goals
    simp only []
    split
    · rfl
    · exact bind_no_panic _ _ _ (mustBeOk_no_panic _ _) (fun _ _ => rfl)

end Grol.E

import GrolProofs.RegSimEnv
/-
C05, simulation for statements, part 2: the statement-level simulation `C05.simulation_stmt_partial`.

Invariant `Inv n v`: the current frame binds `n` directly to `.int v` (`Bound`) and every stored reference
carries the key it is stored under (`RefNames`; RegSimEnv.lean shows every environment function keeps both as long
as the names it is given differ from `n`).  `Rel n v L L'` relates the two trees that are evaluated: `L'` the
original body, `L` the body with the reads of `n` replaced by the literal `v`; its constructors are the supported
statement forms.  `Sim n v fuel` is the simulation for every function of the evaluator's mutual block that these
forms reach (`evalI`, `eval`, `evalStatements`, `evalIf`, `evalAssignment`, `evalBuiltin`, `evalPrint`), proved by
induction on the fuel, one step lemma per function.

Covered (`NoCallStmt`): statement lists, `if`/`else`, `m = e` / `m := e`, `m[i] = e`, `m.f = e`, `m++`/`m--`,
`++m`/`--m` for variables `m ≠ n`, `print`/`println`, `return` (with or without value), `break`/`continue`,
comments, and all of the arithmetic fragment with ANY identifier (also one resolved through a reference to an
enclosing scope).  Not covered — and so still only part of `C05.SimStatement`: calls (necessarily: open finding
`loop-variable-invisible-to-callee`), `for` loops inside the body (the nested loop re-enters `useRegister` for its
own variable; at the level of this model both sides would run the register-free loop, the missing part is the step
lemmas for `evalFor*`), array and map literals, index reads `a[i]` / `m.f`, `len`/`first`/`rest`/`catch`/`del`.
The error-wording caveat stays: `n[i] = e`, `n.f = e` are excluded (both sides fail, with different messages).
`RefNames st` is a hypothesis: it holds in the initial state (`refNames_initState`) and is kept by all call-free
code (RegSimEnv.lean); that calls keep it too is not proved here.
-/
namespace Grol.RegRewrite
open Grol.E

/-- the invariant of the statement-level simulation: `n` is bound to `.int v` in the current frame, and every
reference stored under a key carries that key -/
def Inv (n : String) (v : Int64) (st : St) : Prop := Bound n v st ∧ RefNames st

instance (n : String) (v : Int64) : Stable (Inv n v) :=
  ⟨fun st st' h hi => ⟨hi.1.of_same h, fun e f hf => hi.2 e f (by rw [← h.1]; exact hf)⟩⟩

/-- a computation that keeps the invariant -/
def PresI (I : St → Prop) (x : M α) : Prop := ∀ st, I st → I (run x st).2

theorem PresI.of_tri {n : String} {v : Int64} {x : M α} {Q : α → Prop} (h : TriA n x Q) : PresI (Inv n v) x :=
  fun st hi => ⟨(h st hi.2).2.1.direct hi.1, (h st hi.2).1⟩

theorem EqOn.of_presI {I : St → Prop} {x : M α} (hx : PresI I x) : EqOn I x x := fun st hs => ⟨rfl, hx st hs⟩

theorem EqOn.of_tri {n : String} {v : Int64} {x : M α} {Q : α → Prop} (h : TriA n x Q) : EqOn (Inv n v) x x :=
  EqOn.of_presI (PresI.of_tri h)

mutual
/-- `Rel n v L L'`: `L'` is a call-free statement of the supported forms and `L` is `L'` with the reads of `n`
replaced by the literal `v` -/
inductive Rel (n : String) (v : Int64) : Node → Node → Prop
  | var : Rel n v (.int v) (.ident n)
  | ident (m : String) (hm : m ≠ n) : Rel n v (.ident m) (.ident m)
  | int (w : Int64) : Rel n v (.int w) (.int w)
  | float (b : UInt64) : Rel n v (.float b) (.float b)
  | str (s : Grol.Wire.Bytes) : Rel n v (.str s) (.str s)
  | bool (b : Bool) : Rel n v (.bool b) (.bool b)
  | ctl (k : String) : Rel n v (.ctl k) (.ctl k)
  | comment : Rel n v .comment .comment
  | none : Rel n v .none .none
  | pre (op : String) (hop : (op == "INCR" || op == "DECR") = false) {r r' : Node} : Rel n v r r' → Rel n v (.pre op r) (.pre op r')
  | incr (op : String) (hop : (op == "INCR" || op == "DECR") = true) (m : String) (hm : m ≠ n) :
      Rel n v (.pre op (.ident m)) (.pre op (.ident m))
  | post (op m : String) (hm : m ≠ n) : Rel n v (.post op m) (.post op m)
  | inf (op : String) (hop : (op == "ASSIGN" || op == "DEFINE") = false) {l l' r r' : Node} :
      Rel n v l l' → Rel n v r r' → Rel n v (.inf op l r) (.inf op l' r')
  | assign (op : String) (hop : (op == "ASSIGN" || op == "DEFINE") = true) (m : String) (hm : m ≠ n) {r r' : Node} :
      Rel n v r r' → Rel n v (.inf op (.ident m) r) (.inf op (.ident m) r')
  | assignIdx (op : String) (hop : (op == "ASSIGN" || op == "DEFINE") = true) (m : String) (hm : m ≠ n) {i i' r r' : Node} :
      Rel n v i i' → Rel n v r r' →
      Rel n v (.inf op (.idx "LBRACKET" (.ident m) i) r) (.inf op (.idx "LBRACKET" (.ident m) i') r')
  | assignDot (op : String) (hop : (op == "ASSIGN" || op == "DEFINE") = true) (m : String) (hm : m ≠ n) (fld : Node) {r r' : Node} :
      Rel n v r r' → Rel n v (.inf op (.idx "DOT" (.ident m) fld) r) (.inf op (.idx "DOT" (.ident m) fld) r')
  | stmts {l l' : List Node} : RelL n v l l' → Rel n v (.stmts l) (.stmts l')
  | ifE {c c' a a' b b' : Node} : Rel n v c c' → Rel n v a a' → Rel n v b b' → Rel n v (.ifE c a b) (.ifE c' a' b')
  | ret {x x' : Node} : Rel n v x x' → Rel n v (.ret x) (.ret x')
  | print (t : String) (ht : t = "PRINT" ∨ t = "PRINTLN") {ps ps' : List Node} :
      RelL n v ps ps' → Rel n v (.builtin t ps) (.builtin t ps')
inductive RelL (n : String) (v : Int64) : List Node → List Node → Prop
  | nil : RelL n v [] []
  | cons {x x' : Node} {xs xs' : List Node} : Rel n v x x' → RelL n v xs xs' → RelL n v (x :: xs) (x' :: xs')
end

theorem Rel.none_iff {n : String} {v : Int64} {L L' : Node} (h : Rel n v L L') : L = .none ↔ L' = .none := by
  cases h <;> simp

theorem Rel.comment_iff {n : String} {v : Int64} {L L' : Node} (h : Rel n v L L') : L = .comment ↔ L' = .comment := by
  cases h <;> simp

theorem Rel.tokType_paren {n : String} {v : Int64} {L L' : Node} (h : Rel n v L L') :
    (L.tokType == "LPAREN") = (L'.tokType == "LPAREN") := by
  cases h <;> first | rfl | decide

theorem RelL.length {n : String} {v : Int64} : ∀ {l l' : List Node}, RelL n v l l' → l.length = l'.length
  | _, _, .nil => rfl
  | _, _, .cons _ h => by simp [RelL.length h]

/-! ### the simulation at one fuel level, for every function of the mutual block that is reached -/

structure Sim (n : String) (v : Int64) (fuel : Nat) : Prop where
  evalI : ∀ L L', Rel n v L L' → EqOn (Inv n v) (E.evalI fuel L) (E.evalI fuel L')
  eval : ∀ L L', Rel n v L L' → EqOn (Inv n v) (E.eval fuel L) (E.eval fuel L')
  stmts : ∀ l l' r, RelL n v l l' → EqOn (Inv n v) (evalStatements fuel l r) (evalStatements fuel l' r)
  evalIf : ∀ c c' a a' b b', Rel n v c c' → Rel n v a a' → Rel n v b b' →
    EqOn (Inv n v) (E.evalIf fuel c a b) (E.evalIf fuel c' a' b')
  assignIdx : ∀ right op m i i', m ≠ n → Rel n v i i' →
    EqOn (Inv n v) (evalAssignment fuel right op (.idx "LBRACKET" (.ident m) i))
      (evalAssignment fuel right op (.idx "LBRACKET" (.ident m) i'))
  builtin : ∀ t ps ps', (t = "PRINT" ∨ t = "PRINTLN") → RelL n v ps ps' →
    EqOn (Inv n v) (evalBuiltin fuel t ps) (evalBuiltin fuel t ps')
  print : ∀ t ps ps' first buf, RelL n v ps ps' →
    EqOn (Inv n v) (evalPrint fuel t ps first buf) (evalPrint fuel t ps' first buf)

variable {n : String} {v : Int64}

theorem sim_zero : Sim n v 0 := by
  refine ⟨?_, ?_, ?_, ?_, ?_, ?_, ?_⟩ <;> intros
  · rw [E.evalI, E.evalI]; exact EqOn.of_readOnly (ReadOnly.stop _)
  · rw [E.eval, E.eval]; exact EqOn.of_readOnly (ReadOnly.stop _)
  · rw [evalStatements, evalStatements]; exact EqOn.of_readOnly (ReadOnly.stop _)
  · rw [E.evalIf, E.evalIf]; exact EqOn.of_readOnly (ReadOnly.stop _)
  · rw [evalAssignment, evalAssignment]; exact EqOn.of_readOnly (ReadOnly.stop _)
  · rw [evalBuiltin, evalBuiltin]; exact EqOn.of_readOnly (ReadOnly.stop _)
  · rw [evalPrint, evalPrint]; exact EqOn.of_readOnly (ReadOnly.stop _)

/-- reading the variable: the literal on the register side -/
theorem eqOn_var : EqOn (Inv n v) (pure (.int v)) (evalIdentifier n) := by
  intro st hs
  rw [run_evalIdentifier_direct hs.1]
  exact ⟨rfl, hs⟩

theorem step_stmts_cons {fuel : Nat} (ih : Sim n v fuel) {x x' : Node} {xs xs' : List Node} (r : Obj)
    (hx : Rel n v x x') (hxs : RelL n v xs xs') :
    EqOn (Inv n v) (evalStatements (fuel+1) (x :: xs) r) (evalStatements (fuel+1) (x' :: xs') r) := by
  unfold evalStatements
  have tail : EqOn (Inv n v) (do
      let r ← E.evalI fuel x
      match r with
        | .ret .. | .error _ => pure r
        | _ => evalStatements fuel xs r) (do
      let r ← E.evalI fuel x'
      match r with
        | .ret .. | .error _ => pure r
        | _ => evalStatements fuel xs' r) := by
    apply EqOn.bind (ih.evalI _ _ hx); intro r
    split
    · exact EqOn.of_readOnly (ReadOnly.pure _)
    · exact EqOn.of_readOnly (ReadOnly.pure _)
    · exact ih.stmts _ _ _ hxs
  split <;> split
  · exact ih.stmts _ _ _ hxs
  · next hc => exact absurd (hx.comment_iff.mp rfl) (by intro h; exact hc h)
  · next hc _ => exact absurd (hx.comment_iff.mpr rfl) (by intro h; exact hc h)
  · exact tail

theorem step_stmts {fuel : Nat} (ih : Sim n v fuel) (l l' : List Node) (r : Obj) (h : RelL n v l l') :
    EqOn (Inv n v) (evalStatements (fuel+1) l r) (evalStatements (fuel+1) l' r) := by
  cases h with
  | nil => rw [evalStatements]; exact EqOn.of_readOnly (ReadOnly.pure _)
  | cons hx hxs => exact step_stmts_cons ih r hx hxs

theorem step_evalIf {fuel : Nat} (ih : Sim n v fuel) {c c' a a' b b' : Node}
    (hc : Rel n v c c') (ha : Rel n v a a') (hb : Rel n v b b') :
    EqOn (Inv n v) (E.evalIf (fuel+1) c a b) (E.evalIf (fuel+1) c' a' b') := by
  unfold E.evalIf
  apply EqOn.bind (ih.evalI _ _ hc); intro r
  apply EqOn.bind (EqOn.of_readOnly (readOnly_valueOf r)); intro cond
  split
  · exact ih.evalI _ _ ha
  · split <;> split
    · exact EqOn.of_readOnly (ReadOnly.pure _)
    · next hn => exact absurd (hb.none_iff.mp rfl) (by intro h; exact hn h)
    · next hn _ => exact absurd (hb.none_iff.mpr rfl) (by intro h; exact hn h)
    · exact ih.evalI _ _ hb
  · exact EqOn.of_readOnly (ReadOnly.pure _)

theorem step_assignIdx {fuel : Nat} (ih : Sim n v fuel) (right : Obj) (op m : String) {i i' : Node}
    (hm : m ≠ n) (hi : Rel n v i i') :
    EqOn (Inv n v) (evalAssignment (fuel+1) right op (.idx "LBRACKET" (.ident m) i))
      (evalAssignment (fuel+1) right op (.idx "LBRACKET" (.ident m) i')) := by
  unfold evalAssignment
  simp (config := { zeta := true, zetaHave := true, decide := true }) only [Node.tokType]
  split
  · exact EqOn.of_readOnly (ReadOnly.pure _)
  · exact EqOn.bind (ih.eval _ _ hi) (fun index => EqOn.of_tri (TriA.evalIndexAssignment hm index right))

/-- assignment to another variable / to a field of another variable: the same call on both sides -/
theorem pres_assign_ident (fuel : Nat) (right : Obj) (op m : String) (hm : m ≠ n) :
    EqOn (Inv n v) (evalAssignment fuel right op (.ident m)) (evalAssignment fuel right op (.ident m)) := by
  cases fuel with
  | zero => rw [evalAssignment]; exact EqOn.of_readOnly (ReadOnly.stop _)
  | succ fuel =>
    unfold evalAssignment
    simp (config := { zeta := true, zetaHave := true, decide := true }) only [Node.tokType]
    apply EqOn.of_tri (Q := fun _ => True)
    tri_true hm

theorem pres_assign_dot (fuel : Nat) (right : Obj) (op m : String) (hm : m ≠ n) (fld : Node) :
    EqOn (Inv n v) (evalAssignment fuel right op (.idx "DOT" (.ident m) fld))
      (evalAssignment fuel right op (.idx "DOT" (.ident m) fld)) := by
  cases fuel with
  | zero => rw [evalAssignment]; exact EqOn.of_readOnly (ReadOnly.stop _)
  | succ fuel =>
    unfold evalAssignment
    simp (config := { zeta := true, zetaHave := true, decide := true }) only [Node.tokType]
    apply EqOn.of_tri (Q := fun _ => True)
    split
    · exact TriA.pure trivial
    · exact TriA.evalIndexAssignment hm _ _

theorem step_builtin {fuel : Nat} (ih : Sim n v fuel) (t : String) {ps ps' : List Node}
    (ht : t = "PRINT" ∨ t = "PRINTLN") (h : RelL n v ps ps') :
    EqOn (Inv n v) (evalBuiltin (fuel+1) t ps) (evalBuiltin (fuel+1) t ps') := by
  unfold evalBuiltin
  rw [h.length]
  cases ht with
  | inl ht =>
    subst ht
    simp (config := { zeta := true, zetaHave := true, decide := true }) only [builtinArity, ↓reduceIte]
    split
    · exact EqOn.of_readOnly (ReadOnly.pure _)
    · exact ih.print _ _ _ _ _ h
  | inr ht =>
    subst ht
    simp (config := { zeta := true, zetaHave := true, decide := true }) only [builtinArity, ↓reduceIte]
    split
    · exact EqOn.of_readOnly (ReadOnly.pure _)
    · exact ih.print _ _ _ _ _ h

theorem step_print {fuel : Nat} (ih : Sim n v fuel) (t : String) {ps ps' : List Node} (first : Bool)
    (buf : Grol.Wire.Bytes) (h : RelL n v ps ps') :
    EqOn (Inv n v) (evalPrint (fuel+1) t ps first buf) (evalPrint (fuel+1) t ps' first buf) := by
  cases h with
  | nil =>
    unfold evalPrint
    simp (config := { zeta := true, zetaHave := true }) only
    apply EqOn.of_tri (n := n) (Q := fun _ => True)
    have hm : n ≠ n → True := fun _ => trivial
    repeat' (first
      | with_reducible exact TriA.pure trivial
      | with_reducible exact TriA.stop _
      | with_reducible exact TriA.stop_bind _ _
      | with_reducible exact TriA.writeOut _
      | (with_reducible refine TriA.bind (P := fun _ => True) ?_ (fun _ _ => ?_))
      | split)
  | cons hx hxs =>
    unfold evalPrint
    simp (config := { zeta := true, zetaHave := true }) only
    apply EqOn.bind (ih.evalI _ _ hx); intro r
    split
    · exact EqOn.of_readOnly (ReadOnly.pure _)
    · apply EqOn.bind (EqOn.of_readOnly (readOnly_valueOf r)); intro r2
      split
      · exact EqOn.bind (EqOn.of_readOnly (ReadOnly.pure _)) (fun piece => ih.print _ _ _ _ _ hxs)
      · exact EqOn.bind (EqOn.of_readOnly (ReadOnly.liftR _)) (fun piece => ih.print _ _ _ _ _ hxs)

theorem Rel.hazOk {L L' : Node} (h : Rel n v L L') (fuel : Nat) : HazOk (Inv n v) fuel L L' := by
  cases h <;> first
    | exact Or.inl rfl
    | exact Or.inr (fun st _ els => eval_int_not_array fuel v st els)

theorem step_evalI {fuel : Nat} (ih : Sim n v fuel) {L L' : Node} (h : Rel n v L L') :
    EqOn (Inv n v) (E.evalI (fuel+1) L) (E.evalI (fuel+1) L') := by
  cases h with
  | var => rw [E.evalI, E.evalI]; exact evalI_leaf eqOn_var
  | ident m hm => rw [E.evalI]; exact evalI_leaf (EqOn.of_tri (TriA.evalIdentifier hm))
  | int w => rw [E.evalI]; exact evalI_leaf (EqOn.of_readOnly (ReadOnly.pure _))
  | float w => rw [E.evalI]; exact evalI_leaf (EqOn.of_readOnly (ReadOnly.pure _))
  | str w => rw [E.evalI]; exact evalI_leaf (EqOn.of_readOnly (ReadOnly.pure _))
  | bool w => rw [E.evalI]; exact evalI_leaf (EqOn.of_readOnly (ReadOnly.pure _))
  | ctl k => rw [E.evalI]; exact evalI_leaf (EqOn.of_readOnly (ReadOnly.pure _))
  | comment => rw [E.evalI]; exact evalI_leaf (EqOn.of_readOnly (ReadOnly.pure _))
  | none => rw [E.evalI]; exact evalI_leaf (EqOn.of_readOnly (ReadOnly.pure _))
  | pre op hop hr => exact evalI_pre_eqOn hop (ih.eval _ _ hr)
  | incr op hop m hm =>
    rw [E.evalI]; simp only [hop, ↓reduceIte]
    exact evalI_leaf (EqOn.of_tri (TriA.evalPrefixIncrDecr hm op))
  | post op m hm => rw [E.evalI]; exact evalI_leaf (EqOn.of_tri (TriA.evalPostfix hm op))
  | inf op hop hl hr => exact evalI_inf_eqOn hop hr.tokType_paren (ih.eval _ _ hl) (ih.eval _ _ hr) (hl.hazOk fuel)
  | assign op hop m hm hr =>
    rw [E.evalI, E.evalI]; simp only [hop, ↓reduceIte]
    exact evalI_leaf (EqOn.bind (ih.eval _ _ hr) (fun right => pres_assign_ident fuel right op m hm))
  | assignIdx op hop m hm hi hr =>
    rw [E.evalI, E.evalI]; simp only [hop, ↓reduceIte]
    exact evalI_leaf (EqOn.bind (ih.eval _ _ hr) (fun right => ih.assignIdx right op m _ _ hm hi))
  | assignDot op hop m hm fld hr =>
    rw [E.evalI, E.evalI]; simp only [hop, ↓reduceIte]
    exact evalI_leaf (EqOn.bind (ih.eval _ _ hr) (fun right => pres_assign_dot fuel right op m hm fld))
  | stmts hl => rw [E.evalI, E.evalI]; exact evalI_leaf (ih.stmts _ _ _ hl)
  | ifE hc ha hb => rw [E.evalI, E.evalI]; exact evalI_leaf (ih.evalIf _ _ _ _ _ _ hc ha hb)
  | @ret x x' hx =>
    by_cases h0 : x = .none
    · have h1 : x' = .none := hx.none_iff.mp h0
      subst h0; subst h1
      rw [E.evalI]; exact evalI_leaf (EqOn.of_readOnly (ReadOnly.pure _))
    · have h1 : x' ≠ .none := fun h => h0 (hx.none_iff.mpr h)
      rw [E.evalI, E.evalI]
      · exact evalI_leaf (EqOn.bind (ih.evalI _ _ hx) (fun r => EqOn.of_readOnly (ReadOnly.pure _)))
      all_goals (first | exact h0 | exact h1)
  | print t ht hps => rw [E.evalI, E.evalI]; exact evalI_leaf (ih.builtin t _ _ ht hps)

theorem sim_all : ∀ fuel, Sim n v fuel
  | 0 => sim_zero
  | fuel + 1 =>
    have ih := sim_all fuel
    { evalI := fun _ _ h => step_evalI ih h
      eval := fun _ _ h => eval_succ_eqOn (ih.evalI _ _ h)
      stmts := fun l l' r h => step_stmts ih l l' r h
      evalIf := fun _ _ _ _ _ _ hc ha hb => step_evalIf ih hc ha hb
      assignIdx := fun right op m _ _ hm hi => step_assignIdx ih right op m hm hi
      builtin := fun t _ _ ht h => step_builtin ih t ht h
      print := fun t _ _ first buf h => step_print ih t first buf h }

/-! ### the fragment, on bodies -/

mutual
/-- call-free statements of the supported forms (the body before the rewrite; it may hold registers of enclosing
rewrites).  Not included: calls, function and macro literals, `for` loops, array and map literals, index reads,
the builtins other than `print`/`println`; and — refused by the rewrite anyway — any write to `n`. -/
inductive NoCallStmt (n : String) : RNode → Prop
  | ident (m : String) : NoCallStmt n (.ident m)
  | reg (m : String) (i : Nat) : NoCallStmt n (.reg m i)
  | int (w : Int64) : NoCallStmt n (.int w)
  | float (b : UInt64) : NoCallStmt n (.float b)
  | str (s : Grol.Wire.Bytes) : NoCallStmt n (.str s)
  | bool (b : Bool) : NoCallStmt n (.bool b)
  | ctl (k : String) : NoCallStmt n (.ctl k)
  | comment : NoCallStmt n .comment
  | none : NoCallStmt n .none
  | pre (op : String) (hop : (op == "INCR" || op == "DECR") = false) {r : RNode} : NoCallStmt n r → NoCallStmt n (.pre op r)
  | incr (op : String) (hop : (op == "INCR" || op == "DECR") = true) (m : String) (hm : m ≠ n) : NoCallStmt n (.pre op (.ident m))
  | post (op m : String) (hm : m ≠ n) : NoCallStmt n (.post op m)
  | inf (op : String) (hop : (op == "ASSIGN" || op == "DEFINE") = false) {l r : RNode} :
      NoCallStmt n l → NoCallStmt n r → NoCallStmt n (.inf op l r)
  | assign (op : String) (hop : (op == "ASSIGN" || op == "DEFINE") = true) (m : String) (hm : m ≠ n) {r : RNode} :
      NoCallStmt n r → NoCallStmt n (.inf op (.ident m) r)
  | assignIdx (op : String) (hop : (op == "ASSIGN" || op == "DEFINE") = true) (m : String) (hm : m ≠ n) {i r : RNode} :
      NoCallStmt n i → NoCallStmt n r → NoCallStmt n (.inf op (.idx "LBRACKET" (.ident m) i) r)
  | assignDot (op : String) (hop : (op == "ASSIGN" || op == "DEFINE") = true) (m : String) (hm : m ≠ n)
      (f : String) (hf : f ≠ n) {r : RNode} :
      NoCallStmt n r → NoCallStmt n (.inf op (.idx "DOT" (.ident m) (.ident f)) r)
  | stmts {l : List RNode} : NoCallStmtL n l → NoCallStmt n (.stmts l)
  | ifE {c a b : RNode} : NoCallStmt n c → NoCallStmt n a → NoCallStmt n b → NoCallStmt n (.ifE c a b)
  | ret {x : RNode} : NoCallStmt n x → NoCallStmt n (.ret x)
  | print (t : String) (ht : t = "PRINT" ∨ t = "PRINTLN") {ps : List RNode} : NoCallStmtL n ps → NoCallStmt n (.builtin t ps)
inductive NoCallStmtL (n : String) : List RNode → Prop
  | nil : NoCallStmtL n []
  | cons {x : RNode} {xs : List RNode} : NoCallStmt n x → NoCallStmtL n xs → NoCallStmtL n (x :: xs)
end

theorem beq_false_of_ne {m n : String} (h : m ≠ n) : (m == n) = false := by simpa using h

mutual
theorem noCallStmt_rel (regs : Nat → Int64) (k : Nat) (hv : regs k = v) :
    ∀ {b : RNode}, NoCallStmt n b → Rel n v (inst regs (substAll n k b)) (inst regs b)
  | _, .ident m => by
    by_cases hm : (m == n) = true
    · have : m = n := eq_of_beq hm
      subst this
      simp only [substAll, hm, if_true, inst, hv]; exact Rel.var
    · simp only [substAll, hm, inst]
      exact Rel.ident m (fun h => hm (by rw [h]; exact beq_self_eq_true n))
  | _, .reg m i => by simp only [substAll, inst]; exact Rel.int _
  | _, .int w => by simp only [substAll, inst]; exact Rel.int _
  | _, .float w => by simp only [substAll, inst]; exact Rel.float _
  | _, .str w => by simp only [substAll, inst]; exact Rel.str _
  | _, .bool w => by simp only [substAll, inst]; exact Rel.bool _
  | _, .ctl w => by simp only [substAll, inst]; exact Rel.ctl _
  | _, .comment => by simp only [substAll, inst]; exact Rel.comment
  | _, .none => by simp only [substAll, inst]; exact Rel.none
  | _, .pre op hop hr => by simp only [substAll, inst]; exact Rel.pre op hop (noCallStmt_rel regs k hv hr)
  | _, .incr op hop m hm => by
    simp only [substAll, beq_false_of_ne hm, inst]; exact Rel.incr op hop m hm
  | _, .post op m hm => by simp only [substAll, inst]; exact Rel.post op m hm
  | _, .inf op hop hl hr => by
    simp only [substAll, inst]; exact Rel.inf op hop (noCallStmt_rel regs k hv hl) (noCallStmt_rel regs k hv hr)
  | _, .assign op hop m hm hr => by
    simp only [substAll, beq_false_of_ne hm, inst]; exact Rel.assign op hop m hm (noCallStmt_rel regs k hv hr)
  | _, .assignIdx op hop m hm hi hr => by
    simp only [substAll, beq_false_of_ne hm, inst]
    exact Rel.assignIdx op hop m hm (noCallStmt_rel regs k hv hi) (noCallStmt_rel regs k hv hr)
  | _, .assignDot op hop m hm f hf hr => by
    simp only [substAll, beq_false_of_ne hm, beq_false_of_ne hf, inst]
    exact Rel.assignDot op hop m hm _ (noCallStmt_rel regs k hv hr)
  | _, .stmts hl => by simp only [substAll, inst]; exact Rel.stmts (noCallStmtL_rel regs k hv hl)
  | _, .ifE hc ha hb => by
    simp only [substAll, inst]
    exact Rel.ifE (noCallStmt_rel regs k hv hc) (noCallStmt_rel regs k hv ha) (noCallStmt_rel regs k hv hb)
  | _, .ret hx => by simp only [substAll, inst]; exact Rel.ret (noCallStmt_rel regs k hv hx)
  | _, .print t ht hps => by simp only [substAll, inst]; exact Rel.print t ht (noCallStmtL_rel regs k hv hps)
theorem noCallStmtL_rel (regs : Nat → Int64) (k : Nat) (hv : regs k = v) :
    ∀ {l : List RNode}, NoCallStmtL n l → RelL n v (instList regs (substAllList n k l)) (instList regs l)
  | _, .nil => by simp only [substAllList, instList]; exact RelL.nil
  | _, .cons hx hxs => by
    simp only [substAllList, instList]; exact RelL.cons (noCallStmt_rel regs k hv hx) (noCallStmtL_rel regs k hv hxs)
end

/-- (c) for call-free statements: if the rewrite of `b` for `n` succeeded and the register holds `v`, then in every
state whose current frame binds `n` to `.int v` (and whose stored references carry their keys: `RefNames`, true of
the initial state and kept by every environment function), the register-aware evaluation of the rewritten body and
the evaluation of the original body have the same outcome and the same final state — any fuel, any deadline. -/
theorem C05.simulation_stmt_partial (k : Nat) (regs : Nat → Int64) (b b' : RNode) (fuel : Nat) (st : St)
    (hm : modifyR n k b = some b') (hregs : regs k = v) (hb : Bound n v st) (hr : RefNames st) (hf : NoCallStmt n b) :
    run (evalReg fuel regs b') st = run (E.evalI fuel (inst regs b)) st := by
  rw [modifyR_spec] at hm
  by_cases hrf : refuses n k b = true
  · simp [hrf] at hm
  · have hrf' : refuses n k b = false := by simpa using hrf
    rw [hrf'] at hm
    simp only [Bool.false_eq_true, if_false, Option.some.injEq] at hm
    subst hm
    exact ((sim_all fuel).evalI _ _ (noCallStmt_rel regs k hregs hf) st ⟨hb, hr⟩).1

/-! ### non-vacuity -/

theorem refNamesStore_of_notRef {s : List (String × Obj)} (h : ∀ p ∈ s, NotRef p.2) : RefNamesStore s := by
  intro k re rn hl
  induction s with
  | nil => simp [lookupStore] at hl
  | cons p rest ih =>
    obtain ⟨pk, pv⟩ := p
    rw [lookupStore_cons] at hl
    split at hl
    · cases hl; exact absurd rfl (h (pk, .ref re rn) (List.mem_cons_self ..) re rn)
    · exact ih (fun q hq => h q (List.mem_cons_of_mem _ hq)) hl

/-- the initial state of a session holds no reference -/
theorem refNames_initState (cfg : Cfg) : RefNames (initState cfg) := by
  intro e f hf
  have : f = { store := [("nil", .null), ("null", .null), ("NaN", .float nanBits), ("Inf", .float infBits),
                          ("PI", .float 0x400921FB54442D18), ("E", .float 0x4005BF0A8B145769)] } := by
    cases e with
    | zero => simp [initState] at hf; exact hf.symm
    | succ e => simp [initState] at hf
  subst this
  apply refNamesStore_of_notRef
  intro p hp
  simp at hp
  rcases hp with h | h | h | h | h | h <;> (subst h; intro e k hh; cases hh)

/-- a loop at top level over `i`, with `i = 2`, `x = 7`, `s = 0` bound -/
def stmtExampleState : St :=
  { (initState {}) with frames := #[{ store := [("i", .int 2), ("x", .int 7), ("s", .int 0)] }] }

/-- `if i < x { s = s + i }; println(s, i)` -/
def stmtExampleBody : RNode :=
  .stmts [.ifE (.inf "LT" (.ident "i") (.ident "x"))
            (.stmts [.inf "ASSIGN" (.ident "s") (.inf "PLUS" (.ident "s") (.ident "i"))]) .none,
          .builtin "PRINTLN" [.ident "s", .ident "i"]]

example : NoCallStmt "i" stmtExampleBody :=
  .stmts (.cons
    (.ifE (.inf "LT" (by decide) (.ident _) (.ident _))
      (.stmts (.cons (.assign "ASSIGN" (by decide) "s" (by decide) (.inf "PLUS" (by decide) (.ident _) (.ident _))) .nil))
      .none)
    (.cons (.print "PRINTLN" (Or.inr rfl) (.cons (.ident _) (.cons (.ident _) .nil))) .nil))

example : Bound "i" 2 stmtExampleState ∧ RefNames stmtExampleState := by
  refine ⟨⟨by decide, by decide, by decide,
    ⟨{ store := [("i", .int 2), ("x", .int 7), ("s", .int 0)] }, rfl, rfl, fun fn h => by cases h⟩,
    fun e k h => by cases h⟩, ?_⟩
  intro e f hf
  have : f = { store := [("i", .int 2), ("x", .int 7), ("s", .int 0)] } := by
    cases e with
    | zero => simp [stmtExampleState] at hf; exact hf.symm
    | succ e => simp [stmtExampleState] at hf
  subst this
  apply refNamesStore_of_notRef
  intro p hp
  simp at hp
  rcases hp with h | h | h <;> (subst h; intro e k hh; cases hh)

/-- the rewrite of the example body succeeds -/
example : (modifyR "i" 0 stmtExampleBody).isSome = true := by rfl

end Grol.RegRewrite

import Grol.Trie
/- The byte loop `for i := t.min; i <= t.max; i++` as a list. -/
namespace Grol.Trie

/-! ### byte range -/

theorem allBytesList_pairwise : ((List.range 256).map UInt8.ofNat).Pairwise (· < ·) := by
  decide +kernel

theorem mem_allBytesList (i : UInt8) : i ∈ (List.range 256).map UInt8.ofNat := by
  simp only [List.mem_map, List.mem_range]
  exact ⟨i.toNat, i.toNat_lt, by simp⟩

theorem mem_byteRange (mn mx i : UInt8) : i ∈ byteRange mn mx ↔ mn ≤ i ∧ i ≤ mx := by
  unfold byteRange
  rw [List.mem_filter]
  simp [mem_allBytesList, -List.mem_map]

theorem byteRange_pairwise (mn mx : UInt8) : (byteRange mn mx).Pairwise (· < ·) :=
  List.Pairwise.filter _ allBytesList_pairwise


end Grol.Trie

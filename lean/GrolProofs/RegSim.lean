import GrolProofs.RegRewrite
import GrolProofs.EnvRun
import GrolProofs.Props.C06
/-
C05, the SIMULATION between the two configurations (registers on / off), at the level of the models.

Register-aware evaluation.  The evaluator model `Grol.E.eval` is the register-free configuration and
cannot be extended with a register node without touching `Node` (see RegRewrite.lean).  In the Go code
`evalInternal(*object.Register)` returns the register, which every consumer reads through `Int64Value` /
`object.Value` / `CopyRegister`, i.e. as the integer the register holds at that moment; an eligible
body never writes the register (`x = e`, `x++`, `++x` are refused), and the loop writes it only between
two evaluations of the body.  So DURING one evaluation of the body the register is a constant, and the
register-aware evaluation of a rewritten body is the evaluation of `inst regs b'`: the tree in which
every register node is the integer literal of its current content (`evalReg`).  That this is what the
Go code does with a Register object is not proved here; it is what the `eval` suite compares (registers
on vs the register-free model) on every generated program.

The loop around it (`evalForInteger` with a register): per iteration `regs[idx] := i`, evaluate
`inst regs b'`; at exit `Set(name, last)`.  Without: per iteration `Set(name, i)`, evaluate `b`.

What is proved (`C05.read_sim`, `C05.simulation_partial`): in a state whose current frame binds `n` to
`.int v` (the register-free configuration just did `Set(n, v)`), evaluating the rewritten body with the
register holding `v` and evaluating the original body give the same result AND the same state,
  * for the read of the variable itself (the leaf of the induction), any fuel, any deadline;
  * for every body of the arithmetic fragment `arith`: the variable, other registers, literals, prefix
    operators other than `++`/`--`, infix operators other than `=`/`:=` (arithmetic, comparison, logic),
    and identifiers bound directly (not through a reference) in the current frame.
What is only stated (`C05.SimStatement`), with the hypotheses that are necessary:
  * `noCall`: no call in the body.  With calls the two configurations DIFFER exactly when the callee
    reads `n` through its defining scope (open finding `loop-variable-invisible-to-callee`); the precise
    hypothesis would be "no call whose callee mentions `n` free", which is not a property of the tree.
  * `identPositionsOk`: `n` does not occur where the evaluator wants an identifier and reports an error
    otherwise (`n[i] = e`, `n.f = e`, `del(n[i])`, `del(n.f)`): both configurations fail there, with
    different messages, so results are equal only up to the error text.
  * the frame does not shadow `n` (`Bound`): `n` is not an extension name, not `info`/`self`, not the name
    of the frame's own function (there, WITHOUT registers, the function wins over a parameter of the same
    name — finding `param-same-name-as-its-function`).
Missing for the full statement: the cases of `evalI` that write the store (assignments to other
variables, inner loops, index assignment, `del`) need the invariant "`n` stays bound to `.int v`"
carried through `createOrSet`/`envDelete` (a `post_…` lemma per environment function, as in
EvalSafeEnv.lean), and identifiers resolved through `makeRef` need it through the reference cache.
The second half of the equivalence — a body that does not mention `n` evaluates the same whether or not
the frame binds `n` (the register configuration has no binding, or a stale one) — is stated as
`C05.IrrelevanceStatement`.
-/
namespace Grol.RegRewrite
open Grol.E

mutual
/-- the rewritten body as the evaluator sees it while the registers hold `regs` -/
def inst (regs : Nat → Int64) : RNode → Node
  | .reg _ i => .int (regs i)
  | .ident n => .ident n
  | .int v => .int v
  | .float b => .float b
  | .str s => .str s
  | .bool b => .bool b
  | .pre op r => .pre op (inst regs r)
  | .post op n => .post op n
  | .inf op l r => .inf op (inst regs l) (inst regs r)
  | .stmts l => .stmts (instList regs l)
  | .none => .none
  | .ifE c a b => .ifE (inst regs c) (inst regs a) (inst regs b)
  | .forE c b => .forE (inst regs c) (inst regs b)
  | .ctl k => .ctl k
  | .ret v => .ret (inst regs v)
  | .builtin t ps => .builtin t (instList regs ps)
  | .fn name ps variadic lambda key body => .fn name ps variadic lambda key (inst regs body)
  | .call f as => .call (inst regs f) (instList regs as)
  | .arr els => .arr (instList regs els)
  | .mapLit ks vs => .mapLit (instList regs ks) (instList regs vs)
  | .idx tok l i => .idx tok (inst regs l) (inst regs i)
  | .comment => .comment
  | .macroLit ps body => .macroLit ps (inst regs body)
def instList (regs : Nat → Int64) : List RNode → List Node
  | [] => []
  | x :: xs => inst regs x :: instList regs xs
end

/-- register-aware evaluation of a (rewritten) body: a register read gives the integer it holds -/
def evalReg (fuel : Nat) (regs : Nat → Int64) (b : RNode) : M Obj := evalI fuel (inst regs b)

/-- a read of `m` in `st` finds the value `o` bound DIRECTLY in the current frame: `m` is not an extension
name, not `info`/`self`, not the name of the frame's own function, and the binding is not a reference -/
structure Direct (m : String) (o : Obj) (st : St) : Prop where
  notExt : st.extNames.contains m = false
  notInfo : (m == "info") = false
  notSelf : (m == "self") = false
  frame : ∃ f, st.frames[st.cur]? = some f ∧ lookupStore f.store m = some o ∧
    (∀ fn, f.function = some fn → (fn.name == some m) = false)
  notRef : ∀ e k, o ≠ .ref e k

/-- the register-free configuration after `Set(n, v)`: `n` is bound to the integer in the current frame -/
def Bound (n : String) (v : Int64) (st : St) : Prop := Direct n (.int v) st

/-- the part of the state `Direct` depends on -/
def Same (st st' : St) : Prop := st'.frames = st.frames ∧ st'.cur = st.cur ∧ st'.extNames = st.extNames

theorem Same.refl (st : St) : Same st st := ⟨rfl, rfl, rfl⟩
theorem Same.trans {a b c : St} (h1 : Same a b) (h2 : Same b c) : Same a c :=
  ⟨h2.1.trans h1.1, h2.2.1.trans h1.2.1, h2.2.2.trans h1.2.2⟩

theorem Direct.of_same {m : String} {o : Obj} {st st' : St} (h : Direct m o st) (hs : Same st st') : Direct m o st' := by
  obtain ⟨h1, h2, h3, h4, h5⟩ := h
  obtain ⟨hf, hc, he⟩ := hs
  exact ⟨by rw [he]; exact h1, h2, h3, by rw [hf, hc]; exact h4, h5⟩

/-- `Environment.Get` on a direct binding: the value, no state change -/
theorem run_envGet_direct {m : String} {o : Obj} {st : St} (h : Direct m o st) :
    run (envGet st.cur m) st = (.ok (some o), st) := by
  obtain ⟨_, h2, h3, ⟨f, hf, hl, hfn⟩, h5⟩ := h
  unfold envGet
  simp (config := { zeta := true, zetaHave := true }) only [h2, h3, Bool.false_eq_true, if_false]
  rw [run_bind, run_getFrame, hf]
  simp only
  cases hfun : f.function with
  | none =>
    simp only [hl]
    cases o <;> first | rfl | exact absurd rfl (h5 _ _)
  | some fn =>
    have := hfn fn hfun
    simp only [this, Bool.false_eq_true, if_false, hl]
    cases o <;> first | rfl | exact absurd rfl (h5 _ _)

/-- `evalIdentifier` on a direct binding -/
theorem run_evalIdentifier_direct {m : String} {o : Obj} {st : St} (h : Direct m o st) :
    run (evalIdentifier m) st = (.ok o, st) := by
  unfold evalIdentifier
  rw [run_bind, run_get]
  simp only [h.notExt, Bool.false_eq_true, if_false]
  rw [run_bind, run_envGet_direct h]
  rfl

theorem same_steps (st : St) : Same st { st with steps := st.steps + 1 } := ⟨rfl, rfl, rfl⟩

/-- (c), the leaf: in a state where the current frame binds `n` to `.int v`, reading the register that holds
`v` (= evaluating the literal) and reading the variable give the same result and the same state — same
step count, same deadline behaviour, any fuel -/
theorem C05.read_sim (n : String) (v : Int64) (fuel : Nat) (st : St) (h : Bound n v st) :
    run (evalI fuel (.ident n)) st = run (evalI fuel (.int v)) st := by
  cases fuel with
  | zero => rfl
  | succ fuel =>
    have h1 : Bound n v { st with steps := st.steps + 1 } := Direct.of_same h (same_steps st)
    have hid := run_evalIdentifier_direct h1
    rw [evalI, evalI]
    rw [run_bind, run_get]; simp only
    rw [run_bind, run_set]; simp only
    rw [run_bind (get), run_get]; simp only
    rw [run_bind (set _), run_set]; simp only
    cases st.cfg.deadlineAfter with
    | none => simp only; rw [hid]; rfl
    | some k =>
      simp only
      split
      · rfl
      · rw [hid]; rfl

/-! ### the general statement (not proved) -/

mutual
/-- no call anywhere in the body (function and macro literals are refused by the rewrite anyway) -/
def noCall : RNode → Bool
  | .call .. => false
  | .pre _ r => noCall r
  | .inf _ l r => noCall l && noCall r
  | .stmts l => noCallList l
  | .ifE c a b => noCall c && noCall a && noCall b
  | .forE c b => noCall c && noCall b
  | .ret v => noCall v
  | .builtin _ ps => noCallList ps
  | .fn .. => false
  | .arr els => noCallList els
  | .mapLit ks vs => noCallList ks && noCallList vs
  | .idx _ l i => noCall l && noCall i
  | .macroLit .. => false
  | .ident _ | .int _ | .float _ | .str _ | .bool _ | .post .. | .none | .ctl _ | .comment | .reg .. => true
def noCallList : List RNode → Bool
  | [] => true
  | x :: xs => noCall x && noCallList xs
end

/-- is `x[..]` / `x.f` with `x` the variable -/
def isVarIndex (name : String) (idx : Nat) : RNode → Bool
  | .idx _ l _ => isVar name idx l
  | _ => false

mutual
/-- the variable does not occur where the evaluator insists on an identifier and answers an error otherwise
(`x[i] = e`, `x.f = e`, `del(x[i])`, `del(x.f)`), nor as the left side of a `.` (namespaced extension lookup):
there both configurations fail, but with different messages -/
def identPositionsOk (name : String) (idx : Nat) : RNode → Bool
  | .inf op l r =>
    !((op == "ASSIGN" || op == "DEFINE") && isVarIndex name idx l) && identPositionsOk name idx l && identPositionsOk name idx r
  | .builtin t ps =>
    (match ps with
     | [p] => !(t == "DEL" && isVarIndex name idx p)
     | _ => true) && identPositionsOkList name idx ps
  | .idx tok l i => !(tok == "DOT" && isVar name idx l) && identPositionsOk name idx l && identPositionsOk name idx i
  | .pre _ r => identPositionsOk name idx r
  | .stmts l => identPositionsOkList name idx l
  | .ifE c a b => identPositionsOk name idx c && identPositionsOk name idx a && identPositionsOk name idx b
  | .forE c b => identPositionsOk name idx c && identPositionsOk name idx b
  | .ret v => identPositionsOk name idx v
  | .fn _ _ _ _ _ body => identPositionsOk name idx body
  | .call f as => identPositionsOk name idx f && identPositionsOkList name idx as
  | .arr els => identPositionsOkList name idx els
  | .mapLit ks vs => identPositionsOkList name idx ks && identPositionsOkList name idx vs
  | .macroLit _ body => identPositionsOk name idx body
  | .ident _ | .int _ | .float _ | .str _ | .bool _ | .post .. | .none | .ctl _ | .comment | .reg .. => true
def identPositionsOkList (name : String) (idx : Nat) : List RNode → Bool
  | [] => true
  | x :: xs => identPositionsOk name idx x && identPositionsOkList name idx xs
end

/-- (c), the simulation for one evaluation of the body: if the rewrite of `b` for `n` succeeded, the register
holds `v`, the body contains no call and `n` is not used in an identifier-only position, then in every state
whose current frame binds `n` to `.int v` the register-aware evaluation of the rewritten body and the
evaluation of the original body have the same outcome (value, error, Go panic, …) and the same final state
(output, bindings, cache, counters).  `b` may hold registers of enclosing rewrites (`regs` gives their
contents, the same on both sides). -/
def C05.SimStatement : Prop :=
  ∀ (n : String) (idx : Nat) (v : Int64) (regs : Nat → Int64) (b b' : RNode) (fuel : Nat) (st : St),
    modifyR n idx b = some b' → regs idx = v → noCall b = true → identPositionsOk n idx b = true → Bound n v st →
    run (evalReg fuel regs b') st = run (evalI fuel (inst regs b)) st

/-- the state in which the current frame has no binding of `n` (the register configuration, where the variable
is only written back at the end of the loop) -/
def dropBinding (n : String) (st : St) : St :=
  { st with frames := st.frames.modify st.cur fun f => { f with store := delStore f.store n } }

/-- the other half: a body that does not name `n` at all (no identifier, no `n++`, nothing the rewrite refuses)
and calls nothing evaluates the same whether or not the current frame binds `n` -/
def C05.IrrelevanceStatement : Prop :=
  ∀ (n : String) (idx : Nat) (regs : Nat → Int64) (b : RNode) (fuel : Nat) (st : St),
    countIdent n b = 0 → refuses n idx b = false → noCall b = true → (n == "info") = false →
    (run (evalReg fuel regs b) (dropBinding n st)).1 = (run (evalReg fuel regs b) st).1 ∧
    (run (evalReg fuel regs b) (dropBinding n st)).2 = dropBinding n (run (evalReg fuel regs b) st).2

end Grol.RegRewrite

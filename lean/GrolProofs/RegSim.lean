import GrolProofs.RegRewrite
import GrolProofs.EnvRun
import GrolProofs.Props.C06
/-
C05, the SIMULATION between the two configurations (registers on / off), at the level of the models.

Register-aware evaluation.  The evaluator model `Grol.E.eval` is the register-free configuration and
cannot be extended with a register node without touching `Node` (see RegRewrite.lean).  In the Go code
`evalInternal(*object.Register)` returns the register, which every consumer reads through `Int64Value` /
`object.Value` / `CopyRegister`, i.e. as the integer the register holds at that moment; an eligible
body never writes the register (`x = e`, `x++`, `++x` are refused), and the loop writes it only between
two evaluations of the body.  So DURING one evaluation of the body the register is a constant, and the
register-aware evaluation of a rewritten body is the evaluation of `inst regs b'`: the tree in which
every register node is the integer literal of its current content (`evalReg`).  That this is what the
Go code does with a Register object is not proved here; it is what the `eval` suite compares (registers
on vs the register-free model) on every generated program.

The loop around it (`evalForInteger` with a register): per iteration `regs[idx] := i`, evaluate
`inst regs b'`; at exit `Set(name, last)`.  Without: per iteration `Set(name, i)`, evaluate `b`.

What is proved (`C05.read_sim`, `C05.simulation_partial`): in a state whose current frame binds `n` to
`.int v` (the register-free configuration just did `Set(n, v)`), evaluating the rewritten body with the
register holding `v` and evaluating the original body give the same result AND the same state,
  * for the read of the variable itself (the leaf of the induction), any fuel, any deadline;
  * for every body of the arithmetic fragment `arith`: the variable, other registers, literals, prefix
    operators other than `++`/`--`, infix operators other than `=`/`:=` (arithmetic, comparison, logic),
    and identifiers bound directly (not through a reference) in the current frame.
What is only stated (`C05.SimStatement`), with the hypotheses that are necessary:
  * `noCall`: no call in the body.  With calls the two configurations DIFFER exactly when the callee
    reads `n` through its defining scope (open finding `loop-variable-invisible-to-callee`); the precise
    hypothesis would be "no call whose callee mentions `n` free", which is not a property of the tree.
  * `identPositionsOk`: `n` does not occur where the evaluator wants an identifier and reports an error
    otherwise (`n[i] = e`, `n.f = e`, `del(n[i])`, `del(n.f)`): both configurations fail there, with
    different messages, so results are equal only up to the error text.
  * the frame does not shadow `n` (`Bound`): `n` is not an extension name, not `info`/`self`, not the name
    of the frame's own function (there, WITHOUT registers, the function wins over a parameter of the same
    name — finding `param-same-name-as-its-function`).
Call-free STATEMENTS (assignments to other variables, `if`, statement lists, `print`, `return`/`break`/`continue`,
identifiers resolved through references) are covered by `C05.simulation_stmt_partial` in RegSimStmt.lean, with the
invariant carried through `createOrSet`/`envDelete`/`makeRef` in RegSimEnv.lean.  Still missing for the full
statement: nested `for` loops, array/map literals, index reads and the remaining builtins (step lemmas of the same
kind), and calls (where the statement is false without the callee hypothesis).
The second half of the equivalence — a body that does not mention `n` evaluates the same whether or not
the frame binds `n` (the register configuration has no binding, or a stale one) — is stated as
`C05.IrrelevanceStatement`.
-/
namespace Grol.RegRewrite
open Grol.E

mutual
/-- the rewritten body as the evaluator sees it while the registers hold `regs` -/
def inst (regs : Nat → Int64) : RNode → Node
  | .reg _ i => .int (regs i)
  | .ident n => .ident n
  | .int v => .int v
  | .float b => .float b
  | .str s => .str s
  | .bool b => .bool b
  | .pre op r => .pre op (inst regs r)
  | .post op n => .post op n
  | .inf op l r => .inf op (inst regs l) (inst regs r)
  | .stmts l => .stmts (instList regs l)
  | .none => .none
  | .ifE c a b => .ifE (inst regs c) (inst regs a) (inst regs b)
  | .forE c b => .forE (inst regs c) (inst regs b)
  | .ctl k => .ctl k
  | .ret v => .ret (inst regs v)
  | .builtin t ps => .builtin t (instList regs ps)
  | .fn name ps variadic lambda key body => .fn name ps variadic lambda key (inst regs body)
  | .call f as => .call (inst regs f) (instList regs as)
  | .arr els => .arr (instList regs els)
  | .mapLit ks vs => .mapLit (instList regs ks) (instList regs vs)
  | .idx tok l i => .idx tok (inst regs l) (inst regs i)
  | .comment => .comment
  | .macroLit ps body => .macroLit ps (inst regs body)
def instList (regs : Nat → Int64) : List RNode → List Node
  | [] => []
  | x :: xs => inst regs x :: instList regs xs
end

/-- register-aware evaluation of a (rewritten) body: a register read gives the integer it holds -/
def evalReg (fuel : Nat) (regs : Nat → Int64) (b : RNode) : M Obj := evalI fuel (inst regs b)

/-- a read of `m` in `st` finds the value `o` bound DIRECTLY in the current frame: `m` is not an extension
name, not `info`/`self`, not the name of the frame's own function, and the binding is not a reference -/
structure Direct (m : String) (o : Obj) (st : St) : Prop where
  notExt : st.extNames.contains m = false
  notInfo : (m == "info") = false
  notSelf : (m == "self") = false
  frame : ∃ f, st.frames[st.cur]? = some f ∧ lookupStore f.store m = some o ∧
    (∀ fn, f.function = some fn → (fn.name == some m) = false)
  notRef : ∀ e k, o ≠ .ref e k

/-- the register-free configuration after `Set(n, v)`: `n` is bound to the integer in the current frame -/
def Bound (n : String) (v : Int64) (st : St) : Prop := Direct n (.int v) st

/-- the part of the state `Direct` depends on -/
def Same (st st' : St) : Prop := st'.frames = st.frames ∧ st'.cur = st.cur ∧ st'.extNames = st.extNames

theorem Same.refl (st : St) : Same st st := ⟨rfl, rfl, rfl⟩
theorem Same.trans {a b c : St} (h1 : Same a b) (h2 : Same b c) : Same a c :=
  ⟨h2.1.trans h1.1, h2.2.1.trans h1.2.1, h2.2.2.trans h1.2.2⟩

theorem Direct.of_same {m : String} {o : Obj} {st st' : St} (h : Direct m o st) (hs : Same st st') : Direct m o st' := by
  obtain ⟨h1, h2, h3, h4, h5⟩ := h
  obtain ⟨hf, hc, he⟩ := hs
  exact ⟨by rw [he]; exact h1, h2, h3, by rw [hf, hc]; exact h4, h5⟩

/-- `Environment.Get` on a direct binding: the value, no state change -/
theorem run_envGet_direct {m : String} {o : Obj} {st : St} (h : Direct m o st) :
    run (envGet st.cur m) st = (.ok (some o), st) := by
  obtain ⟨_, h2, h3, ⟨f, hf, hl, hfn⟩, h5⟩ := h
  unfold envGet
  simp (config := { zeta := true, zetaHave := true }) only [h2, h3, Bool.false_eq_true, if_false]
  rw [run_bind, run_getFrame, hf]
  simp only
  cases hfun : f.function with
  | none =>
    simp only [hl]
    cases o <;> first | rfl | exact absurd rfl (h5 _ _)
  | some fn =>
    have := hfn fn hfun
    simp only [this, Bool.false_eq_true, if_false, hl]
    cases o <;> first | rfl | exact absurd rfl (h5 _ _)

/-- `evalIdentifier` on a direct binding -/
theorem run_evalIdentifier_direct {m : String} {o : Obj} {st : St} (h : Direct m o st) :
    run (evalIdentifier m) st = (.ok o, st) := by
  unfold evalIdentifier
  rw [run_bind, run_get]
  simp only [h.notExt, Bool.false_eq_true, if_false]
  rw [run_bind, run_envGet_direct h]
  rfl

theorem same_steps (st : St) : Same st { st with steps := st.steps + 1 } := ⟨rfl, rfl, rfl⟩

/-- (c), the leaf: in a state where the current frame binds `n` to `.int v`, reading the register that holds
`v` (= evaluating the literal) and reading the variable give the same result and the same state — same
step count, same deadline behaviour, any fuel -/
theorem C05.read_sim (n : String) (v : Int64) (fuel : Nat) (st : St) (h : Bound n v st) :
    run (evalI fuel (.ident n)) st = run (evalI fuel (.int v)) st := by
  cases fuel with
  | zero => rfl
  | succ fuel =>
    have h1 : Bound n v { st with steps := st.steps + 1 } := Direct.of_same h (same_steps st)
    have hid := run_evalIdentifier_direct h1
    rw [evalI, evalI]
    rw [run_bind, run_get]; simp only
    rw [run_bind, run_set]; simp only
    rw [run_bind (get), run_get]; simp only
    rw [run_bind (set _), run_set]; simp only
    cases st.cfg.deadlineAfter with
    | none => simp only; rw [hid]; rfl
    | some k =>
      simp only
      split
      · rfl
      · rw [hid]; rfl

/-! ### the simulation on the arithmetic fragment -/

/-- an invariant that only looks at frames, current scope and extension names -/
class Stable (I : St → Prop) : Prop where
  stable : ∀ st st', Same st st' → I st → I st'

instance (s0 : St) : Stable (Same s0) := ⟨fun _ _ h h0 => h0.trans h⟩

theorem Stable.step {I : St → Prop} [Stable I] {s s' : St} (hs : I s) (h : Same s s') : I s' := Stable.stable s s' h hs

/-- two computations that run identically from every state satisfying the invariant `I`, and keep it -/
def EqOn (I : St → Prop) (x x' : M α) : Prop := ∀ st, I st → run x st = run x' st ∧ I (run x st).2

theorem EqOn.bind {I : St → Prop} {x x' : M α} {f f' : α → M β} (hx : EqOn I x x') (hf : ∀ a, EqOn I (f a) (f' a)) :
    EqOn I (x >>= f) (x' >>= f') := by
  intro st hs
  obtain ⟨e, hs1⟩ := hx st hs
  rw [run_bind, run_bind, ← e]
  match h : run x st with
  | (.ok a, st1) =>
    simp only
    rw [h] at hs1
    exact hf a st1 hs1
  | (.error err, st1) =>
    rw [h] at hs1
    exact ⟨rfl, hs1⟩

theorem EqOn.of_readOnly {I : St → Prop} {x : M α} (hx : ReadOnly x) : EqOn I x x :=
  fun st hs => ⟨rfl, by rw [hx st]; exact hs⟩

theorem EqOn.get_bind {I : St → Prop} {k k' : St → M β} (h : ∀ s, I s → EqOn I (k s) (k' s)) :
    EqOn I (get >>= k) (get >>= k') := by
  intro st hs
  rw [run_bind, run_bind, run_get]
  exact h st hs st hs

theorem EqOn.set_bind {I : St → Prop} {s' : St} {k k' : Unit → M β} (hs' : I s') (h : EqOn I (k ()) (k' ())) :
    EqOn I (set s' >>= k) (set s' >>= k') := by
  intro st _
  rw [run_bind, run_bind, run_set]
  exact h s' hs'

theorem EqOn.modify_bind {I : St → Prop} [Stable I] {g : St → St} {k k' : Unit → M β} (hg : ∀ st, Same st (g st)) (h : EqOn I (k ()) (k' ())) :
    EqOn I (modify g >>= k) (modify g >>= k') := by
  intro st hs
  rw [run_bind, run_bind, run_modify]
  exact h (g st) (Stable.stable _ _ (hg st) hs)

theorem EqOn.stop_bind {I : St → Prop} {e : Stop} {k k' : α → M β} :
    EqOn I ((stop e : M α) >>= k) ((stop e : M α) >>= k') := by
  intro st hs
  rw [run_bind, run_bind, run_stop]
  exact ⟨rfl, hs⟩


/-- a computation that keeps frames, current scope and extension names -/
def Pres (x : M α) : Prop := ∀ st, Same st (run x st).2

theorem Pres.of_readOnly {x : M α} (hx : ReadOnly x) : Pres x := fun st => by rw [hx st]; exact Same.refl st

theorem Pres.bind {x : M α} {f : α → M β} (hx : Pres x) (hf : ∀ a, Pres (f a)) : Pres (x >>= f) := by
  intro st
  rw [run_bind]
  have h := hx st
  match hr : run x st with
  | (.ok a, st1) => simp only; rw [hr] at h; exact h.trans (hf a st1)
  | (.error e, st1) => simp only; rw [hr] at h; exact h

theorem EqOn.of_pres {I : St → Prop} [Stable I] {x : M α} (hx : Pres x) : EqOn I x x :=
  fun st hs => ⟨rfl, Stable.stable _ _ (hx st) hs⟩

theorem pres_noteHazard (c : Bool) (k n : String) : Pres (noteHazard c k n) := by
  unfold noteHazard
  split
  · intro st; exact ⟨rfl, rfl, rfl⟩
  · exact Pres.of_readOnly (ReadOnly.pure _)

theorem eval_succ_eqOn {I : St → Prop} [Stable I] {fuel : Nat} {L L' : Node} (h : EqOn I (evalI fuel L) (evalI fuel L')) :
    EqOn I (eval (fuel+1) L) (eval (fuel+1) L') := by
  rw [eval, eval]
  apply EqOn.get_bind
  intro s hs
  simp (config := { zeta := true, zetaHave := true }) only
  split
  · exact EqOn.stop_bind
  · refine EqOn.set_bind ?_ ?_
    · exact Stable.step hs ⟨rfl, rfl, rfl⟩
    apply EqOn.bind h
    intro result
    refine EqOn.modify_bind ?_ ?_
    · exact fun st => ⟨rfl, rfl, rfl⟩
    apply EqOn.of_readOnly
    split
    · split
      · exact ReadOnly.bind (ReadOnly.pure _) (fun r => by split; exact readOnly_refValue _ _; exact ReadOnly.pure _)
      · exact ReadOnly.bind (ReadOnly.pure _) (fun r => by split; exact readOnly_refValue _ _; exact ReadOnly.pure _)
    · exact ReadOnly.bind (ReadOnly.pure _) (fun r => by split; exact readOnly_refValue _ _; exact ReadOnly.pure _)

theorem evalI_pre_eqOn {I : St → Prop} [Stable I] {fuel : Nat} {op : String} {R R' : Node} (hop : (op == "INCR" || op == "DECR") = false)
    (h : EqOn I (eval fuel R) (eval fuel R')) :
    EqOn I (evalI (fuel+1) (.pre op R)) (evalI (fuel+1) (.pre op R')) := by
  have leaf : EqOn I (do let r ← eval fuel R; if r.isError = true then pure r else pure (evalPrefixOp op r))
      (do let r ← eval fuel R'; if r.isError = true then pure r else pure (evalPrefixOp op r)) := by
    apply EqOn.bind h; intro r; apply EqOn.of_readOnly; split <;> exact ReadOnly.pure _
  rw [evalI, evalI]
  apply EqOn.get_bind; intro s hs
  refine EqOn.set_bind ?_ ?_
  · exact Stable.step hs ⟨rfl, rfl, rfl⟩
  simp only [hop, Bool.false_eq_true, if_false]
  split
  · split
    · exact EqOn.of_readOnly (ReadOnly.pure _)
    · exact leaf
  · exact leaf


macro "pres_crawl" : tactic => `(tactic| repeat' (first
  | exact Pres.of_readOnly (ReadOnly.pure _)
  | exact Pres.of_readOnly (evalInfixOp_readOnly _ _ _)
  | exact Pres.bind (Pres.of_readOnly ReadOnly.get) (fun _ => Pres.bind (pres_noteHazard _ _ _) (fun _ => Pres.of_readOnly (evalInfixOp_readOnly _ _ _)))
  | split))

macro "inf_crawl" ht:ident hr:ident : tactic => `(tactic| repeat' (first
  | contradiction
  | with_reducible exact $ht _ (by assumption)
  | with_reducible exact EqOn.of_readOnly (ReadOnly.pure _)
  | with_reducible exact EqOn.stop_bind
  | (with_reducible apply EqOn.bind $hr; intro right; apply EqOn.of_pres; pres_crawl)
  | split))

/-- `bind` when the continuations are only related for the results the first computation can have -/
theorem EqOn.bind_post {I : St → Prop} {x x' : M α} {f f' : α → M β} {P : α → Prop} (hx : EqOn I x x')
    (hP : ∀ st, I st → ∀ a, (run x st).1 = .ok a → P a)
    (hf : ∀ a, P a → EqOn I (f a) (f' a)) : EqOn I (x >>= f) (x' >>= f') := by
  intro st hs
  obtain ⟨e, hs1⟩ := hx st hs
  rw [run_bind, run_bind, ← e]
  match h : run x st with
  | (.ok a, st1) =>
    simp only
    rw [h] at hs1
    exact hf a (hP st hs a (by rw [h])) st1 hs1
  | (.error err, st1) =>
    rw [h] at hs1
    exact ⟨rfl, hs1⟩

/-- what the hazard note of the infix case needs: the two left operands have the same name, or the left VALUE
is no array (then the note is not reached) -/
def LeftOk (L L' : Node) (left : Obj) : Prop := hazardBase L = hazardBase L' ∨ ∀ els, left ≠ .array els

/-- the infix case for one setting of the three operator tests the evaluator makes (`and`, `or`, `|`): with them
decided the unfolded body is small.  `$ha $ho $hb` are the hypotheses `(op == "AND") = …` etc. -/
macro "inf_proof" I:ident fuel:ident op:ident L:ident L':ident R:ident R':ident hop:ident ht:ident hl:ident hr:ident hz:ident ha:ident ho:ident hb:ident : tactic => `(tactic| (
  rw [evalI, evalI]
  apply EqOn.get_bind; intro s hs
  refine EqOn.set_bind ?_ ?_
  · exact Stable.step hs ⟨rfl, rfl, rfl⟩
  have htail : ∀ left : Obj, LeftOk $L $L' left → EqOn $I
      (do let right ← eval $fuel $R
          if right.isError = true then pure right
          else match left with
            | Obj.array l => do
              let __do_lift ← get
              noteHazard ($op == "PLUS" && decide (l.length > __do_lift.cfg.maxSmallArray)) "large-array-append-shares-capacity" (hazardBase $L)
              evalInfixOp $op left right
            | x => evalInfixOp $op left right)
      (do let right ← eval $fuel $R'
          if right.isError = true then pure right
          else match left with
            | Obj.array l => do
              let __do_lift ← get
              noteHazard ($op == "PLUS" && decide (l.length > __do_lift.cfg.maxSmallArray)) "large-array-append-shares-capacity" (hazardBase $L')
              evalInfixOp $op left right
            | x => evalInfixOp $op left right) := by
    intro left hleft
    apply EqOn.bind $hr; intro right
    cases hleft with
    | inl hn =>
      rw [hn]
      apply EqOn.of_pres
      split
      · exact Pres.of_readOnly (ReadOnly.pure _)
      · split
        · exact Pres.bind (Pres.of_readOnly ReadOnly.get) (fun _ => Pres.bind (pres_noteHazard _ _ _) (fun _ => Pres.of_readOnly (evalInfixOp_readOnly _ _ _)))
        · exact Pres.of_readOnly (evalInfixOp_readOnly _ _ _)
    | inr hna =>
      split
      · exact EqOn.of_readOnly (ReadOnly.pure _)
      · split
        · exact absurd rfl (hna _)
        · exact EqOn.of_readOnly (evalInfixOp_readOnly _ _ _)
  have hP : ∀ st, $I st → ∀ a, (run (eval $fuel $L) st).1 = .ok a → LeftOk $L $L' a := by
    intro st hst a ha'
    cases $hz:ident with
    | inl h => exact Or.inl h
    | inr h => exact Or.inr (fun els he => h st hst els (by rw [ha', he]))
  simp (config := { zeta := true, zetaHave := true }) only [$hop:ident, $ha:ident, $ho:ident, $hb:ident, Bool.false_eq_true, if_false, if_true]
  try rw [$ht:ident]
  split
  · rename_i k _
    by_cases hk : s.steps ≥ k
    · rw [if_pos hk, if_pos hk]; exact EqOn.of_readOnly (ReadOnly.pure _)
    · rw [if_neg hk, if_neg hk]
      refine EqOn.bind_post $hl hP ?_; intro left hleft
      inf_crawl htail $hr
  · refine EqOn.bind_post $hl hP ?_; intro left hleft
    inf_crawl htail $hr))

section
variable {I : St → Prop} {fuel : Nat} {op : String} {L L' R R' : Node}

/-- the side condition of the infix case: same name on the left, or the left value is never an array -/
def HazOk (I : St → Prop) (fuel : Nat) (L L' : Node) : Prop :=
  hazardBase L = hazardBase L' ∨ ∀ st, I st → ∀ els, (run (eval fuel L) st).1 ≠ .ok (.array els)

theorem evalI_inf_eqOn_and [Stable I] (hop : (op == "ASSIGN" || op == "DEFINE") = false)
    (ht : (R.tokType == "LPAREN") = (R'.tokType == "LPAREN"))
    (hl : EqOn I (eval fuel L) (eval fuel L')) (hr : EqOn I (eval fuel R) (eval fuel R')) (hz : HazOk I fuel L L')
    (ha : (op == "AND") = true) (ho : (op == "OR") = false) (hb : (op == "BITOR") = false) :
    EqOn I (evalI (fuel+1) (.inf op L R)) (evalI (fuel+1) (.inf op L' R')) := by
  inf_proof I fuel op L L' R R' hop ht hl hr hz ha ho hb

theorem evalI_inf_eqOn_or [Stable I] (hop : (op == "ASSIGN" || op == "DEFINE") = false)
    (ht : (R.tokType == "LPAREN") = (R'.tokType == "LPAREN"))
    (hl : EqOn I (eval fuel L) (eval fuel L')) (hr : EqOn I (eval fuel R) (eval fuel R')) (hz : HazOk I fuel L L')
    (ha : (op == "AND") = false) (ho : (op == "OR") = true) (hb : (op == "BITOR") = false) :
    EqOn I (evalI (fuel+1) (.inf op L R)) (evalI (fuel+1) (.inf op L' R')) := by
  inf_proof I fuel op L L' R R' hop ht hl hr hz ha ho hb

theorem evalI_inf_eqOn_bitor [Stable I] (hop : (op == "ASSIGN" || op == "DEFINE") = false)
    (ht : (R.tokType == "LPAREN") = (R'.tokType == "LPAREN"))
    (hl : EqOn I (eval fuel L) (eval fuel L')) (hr : EqOn I (eval fuel R) (eval fuel R')) (hz : HazOk I fuel L L')
    (ha : (op == "AND") = false) (ho : (op == "OR") = false) (hb : (op == "BITOR") = true) :
    EqOn I (evalI (fuel+1) (.inf op L R)) (evalI (fuel+1) (.inf op L' R')) := by
  inf_proof I fuel op L L' R R' hop ht hl hr hz ha ho hb

theorem evalI_inf_eqOn_other [Stable I] (hop : (op == "ASSIGN" || op == "DEFINE") = false)
    (ht : (R.tokType == "LPAREN") = (R'.tokType == "LPAREN"))
    (hl : EqOn I (eval fuel L) (eval fuel L')) (hr : EqOn I (eval fuel R) (eval fuel R')) (hz : HazOk I fuel L L')
    (ha : (op == "AND") = false) (ho : (op == "OR") = false) (hb : (op == "BITOR") = false) :
    EqOn I (evalI (fuel+1) (.inf op L R)) (evalI (fuel+1) (.inf op L' R')) := by
  inf_proof I fuel op L L' R R' hop ht hl hr hz ha ho hb

theorem evalI_inf_eqOn [Stable I] (hop : (op == "ASSIGN" || op == "DEFINE") = false)
    (ht : (R.tokType == "LPAREN") = (R'.tokType == "LPAREN"))
    (hl : EqOn I (eval fuel L) (eval fuel L')) (hr : EqOn I (eval fuel R) (eval fuel R')) (hz : HazOk I fuel L L') :
    EqOn I (evalI (fuel+1) (.inf op L R)) (evalI (fuel+1) (.inf op L' R')) := by
  by_cases ha : (op == "AND") = true
  · have : op = "AND" := eq_of_beq ha
    exact evalI_inf_eqOn_and hop ht hl hr hz ha (by subst this; decide) (by subst this; decide)
  · by_cases ho : (op == "OR") = true
    · have : op = "OR" := eq_of_beq ho
      exact evalI_inf_eqOn_or hop ht hl hr hz (by simpa using ha) ho (by subst this; decide)
    · by_cases hb : (op == "BITOR") = true
      · exact evalI_inf_eqOn_bitor hop ht hl hr hz (by simpa using ha) (by simpa using ho) hb
      · exact evalI_inf_eqOn_other hop ht hl hr hz (by simpa using ha) (by simpa using ho) (by simpa using hb)
end

/-- evaluating an integer literal never yields an array -/
theorem eval_int_not_array (fuel : Nat) (v : Int64) (st : St) (els : List Obj) :
    (run (eval fuel (.int v)) st).1 ≠ .ok (.array els) := by
  have hI : ∀ (fuel : Nat) (st : St) (a : Obj), (run (evalI fuel (.int v)) st).1 = .ok a →
      a = .int v ∨ a = err "context deadline exceeded" := by
    intro fuel st a h
    cases fuel with
    | zero => rw [evalI] at h; cases h
    | succ fuel =>
      rw [evalI] at h
      rw [run_bind, run_get] at h; simp only at h
      rw [run_bind, run_set] at h; simp only at h
      cases hd : st.cfg.deadlineAfter with
      | none => rw [hd] at h; simp only [run_pure] at h; exact Or.inl (by cases h; rfl)
      | some k =>
        rw [hd] at h; simp only at h
        split at h
        · simp only [run_pure] at h; exact Or.inr (by cases h; rfl)
        · simp only [run_pure] at h; exact Or.inl (by cases h; rfl)
  cases fuel with
  | zero => rw [eval]; intro h; cases h
  | succ fuel =>
    rw [eval]
    simp (config := { zeta := true, zetaHave := true }) only
    rw [run_bind, run_get]; simp only
    split
    · rw [run_bind, run_stop]; intro h; cases h
    · rw [run_bind, run_set]; simp only
      rw [run_bind]
      match hr : run (evalI fuel (.int v)) { st with depth := st.depth + 1 } with
      | (.error e, s1) => simp only; intro h; cases h
      | (.ok a, s1) =>
        simp only
        have := hI fuel _ a (by rw [hr])
        rw [run_bind, run_modify]; simp only
        cases this with
        | inl h => subst h; simp only [run_bind, run_pure]; intro h; cases h
        | inr h => subst h; simp only [err, run_bind, run_pure]; intro h; cases h

/-! ### the arithmetic fragment -/

/-- bodies of the fragment: the variable, registers, literals, identifiers bound directly in the current frame
of `s0`, prefix operators other than `++`/`--`, infix operators other than `=`/`:=` -/
def Arith (n : String) (s0 : St) : RNode → Prop
  | .ident m => m = n ∨ ∃ o, Direct m o s0
  | .reg .. | .int _ | .bool _ | .str _ | .float _ => True
  | .pre op r => (op == "INCR" || op == "DECR") = false ∧ Arith n s0 r
  | .inf op l r => (op == "ASSIGN" || op == "DEFINE") = false ∧ Arith n s0 l ∧ Arith n s0 r
  | _ => False

theorem tokType_paren (regs : Nat → Int64) (n : String) (idx : Nat) (r : RNode) :
    ((inst regs (substAll n idx r)).tokType == "LPAREN") = ((inst regs r).tokType == "LPAREN") := by
  cases r <;> try rfl
  case ident m =>
    by_cases h : (m == n) = true
    · simp only [substAll, h, if_true, inst, Node.tokType]; decide
    · simp only [substAll, h, inst]; rfl

/-- one leaf of `evalI`: the step counter, the deadline test, then `x` -/
theorem evalI_leaf {I : St → Prop} [Stable I] {x y : M Obj} (h : EqOn I x y) :
    EqOn I
      (do let st ← get
          set { st with steps := st.steps + 1 }
          match st.cfg.deadlineAfter with
          | some k => if st.steps ≥ k then pure (err "context deadline exceeded") else x
          | _ => x)
      (do let st ← get
          set { st with steps := st.steps + 1 }
          match st.cfg.deadlineAfter with
          | some k => if st.steps ≥ k then pure (err "context deadline exceeded") else y
          | _ => y) := by
  apply EqOn.get_bind; intro s hs
  refine EqOn.set_bind ?_ ?_
  · exact Stable.step hs ⟨rfl, rfl, rfl⟩
  split
  · split
    · exact EqOn.of_readOnly (ReadOnly.pure _)
    · exact h
  · exact h

theorem eqOn_ident {s0 : St} {m : String} {o : Obj} (h : Direct m o s0) : EqOn (Same s0) (pure o) (evalIdentifier m) := by
  intro st hs
  rw [run_evalIdentifier_direct (h.of_same hs)]
  exact ⟨rfl, hs⟩

theorem eqOn_ident_self {s0 : St} {m : String} {o : Obj} (h : Direct m o s0) : EqOn (Same s0) (evalIdentifier m) (evalIdentifier m) := by
  intro st hs
  rw [run_evalIdentifier_direct (h.of_same hs)]
  exact ⟨rfl, hs⟩

theorem sim_arith (n : String) (idx : Nat) (v : Int64) (regs : Nat → Int64) (hregs : regs idx = v) (s0 : St) (hb : Bound n v s0) :
    ∀ (fuel : Nat) (b : RNode), Arith n s0 b →
      EqOn (Same s0) (evalI fuel (inst regs (substAll n idx b))) (evalI fuel (inst regs b)) ∧
      EqOn (Same s0) (eval fuel (inst regs (substAll n idx b))) (eval fuel (inst regs b)) := by
  intro fuel
  induction fuel with
  | zero =>
    intro b _
    constructor
    · rw [evalI, evalI]; exact EqOn.of_readOnly (ReadOnly.stop _)
    · rw [eval, eval]; exact EqOn.of_readOnly (ReadOnly.stop _)
  | succ fuel ih =>
    intro b hb'
    refine ⟨?_, eval_succ_eqOn (ih b hb').1⟩
    cases b with
    | ident m =>
      by_cases hm : (m == n) = true
      · have : m = n := eq_of_beq hm
        subst this
        simp only [substAll, hm, if_true, inst, hregs]
        rw [evalI, evalI]
        exact evalI_leaf (eqOn_ident hb)
      · simp only [substAll, hm, inst]
        cases hb' with
        | inl h => exact absurd (by rw [h]; exact beq_self_eq_true n) hm
        | inr h =>
          obtain ⟨o, ho⟩ := h
          rw [evalI]
          exact evalI_leaf (eqOn_ident_self ho)
    | reg m i => simp only [substAll, inst]; rw [evalI]; exact evalI_leaf (EqOn.of_readOnly (ReadOnly.pure _))
    | int w => simp only [substAll, inst]; rw [evalI]; exact evalI_leaf (EqOn.of_readOnly (ReadOnly.pure _))
    | bool w => simp only [substAll, inst]; rw [evalI]; exact evalI_leaf (EqOn.of_readOnly (ReadOnly.pure _))
    | str w => simp only [substAll, inst]; rw [evalI]; exact evalI_leaf (EqOn.of_readOnly (ReadOnly.pure _))
    | float w => simp only [substAll, inst]; rw [evalI]; exact evalI_leaf (EqOn.of_readOnly (ReadOnly.pure _))
    | pre op r =>
      simp only [substAll, inst]
      exact evalI_pre_eqOn hb'.1 (ih r hb'.2).2
    | inf op l r =>
      simp only [substAll, inst]
      refine evalI_inf_eqOn hb'.1 (tokType_paren regs n idx r) (ih l hb'.2.1).2 (ih r hb'.2.2).2 ?_
      -- the hazard note names the left operand: the same on both sides, except for the variable itself, whose
      -- register side is an integer literal (never an array)
      cases l with
      | ident m =>
        by_cases hm : (m == n) = true
        · refine Or.inr (fun st _ els => ?_)
          simp only [substAll, hm, if_true, inst]
          exact eval_int_not_array fuel _ st els
        · exact Or.inl (by simp only [substAll, hm, inst]; rfl)
      | _ => exact Or.inl rfl
    | _ => exact absurd hb' (by simp [Arith])

/-! ### the general statement (not proved) -/

mutual
/-- no call anywhere in the body (function and macro literals are refused by the rewrite anyway) -/
def noCall : RNode → Bool
  | .call .. => false
  | .pre _ r => noCall r
  | .inf _ l r => noCall l && noCall r
  | .stmts l => noCallList l
  | .ifE c a b => noCall c && noCall a && noCall b
  | .forE c b => noCall c && noCall b
  | .ret v => noCall v
  | .builtin _ ps => noCallList ps
  | .fn .. => false
  | .arr els => noCallList els
  | .mapLit ks vs => noCallList ks && noCallList vs
  | .idx _ l i => noCall l && noCall i
  | .macroLit .. => false
  | .ident _ | .int _ | .float _ | .str _ | .bool _ | .post .. | .none | .ctl _ | .comment | .reg .. => true
def noCallList : List RNode → Bool
  | [] => true
  | x :: xs => noCall x && noCallList xs
end

/-- is `x[..]` / `x.f` with `x` the variable -/
def isVarIndex (name : String) (idx : Nat) : RNode → Bool
  | .idx _ l _ => isVar name idx l
  | _ => false

mutual
/-- the variable does not occur where the evaluator insists on an identifier and answers an error otherwise
(`x[i] = e`, `x.f = e`, `del(x[i])`, `del(x.f)`), nor as the left side of a `.` (namespaced extension lookup):
there both configurations fail, but with different messages -/
def identPositionsOk (name : String) (idx : Nat) : RNode → Bool
  | .inf op l r =>
    !((op == "ASSIGN" || op == "DEFINE") && isVarIndex name idx l) && identPositionsOk name idx l && identPositionsOk name idx r
  | .builtin t ps =>
    (match ps with
     | [p] => !(t == "DEL" && isVarIndex name idx p)
     | _ => true) && identPositionsOkList name idx ps
  | .idx tok l i => !(tok == "DOT" && isVar name idx l) && identPositionsOk name idx l && identPositionsOk name idx i
  | .pre _ r => identPositionsOk name idx r
  | .stmts l => identPositionsOkList name idx l
  | .ifE c a b => identPositionsOk name idx c && identPositionsOk name idx a && identPositionsOk name idx b
  | .forE c b => identPositionsOk name idx c && identPositionsOk name idx b
  | .ret v => identPositionsOk name idx v
  | .fn _ _ _ _ _ body => identPositionsOk name idx body
  | .call f as => identPositionsOk name idx f && identPositionsOkList name idx as
  | .arr els => identPositionsOkList name idx els
  | .mapLit ks vs => identPositionsOkList name idx ks && identPositionsOkList name idx vs
  | .macroLit _ body => identPositionsOk name idx body
  | .ident _ | .int _ | .float _ | .str _ | .bool _ | .post .. | .none | .ctl _ | .comment | .reg .. => true
def identPositionsOkList (name : String) (idx : Nat) : List RNode → Bool
  | [] => true
  | x :: xs => identPositionsOk name idx x && identPositionsOkList name idx xs
end

/-- (c), the simulation for one evaluation of the body: if the rewrite of `b` for `n` succeeded, the register
holds `v`, the body contains no call and `n` is not used in an identifier-only position, then in every state
whose current frame binds `n` to `.int v` the register-aware evaluation of the rewritten body and the
evaluation of the original body have the same outcome (value, error, Go panic, …) and the same final state
(output, bindings, cache, counters).  `b` may hold registers of enclosing rewrites (`regs` gives their
contents, the same on both sides). -/
def C05.SimStatement : Prop :=
  ∀ (n : String) (idx : Nat) (v : Int64) (regs : Nat → Int64) (b b' : RNode) (fuel : Nat) (st : St),
    modifyR n idx b = some b' → regs idx = v → noCall b = true → identPositionsOk n idx b = true → Bound n v st →
    run (evalReg fuel regs b') st = run (evalI fuel (inst regs b)) st

/-- the state in which the current frame has no binding of `n` (the register configuration, where the variable
is only written back at the end of the loop) -/
def dropBinding (n : String) (st : St) : St :=
  { st with frames := st.frames.modify st.cur fun f => { f with store := delStore f.store n } }

/-- the other half: a body that does not name `n` at all (no identifier, no `n++`, nothing the rewrite refuses)
and calls nothing evaluates the same whether or not the current frame binds `n` -/
def C05.IrrelevanceStatement : Prop :=
  ∀ (n : String) (idx : Nat) (regs : Nat → Int64) (b : RNode) (fuel : Nat) (st : St),
    countIdent n b = 0 → refuses n idx b = false → noCall b = true → (n == "info") = false →
    (run (evalReg fuel regs b) (dropBinding n st)).1 = (run (evalReg fuel regs b) st).1 ∧
    (run (evalReg fuel regs b) (dropBinding n st)).2 = dropBinding n (run (evalReg fuel regs b) st).2

/-- (c) for the arithmetic fragment: if the rewrite of `b` for `n` succeeded and the register holds `v`, then in
every state whose current frame binds `n` to `.int v`, the register-aware evaluation of the rewritten body and the
evaluation of the original body have the same outcome and the same final state — any fuel, any deadline.
(`SimStatement` with `noCall`/`identPositionsOk` replaced by the stronger `Arith`.) -/
theorem C05.simulation_partial (n : String) (idx : Nat) (v : Int64) (regs : Nat → Int64) (b b' : RNode) (fuel : Nat) (st : St)
    (hm : modifyR n idx b = some b') (hregs : regs idx = v) (hb : Bound n v st) (ha : Arith n st b) :
    run (evalReg fuel regs b') st = run (evalI fuel (inst regs b)) st := by
  rw [modifyR_spec] at hm
  by_cases hr : refuses n idx b = true
  · simp [hr] at hm
  · have hr' : refuses n idx b = false := by simpa using hr
    rw [hr'] at hm
    simp only [Bool.false_eq_true, if_false, Option.some.injEq] at hm
    subst hm
    exact ((sim_arith n idx v regs hregs st hb fuel b ha).1 st (Same.refl st)).1

/-- non-vacuity: the body `i * i + 1 < x` of a loop `for i = …` at top level, with `i = 2` and `x = 7` bound -/
def exampleState : St := { (initState {}) with frames := #[{ store := [("i", .int 2), ("x", .int 7)] }] }

example : Bound "i" 2 exampleState :=
  ⟨by decide, by decide, by decide, ⟨{ store := [("i", .int 2), ("x", .int 7)] }, rfl, rfl, fun fn h => by cases h⟩,
   fun e k h => by cases h⟩

example : Arith "i" exampleState
    (.inf "LT" (.inf "PLUS" (.inf "ASTERISK" (.ident "i") (.ident "i")) (.int 1)) (.ident "x")) :=
  ⟨by decide, ⟨by decide, ⟨by decide, Or.inl rfl, Or.inl rfl⟩, trivial⟩,
   Or.inr ⟨.int 7, by decide, by decide, by decide,
     ⟨{ store := [("i", .int 2), ("x", .int 7)] }, rfl, rfl, fun fn h => by cases h⟩, fun e k h => by cases h⟩⟩

end Grol.RegRewrite

import GrolProofs.ParseGood
import GrolProofs.StreamWF
/-
C08, termination clause: the parser model never runs out of fuel when the fuel is at least linear in the
number of tokens.  Measure: `rem = toks.length + 2 − idx` (tokens not yet pulled; 0 when `cur` and `peek`
are both the repeated end marker).  A function of rank `(z, k)` called with `rem = r` needs fuel
`nd z k r = if r = 0 then z + 1 else 7·r + k + 1`:
  * every loop iteration and every call after a `nextToken` decreases `rem` (when `rem ≥ 1`);
  * calls made without consuming a token go down in the rank `k` (they form a DAG);
  * at `rem = 0` the only live calls go down in the rank `z` (the end marker has no prefix function, is no
    separator and no opener, so the cycle parseExpression → prefixDispatch → parsePrefixExpression is dead).
-/
set_option linter.unusedVariables false
set_option linter.unusedSimpArgs false
namespace Grol.Parser
open Grol.Generated

/-- like `wp`, but running out of fuel is a failure -/
def tm (m : PM α) (Q : α → PState → Prop) (st : PState) : Prop :=
  match m st with
  | .ok (a, st') => Q a st'
  | .goPanic _ => True
  | .outOfFuel => False

theorem tm_bind (m : PM α) (f : α → PM β) (Q : β → PState → Prop) (st : PState) :
    tm (m >>= f) Q st ↔ tm m (fun a st' => tm (f a) Q st') st := by
  show tm (PM.bind m f) Q st ↔ _
  unfold tm PM.bind
  cases m st with
  | ok r => obtain ⟨a, st'⟩ := r; exact Iff.rfl
  | goPanic p => exact Iff.rfl
  | outOfFuel => exact Iff.rfl

theorem tm_pure (a : α) (Q : α → PState → Prop) (st : PState) : tm (pure a : PM α) Q st ↔ Q a st := Iff.rfl
theorem tm_getSt (Q : PState → PState → Prop) (st : PState) : tm getSt Q st ↔ Q st st := Iff.rfl
theorem tm_outOfFuel (Q : α → PState → Prop) (st : PState) : tm (outOfFuel : PM α) Q st ↔ False := Iff.rfl
theorem tm_goPanic (p : PanicSite) (Q : α → PState → Prop) (st : PState) : tm (goPanic p : PM α) Q st ↔ True := Iff.rfl
theorem tm_nextToken (s : TokStream) (Q : Unit → PState → Prop) (st : PState) :
    tm (nextToken s) Q st ↔ Q () (advance s st) := Iff.rfl
theorem tm_setCont (Q : Unit → PState → Prop) (st : PState) : tm setCont Q st ↔ Q () { st with cont := true } := Iff.rfl
theorem tm_pushErr (e : ErrKind) (Q : Unit → PState → Prop) (st : PState) :
    tm (pushErr e) Q st ↔ Q () { st with errors := e :: st.errors } := Iff.rfl
theorem tm_ite (c : Prop) [Decidable c] (a b : PM α) (Q : α → PState → Prop) (st : PState) :
    tm (if c then a else b) Q st ↔ (if c then tm a Q st else tm b Q st) := by split <;> exact Iff.rfl

theorem tm_conseq {m : PM α} {Q Q' : α → PState → Prop} {st : PState} (h : tm m Q st) (hq : ∀ a st', Q a st' → Q' a st') :
    tm m Q' st := by
  unfold tm at *
  cases hm : m st with
  | ok r => obtain ⟨a, st'⟩ := r; rw [hm] at h; exact hq a st' h
  | goPanic p => trivial
  | outOfFuel => rw [hm] at h; exact h

macro "tvc" : tactic => `(tactic| try simp only [tm_bind, tm_getSt, tm_ite, tm_nextToken, tm_pure, tm_setCont, tm_pushErr,
  tm_outOfFuel, tm_goPanic, advance_cur, advance_prev])

variable {s : TokStream}

/-- tokens not yet pulled from the lexer -/
def rem (s : TokStream) (st : PState) : Nat := s.toks.length + 2 - st.idx

@[simp] theorem rem_advance (st : PState) : rem s (advance s st) = rem s st - 1 := by
  unfold rem advance; simp only; omega
@[simp] theorem rem_setCont (st : PState) : rem s { st with cont := true } = rem s st := rfl
@[simp] theorem rem_pushErr (st : PState) (e) : rem s { st with errors := e :: st.errors } = rem s st := rfl

theorem inv_adv {st : PState} (hi : Inv s st) : Inv s (advance s st) := inv_nextToken hi
theorem inv_setCont {st : PState} (hi : Inv s st) : Inv s { st with cont := true } := ⟨hi.idx, hi.cur, hi.peek, hi.nl⟩
theorem inv_pushErr {st : PState} (e) (hi : Inv s st) : Inv s { st with errors := e :: st.errors } := ⟨hi.idx, hi.cur, hi.peek, hi.nl⟩

theorem end_cur {st : PState} (hi : Inv s st) (h : rem s st = 0) : st.cur = s.eof := by
  rw [hi.cur]; apply get_of_le; unfold rem at h; have := hi.idx; omega
theorem end_peek {st : PState} (hi : Inv s st) (h : rem s st ≤ 1) : st.peek = s.eof := by
  rw [hi.peek]; apply get_of_le; unfold rem at h; have := hi.idx; omega

/-- fuel needed by a function of rank `(z, k)` when `r` tokens are left -/
def nd (z k r : Nat) : Nat := if r = 0 then z + 1 else 7 * r + k + 1

/-- common postcondition: invariant kept, no token un-pulled -/
def PostT (s : TokStream) (st : PState) : α → PState → Prop := fun _ st' => Inv s st' ∧ rem s st' ≤ rem s st

theorem errorLine_tm (Q : Unit → PState → Prop) (st : PState) (h : Q () st) : tm (errorLine s) Q st := by
  unfold tm errorLine
  by_cases c : st.peek.lastNl ≤ min st.peek.posAfter s.inputLen
  · simp only [c, if_true]; exact h
  · simp only [c, if_false]

theorem peekError_tm (t : TokType) (st : PState) (hi : Inv s st) :
    tm (peekError s t) (fun _ st' => Inv s st' ∧ rem s st' = rem s st) st := by
  unfold peekError
  tvc
  apply errorLine_tm
  split
  · trivial
  · exact ⟨inv_pushErr _ hi, rfl⟩

theorem noPrefix_tm (st : PState) (hi : Inv s st) :
    tm (noPrefixParseFnError s) (fun _ st' => Inv s st' ∧ rem s st' = rem s st) st := by
  unfold noPrefixParseFnError
  tvc
  apply errorLine_tm
  exact ⟨inv_pushErr _ hi, rfl⟩

theorem expectPeek_tm (t : TokType) (st : PState) (hi : Inv s st) :
    tm (expectPeek s t) (fun b st' => (b = true ∧ st.peek.type = t ∧ st' = advance s st) ∨
      (b = false ∧ st.peek.type ≠ t ∧ Inv s st' ∧ rem s st' = rem s st)) st := by
  unfold expectPeek
  tvc
  split
  · simp_all
  · split
    · exact Or.inr ⟨by first | rfl | trivial, by assumption, inv_setCont hi, rfl⟩
    · refine tm_conseq (peekError_tm t st hi) ?_
      intro _ st' h
      exact Or.inr ⟨by first | rfl | trivial, by assumption, h.1, h.2⟩


/-! ### leaves -/

theorem parseIdentifier_tm (st : PState) (hi : Inv s st) : tm (parseIdentifier s) (PostT s st) st := by
  unfold parseIdentifier parsePostfixExpression
  tvc
  cases hl : lookup postfixRegs st.peek.type with
  | none => exact ⟨hi, Nat.le_refl _⟩
  | some fn =>
    cases fn
    tvc
    exact ⟨inv_adv hi, by simp⟩

theorem parseFloatLiteral_tm (st : PState) (hi : Inv s st) : tm (parseFloatLiteral s) (PostT s st) st := by
  unfold parseFloatLiteral
  tvc
  split
  · exact ⟨hi, Nat.le_refl _⟩
  · apply errorLine_tm
    tvc
    exact ⟨inv_pushErr _ hi, Nat.le_refl _⟩

theorem parseIntegerLiteral_tm (st : PState) (hi : Inv s st) : tm (parseIntegerLiteral s) (PostT s st) st := by
  unfold parseIntegerLiteral
  tvc
  split
  · exact ⟨hi, Nat.le_refl _⟩
  · exact parseFloatLiteral_tm st hi

theorem parseBoolean_tm (st : PState) (hi : Inv s st) : tm parseBoolean (PostT s st) st := by
  unfold parseBoolean; tvc; exact ⟨hi, Nat.le_refl _⟩
theorem parseStringLiteral_tm (st : PState) (hi : Inv s st) : tm parseStringLiteral (PostT s st) st := by
  unfold parseStringLiteral; tvc; exact ⟨hi, Nat.le_refl _⟩
theorem parseControlExpression_tm (st : PState) (hi : Inv s st) : tm parseControlExpression (PostT s st) st := by
  unfold parseControlExpression; tvc; exact ⟨hi, Nat.le_refl _⟩

theorem parseComment_tm (st : PState) (hi : Inv s st) : tm parseComment (PostT s st) st := by
  unfold parseComment
  tvc
  split
  · split
    · tvc; exact ⟨inv_setCont hi, Nat.le_refl _⟩
    · exact ⟨hi, Nat.le_refl _⟩
  · split
    · trivial
    · exact ⟨hi, Nat.le_refl _⟩

theorem mapPairError_tm (st : PState) (hi : Inv s st) : tm (mapPairError s) (PostT s st) st := by
  unfold mapPairError
  tvc
  split
  · exact ⟨inv_setCont hi, Nat.le_refl _⟩
  · refine tm_conseq (peekError_tm _ st hi) ?_
    intro _ st' h; exact ⟨h.1, Nat.le_of_eq h.2⟩

/-- a comma is a real token: two tokens are still to be pulled -/
theorem rem_of_real_peek {st : PState} (hi : Inv s st) (hE : s.eof.type = .EOF ∨ s.eof.type = .EOL)
    (h : st.peek.type ≠ .EOF ∧ st.peek.type ≠ .EOL) : 2 ≤ rem s st := by
  apply Classical.byContradiction
  intro hc
  have := end_peek hi (by omega)
  rw [this] at h
  rcases hE with e | e <;> simp [e] at h

theorem parameter_tm (st : PState) (hi : Inv s st) :
    tm (parameter s) (fun _ st' => Inv s st' ∧ rem s st' = rem s st) st := by
  unfold parameter
  tvc
  exact ⟨hi, by first | rfl | trivial⟩

theorem parseFunctionParametersLoop_tm (hE : s.eof.type = .EOF ∨ s.eof.type = .EOL) : ∀ (fuel : Nat) (acc : NList) (st : PState),
    Inv s st → rem s st + 1 ≤ fuel → tm (parseFunctionParametersLoop s fuel acc) (PostT s st) st
  | 0, _, _, _, h => by omega
  | n + 1, acc, st, hi, h => by
    unfold parseFunctionParametersLoop
    tvc
    split
    · rename_i hc
      have h2 := rem_of_real_peek hi hE (by rw [hc]; exact ⟨by decide, by decide⟩)
      refine tm_conseq (parameter_tm _ (inv_adv (inv_adv hi))) ?_
      intro id st0 ⟨hi0, hr0⟩
      refine tm_conseq (parseFunctionParametersLoop_tm hE n _ _ hi0 (by simp at hr0; omega)) ?_
      intro r st' h'
      exact ⟨h'.1, by have := h'.2; simp at hr0; omega⟩
    · exact ⟨hi, Nat.le_refl _⟩

theorem parseFunctionParameters_tm (hE : s.eof.type = .EOF ∨ s.eof.type = .EOL) (fuel : Nat) (st : PState)
    (hi : Inv s st) (h : rem s st + 1 ≤ fuel) : tm (parseFunctionParameters s fuel) (PostT s st) st := by
  unfold parseFunctionParameters
  tvc
  split
  · exact ⟨inv_adv hi, by simp⟩
  · refine tm_conseq (parameter_tm _ (inv_adv hi)) ?_
    intro id st0 ⟨hi0, hr0⟩
    simp only [rem_advance] at hr0
    refine tm_conseq (parseFunctionParametersLoop_tm hE fuel _ _ hi0 (by omega)) ?_
    intro ids st1 h1
    tvc
    refine tm_conseq (expectPeek_tm _ st1 h1.1) ?_
    intro b st2 h2
    rcases h2 with ⟨rfl, _, rfl⟩ | ⟨rfl, _, hi2, hr2⟩
    · tvc
      simp only [Bool.not_true, Bool.false_eq_true, if_false]
      split
      · tvc
        exact ⟨inv_adv h1.1, by have := h1.2; simp at *; omega⟩
      · tvc
        apply errorLine_tm
        tvc
        have hr : rem s (advance s st1) ≤ rem s st := by have := h1.2; simp at *; omega
        exact ⟨inv_pushErr _ (inv_adv h1.1), hr⟩
    · simp only [Bool.not_false, if_true, tm_pure]
      exact ⟨hi2, by have := h1.2; simp at *; omega⟩

/-- postcondition of parseExpression: at the end marker it returns nil -/
def PostTE (s : TokStream) (st : PState) : ONode → PState → Prop :=
  fun r st' => Inv s st' ∧ rem s st' ≤ rem s st ∧ (rem s st = 0 → r = none)

/-- termination specifications of the 24 mutually recursive functions at one fuel, with their ranks -/
structure AllTm (s : TokStream) (n : Nat) : Prop where
  pE : ∀ P st, Inv s st → nd 0 3 (rem s st) ≤ n → tm (parseExpression s n P) (PostTE s st) st
  pLoop : ∀ P left st, Inv s st → nd 0 0 (rem s st) ≤ n → tm (parseExpressionLoop s n P left) (PostT s st) st
  pPre : ∀ fn st, Inv s st → nd 3 2 (rem s st) ≤ n → tm (prefixDispatch s n fn) (PostT s st) st
  pInf : ∀ fn left st, Inv s st → nd 3 2 (rem s st) ≤ n → tm (infixDispatch s n fn left) (PostT s st) st
  pStmt : ∀ st, Inv s st → nd 1 4 (rem s st) ≤ n → tm (parseStatement s n) (PostT s st) st
  pRet : ∀ st, Inv s st → nd 0 0 (rem s st) ≤ n → tm (parseReturnStatement s n) (PostT s st) st
  pArr : ∀ st, Inv s st → nd 2 1 (rem s st) ≤ n → tm (parseArrayLiteral s n) (PostT s st) st
  pGrp : ∀ st, Inv s st → nd 1 0 (rem s st) ≤ n → tm (parseGroupedExpression s n) (PostT s st) st
  pPfx : ∀ st, Inv s st → nd 1 0 (rem s st) ≤ n → tm (parsePrefixExpression s n) (PostT s st) st
  pLam : ∀ left more st, Inv s st → nd 1 0 (rem s st) ≤ n → tm (parseLambdaMulti s n left more) (PostT s st) st
  pInfix : ∀ left st, Inv s st → nd 1 0 (rem s st) ≤ n → tm (parseInfixExpression s n left) (PostT s st) st
  pFor : ∀ st, Inv s st → nd 1 0 (rem s st) ≤ n → tm (parseForExpression s n) (PostT s st) st
  pIf : ∀ st, Inv s st → nd 1 0 (rem s st) ≤ n → tm (parseIfExpression s n) (PostT s st) st
  pBlk : ∀ st, Inv s st → nd 1 0 (rem s st) ≤ n → tm (parseBlockStatement s n) (PostT s st) st
  pBlkLoop : ∀ acc st, Inv s st → nd 0 5 (rem s st) ≤ n → tm (parseBlockLoop s n acc) (PostT s st) st
  pFn : ∀ st, Inv s st → nd 0 0 (rem s st) ≤ n → tm (parseFunctionLiteral s n) (PostT s st) st
  pBi : ∀ st, Inv s st → nd 0 0 (rem s st) ≤ n → tm (parseBuiltin s n) (PostT s st) st
  pCall : ∀ f st, Inv s st → nd 2 1 (rem s st) ≤ n → tm (parseCallExpression s n f) (PostT s st) st
  pList : ∀ e st, (e = .RPAREN ∨ e = .RBRACKET) → Inv s st → nd 1 0 (rem s st) ≤ n → tm (parseExpressionList s n e) (PostT s st) st
  pListLoop : ∀ args st, Inv s st → nd 0 0 (rem s st) ≤ n → tm (parseExpressionListLoop s n args) (PostT s st) st
  pIdx : ∀ left st, Inv s st → nd 1 0 (rem s st) ≤ n → tm (parseIndexExpression s n left) (PostT s st) st
  pMap : ∀ st, Inv s st → nd 2 1 (rem s st) ≤ n → tm (parseMapLiteral s n) (PostT s st) st
  pMapLoop : ∀ tok kvs st, Inv s st → nd 1 0 (rem s st) ≤ n → tm (parseMapLoop s n tok kvs) (PostT s st) st
  pMac : ∀ st, Inv s st → nd 0 0 (rem s st) ≤ n → tm (parseMacroLiteral s n) (PostT s st) st

end Grol.Parser

namespace Grol.Parser
open Grol.Generated
variable {s : TokStream}

theorem tblE : lookup prefixRegs .EOF = none ∧ lookup prefixRegs .EOL = none ∧ lookup infixRegs .EOF = none ∧
    lookup infixRegs .EOL = none ∧ precOf .EOF = 1 ∧ precOf .EOL = 1 ∧ lookup postfixRegs .EOF = none ∧ lookup postfixRegs .EOL = none := by decide

macro "inv" : tactic => `(tactic| first
  | assumption
  | exact inv_adv (by assumption)
  | exact inv_adv (inv_adv (by assumption))
  | exact inv_adv (inv_adv (inv_adv (by assumption)))
  | exact inv_setCont (by assumption))

/-- arithmetic / dead-branch obligations -/
macro "need" : tactic => `(tactic| ((try simp only [nd, rem_advance, PostT, PostTE, advance_cur] at *); grind [tblE]))

/-- final goal `PostT s st a st'` -/
macro "fint" : tactic => `(tactic| (refine ⟨by inv, ?_⟩; (try simp only [rem_advance, rem_setCont, PostT, PostTE] at *); omega))

theorem tstep_pE (hE : s.eof.type = .EOF ∨ s.eof.type = .EOL) {n : Nat} (ih : AllTm s n) (P : Nat) (st : PState) (hi : Inv s st)
    (hn : nd 0 3 (rem s st) ≤ n + 1) : tm (parseExpression s (n + 1) P) (PostTE s st) st := by
  have ec := end_cur hi
  have ep := end_peek hi
  unfold parseExpression
  tvc
  split
  · exact ⟨inv_setCont hi, Nat.le_refl _, fun _ => rfl⟩
  · rename_i hne
    cases hl : lookup prefixRegs st.cur.type with
    | none =>
      dsimp only
      tvc
      split
      · split
        · exact ⟨inv_setCont hi, Nat.le_refl _, fun _ => rfl⟩
        · refine tm_conseq (noPrefix_tm st hi) ?_
          intro _ st' h
          exact ⟨h.1, Nat.le_of_eq h.2, fun _ => rfl⟩
      · exact ⟨hi, Nat.le_refl _, fun _ => rfl⟩
    | some fn =>
      dsimp only
      tvc
      have hr : rem s st ≠ 0 := by
        intro h0
        have := ec h0
        rw [this] at hl hne
        rcases hE with e | e <;> simp [e, tblE] at hl hne
      refine tm_conseq (ih.pPre fn st hi (by need)) ?_
      intro r1 st1 ⟨hi1, hr1⟩
      tvc
      split
      · refine tm_conseq (ih.pLam r1 [] _ (by inv) (by need)) ?_
        intro r2 st2 ⟨hi2, hr2⟩
        exact ⟨hi2, by simp at *; omega, fun h => absurd h hr⟩
      · refine tm_conseq (ih.pLoop P r1 st1 hi1 (by need)) ?_
        intro r2 st2 ⟨hi2, hr2⟩
        exact ⟨hi2, by omega, fun h => absurd h hr⟩

theorem tstep_pLoop (hE : s.eof.type = .EOF ∨ s.eof.type = .EOL) {n : Nat} (ih : AllTm s n) (P : Nat) (left : ONode) (st : PState) (hi : Inv s st)
    (hn : nd 0 0 (rem s st) ≤ n + 1) : tm (parseExpressionLoop s (n + 1) P left) (PostT s st) st := by
  have ec := end_cur hi
  have ep := end_peek hi
  unfold parseExpressionLoop
  tvc
  split
  · rename_i hc
    simp only [Bool.and_eq_true, bne_iff_ne, ne_eq, decide_eq_true_eq] at hc
    cases hl : lookup infixRegs st.peek.type with
    | none => dsimp only; tvc; fint
    | some fn =>
      dsimp only
      split
      · tvc; fint
      · split
        · tvc; fint
        · tvc
          have hr : 2 ≤ rem s st := rem_of_real_peek hi hE (by
            constructor <;> (intro e; rw [e] at hl; simp [tblE] at hl))
          refine tm_conseq (ih.pInf fn left _ (by inv) (by need)) ?_
          intro r1 st1 ⟨hi1, hr1⟩
          refine tm_conseq (ih.pLoop P r1 st1 hi1 (by need)) ?_
          intro r2 st2 ⟨hi2, hr2⟩
          fint
  · tvc; fint

theorem tstep_pPre (hE : s.eof.type = .EOF ∨ s.eof.type = .EOL) {n : Nat} (ih : AllTm s n) (fn : PrefixFn) (st : PState) (hi : Inv s st)
    (hn : nd 3 2 (rem s st) ≤ n + 1) : tm (prefixDispatch s (n + 1) fn) (PostT s st) st := by
  unfold prefixDispatch
  cases fn with
  | parseIdentifier => exact parseIdentifier_tm st hi
  | parseIntegerLiteral => exact parseIntegerLiteral_tm st hi
  | parseFloatLiteral => exact parseFloatLiteral_tm st hi
  | parsePrefixExpression => exact ih.pPfx st hi (by need)
  | parseBoolean => exact parseBoolean_tm st hi
  | parseGroupedExpression => exact ih.pGrp st hi (by need)
  | parseIfExpression => exact ih.pIf st hi (by need)
  | parseForExpression => exact ih.pFor st hi (by need)
  | parseControlExpression => exact parseControlExpression_tm st hi
  | parseFunctionLiteral => exact ih.pFn st hi (by need)
  | parseStringLiteral => exact parseStringLiteral_tm st hi
  | parseBuiltin => exact ih.pBi st hi (by need)
  | parseArrayLiteral => exact ih.pArr st hi (by need)
  | parseMapLiteral => exact ih.pMap st hi (by need)
  | parseComment => exact parseComment_tm st hi
  | parseMacroLiteral => exact ih.pMac st hi (by need)

theorem tstep_pInf (hE : s.eof.type = .EOF ∨ s.eof.type = .EOL) {n : Nat} (ih : AllTm s n) (fn : InfixFn) (left : ONode) (st : PState) (hi : Inv s st)
    (hn : nd 3 2 (rem s st) ≤ n + 1) : tm (infixDispatch s (n + 1) fn left) (PostT s st) st := by
  unfold infixDispatch
  cases fn with
  | parseInfixExpression => exact ih.pInfix left st hi (by need)
  | parseCallExpression => exact ih.pCall left st hi (by need)
  | parseIndexExpression => exact ih.pIdx left st hi (by need)
  | parseLambdaExpression => exact ih.pLam left [] st hi (by need)

theorem tstep_pStmt (hE : s.eof.type = .EOF ∨ s.eof.type = .EOL) {n : Nat} (ih : AllTm s n) (st : PState) (hi : Inv s st)
    (hn : nd 1 4 (rem s st) ≤ n + 1) : tm (parseStatement s (n + 1)) (PostT s st) st := by
  unfold parseStatement
  tvc
  split
  · exact ih.pRet st hi (by need)
  · refine tm_conseq (ih.pE _ st hi (by need)) ?_
    intro r st1 ⟨hi1, hr1, _⟩
    tvc
    split
    · tvc; fint
    · tvc; fint

theorem tstep_pRet (hE : s.eof.type = .EOF ∨ s.eof.type = .EOL) {n : Nat} (ih : AllTm s n) (st : PState) (hi : Inv s st)
    (hn : nd 0 0 (rem s st) ≤ n + 1) : tm (parseReturnStatement s (n + 1)) (PostT s st) st := by
  have ec := end_cur hi
  have ep := end_peek hi
  unfold parseReturnStatement
  tvc
  split
  · tvc; fint
  · rename_i hc
    tvc
    have hr : 2 ≤ rem s st := rem_of_real_peek hi hE (by
      simp only [Bool.or_eq_true, decide_eq_true_eq, not_or] at hc; exact ⟨hc.1.2, hc.2⟩)
    refine tm_conseq (ih.pE _ _ (by inv) (by need)) ?_
    intro v st1 ⟨hi1, hr1, _⟩
    tvc
    split
    · tvc; fint
    · tvc; fint

theorem tstep_pList (hE : s.eof.type = .EOF ∨ s.eof.type = .EOL) {n : Nat} (ih : AllTm s n) (e : TokType) (st : PState) (he : e = .RPAREN ∨ e = .RBRACKET) (hi : Inv s st)
    (hn : nd 1 0 (rem s st) ≤ n + 1) : tm (parseExpressionList s (n + 1) e) (PostT s st) st := by
  have ec := end_cur hi
  have ep := end_peek hi
  unfold parseExpressionList
  tvc
  split
  · tvc; fint
  · tvc
    refine tm_conseq (ih.pE _ _ (by inv) (by need)) ?_
    intro x st1 ⟨hi1, hr1, _⟩
    refine tm_conseq (ih.pListLoop [x] st1 hi1 (by need)) ?_
    intro args st2 ⟨hi2, hr2⟩
    refine tm_conseq (expectPeek_tm e st2 hi2) ?_
    intro b st3 h3
    rcases h3 with ⟨rfl, _, rfl⟩ | ⟨rfl, _, hi3, hr3⟩
    · simp only [Bool.not_true, Bool.false_eq_true, if_false, tm_pure]; fint
    · simp only [Bool.not_false, if_true, tm_pure]; fint

theorem tstep_pListLoop (hE : s.eof.type = .EOF ∨ s.eof.type = .EOL) {n : Nat} (ih : AllTm s n) (args : NList) (st : PState) (hi : Inv s st)
    (hn : nd 0 0 (rem s st) ≤ n + 1) : tm (parseExpressionListLoop s (n + 1) args) (PostT s st) st := by
  unfold parseExpressionListLoop
  tvc
  split
  · rename_i hc
    have hr : 2 ≤ rem s st := rem_of_real_peek hi hE (by rw [hc]; exact ⟨by decide, by decide⟩)
    refine tm_conseq (ih.pE _ _ (by inv) (by need)) ?_
    intro x st1 ⟨hi1, hr1, _⟩
    refine tm_conseq (ih.pListLoop _ st1 hi1 (by need)) ?_
    intro r st2 ⟨hi2, hr2⟩
    fint
  · tvc; fint

theorem tstep_pArr (hE : s.eof.type = .EOF ∨ s.eof.type = .EOL) {n : Nat} (ih : AllTm s n) (st : PState) (hi : Inv s st)
    (hn : nd 2 1 (rem s st) ≤ n + 1) : tm (parseArrayLiteral s (n + 1)) (PostT s st) st := by
  unfold parseArrayLiteral
  tvc
  refine tm_conseq (ih.pList .RBRACKET st (Or.inr rfl) hi (by need)) ?_
  intro el st1 ⟨hi1, hr1⟩
  tvc; fint

theorem tstep_pCall (hE : s.eof.type = .EOF ∨ s.eof.type = .EOL) {n : Nat} (ih : AllTm s n) (f : ONode) (st : PState) (hi : Inv s st)
    (hn : nd 2 1 (rem s st) ≤ n + 1) : tm (parseCallExpression s (n + 1) f) (PostT s st) st := by
  unfold parseCallExpression
  tvc
  refine tm_conseq (ih.pList .RPAREN st (Or.inl rfl) hi (by need)) ?_
  intro el st1 ⟨hi1, hr1⟩
  tvc; fint

theorem tstep_pBi (hE : s.eof.type = .EOF ∨ s.eof.type = .EOL) {n : Nat} (ih : AllTm s n) (st : PState) (hi : Inv s st)
    (hn : nd 0 0 (rem s st) ≤ n + 1) : tm (parseBuiltin s (n + 1)) (PostT s st) st := by
  have ec := end_cur hi
  have ep := end_peek hi
  unfold parseBuiltin
  tvc
  refine tm_conseq (expectPeek_tm .LPAREN st hi) ?_
  intro b st1 h1
  rcases h1 with ⟨rfl, hpk, rfl⟩ | ⟨rfl, _, hi1, hr1⟩
  · simp only [Bool.not_true, Bool.false_eq_true, if_false]
    have hr : 2 ≤ rem s st := rem_of_real_peek hi hE (by rw [hpk]; exact ⟨by decide, by decide⟩)
    tvc
    refine tm_conseq (ih.pList .RPAREN _ (Or.inl rfl) (by inv) (by need)) ?_
    intro el st2 ⟨hi2, hr2⟩
    tvc; fint
  · simp only [Bool.not_false, if_true, tm_pure]; fint

theorem tstep_pBlk (hE : s.eof.type = .EOF ∨ s.eof.type = .EOL) {n : Nat} (ih : AllTm s n) (st : PState) (hi : Inv s st)
    (hn : nd 1 0 (rem s st) ≤ n + 1) : tm (parseBlockStatement s (n + 1)) (PostT s st) st := by
  unfold parseBlockStatement
  tvc
  refine tm_conseq (ih.pBlkLoop [] _ (by inv) (by need)) ?_
  intro r st1 ⟨hi1, hr1⟩
  fint

theorem tstep_pBlkLoop (hE : s.eof.type = .EOF ∨ s.eof.type = .EOL) {n : Nat} (ih : AllTm s n) (acc : NList) (st : PState) (hi : Inv s st)
    (hn : nd 0 5 (rem s st) ≤ n + 1) : tm (parseBlockLoop s (n + 1) acc) (PostT s st) st := by
  have ec := end_cur hi
  have ep := end_peek hi
  unfold parseBlockLoop
  tvc
  split
  · rename_i hc
    split
    · tvc; fint
    · rename_i hne
      have hr : rem s st ≠ 0 := by
        intro h0
        have := ec h0
        simp only [Bool.and_eq_true, bne_iff_ne, ne_eq] at hc
        rw [this] at hc hne
        rcases hE with e | e <;> simp [e] at hc hne
      refine tm_conseq (ih.pStmt st hi (by need)) ?_
      intro stmt st1 ⟨hi1, hr1⟩
      tvc
      refine tm_conseq (ih.pBlkLoop _ _ (by inv) (by need)) ?_
      intro r st2 ⟨hi2, hr2⟩
      fint
  · tvc; fint


theorem tstep_pPfx (hE : s.eof.type = .EOF ∨ s.eof.type = .EOL) {n : Nat} (ih : AllTm s n) (st : PState) (hi : Inv s st)
    (hn : nd 1 0 (rem s st) ≤ n + 1) : tm (parsePrefixExpression s (n + 1)) (PostT s st) st := by
  unfold parsePrefixExpression
  tvc
  refine tm_conseq (ih.pE _ _ (by inv) (by need)) ?_
  intro r st1 ⟨hi1, hr1, _⟩
  tvc; fint

theorem tstep_pInfix (hE : s.eof.type = .EOF ∨ s.eof.type = .EOL) {n : Nat} (ih : AllTm s n) (left : ONode) (st : PState) (hi : Inv s st)
    (hn : nd 1 0 (rem s st) ≤ n + 1) : tm (parseInfixExpression s (n + 1) left) (PostT s st) st := by
  unfold parseInfixExpression
  tvc
  split
  · tvc; fint
  · tvc
    refine tm_conseq (ih.pE _ _ (by inv) (by need)) ?_
    intro r st1 ⟨hi1, hr1, _⟩
    tvc; fint

theorem tstep_pIdx (hE : s.eof.type = .EOF ∨ s.eof.type = .EOL) {n : Nat} (ih : AllTm s n) (left : ONode) (st : PState) (hi : Inv s st)
    (hn : nd 1 0 (rem s st) ≤ n + 1) : tm (parseIndexExpression s (n + 1) left) (PostT s st) st := by
  unfold parseIndexExpression
  tvc
  refine tm_conseq (ih.pE _ _ (by inv) (by need)) ?_
  intro r st1 ⟨hi1, hr1, _⟩
  split
  · tvc; fint
  · refine tm_conseq (expectPeek_tm _ st1 hi1) ?_
    intro b st2 h2
    rcases h2 with ⟨rfl, _, rfl⟩ | ⟨rfl, _, hi2, hr2⟩
    · simp only [Bool.not_true, Bool.false_eq_true, if_false, tm_pure]; fint
    · simp only [Bool.not_false, if_true, tm_pure]; fint

theorem tstep_pLam (hE : s.eof.type = .EOF ∨ s.eof.type = .EOL) {n : Nat} (ih : AllTm s n) (left : ONode) (more : NList) (st : PState) (hi : Inv s st)
    (hn : nd 1 0 (rem s st) ≤ n + 1) : tm (parseLambdaMulti s (n + 1) left more) (PostT s st) st := by
  have ec := end_cur hi
  have ep := end_peek hi
  unfold parseLambdaMulti
  tvc
  split
  · trivial
  · tvc
    apply errorLine_tm
    tvc
    exact ⟨inv_pushErr _ hi, Nat.le_refl _⟩
  · tvc
    split
    · rename_i hb
      have hr : 2 ≤ rem s st := rem_of_real_peek hi hE (by rw [hb]; exact ⟨by decide, by decide⟩)
      tvc
      refine tm_conseq (ih.pBlk _ (by inv) (by need)) ?_
      intro body st1 ⟨hi1, hr1⟩
      tvc
      split
      · tvc; fint
      · tvc; fint
    · tvc
      refine tm_conseq (ih.pE _ _ (by inv) (by need)) ?_
      intro body st1 ⟨hi1, hr1, _⟩
      tvc; fint

theorem tstep_pGrp (hE : s.eof.type = .EOF ∨ s.eof.type = .EOL) {n : Nat} (ih : AllTm s n) (st : PState) (hi : Inv s st)
    (hn : nd 1 0 (rem s st) ≤ n + 1) : tm (parseGroupedExpression s (n + 1)) (PostT s st) st := by
  unfold parseGroupedExpression
  tvc
  refine tm_conseq (ih.pE _ _ (by inv) (by need)) ?_
  intro exp st1 ⟨hi1, hr1, _⟩
  tvc
  split
  · rename_i hl
    have hr : 2 ≤ rem s st1 := rem_of_real_peek hi1 hE (by rw [hl]; exact ⟨by decide, by decide⟩)
    refine tm_conseq (ih.pLam exp [] _ (by inv) (by need)) ?_
    intro r st2 ⟨hi2, hr2⟩
    fint
  · split
    · rename_i hl hcm
      have hr : 2 ≤ rem s st1 := rem_of_real_peek hi1 hE (by rw [hcm]; exact ⟨by decide, by decide⟩)
      refine tm_conseq (ih.pList .RPAREN _ (Or.inl rfl) (by inv) (by need)) ?_
      intro el st2 ⟨hi2, hr2⟩
      cases el with
      | none => dsimp only; tvc; fint
      | some el =>
        dsimp only
        tvc
        refine tm_conseq (expectPeek_tm .LAMBDA st2 hi2) ?_
        intro b st3 h3
        rcases h3 with ⟨rfl, hpk, rfl⟩ | ⟨rfl, _, hi3, hr3⟩
        · simp only [Bool.not_true, Bool.false_eq_true, if_false]
          have hr' : 2 ≤ rem s st2 := rem_of_real_peek hi2 hE (by rw [hpk]; exact ⟨by decide, by decide⟩)
          refine tm_conseq (ih.pLam exp el _ (by inv) (by need)) ?_
          intro r st4 ⟨hi4, hr4⟩
          fint
        · simp only [Bool.not_false, if_true, tm_pure]; fint
    · refine tm_conseq (expectPeek_tm .RPAREN st1 hi1) ?_
      intro b st2 h2
      rcases h2 with ⟨rfl, _, rfl⟩ | ⟨rfl, _, hi2, hr2⟩
      · simp only [Bool.not_true, Bool.false_eq_true, if_false, tm_pure]; fint
      · simp only [Bool.not_false, if_true, tm_pure]; fint

theorem tstep_pFor (hE : s.eof.type = .EOF ∨ s.eof.type = .EOL) {n : Nat} (ih : AllTm s n) (st : PState) (hi : Inv s st)
    (hn : nd 1 0 (rem s st) ≤ n + 1) : tm (parseForExpression s (n + 1)) (PostT s st) st := by
  unfold parseForExpression
  tvc
  refine tm_conseq (ih.pE _ _ (by inv) (by need)) ?_
  intro c st1 ⟨hi1, hr1, _⟩
  refine tm_conseq (expectPeek_tm .LBRACE st1 hi1) ?_
  intro b st2 h2
  rcases h2 with ⟨rfl, hpk, rfl⟩ | ⟨rfl, _, hi2, hr2⟩
  · simp only [Bool.not_true, Bool.false_eq_true, if_false]
    have hr : 2 ≤ rem s st1 := rem_of_real_peek hi1 hE (by rw [hpk]; exact ⟨by decide, by decide⟩)
    refine tm_conseq (ih.pBlk _ (by inv) (by need)) ?_
    intro body st3 ⟨hi3, hr3⟩
    tvc
    split
    · tvc; fint
    · tvc; fint
  · simp only [Bool.not_false, if_true, tm_pure]; fint

theorem tstep_pIf (hE : s.eof.type = .EOF ∨ s.eof.type = .EOL) {n : Nat} (ih : AllTm s n) (st : PState) (hi : Inv s st)
    (hn : nd 1 0 (rem s st) ≤ n + 1) : tm (parseIfExpression s (n + 1)) (PostT s st) st := by
  unfold parseIfExpression
  tvc
  refine tm_conseq (ih.pE _ _ (by inv) (by need)) ?_
  intro c st1 ⟨hi1, hr1, _⟩
  refine tm_conseq (expectPeek_tm .LBRACE st1 hi1) ?_
  intro b st2 h2
  rcases h2 with ⟨rfl, hpk, rfl⟩ | ⟨rfl, _, hi2, hr2⟩
  · simp only [Bool.not_true, Bool.false_eq_true, if_false]
    have hr : 2 ≤ rem s st1 := rem_of_real_peek hi1 hE (by rw [hpk]; exact ⟨by decide, by decide⟩)
    refine tm_conseq (ih.pBlk _ (by inv) (by need)) ?_
    intro cons st3 ⟨hi3, hr3⟩
    tvc
    split
    · tvc; fint
    · split
      · rename_i hel
        have hr3' : 2 ≤ rem s st3 := rem_of_real_peek hi3 hE (by rw [hel]; exact ⟨by decide, by decide⟩)
        tvc
        split
        · tvc
          refine tm_conseq (ih.pIf _ (by inv) (by need)) ?_
          intro alt st4 ⟨hi4, hr4⟩
          tvc; fint
        · refine tm_conseq (expectPeek_tm .LBRACE _ (inv_adv hi3)) ?_
          intro b st4 h4
          rcases h4 with ⟨rfl, hpk4, rfl⟩ | ⟨rfl, _, hi4, hr4⟩
          · simp only [Bool.not_true, Bool.false_eq_true, if_false]
            refine tm_conseq (ih.pBlk _ (by inv) (by need)) ?_
            intro alt st5 ⟨hi5, hr5⟩
            tvc
            split
            · tvc; fint
            · tvc; fint
          · simp only [Bool.not_false, if_true, tm_pure]; fint
      · tvc; fint
  · simp only [Bool.not_false, if_true, tm_pure]; fint


set_option hygiene false in
/-- `(` parameters `)` `{` block `}` from state `st0` with `rem s st0 ≤ rem s st` -/
macro "fn_tail_t" : tactic => `(tactic| (
    refine tm_conseq (expectPeek_tm .LPAREN _ (by inv)) ?_
    intro b st1 h1
    rcases h1 with ⟨rfl, hpk, rfl⟩ | ⟨rfl, _, hi1, hr1⟩
    · simp only [Bool.not_true, Bool.false_eq_true, if_false]
      have hr : 2 ≤ rem s st0 := rem_of_real_peek hi0 hE (by rw [hpk]; exact ⟨by decide, by decide⟩)
      refine tm_conseq (parseFunctionParameters_tm hE n _ (by inv) (by need)) ?_
      intro pv st2 ⟨hi2, hr2⟩
      obtain ⟨params, variadic⟩ := pv
      try dsimp only
      tvc
      refine tm_conseq (expectPeek_tm .LBRACE st2 hi2) ?_
      intro b st3 h3
      rcases h3 with ⟨rfl, hpk3, rfl⟩ | ⟨rfl, _, hi3, hr3⟩
      · simp only [Bool.not_true, Bool.false_eq_true, if_false]
        refine tm_conseq (ih.pBlk _ (by inv) (by need)) ?_
        intro body st4 ⟨hi4, hr4⟩
        tvc
        split
        · tvc; fint
        · tvc; fint
      · simp only [Bool.not_false, if_true, tm_pure]; fint
    · simp only [Bool.not_false, if_true, tm_pure]; fint))

theorem tstep_pFn (hE : s.eof.type = .EOF ∨ s.eof.type = .EOL) {n : Nat} (ih : AllTm s n) (st : PState) (hi : Inv s st)
    (hn : nd 0 0 (rem s st) ≤ n + 1) : tm (parseFunctionLiteral s (n + 1)) (PostT s st) st := by
  unfold parseFunctionLiteral
  tvc
  split
  · rename_i hid
    have hr0 : 2 ≤ rem s st := rem_of_real_peek hi hE (by rw [hid]; exact ⟨by decide, by decide⟩)
    have hi0 : Inv s (advance s st) := inv_adv hi
    generalize hst0 : advance s st = st0 at *
    have hrel : rem s st0 = rem s st - 1 := by rw [← hst0]; simp
    fn_tail_t
  · have hi0 := hi
    generalize hst0 : st = st0 at *
    fn_tail_t

theorem tstep_pMac (hE : s.eof.type = .EOF ∨ s.eof.type = .EOL) {n : Nat} (ih : AllTm s n) (st : PState) (hi : Inv s st)
    (hn : nd 0 0 (rem s st) ≤ n + 1) : tm (parseMacroLiteral s (n + 1)) (PostT s st) st := by
  unfold parseMacroLiteral
  tvc
  have hi0 := hi
  generalize hst0 : st = st0 at *
  fn_tail_t

theorem tstep_pMap (hE : s.eof.type = .EOF ∨ s.eof.type = .EOL) {n : Nat} (ih : AllTm s n) (st : PState) (hi : Inv s st)
    (hn : nd 2 1 (rem s st) ≤ n + 1) : tm (parseMapLiteral s (n + 1)) (PostT s st) st := by
  unfold parseMapLiteral
  tvc
  exact ih.pMapLoop _ [] st hi (by need)

theorem tstep_pMapLoop (hE : s.eof.type = .EOF ∨ s.eof.type = .EOL) {n : Nat} (ih : AllTm s n) (tok : Tk) (kvs : NList) (st : PState) (hi : Inv s st)
    (hn : nd 1 0 (rem s st) ≤ n + 1) : tm (parseMapLoop s (n + 1) tok kvs) (PostT s st) st := by
  have ec := end_cur hi
  have ep := end_peek hi
  unfold parseMapLoop
  tvc
  split
  · split
    · tvc; fint
    · refine tm_conseq (ih.pE _ _ (by inv) (by need)) ?_
      intro kv st1 ⟨hi1, hr1, hnone⟩
      have hfail : tm (mapPairError s) (PostT s st) st1 := by
        refine tm_conseq (mapPairError_tm st1 hi1) ?_
        intro r st2 ⟨hi2, hr2⟩
        fint
      split
      · next t key value =>
        -- a pair was parsed: at least one token was consumed (at the end marker parseExpression returns nil)
        have hr : rem s st ≠ 0 := by
          intro h0
          have := hnone (by simp [h0])
          cases this
        split
        · tvc
          split
          · refine tm_conseq (expectPeek_tm .COMMA st1 hi1) ?_
            intro b st2 h2
            rcases h2 with ⟨rfl, _, rfl⟩ | ⟨rfl, _, hi2, hr2⟩
            · simp only [Bool.not_true, Bool.false_eq_true, if_false]
              refine tm_conseq (ih.pMapLoop tok _ _ (by inv) (by need)) ?_
              intro r st3 ⟨hi3, hr3⟩
              fint
            · simp only [Bool.not_false, if_true, tm_pure]; fint
          · refine tm_conseq (ih.pMapLoop tok _ st1 hi1 (by need)) ?_
            intro r st3 ⟨hi3, hr3⟩
            fint
        · exact hfail
      · exact hfail
  · refine tm_conseq (expectPeek_tm .RBRACE st hi) ?_
    intro b st1 h1
    rcases h1 with ⟨rfl, _, rfl⟩ | ⟨rfl, _, hi1, hr1⟩
    · simp only [Bool.not_true, Bool.false_eq_true, if_false, tm_pure]; fint
    · simp only [Bool.not_false, if_true, tm_pure]; fint


theorem nd_pos (z k r : Nat) : 1 ≤ nd z k r := by unfold nd; split <;> omega

theorem allTm_zero : AllTm s 0 := by
  constructor <;> intros <;> (rename_i h; exact absurd h (by unfold nd; split <;> omega))

theorem allTm_succ (hE : s.eof.type = .EOF ∨ s.eof.type = .EOL) {n : Nat} (ih : AllTm s n) : AllTm s (n + 1) where
  pE := tstep_pE hE ih
  pLoop := tstep_pLoop hE ih
  pPre := tstep_pPre hE ih
  pInf := tstep_pInf hE ih
  pStmt := tstep_pStmt hE ih
  pRet := tstep_pRet hE ih
  pArr := tstep_pArr hE ih
  pGrp := tstep_pGrp hE ih
  pPfx := tstep_pPfx hE ih
  pLam := tstep_pLam hE ih
  pInfix := tstep_pInfix hE ih
  pFor := tstep_pFor hE ih
  pIf := tstep_pIf hE ih
  pBlk := tstep_pBlk hE ih
  pBlkLoop := tstep_pBlkLoop hE ih
  pFn := tstep_pFn hE ih
  pBi := tstep_pBi hE ih
  pCall := tstep_pCall hE ih
  pList := tstep_pList hE ih
  pListLoop := tstep_pListLoop hE ih
  pIdx := tstep_pIdx hE ih
  pMap := tstep_pMap hE ih
  pMapLoop := tstep_pMapLoop hE ih
  pMac := tstep_pMac hE ih

theorem allTm (hE : s.eof.type = .EOF ∨ s.eof.type = .EOL) : ∀ n, AllTm s n
  | 0 => allTm_zero
  | n + 1 => allTm_succ hE (allTm hE n)

theorem parseProgramLoop_tm (hE : s.eof.type = .EOF ∨ s.eof.type = .EOL) : ∀ (fuel : Nat) (acc : NList) (st : PState),
    Inv s st → nd 0 5 (rem s st) ≤ fuel → tm (parseProgramLoop s fuel acc) (PostT s st) st
  | 0, _, _, _, h => absurd h (by unfold nd; split <;> omega)
  | n + 1, acc, st, hi, hn => by
    have ec := end_cur hi
    unfold parseProgramLoop
    tvc
    split
    · rename_i hc
      have hr : rem s st ≠ 0 := by
        intro h0
        have := ec h0
        simp only [Bool.and_eq_true, bne_iff_ne, ne_eq] at hc
        rw [this] at hc
        rcases hE with e | e <;> simp [e] at hc
      refine tm_conseq ((allTm hE n).pStmt st hi (by need)) ?_
      intro stmt st1 ⟨hi1, hr1⟩
      cases stmt with
      | none => dsimp only; tvc; fint
      | some x =>
        dsimp only; tvc
        refine tm_conseq (parseProgramLoop_tm hE n _ _ (by inv) (by need)) ?_
        intro r st2 ⟨hi2, hr2⟩
        fint
    · tvc; fint

theorem rem_init (s : TokStream) : rem s (init s) = s.toks.length := by unfold rem init; simp

/-- **C08, termination**: when the repeated end marker of the stream is EOF or EOL, the parser does not run out
of fuel once the fuel is at least `7 · (number of tokens + 2)`. -/
theorem parseProgram_terminates (s : TokStream) (hE : s.eof.type = .EOF ∨ s.eof.type = .EOL) (fuel : Nat)
    (hf : 7 * (s.toks.length + 2) ≤ fuel) : parseProgram s fuel ≠ .outOfFuel := by
  have h := parseProgramLoop_tm hE fuel [] (init s) (inv_init s) (by rw [rem_init]; unfold nd; split <;> omega)
  unfold parseProgram
  unfold tm at h
  cases hp : parseProgramLoop s fuel [] (init s) with
  | ok r => intro e; cases e
  | goPanic p => intro e; cases e
  | outOfFuel => rw [hp] at h; exact h.elim

end Grol.Parser


import Grol.Eval.Macro
/-
Lemmas about the macro expansion model (lean/Grol/Eval/Macro.lean): the specification-side
substitution `subst`, the side conditions `paramOnly` / `noCalls`, and the two inductions over
the traversal of `modify`.
-/
namespace Grol.Macro
open Grol.E

/-! ### substitution, as a plain structural recursion -/

/-- what becomes of `name(ps)` once its parameters are substituted: `unquote(p)` with `p` bound is the
tree bound to `p`; every other builtin call is kept -/
def substUnquote (env : MEnv) (name : String) (ps : List Node) : Node :=
  if name = "UNQUOTE" then
    match ps with
    | [.ident p] => (lookupArg env p).getD (.builtin name ps)
    | _ => .builtin name ps
  else .builtin name ps

mutual
/-- `subst T env`: the template with every `unquote(p)` replaced by the tree bound to `p`, everything
else copied -/
def subst (env : MEnv) : Node → Node
  | .stmts l => .stmts (substList env l)
  | .inf op l r => .inf op (subst env l) (subst env r)
  | .pre op r => .pre op (subst env r)
  | .idx tok l i => .idx tok (subst env l) (subst env i)
  | .ifE c a b => .ifE (subst env c) (subst env a) (subst env b)
  | .forE c b => .forE (subst env c) (subst env b)
  | .ret v => .ret (subst env v)
  | .fn name ps variadic lambda key body => .fn name ps variadic lambda key (subst env body)
  | .arr els => .arr (substList env els)
  | .mapLit ks vs => .mapLit (substList env ks) (substList env vs)
  | .builtin name ps => substUnquote env name (substList env ps)
  | .call fn args => .call (subst env fn) (substList env args)
  | .macroLit ps body => .macroLit ps (subst env body)
  | .ident n => .ident n
  | .int v => .int v
  | .float b => .float b
  | .str s => .str s
  | .bool b => .bool b
  | .post op n => .post op n
  | .none => .none
  | .ctl k => .ctl k
  | .comment => .comment
def substList (env : MEnv) : List Node → List Node
  | [] => []
  | x :: xs => subst env x :: substList env xs
end

/-- is `name(ps)` either not an unquote, or an unquote the macro state evaluates by a parameter lookup
(or leaves alone: an unquote without exactly one parameter is kept as it is) -/
def okUnquote (env : MEnv) (name : String) (ps : List Node) : Bool :=
  if name = "UNQUOTE" then
    match ps with
    | [.ident p] => p != "info" && p != "self" && (lookupArg env p).isSome
    | [_] => false
    | _ => true
  else true

mutual
/-- every `unquote` argument in the template is a parameter name (bound in `env`) -/
def paramOnly (env : MEnv) : Node → Bool
  | .stmts l => paramOnlyList env l
  | .inf _ l r => paramOnly env l && paramOnly env r
  | .pre _ r => paramOnly env r
  | .idx _ l i => paramOnly env l && paramOnly env i
  | .ifE c a b => paramOnly env c && paramOnly env a && paramOnly env b
  | .forE c b => paramOnly env c && paramOnly env b
  | .ret v => paramOnly env v
  | .fn _ _ _ _ _ body => paramOnly env body
  | .arr els => paramOnlyList env els
  | .mapLit ks vs => paramOnlyList env ks && paramOnlyList env vs
  | .builtin name ps => paramOnlyList env ps && okUnquote env name (substList env ps)
  | .call fn args => paramOnly env fn && paramOnlyList env args
  | .macroLit _ body => paramOnly env body
  | .ident _ => true
  | .int _ => true
  | .float _ => true
  | .str _ => true
  | .bool _ => true
  | .post _ _ => true
  | .none => true
  | .ctl _ => true
  | .comment => true
def paramOnlyList (env : MEnv) : List Node → Bool
  | [] => true
  | x :: xs => paramOnly env x && paramOnlyList env xs
end

mutual
/-- the program contains no call whose callee names a macro of the store -/
def noCalls (store : Store) : Node → Bool
  | .stmts l => noCallsList store l
  | .inf _ l r => noCalls store l && noCalls store r
  | .pre _ r => noCalls store r
  | .idx _ l i => noCalls store l && noCalls store i
  | .ifE c a b => noCalls store c && noCalls store a && noCalls store b
  | .forE c b => noCalls store c && noCalls store b
  | .ret v => noCalls store v
  | .fn _ _ _ _ _ body => noCalls store body
  | .arr els => noCallsList store els
  | .mapLit ks vs => noCallsList store ks && noCallsList store vs
  | .builtin _ ps => noCallsList store ps
  | .call fn args => noCalls store fn && noCallsList store args && (isMacroCall store fn).isNone
  | .macroLit _ body => noCalls store body
  | .ident _ => true
  | .int _ => true
  | .float _ => true
  | .str _ => true
  | .bool _ => true
  | .post _ _ => true
  | .none => true
  | .ctl _ => true
  | .comment => true
def noCallsList (store : Store) : List Node → Bool
  | [] => true
  | x :: xs => noCalls store x && noCallsList store xs
end

/-! ### Except plumbing -/

@[simp] theorem ok_bind {α β : Type} (a : α) (f : α → X β) : (Except.ok a >>= f) = f a := rfl
@[simp] theorem pure_bind' {α β : Type} (a : α) (f : α → X β) : ((pure a : X α) >>= f) = f a := rfl
@[simp] theorem pure_eq_ok {α : Type} (a : α) : (pure a : X α) = .ok a := rfl

/-! ### the unquote callback on a rebuilt node -/

theorem unquoteCb_builtin (lim : Limits) (store : Store) (env : MEnv) (name : String) (ps : List Node)
    (h : okUnquote env name ps = true) :
    unquoteCb lim store env (.builtin name ps) = .ok (substUnquote env name ps) := by
  unfold okUnquote at h
  unfold substUnquote
  by_cases hn : name = "UNQUOTE"
  · subst hn
    simp only [if_true] at h ⊢
    match ps, h with
    | [], _ => rfl
    | [.ident p], h =>
      simp only [Bool.and_eq_true, bne_iff_ne, ne_eq] at h
      obtain ⟨⟨h1, h2⟩, h3⟩ := h
      cases hl : lookupArg env p with
      | none => simp [hl] at h3
      | some a =>
        simp only [unquoteCb, evalUnquoteArg, hl, Option.getD]
        have : (p == "info" || p == "self") = false := by simp [h1, h2]
        simp [this, convertObjectToASTNode]
    | [.int _], h => simp at h
    | [.float _], h => simp at h
    | [.str _], h => simp at h
    | [.bool _], h => simp at h
    | [.pre ..], h => simp at h
    | [.post ..], h => simp at h
    | [.inf ..], h => simp at h
    | [.stmts _], h => simp at h
    | [.none], h => simp at h
    | [.ifE ..], h => simp at h
    | [.forE ..], h => simp at h
    | [.ctl _], h => simp at h
    | [.ret _], h => simp at h
    | [.builtin ..], h => simp at h
    | [.fn ..], h => simp at h
    | [.call ..], h => simp at h
    | [.arr _], h => simp at h
    | [.mapLit ..], h => simp at h
    | [.idx ..], h => simp at h
    | [.comment], h => simp at h
    | [.macroLit ..], h => simp at h
    | _ :: _ :: _, _ => simp [unquoteCb]
  · simp only [hn, if_false]
    unfold unquoteCb
    split
    · rename_i heq
      injection heq with h1 _
      exact absurd h1 hn
    · rfl

/-- the unquote callback leaves every node that is not a builtin call alone -/
theorem unquoteCb_other (lim : Limits) (store : Store) (env : MEnv) (n : Node)
    (h : ∀ name ps, n ≠ .builtin name ps) : unquoteCb lim store env n = .ok n := by
  unfold unquoteCb
  split
  · rename_i e
    exact absurd rfl (h _ _)
  · rfl

/-! ### the two equations of `modify` with a side condition -/

theorem modify_ifE (f : Node → X Node) (c a b : Node) (h : b ≠ .none) :
    modify f (.ifE c a b) = (do let c' ← modify f c; let a' ← modify f a; let b' ← modify f b; f (.ifE c' a' b')) := by
  rw [modify]
  intro hb; exact h hb

theorem modify_ret (f : Node → X Node) (v : Node) (h : v ≠ .none) :
    modify f (.ret v) = (do f (.ret (← modify f v))) := by
  rw [modify]
  intro hb; exact h hb

/-! ### `evalUnquoteCalls` is `subst` on templates whose unquotes name parameters -/

mutual
theorem modify_unquote (lim : Limits) (store : Store) (env : MEnv) :
    ∀ (t : Node), paramOnly env t = true → modify (unquoteCb lim store env) t = .ok (subst env t)
  | .stmts l, h => by
    simp only [paramOnly] at h
    simp only [modify, subst, modifyList_unquote lim store env l h, ok_bind]
    exact unquoteCb_other _ _ _ _ (by intros; simp)
  | .inf op l r, h => by
    simp only [paramOnly, Bool.and_eq_true] at h
    simp only [modify, subst, modify_unquote lim store env l h.1, modify_unquote lim store env r h.2, ok_bind]
    exact unquoteCb_other _ _ _ _ (by intros; simp)
  | .pre op r, h => by
    simp only [paramOnly] at h
    simp only [modify, subst, modify_unquote lim store env r h, ok_bind]
    exact unquoteCb_other _ _ _ _ (by intros; simp)
  | .idx tok l i, h => by
    simp only [paramOnly, Bool.and_eq_true] at h
    simp only [modify, subst, modify_unquote lim store env l h.1, modify_unquote lim store env i h.2, ok_bind]
    exact unquoteCb_other _ _ _ _ (by intros; simp)
  | .ifE c a b, h => by
    simp only [paramOnly, Bool.and_eq_true] at h
    have hc := modify_unquote lim store env c h.1.1
    have ha := modify_unquote lim store env a h.1.2
    have hb := modify_unquote lim store env b h.2
    by_cases hn : b = .none
    · subst hn
      simp only [modify, subst, hc, ha, ok_bind]
      exact unquoteCb_other _ _ _ _ (by intros; simp)
    · rw [modify_ifE _ _ _ _ hn]
      simp only [hc, ha, hb, ok_bind, subst]
      exact unquoteCb_other _ _ _ _ (by intros; simp)
  | .forE c b, h => by
    simp only [paramOnly, Bool.and_eq_true] at h
    simp only [modify, subst, modify_unquote lim store env c h.1, modify_unquote lim store env b h.2, ok_bind]
    exact unquoteCb_other _ _ _ _ (by intros; simp)
  | .ret v, h => by
    simp only [paramOnly] at h
    have hv := modify_unquote lim store env v h
    by_cases hn : v = .none
    · subst hn
      simp only [modify, subst]
      exact unquoteCb_other _ _ _ _ (by intros; simp)
    · rw [modify_ret _ _ hn]
      simp only [hv, ok_bind, subst]
      exact unquoteCb_other _ _ _ _ (by intros; simp)
  | .fn name ps variadic lambda key body, h => by
    simp only [paramOnly] at h
    simp only [modify, subst, modify_unquote lim store env body h, ok_bind]
    exact unquoteCb_other _ _ _ _ (by intros; simp)
  | .arr els, h => by
    simp only [paramOnly] at h
    simp only [modify, subst, modifyList_unquote lim store env els h, ok_bind]
    exact unquoteCb_other _ _ _ _ (by intros; simp)
  | .mapLit ks vs, h => by
    simp only [paramOnly, Bool.and_eq_true] at h
    simp only [modify, subst, modifyList_unquote lim store env ks h.1, modifyList_unquote lim store env vs h.2, ok_bind]
    exact unquoteCb_other _ _ _ _ (by intros; simp)
  | .builtin name ps, h => by
    simp only [paramOnly, Bool.and_eq_true] at h
    simp only [modify, subst, modifyList_unquote lim store env ps h.1, ok_bind]
    exact unquoteCb_builtin _ _ _ _ _ h.2
  | .call fn args, h => by
    simp only [paramOnly, Bool.and_eq_true] at h
    simp only [modify, subst, modify_unquote lim store env fn h.1, modifyList_unquote lim store env args h.2, ok_bind]
    exact unquoteCb_other _ _ _ _ (by intros; simp)
  | .macroLit ps body, h => by
    simp only [paramOnly] at h
    simp only [modify, subst, modify_unquote lim store env body h, ok_bind]
    exact unquoteCb_other _ _ _ _ (by intros; simp)
  | .ident _, _ => by simp only [modify, subst]; exact unquoteCb_other _ _ _ _ (by intros; simp)
  | .int _, _ => by simp only [modify, subst]; exact unquoteCb_other _ _ _ _ (by intros; simp)
  | .float _, _ => by simp only [modify, subst]; exact unquoteCb_other _ _ _ _ (by intros; simp)
  | .str _, _ => by simp only [modify, subst]; exact unquoteCb_other _ _ _ _ (by intros; simp)
  | .bool _, _ => by simp only [modify, subst]; exact unquoteCb_other _ _ _ _ (by intros; simp)
  | .post _ _, _ => by simp only [modify, subst]; exact unquoteCb_other _ _ _ _ (by intros; simp)
  | .none, _ => by simp only [modify, subst]; exact unquoteCb_other _ _ _ _ (by intros; simp)
  | .ctl _, _ => by simp only [modify, subst]; exact unquoteCb_other _ _ _ _ (by intros; simp)
  | .comment, _ => by simp only [modify, subst]; exact unquoteCb_other _ _ _ _ (by intros; simp)
theorem modifyList_unquote (lim : Limits) (store : Store) (env : MEnv) :
    ∀ (l : List Node), paramOnlyList env l = true → modifyList (unquoteCb lim store env) l = .ok (substList env l)
  | [], _ => by simp only [modifyList, substList]; rfl
  | x :: xs, h => by
    simp only [paramOnlyList, Bool.and_eq_true] at h
    simp only [modifyList, substList, modify_unquote lim store env x h.1, modifyList_unquote lim store env xs h.2, ok_bind]
    rfl
end

/-! ### the expansion callback -/

theorem expandCb_other (lim : Limits) (store : Store) (n : Node)
    (h : ∀ fn args, n ≠ .call fn args) : expandCb lim store n = .ok n := by
  unfold expandCb
  split
  · exact absurd rfl (h _ _)
  · rfl

theorem expandCb_notMacro (lim : Limits) (store : Store) (fn : Node) (args : List Node)
    (h : isMacroCall store fn = none) : expandCb lim store (.call fn args) = .ok (.call fn args) := by
  simp only [expandCb, h]
  rfl

/-! ### a program without macro calls is left as it is -/

mutual
theorem modify_noCalls (lim : Limits) (store : Store) :
    ∀ (t : Node), noCalls store t = true → modify (expandCb lim store) t = .ok t
  | .stmts l, h => by
    simp only [noCalls] at h
    simp only [modify, modifyList_noCalls lim store l h, ok_bind]
    exact expandCb_other _ _ _ (by intros; simp)
  | .inf op l r, h => by
    simp only [noCalls, Bool.and_eq_true] at h
    simp only [modify, modify_noCalls lim store l h.1, modify_noCalls lim store r h.2, ok_bind]
    exact expandCb_other _ _ _ (by intros; simp)
  | .pre op r, h => by
    simp only [noCalls] at h
    simp only [modify, modify_noCalls lim store r h, ok_bind]
    exact expandCb_other _ _ _ (by intros; simp)
  | .idx tok l i, h => by
    simp only [noCalls, Bool.and_eq_true] at h
    simp only [modify, modify_noCalls lim store l h.1, modify_noCalls lim store i h.2, ok_bind]
    exact expandCb_other _ _ _ (by intros; simp)
  | .ifE c a b, h => by
    simp only [noCalls, Bool.and_eq_true] at h
    have hc := modify_noCalls lim store c h.1.1
    have ha := modify_noCalls lim store a h.1.2
    have hb := modify_noCalls lim store b h.2
    by_cases hn : b = .none
    · subst hn
      simp only [modify, hc, ha, ok_bind]
      exact expandCb_other _ _ _ (by intros; simp)
    · rw [modify_ifE _ _ _ _ hn]
      simp only [hc, ha, hb, ok_bind]
      exact expandCb_other _ _ _ (by intros; simp)
  | .forE c b, h => by
    simp only [noCalls, Bool.and_eq_true] at h
    simp only [modify, modify_noCalls lim store c h.1, modify_noCalls lim store b h.2, ok_bind]
    exact expandCb_other _ _ _ (by intros; simp)
  | .ret v, h => by
    simp only [noCalls] at h
    have hv := modify_noCalls lim store v h
    by_cases hn : v = .none
    · subst hn
      simp only [modify]
      exact expandCb_other _ _ _ (by intros; simp)
    · rw [modify_ret _ _ hn]
      simp only [hv, ok_bind]
      exact expandCb_other _ _ _ (by intros; simp)
  | .fn name ps variadic lambda key body, h => by
    simp only [noCalls] at h
    simp only [modify, modify_noCalls lim store body h, ok_bind]
    exact expandCb_other _ _ _ (by intros; simp)
  | .arr els, h => by
    simp only [noCalls] at h
    simp only [modify, modifyList_noCalls lim store els h, ok_bind]
    exact expandCb_other _ _ _ (by intros; simp)
  | .mapLit ks vs, h => by
    simp only [noCalls, Bool.and_eq_true] at h
    simp only [modify, modifyList_noCalls lim store ks h.1, modifyList_noCalls lim store vs h.2, ok_bind]
    exact expandCb_other _ _ _ (by intros; simp)
  | .builtin name ps, h => by
    simp only [noCalls] at h
    simp only [modify, modifyList_noCalls lim store ps h, ok_bind]
    exact expandCb_other _ _ _ (by intros; simp)
  | .call fn args, h => by
    simp only [noCalls, Bool.and_eq_true, Option.isNone_iff_eq_none] at h
    simp only [modify, modify_noCalls lim store fn h.1.1, modifyList_noCalls lim store args h.1.2, ok_bind]
    exact expandCb_notMacro _ _ _ _ h.2
  | .macroLit ps body, h => by
    simp only [noCalls] at h
    simp only [modify, modify_noCalls lim store body h, ok_bind]
    exact expandCb_other _ _ _ (by intros; simp)
  | .ident _, _ => by simp only [modify]; exact expandCb_other _ _ _ (by intros; simp)
  | .int _, _ => by simp only [modify]; exact expandCb_other _ _ _ (by intros; simp)
  | .float _, _ => by simp only [modify]; exact expandCb_other _ _ _ (by intros; simp)
  | .str _, _ => by simp only [modify]; exact expandCb_other _ _ _ (by intros; simp)
  | .bool _, _ => by simp only [modify]; exact expandCb_other _ _ _ (by intros; simp)
  | .post _ _, _ => by simp only [modify]; exact expandCb_other _ _ _ (by intros; simp)
  | .none, _ => by simp only [modify]; exact expandCb_other _ _ _ (by intros; simp)
  | .ctl _, _ => by simp only [modify]; exact expandCb_other _ _ _ (by intros; simp)
  | .comment, _ => by simp only [modify]; exact expandCb_other _ _ _ (by intros; simp)
theorem modifyList_noCalls (lim : Limits) (store : Store) :
    ∀ (l : List Node), noCallsList store l = true → modifyList (expandCb lim store) l = .ok l
  | [], _ => by simp only [modifyList]; rfl
  | x :: xs, h => by
    simp only [noCallsList, Bool.and_eq_true] at h
    simp only [modifyList, modify_noCalls lim store x h.1, modifyList_noCalls lim store xs h.2, ok_bind]
    rfl
end

/-! ### lengths and environments -/

theorem modifyList_length (f : Node → X Node) : ∀ (l l' : List Node), modifyList f l = .ok l' → l'.length = l.length
  | [], l', h => by
    simp only [modifyList] at h
    cases h; rfl
  | x :: xs, l', h => by
    simp only [modifyList] at h
    cases hx : modify f x with
    | error e => rw [hx] at h; cases h
    | ok x' =>
      rw [hx] at h
      simp only [ok_bind] at h
      cases hxs : modifyList f xs with
      | error e => rw [hxs] at h; cases h
      | ok xs' =>
        rw [hxs] at h
        simp only [ok_bind] at h
        cases h
        simp [modifyList_length f xs xs' hxs]

theorem lookupArg_setArg (env : MEnv) (q p : String) (a : Node) :
    lookupArg (setArg env q a) p = if q == p then some a else lookupArg env p := by
  induction env with
  | nil => simp [setArg, lookupArg]
  | cons kv rest ih =>
    obtain ⟨k, w⟩ := kv
    by_cases hk : k = q
    · subst hk
      by_cases hp : k = p
      · subst hp; simp [setArg, lookupArg]
      · simp [setArg, lookupArg, hp]
    · by_cases hp : k = p
      · subst hp
        have hq : ¬ q = k := fun h => hk h.symm
        simp [setArg, lookupArg, hk, hq]
      · simp [setArg, lookupArg, hk, hp, ih]

/-- every parameter is bound by `extendMacroEnv` once the arities agree -/
theorem bound_extend (p : String) : ∀ (ps : List String) (as : List Node) (env : MEnv), as.length = ps.length →
    (p ∈ ps ∨ (lookupArg env p).isSome = true) → (lookupArg (extendMacroEnv ps as env) p).isSome = true
  | [], [], env, _, h => by
    simp only [extendMacroEnv]
    cases h with
    | inl h => cases h
    | inr h => exact h
  | [], _ :: _, _, hl, _ => by simp at hl
  | _ :: _, [], _, hl, _ => by simp at hl
  | q :: ps, a :: as, env, hl, h => by
    simp only [extendMacroEnv]
    apply bound_extend p ps as (setArg env q a) (by simpa using hl)
    rw [lookupArg_setArg]
    cases h with
    | inl h =>
      cases h with
      | head => right; simp
      | tail _ h => left; exact h
    | inr h =>
      right
      by_cases hq : (q == p) = true
      · simp [hq]
      · simp [hq, h]

end Grol.Macro

import GrolProofs.EvalSafeMain
/-
C07 — no program can crash the evaluator.

Statement (about the evaluator model `Grol.E`; every Go panic site of the modelled code is an
explicit `Stop.goPanic` outcome: `getFrame` on a frame that does not exist ("nil environment"),
`Reference.ObjValue` on a self reference, the cycle guard of `object.Value`): evaluation of any
syntax tree, with any fuel, from any state a session can reach never ends in `goPanic`.

The proof is an inductive invariant `Inv` of the evaluator state (lean/GrolProofs/EvalInv.lean):
* `st.cur` and `st.root` are frames of the heap;
* for every frame `i`: `outer` points to a frame of strictly smaller index and strictly smaller
  depth; the frame's function and every value in its store are well scoped (`okObj`: every frame
  index occurring anywhere in the value — `FuncVal.env`, `.ref e _`, also nested in arrays, maps
  and return wrappers — is below `frames.size`); every reference stored at the top level of the
  store points to a frame of strictly smaller index and strictly smaller depth;
* every cached result is well scoped.
`Inv` holds initially, is preserved by every evaluation (normal or abnormal end) and by the
recover/Reset of `runInput`; the heap only grows.  Under `Inv` reference chains strictly descend,
so no self reference and no cycle exists and every frame index that is dereferenced is in range.
-/
namespace Grol.E

/-- a reachable state: what `initState` and any sequence of inputs produce -/
def Reachable (st : St) : Prop :=
  ∃ (cfg : Cfg) (progs : List Node), st = progs.foldl (fun s p => (runInput s p).1) (initState cfg)

/-- the full property -/
def C07.Statement : Prop :=
  ∀ (fuel : Nat) (prog : Node) (st : St), Reachable st → isGoPanic (outcome (eval fuel prog) st) = false

/-- the invariant holds in the initial state -/
theorem C07.inv_init (cfg : Cfg) : Inv (initState cfg) := by
  unfold initState
  constructor
  · simp
  · simp
  · intro i f hf
    simp only at hf
    have hi : i = 0 := by
      have := lt_of_frame hf
      simp at this
      exact this
    subst hi
    simp at hf
    subst hf
    constructor
    · intro o ho; cases ho
    · intro fn hfn; cases hfn
    · intro k v hm
      simp only [List.mem_cons, Prod.mk.injEq, List.not_mem_nil, or_false] at hm
      rcases hm with h | h | h | h | h | h <;> (obtain ⟨_, rfl⟩ := h; exact ⟨by simp [okObj], fun _ _ h => by cases h⟩)
  · intro c hc
    cases hc

/-- MAIN THEOREM: from a state satisfying the invariant no evaluation ends in a Go panic -/
theorem C07.holds : ∀ (fuel : Nat) (prog : Node) (st : St), Inv st →
    isGoPanic (outcome (eval fuel prog) st) = false :=
  fun fuel prog st hI => ((spec_all fuel).eval prog st hI).no_panic

/-- the invariant holds again after any evaluation, whether it ended normally or not -/
theorem C07.inv_preserved : ∀ (fuel : Nat) (prog : Node) (st : St), Inv st →
    Inv (stateAfter (eval fuel prog) st) :=
  fun fuel prog st hI => ((spec_all fuel).eval prog st hI).inv_after

/-- the heap of frames only grows -/
theorem C07.frames_grow (fuel : Nat) (prog : Node) (st : St) (hI : Inv st) :
    st.frames.size ≤ (stateAfter (eval fuel prog) st).frames.size := by
  have h := (spec_all fuel).eval prog st hI
  unfold Post at h
  rw [stateAfter_eq]
  split at h
  · next h1 => simp only [h1]; exact h.2.1
  · exact h.elim
  · next h1 => simp only [h1]; exact h.2

/-- a normal result is well scoped in the final state -/
theorem C07.result_scoped (fuel : Nat) (prog : Node) (st : St) (hI : Inv st) (v : Obj)
    (h : outcome (eval fuel prog) st = .ok v) :
    okObj (stateAfter (eval fuel prog) st).frames.size v = true := by
  have hp := (spec_all fuel).eval prog st hI
  unfold Post at hp
  rw [outcome_eq] at h
  rw [stateAfter_eq]
  split at hp
  · next a st' h1 => rw [h1] at h ⊢; cases h; exact hp.2.2
  · exact hp.elim
  · next h1 => rw [h1] at h; cases h

/-- one REPL input (evaluation + recover/Reset) preserves the invariant -/
theorem C07.inv_runInput (st : St) (prog : Node) (hI : Inv st) : Inv (runInput st prog).1 := by
  unfold runInput
  split
  · exact hI
  · have hI0 : Inv { st with outs := [[]], steps := 0 } := hI.update rfl hI.cur rfl hI.cache
    have hp := (spec_all defaultFuel).eval prog _ hI0
    unfold Post runM at hp
    dsimp only
    generalize ((eval defaultFuel prog).run { st with outs := [[]], steps := 0 } |>.run) = p at hp
    obtain ⟨r, st1⟩ := p
    dsimp only at hp ⊢
    split
    · exact hp.1
    · exact hp.elim
    · exact (hp.1).update rfl hp.1.root rfl hp.1.cache
    · exact hp.1
    · exact hp.1

/-- every reachable state satisfies the invariant -/
theorem C07.reachable_inv (st : St) (h : Reachable st) : Inv st := by
  obtain ⟨cfg, progs, rfl⟩ := h
  have : ∀ (progs : List Node) (s : St), Inv s → Inv (progs.foldl (fun s p => (runInput s p).1) s) := by
    intro progs
    induction progs with
    | nil => intro s hs; exact hs
    | cons p ps ih => intro s hs; exact ih _ (C07.inv_runInput s p hs)
  exact this progs _ (C07.inv_init cfg)

/-- C07 in full: no evaluation from a reachable state ends in a Go panic -/
theorem C07.statement : C07.Statement :=
  fun fuel prog st h => C07.holds fuel prog st (C07.reachable_inv st h)

/-- integer arithmetic never panics: `/` `%` by zero and negative shift counts are errors -/
theorem C07.integer_ops_no_panic (op : String) (l r : Int64) (st : St) :
    isGoPanic (outcome (evalIntegerInfix op l r) st) = false :=
  evalIntegerInfix_no_panic op l r st

/-- the witnesses of the repaired defects evaluate to error objects in the model -/
example : outcome (evalIntegerInfix "SLASH" 1 0) (initState {}) = .ok (err "division by zero") := rfl
example : outcome (evalIntegerInfix "LEFTSHIFT" 1 (-1)) (initState {}) = .ok (err "negative shift count") := rfl

/-- non-vacuity: the initial state is reachable -/
example : Reachable (initState {}) := ⟨{}, [], rfl⟩

end Grol.E

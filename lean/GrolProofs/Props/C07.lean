import GrolProofs.EvalOps
/-
C07 — no program can crash the evaluator.

Full statement (about the evaluator model `Grol.E`, every Go panic site of the modelled code is
an explicit `Stop.goPanic` outcome): evaluation of any program from any reachable state never
ends in `goPanic`.  `C07.Statement` below states it; the theorems proved so far cover the
operator layer; the tree-walker part is tied to the implementation by the `eval`
correspondence suite (ill-typed and boundary programs, four configurations).
-/
namespace Grol.E

/-- a reachable state: what `initState` and any sequence of inputs produce (frame indices in
range, references pointing outward only) — to be refined into an inductive invariant -/
def Reachable (st : St) : Prop :=
  ∃ (cfg : Cfg) (progs : List Node), st = progs.foldl (fun s p => (runInput s p).1) (initState cfg)

/-- the full property -/
def C07.Statement : Prop :=
  ∀ (fuel : Nat) (prog : Node) (st : St), Reachable st → isGoPanic (outcome (eval fuel prog) st) = false

/-- integer arithmetic never panics: `/` `%` by zero and negative shift counts are errors -/
theorem C07.integer_ops_no_panic (op : String) (l r : Int64) (st : St) :
    isGoPanic (outcome (evalIntegerInfix op l r) st) = false :=
  evalIntegerInfix_no_panic op l r st

/-- the witnesses of the repaired defects evaluate to error objects in the model -/
example : outcome (evalIntegerInfix "SLASH" 1 0) (initState {}) = .ok (err "division by zero") := rfl
example : outcome (evalIntegerInfix "LEFTSHIFT" 1 (-1)) (initState {}) = .ok (err "negative shift count") := rfl

end Grol.E

import GrolProofs.MemoryLemmas
import Grol.Generated.LoopFacts
import Grol.BoundedSuite
/-
C09 — execution is bounded: the arithmetic of the allocation guard, and the depth counter.

Theorems about the models `Grol.Memory` (object/memory.go SizeOk / MustBeOk / MulLen and the size
computations of `*` on strings and arrays, `+` on arrays and maps, `:` ranges) and `Grol.Depth`
(eval_api.go Eval / Reset), tied to the Go code by the `memory` suite.  `free1`, `free2` (what
FreeMemory() returns before and after the forced GC) are universally quantified.

Wall-clock time, peak RSS and Go stack use are not part of these theorems (measured elsewhere).
-/
namespace Grol.Memory

/-- **C09 guard_sound, the guard itself**: a pass means at most 256 objects, or a non-negative budget
that the true (unbounded) byte size is below — the multiplication by ObjectSize cannot wrap. -/
theorem C09.sizeOk_sound (free : Int) (n : I64) (h : sizeOk free n = true) :
    n.toInt ≤ 256 ∨ (0 ≤ free ∧ n.toInt * 16 < free) := Grol.Memory.sizeOk_sound free n h

/-- without the overflow test (the code before the fix) that is false: 2^60 objects pass with 1 byte free -/
theorem C09.sizeOk_unchecked_unsound :
    ¬ ∀ (free : Int) (n : I64), sizeOkUnchecked free n = true → n.toInt ≤ 256 ∨ (0 ≤ free ∧ n.toInt * 16 < free) := by
  intro h
  have := h 1 (1152921504606846976#64) (by decide)
  revert this; decide

/-- and the wrapped product `len * count` (the request before the fix) asks the guard about 0 objects for
`[1,2,3,4] * (1<<62)`, which it grants whatever the budget -/
theorem C09.unchecked_product_passes (free : Int) :
    sizeOk free (repeatSizeUnchecked 4 (4611686018427387904#64)) = true := by
  have : repeatSizeUnchecked 4 (4611686018427387904#64) = 0#64 := by decide
  rw [this]; simp [sizeOk]

/-- **C09 guard_sound, `array * int`**: a result is produced only when the count is non-negative, the
result has exactly the true number `len * count` of elements, and that number fits the budget. -/
theorem C09.arrRepeat_sound (free1 free2 : Int) (len : Nat) (hlen : len < 2 ^ 63) (r : I64) (k : Nat)
    (h : arrRepeat free1 free2 len r = .ok k) :
    0 ≤ r.toInt ∧ (k : Int) = (len : Int) * r.toInt ∧ Fits free1 free2 ((len : Int) * r.toInt) := by
  unfold arrRepeat at h
  by_cases hr : r.toInt < 0
  · rw [if_pos hr] at h; cases h
  · rw [if_neg hr] at h
    cases hm : mulLen (BitVec.ofNat 64 len) r with
    | none => rw [hm] at h; cases h
    | some n =>
      rw [hm] at h
      simp only at h
      obtain ⟨_, _, _, hn, hnat⟩ := mulLen_spec _ _ _ hm
      rw [toInt_ofNat_of_lt len hlen] at hn hnat
      by_cases hg : mustBeOk free1 free2 n = true
      · rw [if_pos hg] at h
        injection h with h
        refine ⟨by omega, by rw [← h, hnat], ?_⟩
        rw [← hn]; exact mustBeOk_sound _ _ _ hg
      · rw [if_neg hg] at h; cases h

/-- **`string * int`**: the result has exactly `len * count` bytes, and that many bytes, counted in
16-byte objects as the code does, fit the budget. -/
theorem C09.strRepeat_sound (free1 free2 : Int) (len : Nat) (hlen : len < 2 ^ 63) (r : I64) (k : Nat)
    (h : strRepeat free1 free2 len r = .ok k) :
    0 ≤ r.toInt ∧ (k : Int) = (len : Int) * r.toInt ∧ Fits free1 free2 ((len : Int) * r.toInt / 16) := by
  unfold strRepeat at h
  by_cases hr : r.toInt < 0
  · rw [if_pos hr] at h; cases h
  · rw [if_neg hr] at h
    cases hm : mulLen (BitVec.ofNat 64 len) r with
    | none => rw [hm] at h; cases h
    | some n =>
      rw [hm] at h
      simp only at h
      obtain ⟨_, _, hn0, hn, hnat⟩ := mulLen_spec _ _ _ hm
      rw [toInt_ofNat_of_lt len hlen] at hn hnat
      by_cases hg : mustBeOk free1 free2 (n.sdiv 16#64) = true
      · rw [if_pos hg] at h
        injection h with h
        refine ⟨by omega, by rw [← h, hnat], ?_⟩
        have := mustBeOk_sound _ _ _ hg
        rw [toInt_sdiv16 n hn0, hn] at this
        exact this
      · rw [if_neg hg] at h; cases h

/-- **`array + array`** (lengths of existing arrays: below 2^62) -/
theorem C09.arrConcat_sound (free1 free2 : Int) (la lb : Nat) (ha : la < 2 ^ 62) (hb : lb < 2 ^ 62) (k : Nat)
    (h : arrConcat free1 free2 la lb = .ok k) :
    k = la + lb ∧ Fits free1 free2 ((la : Int) + lb) := by
  unfold arrConcat at h
  simp only at h
  have hsum : (BitVec.ofNat 64 la + BitVec.ofNat 64 lb : I64) = BitVec.ofNat 64 (la + lb) := by
    apply BitVec.eq_of_toNat_eq; simp [BitVec.toNat_add, BitVec.toNat_ofNat]
  rw [hsum] at h
  by_cases hg : mustBeOk free1 free2 (BitVec.ofNat 64 (la + lb)) = true
  · rw [if_pos hg] at h
    injection h with h
    have := mustBeOk_sound _ _ _ hg
    rw [toInt_ofNat_of_lt (la + lb) (by omega)] at this
    rw [toNat_ofNat_of_lt (la + lb) (by omega)] at h
    exact ⟨h.symm, by simpa using this⟩
  · rw [if_neg hg] at h; cases h

/-- **`string + string`** (lengths of existing strings: below 2^62): the result has exactly `la + lb` bytes and
that many bytes, counted in 16-byte objects, fit the budget -/
theorem C09.strConcat_sound (free1 free2 : Int) (la lb : Nat) (ha : la < 2 ^ 62) (hb : lb < 2 ^ 62) (k : Nat)
    (h : strConcat free1 free2 la lb = .ok k) :
    k = la + lb ∧ Fits free1 free2 (((la : Int) + lb) / 16) := by
  unfold strConcat at h
  simp only at h
  have hsum : (BitVec.ofNat 64 la + BitVec.ofNat 64 lb : I64) = BitVec.ofNat 64 (la + lb) := by
    apply BitVec.eq_of_toNat_eq; simp [BitVec.toNat_add, BitVec.toNat_ofNat]
  rw [hsum] at h
  have hint : (BitVec.ofNat 64 (la + lb) : I64).toInt = ((la + lb : Nat) : Int) := toInt_ofNat_of_lt (la + lb) (by omega)
  by_cases hg : mustBeOk free1 free2 ((BitVec.ofNat 64 (la + lb) : I64).sdiv 16#64) = true
  · rw [if_pos hg] at h
    injection h with h
    have := mustBeOk_sound _ _ _ hg
    rw [toInt_sdiv16 _ (by rw [hint]; omega), hint] at this
    rw [toNat_ofNat_of_lt (la + lb) (by omega)] at h
    exact ⟨h.symm, by simpa using this⟩
  · rw [if_neg hg] at h; cases h

/-- **`map + map`**: room for `2 * (la + lb)` objects (key and value) is checked -/
theorem C09.mapAppend_sound (free1 free2 : Int) (la lb : Nat) (ha : la < 2 ^ 61) (hb : lb < 2 ^ 61) (k : Nat)
    (h : mapAppend free1 free2 la lb = .ok k) :
    k = la + lb ∧ Fits free1 free2 (2 * ((la : Int) + lb)) := by
  unfold mapAppend at h
  simp only at h
  have hsum : (BitVec.ofNat 64 la + BitVec.ofNat 64 lb : I64) = BitVec.ofNat 64 (la + lb) := by
    apply BitVec.eq_of_toNat_eq; simp [BitVec.toNat_add, BitVec.toNat_ofNat]
  have hdbl : (2#64 * BitVec.ofNat 64 (la + lb) : I64) = BitVec.ofNat 64 (2 * (la + lb)) := by
    apply BitVec.eq_of_toNat_eq; simp [BitVec.toNat_mul, BitVec.toNat_ofNat]
  rw [hsum, hdbl] at h
  by_cases hg : mustBeOk free1 free2 (BitVec.ofNat 64 (2 * (la + lb))) = true
  · rw [if_pos hg] at h
    injection h with h
    have := mustBeOk_sound _ _ _ hg
    rw [toInt_ofNat_of_lt (2 * (la + lb)) (by omega)] at this
    rw [toNat_ofNat_of_lt (la + lb) (by omega)] at h
    refine ⟨h.symm, ?_⟩
    have e : ((2 * (la + lb) : Nat) : Int) = 2 * ((la : Int) + lb) := by norm_cast
    rw [e] at this; exact this
  · rw [if_neg hg] at h; cases h

/-- **`left : right`**: the result has `right - left` elements (true difference; none when left ≥ right),
and the reserved capacity — never less than that — fits the budget. -/
theorem C09.range_sound (free1 free2 : Int) (l r : I64) (k : Nat) (h : range free1 free2 l r = .ok k) :
    (k : Int) = max 0 (r.toInt - l.toInt) ∧ ∃ cap : Int, (k : Int) ≤ cap ∧ Fits free1 free2 cap := by
  unfold range at h
  simp only at h
  by_cases hneg : (r - l).toInt < 0
  · rw [if_pos hneg] at h; cases h
  · rw [if_neg hneg] at h
    by_cases hg : mustBeOk free1 free2 (r - l) = true
    · rw [if_pos hg] at h
      injection h with h
      have hfit := mustBeOk_sound _ _ _ hg
      obtain ⟨hlg, hlglt⟩ := toNat_of_nonneg (r - l) (by omega)
      have hsub : (r - l).toNat = (2 ^ 64 - l.toNat + r.toNat) % 2 ^ 64 := by simp [BitVec.toNat_sub]
      by_cases hlt : l.slt r = true
      · rw [if_pos hlt] at h
        rw [BitVec.slt_iff_toInt_lt] at hlt
        have hk : (k : Int) = r.toInt - l.toInt := by
          rw [← h]
          rcases toInt_cases l with hl | hl <;> rcases toInt_cases r with hr | hr <;>
            (have := l.isLt; have := r.isLt; omega)
        refine ⟨by rw [hk]; omega, (r - l).toInt, by rw [hlg, ← h]; omega, hfit⟩
      · rw [if_neg hlt] at h
        have hge : ¬ l.toInt < r.toInt := by rw [← BitVec.slt_iff_toInt_lt]; exact hlt
        refine ⟨by rw [← h]; omega, (r - l).toInt, by rw [← h]; omega, hfit⟩
    · rw [if_neg hg] at h; cases h

/-! non-vacuity, and the former witnesses are now refused by an error object -/
example : arrRepeat 1000000 1000000 4 (1000#64) = .ok 4000 := by decide
example : arrRepeat 1000000 1000000 4 (100000#64) = .guard := by decide
example : arrRepeat 1000000 1000000 4 (4611686018427387904#64) = .err := by decide      -- [1,2,3,4] * (1<<62)
example : strRepeat 1000000 1000000 4 (4611686018427387904#64) = .err := by decide      -- "abcd" * (1<<62)
example : range 1000000 1000000 (0#64) (1152921504606846976#64) = .guard := by decide     -- 0:(1<<60)
example : strConcat 1000000 1000000 3000 2000 = .ok 5000 := by decide
example : strConcat 200000000 200000000 134217728 134217728 = .guard := by decide          -- 128 MiB + 128 MiB with 200 MB free
example : range (-1) (-1) (9223372036854775807#64) (BitVec.ofInt 64 (-9223372036854775758)) = .ok 0 := by decide

end Grol.Memory

namespace Grol.Depth

/-- a call that returns normally leaves the counter where it was -/
theorem run_ok_balanced (m : Nat) (c : Calls) : ∀ (d : Nat) tr d', run m d c = (tr, .ok d') → d' = d := by
  induction c with
  | done => intro d tr d' h; simp [run] at h; exact h.2.symm
  | call inner next ih1 ih2 =>
    intro d tr d' h
    unfold run at h
    by_cases hd : d > m
    · rw [if_pos hd] at h; simp at h
    · rw [if_neg hd] at h
      rcases hi : run m (d + 1) inner with ⟨tr1, r1⟩
      rw [hi] at h
      cases r1 with
      | maxDepth x => simp at h
      | ok x =>
        have hx := ih1 (d + 1) tr1 x hi
        subst hx
        simp only at h
        rcases hn : run m (d + 1 - 1) next with ⟨tr2, r2⟩
        rw [hn] at h
        simp only [Prod.mk.injEq] at h
        obtain ⟨_, rfl⟩ := h
        have := ih2 (d + 1 - 1) tr2 d' hn
        omega

/-- **C09 depth invariant**: starting at or below MaxDepth+1, the counter never exceeds MaxDepth+1
(it is a natural number: never negative); a normal return restores it, and the guard fires exactly at
MaxDepth+1 — a recoverable panic, not a Go stack overflow. -/
theorem C09.depth_invariant (m : Nat) (c : Calls) : ∀ (d : Nat), d ≤ m + 1 →
    (∀ x ∈ (run m d c).1, x ≤ m + 1) ∧
    (match (run m d c).2 with | .ok d' => d' = d | .maxDepth d' => d' = m + 1) := by
  induction c with
  | done => intro d _; simp [run]
  | call inner next ih1 ih2 =>
    intro d hd
    unfold run
    by_cases hgt : d > m
    · rw [if_pos hgt]; simp; omega
    · rw [if_neg hgt]
      have h1 := ih1 (d + 1) (by omega)
      rcases hi : run m (d + 1) inner with ⟨tr1, r1⟩
      rw [hi] at h1
      cases r1 with
      | maxDepth x =>
        simp only at h1 ⊢
        refine ⟨?_, h1.2⟩
        intro y hy
        rw [List.mem_cons] at hy
        rcases hy with rfl | hy
        · omega
        · exact h1.1 y hy
      | ok x =>
        simp only at h1 ⊢
        obtain ⟨htr1, rfl⟩ := h1
        have h2 := ih2 (d + 1 - 1) (by omega)
        rcases hn : run m (d + 1 - 1) next with ⟨tr2, r2⟩
        rw [hn] at h2
        simp only at h2 ⊢
        refine ⟨?_, ?_⟩
        · intro y hy
          simp only [List.mem_cons, List.mem_append] at hy
          rcases hy with (rfl | hy) | rfl | hy
          · omega
          · exact htr1 y hy
          · omega
          · exact h2.1 y hy
        · cases r2 with
          | ok z => simp only at h2 ⊢; omega
          | maxDepth z => exact h2.2

/-- **Reset restores depth 0** (whatever the counter was when the panic was recovered), from where the
invariant holds again -/
theorem C09.reset_restores (d : Nat) : reset d = 0 := rfl

/-- n nested evaluations succeed exactly when n ≤ MaxDepth + 1 -/
theorem C09.chain_ok_iff (m n : Nat) : ∀ d, ((run m d (chain n)).2 = .ok d ↔ (n = 0 ∨ d + n ≤ m + 1)) := by
  induction n with
  | zero => intro d; simp [chain, run]
  | succ n ih =>
    intro d
    simp only [chain]
    unfold run
    by_cases hgt : d > m
    · rw [if_pos hgt]; simp; omega
    · rw [if_neg hgt]
      have ih' := ih (d + 1)
      rcases hi : run m (d + 1) (chain n) with ⟨tr1, r1⟩
      rw [hi] at ih'
      cases r1 with
      | maxDepth x =>
        have hfalse : ¬ (n = 0 ∨ d + 1 + n ≤ m + 1) := fun h' => by
          have this : Res.maxDepth x = Res.ok (d + 1) := ih'.2 h'
          cases this
        simp only
        constructor
        · intro h; cases h
        · intro h; exact absurd (by omega) hfalse
      | ok x =>
        have hx := run_ok_balanced m (chain n) (d + 1) tr1 x hi
        subst hx
        have hrhs : n = 0 ∨ d + 1 + n ≤ m + 1 := ih'.1 rfl
        constructor
        · intro _; omega
        · intro _; simp [run]

/-- the depth prediction used by the `bounded` suite's driver is the counter model run on a chain -/
theorem C09.chainOk_spec (m n : Nat) :
    Grol.BoundedSuite.chainOk m n = true ↔ (run m 0 (chain n)).2 = .ok 0 := by
  rw [C09.chain_ok_iff]
  unfold Grol.BoundedSuite.chainOk
  simp only [Bool.or_eq_true, beq_iff_eq, decide_eq_true_eq]
  omega

/-- unbounded recursion (a chain longer than the limit allows) always ends in the recoverable guard -/
theorem C09.unbounded_recursion_guarded (m : Nat) : Grol.BoundedSuite.chainOk m (m + 2) = false := by
  unfold Grol.BoundedSuite.chainOk
  simp

example : (run 3 0 (chain 4)).2 = .ok 0 := by decide
example : (run 3 0 (chain 5)).2 = .maxDepth 4 := by decide
example : (run 3 0 (.call (chain 2) (chain 4))).1 = [1, 2, 3, 2, 1, 0, 1, 2, 3, 4, 3, 2, 1, 0] := by decide

end Grol.Depth

/-! ### the Go-level loops of the evaluator (time part of C09: the deadline is observed)

`evalInternal` tests `s.Context.Err()` on entry.  A Go-level loop therefore observes the deadline once
per iteration when its body evaluates a node; every other loop must be bounded by something that
already exists (a container, a parameter list, the frame chain), by a constant, or by a count that
went through the allocation guard (so that count * 16 bytes fit the memory budget).  The list of
loops is regenerated from the Go sources on every run (`Grol.Generated.LoopFacts`, extractor
harness/cmd/harness/extract_loops.go); the classification below is by hand, and
`C09.loops_classified` breaks when a loop is added, removed, moved to another function or changes
its header.  How long one iteration takes (Go scheduler, GC, cache misses) is not a theorem: the
`bounded` suite measures wall-clock time after the deadline on the real interpreter.

CAVEAT (recorded finding `shared-structure-exponential-traversal`): "bounded by an existing container"
bounds ONE loop by the container's length; the loops of Cmp / Inspect / Hashable / JSON recurse into
the elements, and because values share structure (`a=[a,a]` n times) the unfolded size of a value
is not bounded by the memory it occupies.  Those traversals are exponential in the program length and
never poll the context: a genuine hang, exhibited by the suite's `dag-eq` / `dag-print` families. -/
namespace Grol.Generated.LoopFacts

inductive LoopClass
  /-- each iteration evaluates a node: `evalInternal` polls the context -/
  | polls
  /-- iterates over an existing container, string, argument or parameter list, statement list -/
  | boundedByContainer
  /-- the iteration count went through MulLen / MustBeOk / MakeObjectSlice -/
  | boundedByGuardedAllocation
  /-- at most a compile-time constant number of iterations -/
  | boundedByConstant
  /-- walks the chain of environments (at most the current call depth ≤ MaxDepth + 1 frames) -/
  | boundedByFrames
  deriving DecidableEq, Repr

structure Classified where
  site : String
  cls : LoopClass
  why : String

open LoopClass in
/-- the hand classification, in the order of the generated list -/
def Spec.classifiedLoops : List Classified := [
  ⟨"eval/eval.go | State.applyExtension | range args", boundedByContainer, "the evaluated argument list of one call"⟩,
  ⟨"eval/eval.go | State.evalArrayInfixExpression | range rightVal", boundedByGuardedAllocation,
    "array * count: n = MulLen(len, count) is checked, n = 0 returns before the loop, otherwise count ≤ n and MakeObjectSlice(n) passed the guard"⟩,
  ⟨"eval/eval.go | State.evalExpressions | range exps", polls, "evalInternal(e) per element"⟩,
  ⟨"eval/eval.go | State.evalForExpression | for ; ; ", polls, "evalInternal(fe.Condition) per iteration"⟩,
  ⟨"eval/eval.go | State.evalForInteger | for i := startValue; i < endValue; i++", polls, "evalInternal(newBody) per iteration; an error result (deadline) leaves the loop"⟩,
  ⟨"eval/eval.go | State.evalForList | for ; object.Len(list) > 0; ", polls, "evalInternal(fe.Body) per iteration (Rest(list) costs O(len) per iteration)"⟩,
  ⟨"eval/eval.go | State.evalIntegerInfixExpression | for i := leftVal; i < rightVal; i++", boundedByGuardedAllocation,
    "left:right: MakeObjectSlice(right-left) passed the guard; when the subtraction wraps, left > right and the loop body never runs (range_sound)"⟩,
  ⟨"eval/eval.go | State.evalInternal | range elements", boundedByContainer,
    "array literal: the slice evalExpressions just produced (one entry per element expression of the source, each evaluated — and polled — before); the body is object.Value(el), itself at most 100 reference steps"⟩,
  ⟨"eval/eval.go | State.evalMapLiteral | range node.Order", polls, "s.Eval(keyNode), s.Eval(valueNode)"⟩,
  ⟨"eval/eval.go | State.evalPrintLogError | range node.Parameters", polls, "evalInternal(v) per parameter"⟩,
  ⟨"eval/eval.go | State.evalStatements | range stmts", polls, "evalInternal(statement)"⟩,
  ⟨"eval/eval.go | State.extendFunctionEnv | range params", boundedByContainer, "the parameter list of the called function"⟩,
  ⟨"eval/eval.go | State.extendFunctionEnv | range params[paramIdx+1:]", boundedByContainer, "the later parameters of the called function (is this one shadowed by a later one of the same name? repo fix a353195): quadratic in the parameter count of one function literal"⟩,
  ⟨"eval/eval_api.go | State.SetArgs | range args", boundedByContainer, "host supplied argument vector"⟩,
  ⟨"eval/macro_expension.go | State.DefineMacros | for i := 0; i < len(program.Statements); ", boundedByContainer,
    "each iteration either advances i or removes one statement of the parsed program"⟩,
  ⟨"eval/macro_expension.go | extendMacroEnv | range macro.Parameters", boundedByContainer, "parameter list of the macro"⟩,
  ⟨"eval/macro_expension.go | quoteArgs | range exp.Arguments", boundedByContainer, "argument list of one macro call in the source"⟩,
  ⟨"eval/memo.go | Cache.Get | range args", boundedByContainer, "argument list (at most MaxArgs = 4 entries)"⟩,
  ⟨"eval/memo.go | Cache.Set | range args", boundedByContainer, "argument list"⟩,
  ⟨"eval/stack.go | State.Stack | for e := s.env; e != nil; e = e.StackParent()", boundedByFrames, "one step per stack frame"⟩,
  ⟨"object/interp.go | Unwrap | range objs", boundedByContainer, "existing slice"⟩,
  ⟨"object/interp.go | ValidIdentifier | range []byte(name)", boundedByContainer, "bytes of a name"⟩,
  ⟨"object/interp.go | initialIdentifiersCopy | range extraIdentifiers", boundedByContainer, "the host's table of pre-seeded identifiers"⟩,
  ⟨"object/object.go | BigArray.JSON | range ao.elements", boundedByContainer, "existing array"⟩,
  ⟨"object/object.go | BigMap.Append | range right.mapElements()", boundedByContainer, "existing right map (result size guarded before)"⟩,
  ⟨"object/object.go | BigMap.Inspect | range m.kv", boundedByContainer, "existing map"⟩,
  ⟨"object/object.go | BigMap.JSON | range m.kv", boundedByContainer, "existing map"⟩,
  ⟨"object/object.go | BigMap.Unwrap | range m.kv", boundedByContainer, "existing map"⟩,
  ⟨"object/object.go | Cmp | range m1.mapElements()", boundedByContainer, "existing map (recursion into values: bounded by the value's size)"⟩,
  ⟨"object/object.go | Cmp | range a1.Elements()", boundedByContainer, "existing array"⟩,
  ⟨"object/object.go | Elements | range v.smallKV[:v.len]", boundedByContainer, "existing small map"⟩,
  ⟨"object/object.go | Elements | range v.kv", boundedByContainer, "existing map (result slice guarded)"⟩,
  ⟨"object/object.go | Error.Inspect | range e.Stack", boundedByContainer, "recorded stack of an error"⟩,
  ⟨"object/object.go | Extension.Usage | for i := 1; i <= e.MinArgs; i++", boundedByConstant, "MinArgs is a registration constant of the extension"⟩,
  ⟨"object/object.go | First | range a.Parameters", boundedByContainer, "parameter list"⟩,
  ⟨"object/object.go | Hashable | range sa.smallArr[:sa.len]", boundedByContainer, "at most MaxSmallArray elements"⟩,
  ⟨"object/object.go | Hashable | range sm.smallKV[:sm.len]", boundedByContainer, "at most MaxSmallMap entries"⟩,
  ⟨"object/object.go | HoldsFunction | range Elements(o)", boundedByContainer, "the elements of an existing array (call result examined before it is remembered; recursion bounded by the value's size)"⟩,
  ⟨"object/object.go | HoldsFunction | range o.(Map).mapElements()", boundedByContainer, "the pairs of an existing map"⟩,
  ⟨"object/object.go | Rest | range body", boundedByContainer, "statements of a function body"⟩,
  ⟨"object/object.go | SmallMap.Append | range right.mapElements()", boundedByContainer, "existing right map"⟩,
  ⟨"object/object.go | SmallMap.Append | range right.mapElements()", boundedByContainer, "existing right map"⟩,
  ⟨"object/object.go | SmallMap.Delete | for i := where; i < m.len-1; i++", boundedByConstant, "m.len ≤ MaxSmallMap"⟩,
  ⟨"object/object.go | SmallMap.Inspect | range m.len", boundedByConstant, "m.len ≤ MaxSmallMap"⟩,
  ⟨"object/object.go | SmallMap.Set | for j := m.len - 1; j > i; j--", boundedByConstant, "m.len ≤ MaxSmallMap"⟩,
  ⟨"object/object.go | SmallMap.Unwrap | range m.smallKV[:m.len]", boundedByConstant, "m.len ≤ MaxSmallMap"⟩,
  ⟨"object/object.go | SmallMap.get | range m.len", boundedByConstant, "m.len ≤ MaxSmallMap"⟩,
  ⟨"object/object.go | UnwrapStringKeys | range m.mapElements()", boundedByContainer, "existing map"⟩,
  ⟨"object/object.go | Value | for ; ; ", boundedByConstant, "reference chain: panics after 100 steps"⟩,
  ⟨"object/object.go | WriteStrings | range list", boundedByContainer, "existing list"⟩,
  ⟨"object/state.go | Constant | range name", boundedByContainer, "runes of a name"⟩,
  ⟨"object/state.go | Environment.BaseInfo | range sets.Sort(tokInfo.Keywords)", boundedByContainer, "token tables"⟩,
  ⟨"object/state.go | Environment.BaseInfo | range sets.Sort(tokInfo.Tokens)", boundedByContainer, "token tables"⟩,
  ⟨"object/state.go | Environment.BaseInfo | range sets.Sort(tokInfo.Builtins)", boundedByContainer, "token tables"⟩,
  ⟨"object/state.go | Environment.BaseInfo | range ext", boundedByContainer, "extension registry"⟩,
  ⟨"object/state.go | Environment.Info | for ; ; ", boundedByFrames, "one step per enclosing environment"⟩,
  ⟨"object/state.go | Environment.Info | range e.store", boundedByContainer, "bindings of one environment"⟩,
  ⟨"object/state.go | Environment.Info | range keys", boundedByContainer, "bindings of one environment"⟩,
  ⟨"object/state.go | Environment.RegisterTrie | for ; e.outer != nil; ", boundedByFrames, "walk to the root environment"⟩,
  ⟨"object/state.go | Environment.RegisterTrie | range e.store", boundedByContainer, "bindings"⟩,
  ⟨"object/state.go | Environment.SaveGlobals | for ; e.outer != nil; ", boundedByFrames, "walk to the root environment"⟩,
  ⟨"object/state.go | Environment.SaveGlobals | range e.store", boundedByContainer, "bindings"⟩,
  ⟨"object/state.go | Environment.SaveGlobals | range keys", boundedByContainer, "bindings"⟩,
  ⟨"object/state.go | Environment.makeRef | for ; e.outer != nil; ", boundedByFrames, "walk up the (lexical) environment chain"⟩,
  ⟨"object/state.go | sameTypes | range le", boundedByContainer, "the elements of an existing array (the strict constant check recurses over nested containers: bounded by the value's size)"⟩,
  ⟨"object/state.go | sameTypes | range lkv", boundedByContainer, "the pairs of an existing map"⟩,
  ⟨"repl/repl.go | logParserErrors | range errs", boundedByContainer, "parser errors of one input"⟩ ]

/-- **C09 (time part, 1)**: every Go-level loop of the evaluator is one of the classified loops and vice
versa (same sites, same order): a new, removed, moved or re-headed loop breaks this obligation. -/
theorem C09.loops_classified : loops.map (·.site) = Spec.classifiedLoops.map (·.site) := by decide

/-- **C09 (time part, 2)**: the loops classified `polls` are exactly those whose body contains a call of a
context-polling evaluator entry point (a syntactic fact of the source, regenerated) -/
theorem C09.polling_loops_poll :
    (loops.filter (·.polls)).map (·.site) =
      (Spec.classifiedLoops.filter (·.cls == LoopClass.polls)).map (·.site) := by decide

/-- no loop is left outside the five classes, and there are unbounded-looking headers (`for ; ;`) only in
the classes `polls`, `boundedByConstant` (reference chain, 100 steps) and `boundedByFrames` -/
theorem C09.bare_for_loops :
    ((loops.zip Spec.classifiedLoops).filter (fun p => p.1.kind == "for" && p.1.over == "; ; ")).map (·.2.cls) =
      [LoopClass.polls, LoopClass.boundedByConstant, LoopClass.boundedByFrames] := by decide

/-- what the bound of the two `boundedByGuardedAllocation` loops rests on, in source order inside the loop's own
statement list: the early returns and the MulLen / MakeObjectSlice calls that dominate the loop.
* `array * count`: the count is non-negative, `n = len * count` does not overflow (MulLen), `n = 0` returns BEFORE
  the loop (an empty operand times a huge count would otherwise loop `count` times appending nothing, without ever
  polling the context), and `n` objects passed the guard — so count ≤ n ≤ budget / 16;
* `left : right`: `lg = right - left` is non-negative and `lg` objects passed the guard. -/
def Spec.guardedLoopGuards : List (String × List String) := [
  ("eval/eval.go | State.evalArrayInfixExpression | range rightVal",
    ["if !ok return", "if rightVal < 0 return", "object.MulLen(len(leftVal), rightVal)", "if !ok return",
     "if n == 0 return", "object.MakeObjectSlice(n)"]),
  ("eval/eval.go | State.evalIntegerInfixExpression | for i := leftVal; i < rightVal; i++",
    ["if lg < 0 return", "object.MakeObjectSlice(int(lg))"]) ]

/-- **C09 (time part, 3)**: the loops classified `boundedByGuardedAllocation` are dominated by exactly the
recorded early returns and guard calls, in that order (regenerated from the source): moving, dropping or
rewording the `n == 0` early return, the MulLen overflow test or the guarded allocation breaks this obligation. -/
theorem C09.guarded_loops_guards :
    ((loops.zip Spec.classifiedLoops).filter (fun p => p.2.cls == LoopClass.boundedByGuardedAllocation)).map
      (fun p => (p.1.site, p.1.guards)) = Spec.guardedLoopGuards := by decide

end Grol.Generated.LoopFacts

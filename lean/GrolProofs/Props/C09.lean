import Grol.Memory
/- C09: theorems (in progress) -/

import GrolProofs.MemoryLemmas
/-
C09 — execution is bounded: the arithmetic of the allocation guard, and the depth counter.

Theorems about the models `Grol.Memory` (object/memory.go SizeOk / MustBeOk / MulLen and the size
computations of `*` on strings and arrays, `+` on arrays and maps, `:` ranges) and `Grol.Depth`
(eval_api.go Eval / Reset), tied to the Go code by the `memory` suite.  `free1`, `free2` (what
FreeMemory() returns before and after the forced GC) are universally quantified.

Wall-clock time, peak RSS and Go stack use are not part of these theorems (measured elsewhere).
-/
namespace Grol.Memory

/-- **C09 guard_sound, the guard itself**: a pass means at most 256 objects, or a non-negative budget
that the true (unbounded) byte size is below — the multiplication by ObjectSize cannot wrap. -/
theorem C09.sizeOk_sound (free : Int) (n : I64) (h : sizeOk free n = true) :
    n.toInt ≤ 256 ∨ (0 ≤ free ∧ n.toInt * 16 < free) := Grol.Memory.sizeOk_sound free n h

/-- without the overflow test (the code before the fix) that is false: 2^60 objects pass with 1 byte free -/
theorem C09.sizeOk_unchecked_unsound :
    ¬ ∀ (free : Int) (n : I64), sizeOkUnchecked free n = true → n.toInt ≤ 256 ∨ (0 ≤ free ∧ n.toInt * 16 < free) := by
  intro h
  have := h 1 (1152921504606846976#64) (by decide)
  revert this; decide

/-- and the wrapped product `len * count` (the request before the fix) asks the guard about 0 objects for
`[1,2,3,4] * (1<<62)`, which it grants whatever the budget -/
theorem C09.unchecked_product_passes (free : Int) :
    sizeOk free (repeatSizeUnchecked 4 (4611686018427387904#64)) = true := by
  have : repeatSizeUnchecked 4 (4611686018427387904#64) = 0#64 := by decide
  rw [this]; simp [sizeOk]

/-- **C09 guard_sound, `array * int`**: a result is produced only when the count is non-negative, the
result has exactly the true number `len * count` of elements, and that number fits the budget. -/
theorem C09.arrRepeat_sound (free1 free2 : Int) (len : Nat) (hlen : len < 2 ^ 63) (r : I64) (k : Nat)
    (h : arrRepeat free1 free2 len r = .ok k) :
    0 ≤ r.toInt ∧ (k : Int) = (len : Int) * r.toInt ∧ Fits free1 free2 ((len : Int) * r.toInt) := by
  unfold arrRepeat at h
  by_cases hr : r.toInt < 0
  · rw [if_pos hr] at h; cases h
  · rw [if_neg hr] at h
    cases hm : mulLen (BitVec.ofNat 64 len) r with
    | none => rw [hm] at h; cases h
    | some n =>
      rw [hm] at h
      simp only at h
      obtain ⟨_, _, _, hn, hnat⟩ := mulLen_spec _ _ _ hm
      rw [toInt_ofNat_of_lt len hlen] at hn hnat
      by_cases hg : mustBeOk free1 free2 n = true
      · rw [if_pos hg] at h
        injection h with h
        refine ⟨by omega, by rw [← h, hnat], ?_⟩
        rw [← hn]; exact mustBeOk_sound _ _ _ hg
      · rw [if_neg hg] at h; cases h

/-- **`string * int`**: the result has exactly `len * count` bytes, and that many bytes, counted in
16-byte objects as the code does, fit the budget. -/
theorem C09.strRepeat_sound (free1 free2 : Int) (len : Nat) (hlen : len < 2 ^ 63) (r : I64) (k : Nat)
    (h : strRepeat free1 free2 len r = .ok k) :
    0 ≤ r.toInt ∧ (k : Int) = (len : Int) * r.toInt ∧ Fits free1 free2 ((len : Int) * r.toInt / 16) := by
  unfold strRepeat at h
  by_cases hr : r.toInt < 0
  · rw [if_pos hr] at h; cases h
  · rw [if_neg hr] at h
    cases hm : mulLen (BitVec.ofNat 64 len) r with
    | none => rw [hm] at h; cases h
    | some n =>
      rw [hm] at h
      simp only at h
      obtain ⟨_, _, hn0, hn, hnat⟩ := mulLen_spec _ _ _ hm
      rw [toInt_ofNat_of_lt len hlen] at hn hnat
      by_cases hg : mustBeOk free1 free2 (n.sdiv 16#64) = true
      · rw [if_pos hg] at h
        injection h with h
        refine ⟨by omega, by rw [← h, hnat], ?_⟩
        have := mustBeOk_sound _ _ _ hg
        rw [toInt_sdiv16 n hn0, hn] at this
        exact this
      · rw [if_neg hg] at h; cases h

/-- **`array + array`** (lengths of existing arrays: below 2^62) -/
theorem C09.arrConcat_sound (free1 free2 : Int) (la lb : Nat) (ha : la < 2 ^ 62) (hb : lb < 2 ^ 62) (k : Nat)
    (h : arrConcat free1 free2 la lb = .ok k) :
    k = la + lb ∧ Fits free1 free2 ((la : Int) + lb) := by
  unfold arrConcat at h
  simp only at h
  have hsum : (BitVec.ofNat 64 la + BitVec.ofNat 64 lb : I64) = BitVec.ofNat 64 (la + lb) := by
    apply BitVec.eq_of_toNat_eq; simp [BitVec.toNat_add, BitVec.toNat_ofNat]
  rw [hsum] at h
  by_cases hg : mustBeOk free1 free2 (BitVec.ofNat 64 (la + lb)) = true
  · rw [if_pos hg] at h
    injection h with h
    have := mustBeOk_sound _ _ _ hg
    rw [toInt_ofNat_of_lt (la + lb) (by omega)] at this
    rw [toNat_ofNat_of_lt (la + lb) (by omega)] at h
    exact ⟨h.symm, by simpa using this⟩
  · rw [if_neg hg] at h; cases h

/-- **`map + map`**: room for `2 * (la + lb)` objects (key and value) is checked -/
theorem C09.mapAppend_sound (free1 free2 : Int) (la lb : Nat) (ha : la < 2 ^ 61) (hb : lb < 2 ^ 61) (k : Nat)
    (h : mapAppend free1 free2 la lb = .ok k) :
    k = la + lb ∧ Fits free1 free2 (2 * ((la : Int) + lb)) := by
  unfold mapAppend at h
  simp only at h
  have hsum : (BitVec.ofNat 64 la + BitVec.ofNat 64 lb : I64) = BitVec.ofNat 64 (la + lb) := by
    apply BitVec.eq_of_toNat_eq; simp [BitVec.toNat_add, BitVec.toNat_ofNat]
  have hdbl : (2#64 * BitVec.ofNat 64 (la + lb) : I64) = BitVec.ofNat 64 (2 * (la + lb)) := by
    apply BitVec.eq_of_toNat_eq; simp [BitVec.toNat_mul, BitVec.toNat_ofNat]
  rw [hsum, hdbl] at h
  by_cases hg : mustBeOk free1 free2 (BitVec.ofNat 64 (2 * (la + lb))) = true
  · rw [if_pos hg] at h
    injection h with h
    have := mustBeOk_sound _ _ _ hg
    rw [toInt_ofNat_of_lt (2 * (la + lb)) (by omega)] at this
    rw [toNat_ofNat_of_lt (la + lb) (by omega)] at h
    refine ⟨h.symm, ?_⟩
    have e : ((2 * (la + lb) : Nat) : Int) = 2 * ((la : Int) + lb) := by norm_cast
    rw [e] at this; exact this
  · rw [if_neg hg] at h; cases h

/-- **`left : right`**: the result has `right - left` elements (true difference; none when left ≥ right),
and the reserved capacity — never less than that — fits the budget. -/
theorem C09.range_sound (free1 free2 : Int) (l r : I64) (k : Nat) (h : range free1 free2 l r = .ok k) :
    (k : Int) = max 0 (r.toInt - l.toInt) ∧ ∃ cap : Int, (k : Int) ≤ cap ∧ Fits free1 free2 cap := by
  unfold range at h
  simp only at h
  by_cases hneg : (r - l).toInt < 0
  · rw [if_pos hneg] at h; cases h
  · rw [if_neg hneg] at h
    by_cases hg : mustBeOk free1 free2 (r - l) = true
    · rw [if_pos hg] at h
      injection h with h
      have hfit := mustBeOk_sound _ _ _ hg
      obtain ⟨hlg, hlglt⟩ := toNat_of_nonneg (r - l) (by omega)
      have hsub : (r - l).toNat = (2 ^ 64 - l.toNat + r.toNat) % 2 ^ 64 := by simp [BitVec.toNat_sub]
      by_cases hlt : l.slt r = true
      · rw [if_pos hlt] at h
        rw [BitVec.slt_iff_toInt_lt] at hlt
        have hk : (k : Int) = r.toInt - l.toInt := by
          rw [← h]
          rcases toInt_cases l with hl | hl <;> rcases toInt_cases r with hr | hr <;>
            (have := l.isLt; have := r.isLt; omega)
        refine ⟨by rw [hk]; omega, (r - l).toInt, by rw [hlg, ← h]; omega, hfit⟩
      · rw [if_neg hlt] at h
        have hge : ¬ l.toInt < r.toInt := by rw [← BitVec.slt_iff_toInt_lt]; exact hlt
        refine ⟨by rw [← h]; omega, (r - l).toInt, by rw [← h]; omega, hfit⟩
    · rw [if_neg hg] at h; cases h

/-! non-vacuity, and the former witnesses are now refused by an error object -/
example : arrRepeat 1000000 1000000 4 (1000#64) = .ok 4000 := by decide
example : arrRepeat 1000000 1000000 4 (100000#64) = .guard := by decide
example : arrRepeat 1000000 1000000 4 (4611686018427387904#64) = .err := by decide      -- [1,2,3,4] * (1<<62)
example : strRepeat 1000000 1000000 4 (4611686018427387904#64) = .err := by decide      -- "abcd" * (1<<62)
example : range 1000000 1000000 (0#64) (1152921504606846976#64) = .guard := by decide     -- 0:(1<<60)
example : range (-1) (-1) (9223372036854775807#64) (BitVec.ofInt 64 (-9223372036854775758)) = .ok 0 := by decide

end Grol.Memory

namespace Grol.Depth

/-- a call that returns normally leaves the counter where it was -/
theorem run_ok_balanced (m : Nat) (c : Calls) : ∀ (d : Nat) tr d', run m d c = (tr, .ok d') → d' = d := by
  induction c with
  | done => intro d tr d' h; simp [run] at h; exact h.2.symm
  | call inner next ih1 ih2 =>
    intro d tr d' h
    unfold run at h
    by_cases hd : d > m
    · rw [if_pos hd] at h; simp at h
    · rw [if_neg hd] at h
      rcases hi : run m (d + 1) inner with ⟨tr1, r1⟩
      rw [hi] at h
      cases r1 with
      | maxDepth x => simp at h
      | ok x =>
        have hx := ih1 (d + 1) tr1 x hi
        subst hx
        simp only at h
        rcases hn : run m (d + 1 - 1) next with ⟨tr2, r2⟩
        rw [hn] at h
        simp only [Prod.mk.injEq] at h
        obtain ⟨_, rfl⟩ := h
        have := ih2 (d + 1 - 1) tr2 d' hn
        omega

/-- **C09 depth invariant**: starting at or below MaxDepth+1, the counter never exceeds MaxDepth+1
(it is a natural number: never negative); a normal return restores it, and the guard fires exactly at
MaxDepth+1 — a recoverable panic, not a Go stack overflow. -/
theorem C09.depth_invariant (m : Nat) (c : Calls) : ∀ (d : Nat), d ≤ m + 1 →
    (∀ x ∈ (run m d c).1, x ≤ m + 1) ∧
    (match (run m d c).2 with | .ok d' => d' = d | .maxDepth d' => d' = m + 1) := by
  induction c with
  | done => intro d _; simp [run]
  | call inner next ih1 ih2 =>
    intro d hd
    unfold run
    by_cases hgt : d > m
    · rw [if_pos hgt]; simp; omega
    · rw [if_neg hgt]
      have h1 := ih1 (d + 1) (by omega)
      rcases hi : run m (d + 1) inner with ⟨tr1, r1⟩
      rw [hi] at h1
      cases r1 with
      | maxDepth x =>
        simp only at h1 ⊢
        refine ⟨?_, h1.2⟩
        intro y hy
        rw [List.mem_cons] at hy
        rcases hy with rfl | hy
        · omega
        · exact h1.1 y hy
      | ok x =>
        simp only at h1 ⊢
        obtain ⟨htr1, rfl⟩ := h1
        have h2 := ih2 (d + 1 - 1) (by omega)
        rcases hn : run m (d + 1 - 1) next with ⟨tr2, r2⟩
        rw [hn] at h2
        simp only at h2 ⊢
        refine ⟨?_, ?_⟩
        · intro y hy
          simp only [List.mem_cons, List.mem_append] at hy
          rcases hy with (rfl | hy) | rfl | hy
          · omega
          · exact htr1 y hy
          · omega
          · exact h2.1 y hy
        · cases r2 with
          | ok z => simp only at h2 ⊢; omega
          | maxDepth z => exact h2.2

/-- **Reset restores depth 0** (whatever the counter was when the panic was recovered), from where the
invariant holds again -/
theorem C09.reset_restores (d : Nat) : reset d = 0 := rfl

/-- n nested evaluations succeed exactly when n ≤ MaxDepth + 1 -/
theorem C09.chain_ok_iff (m n : Nat) : ∀ d, ((run m d (chain n)).2 = .ok d ↔ (n = 0 ∨ d + n ≤ m + 1)) := by
  induction n with
  | zero => intro d; simp [chain, run]
  | succ n ih =>
    intro d
    simp only [chain]
    unfold run
    by_cases hgt : d > m
    · rw [if_pos hgt]; simp; omega
    · rw [if_neg hgt]
      have ih' := ih (d + 1)
      rcases hi : run m (d + 1) (chain n) with ⟨tr1, r1⟩
      rw [hi] at ih'
      cases r1 with
      | maxDepth x =>
        have hfalse : ¬ (n = 0 ∨ d + 1 + n ≤ m + 1) := fun h' => by
          have this : Res.maxDepth x = Res.ok (d + 1) := ih'.2 h'
          cases this
        simp only
        constructor
        · intro h; cases h
        · intro h; exact absurd (by omega) hfalse
      | ok x =>
        have hx := run_ok_balanced m (chain n) (d + 1) tr1 x hi
        subst hx
        have hrhs : n = 0 ∨ d + 1 + n ≤ m + 1 := ih'.1 rfl
        constructor
        · intro _; omega
        · intro _; simp [run]

example : (run 3 0 (chain 4)).2 = .ok 0 := by decide
example : (run 3 0 (chain 5)).2 = .maxDepth 4 := by decide
example : (run 3 0 (.call (chain 2) (chain 4))).1 = [1, 2, 3, 2, 1, 0, 1, 2, 3, 4, 3, 2, 1, 0] := by decide

end Grol.Depth

import GrolProofs.RenQMain
import GrolProofs.Props.C04
/-
C04 (B1) — a miss-free ("quiet") call depends only on the bindings the purity test trusts.

`applyFunction` stores a result when the callee frame's miss counter did not move during the body
(`C04.store_condition`); the footprint lemma (`C04.purity_footprint`, `C04.quiet_get`, …) says what such a
call did NOT do.  This file proves what that buys: two runs of a quiet call, from two states that differ

  * by a renaming of the frame indices (`Grol.R.Sh`: the frames allocated since the runs diverged are shifted,
    as in the C10 simulation), and
  * on a set `D` of bindings of the frames that already existed — DIRTY bindings: bindings the purity test does
    not trust (in run T: bound, under a name that is not all-caps, to a value that is not a reference and not a
    function of a depth-0 frame) and that no value of run T refers to (`clean`: no reference to a dirty binding inside any
    argument or stored value, at any depth of arrays and maps) —

with the cache off, give the same result up to the renaming, the same output, and the call is quiet in the
other run too (`C04.quiet_call_deterministic`).  The relation is `Grol.R.StRq` (GrolProofs/RenQBase.lean): frames
related on outer / depth / cacheKey / function and on every binding outside `D`, miss counters of the old frames
up to their initial offsets.  The proof is a simulation through all 19 functions of the tree walker
(GrolProofs/RenQ*.lean) in which run T is assumed to end normally without moving the counter of the frame it
works for: every read of an outer binding goes through `makeRef`, and a `makeRef` that finds a dirty binding
moves that counter (`Grol.R.qsim_makeRef_go`); a nested call whose callee counter moves moves the caller's
(`Grol.R.finishCall_loud`); `del` moves it first thing.

`clean` is needed: the statement with only "untrusted" is FALSE of the code — a reference nested in a container
(the variadic rest array `..` holds the raw arguments) is dereferenced by `Value` without a miss, so a quiet
call can read an untrusted binding through it.

Corollary in the vocabulary of C04 (`C04.quiet_call_depends_only_on_trusted`): same frame indices, two states
that agree except on `D`: the call returns the same value, writes the same output, and is quiet in both.

Still NOT proved: (B) a cache HIT returns what evaluating the call would return now (`C04.HitIsEvaluation`) and
(C) the session equivalence (`C04.Statement`).  Both relate a run that evaluates a body to a run that does not
(a hit allocates no frame, evaluates nothing): they need a non-lockstep simulation with a general renaming ρ of
frame indices (not a shift), relating the state after a hit to the state after the evaluation (extra garbage
frames, different miss counters and `cantCache` flags of the callers), plus an invariant "every cache entry was
stored by a quiet call whose trusted bindings are unchanged since" maintained through `functionChanged` / `del`.
The theorem here is the step that invariant needs: it turns "trusted bindings unchanged" into "same result".
-/
namespace Grol.E
open Grol.R

/-! ### the two-run statement -/

/-- the miss counters of the two runs, frame by frame: equal on the new frames, up to the initial offsets on the
old ones -/
theorem stRq_miss {P : Qp} {s t : St} (hR : StRq P s t) (i : Nat) :
    missOf s (sh P.σ i) + (if i < P.σ.n0 then P.mt i else 0) = missOf t i + (if i < P.σ.n0 then P.ms i else 0) := by
  cases hte : t.frames[i]? with
  | none =>
    have h1 : t.frames.size ≤ i := by
      rcases Nat.lt_or_ge i t.frames.size with h2 | h2
      · rw [Array.getElem?_eq_getElem h2] at hte; cases hte
      · exact h2
    have h2 : ¬ i < P.σ.n0 := by have := hR.n0; omega
    unfold missOf
    rw [hte, hR.none hte]
    simp [h2]
  | some ft =>
    obtain ⟨fs, hfs, hfr⟩ := hR.frames i ft hte
    rw [missOf_of_frame hte, missOf_of_frame hfs]
    by_cases h : i < P.σ.n0
    · simp only [h, if_true]; exact hfr.missOld h
    · simp only [h, if_false]; rw [(hfr.missNew (by omega)).1]

/-- (B1) A call that ends normally without moving its caller's miss counter (the hypothesis of
`C04.purity_footprint`; with the cache off: the body did not move the callee's counter), run from a state `s`
related to `t` by `StRq P` — the frames allocated since the runs diverged are shifted by `P.σ`, the older frames
agree except on the dirty bindings `P.D`, the cache is off in both — on the renamed arguments (no reference to a
dirty binding inside them): ends normally in run S too, with the renamed result, in a related state (in
particular with the same output, `StRq.outs`), and without moving the caller's counter there either.
(`P.e` is the caller's frame, `StRq.curq`; with `P.pre := True` it may be any frame, old or new, `StRq.enew`.) -/
theorem C04.quiet_call_deterministic (P : Qp) (fuel : Nat) (f : FuncVal) (args : List Obj) (s t : St)
    (hR : StRq P s t) (hargs : cleanL P args) (v : Obj) (t' : St)
    (hrun : runM (applyFunction fuel (.func f) args) t = (.ok v, t'))
    (hquiet : missOf t' t.cur = missOf t t.cur) :
    ∃ s', runM (applyFunction fuel (.func (renFn P.σ f)) (renL P.σ args)) s = (.ok (ren P.σ v), s') ∧
      StRq P s' t' ∧ clean P v ∧ s'.outs = t'.outs ∧ missOf s' s.cur = missOf s s.cur := by
  have h := (qSpec_all fuel).applyFunction P (.func f) args s t hR hargs v t' hrun (by rw [← hR.curq]; exact hquiet)
  obtain ⟨a, s', hS, hR', ha, hc⟩ := h
  subst ha
  refine ⟨s', ?_, hR', hc, hR'.outs, ?_⟩
  · have : ren P.σ (.func f) = .func (renFn P.σ f) := by simp only [ren]
    rw [← this]; exact hS
  · have h1 := stRq_miss hR t.cur
    have h2 := stRq_miss hR' t.cur
    rw [hR.cur]
    omega

/-! ### same frame indices: two states that agree except on `D` -/

theorem sh_id {σ : Sh} (h : σ.d = 0) (i : Nat) : sh σ i = i := by
  unfold sh; split <;> omega

theorem renFn_id {σ : Sh} (h : σ.d = 0) (f : FuncVal) : renFn σ f = f := by
  unfold renFn; rw [sh_id h]

mutual
theorem ren_id {σ : Sh} (h : σ.d = 0) : ∀ o : Obj, ren σ o = o
  | .array els => by simp only [ren]; rw [renL_id h els]
  | .map b kvs => by simp only [ren]; rw [renP_id h kvs]
  | .func f => by simp only [ren]; rw [renFn_id h]
  | .ret v k => by simp only [ren]; rw [ren_id h v]
  | .ref e n => by simp only [ren]; rw [sh_id h]
  | .null => rfl
  | .bool _ => rfl
  | .int _ => rfl
  | .float _ => rfl
  | .str _ => rfl
  | .ext _ => rfl
  | .error _ => rfl
  | .quote _ => rfl
theorem renL_id {σ : Sh} (h : σ.d = 0) : ∀ l : List Obj, renL σ l = l
  | [] => rfl
  | x :: xs => by simp only [renL]; rw [ren_id h x, renL_id h xs]
theorem renP_id {σ : Sh} (h : σ.d = 0) : ∀ l : List (Obj × Obj), renP σ l = l
  | [] => rfl
  | (k, v) :: xs => by simp only [renP]; rw [ren_id h k, ren_id h v, renP_id h xs]
end

/-- the states `s` and `t` agree except on the bindings `D` (pairs frame index, name) of `t`, which the purity
test does not trust and which no value of `t` refers to; the cache is off -/
structure C04.AgreeExcept (D : Nat → String → Prop) (s t : St) : Prop where
  cfg : s.cfg = t.cfg
  off : t.cfg.cacheOn = false
  extNames : s.extNames = t.extNames
  depth : s.depth = t.depth
  steps : s.steps = t.steps
  outs : s.outs = t.outs
  cur : s.cur = t.cur
  root : s.root = t.root
  size : s.frames.size = t.frames.size
  pos : 0 < t.frames.size
  /-- frame by frame: same parent, depth, function, local-function flag, and the same bindings outside `D` -/
  frames : ∀ i ft, t.frames[i]? = some ft → ∃ fs, s.frames[i]? = some fs ∧ fs.outer = ft.outer ∧
    fs.depth = ft.depth ∧ fs.cacheKey = ft.cacheKey ∧ fs.function = ft.function ∧ fs.localFunc = ft.localFunc ∧
    ∀ n, ¬ D i n → lookupStore fs.store n = lookupStore ft.store n
  /-- a binding of `D` is one the purity test does not trust: in `t` it is bound, to a value that is neither a
  function nor a reference, under a name that is not all-caps (since repo fix 103fa2c function values of NON-root frames
  are untrusted as well; they are not admitted into `D` here, see `FrQ.dirty`) -/
  dirty : ∀ i n, D i n → isConstant n = false ∧
    ∃ ft v, t.frames[i]? = some ft ∧ lookupStore ft.store n = some v ∧ notRef v = true ∧
      (isFuncObj v = false ∨ ft.depth ≠ 0)
  /-- in `s` too a binding of `D` of a depth-0 frame does not hold a function (whether the top level frame binds a name
  to a function decides the local-function flag of the frames that shadow it) -/
  dirtyS : ∀ i n, D i n → ∀ fs ft w, s.frames[i]? = some fs → t.frames[i]? = some ft → lookupStore fs.store n = some w →
    (isFuncObj w = false ∨ ft.depth ≠ 0)
  /-- no value bound in `t` (outside `D`) contains a reference to a binding of `D` -/
  untracked : ∀ i ft n v, t.frames[i]? = some ft → ¬ D i n → lookupStore ft.store n = some v → cleanD D v
  /-- parents and references point to smaller frame indices (true of every reachable state) -/
  dec : RefDec t

/-- the parameters of the simulation for two states with the same frame indices -/
def C04.agreeP (D : Nat → String → Prop) (s t : St) : Qp :=
  { σ := ⟨t.frames.size, 0⟩, D := D, ms := missOf s, mt := missOf t, e := t.cur, pre := True }

theorem C04.agree_stRq {D : Nat → String → Prop} {s t : St} (h : C04.AgreeExcept D s t) :
    StRq (C04.agreeP D s t) s t := by
  have hd : (C04.agreeP D s t).σ.d = 0 := rfl
  have hlt : ∀ i n, D i n → i < t.frames.size := by
    intro i n hD
    obtain ⟨_, ft, v, hft, _⟩ := h.dirty i n hD
    exact lt_of_frame hft
  refine ⟨h.cfg, h.off, h.extNames, h.depth, h.steps, h.outs, by rw [sh_id hd]; exact h.cur,
    by rw [sh_id hd]; exact h.root, h.size, Nat.le_refl _, h.pos, ?_, h.dec, hlt, rfl, Or.inl trivial⟩
  intro i ft hi
  obtain ⟨fs, hfs, h1, h2, h3, h4, h6, h5⟩ := h.frames i ft hi
  have hilt := lt_of_frame hi
  refine ⟨fs, by rw [sh_id hd]; exact hfs, ?_⟩
  refine ⟨?_, h2, h3, ?_, ?_, ?_, ?_, ?_, ?_, h6, fun n hn w hw => h.dirtyS i n hn fs ft w hfs hi hw⟩
  · rw [h1]; cases ft.outer with
    | none => rfl
    | some o => simp only [Option.map]; rw [sh_id hd]
  · rw [h4]; cases ft.function with
    | none => rfl
    | some fn => simp only [Option.map]; rw [renFn_id hd]
  · intro n hn
    rw [h5 n hn]
    cases lookupStore ft.store n with
    | none => rfl
    | some v => simp only [Option.map]; rw [ren_id hd]
  · intro n v hn hl
    exact h.untracked i ft n v hi hn hl
  · intro n hn
    obtain ⟨hc, ft', v, hft', hl, hr, hf⟩ := h.dirty i n hn
    rw [hi] at hft'
    cases hft'
    exact ⟨hc, v, hl, hr, hf⟩
  · intro hge
    exact absurd hilt (by have : (C04.agreeP D s t).σ.n0 = t.frames.size := rfl; omega)
  · intro _
    show fs.getMiss + missOf t i = ft.getMiss + missOf s i
    rw [missOf_of_frame hi, missOf_of_frame hfs]
    exact Nat.add_comm _ _

/-- (B1, in the vocabulary of C04) A quiet call depends only on the trusted bindings: if `t` and `s` agree except
on a set `D` of untrusted, untracked bindings (`C04.AgreeExcept`; cache off), and the call `f(args)` run from `t`
ends normally with `v` without moving its caller's miss counter, then run from `s` it ends normally with the
same `v`, writes the same output, does not move the caller's counter either, and the final states agree except
on `D` in the sense of the simulation relation. -/
theorem C04.quiet_call_depends_only_on_trusted (D : Nat → String → Prop) (fuel : Nat) (f : FuncVal) (args : List Obj)
    (s t : St) (hag : C04.AgreeExcept D s t) (hargs : cleanLD D args) (v : Obj) (t' : St)
    (hrun : runM (applyFunction fuel (.func f) args) t = (.ok v, t'))
    (hquiet : missOf t' t.cur = missOf t t.cur) :
    ∃ s', runM (applyFunction fuel (.func f) args) s = (.ok v, s') ∧ s'.outs = t'.outs ∧
      missOf s' s.cur = missOf s s.cur ∧ StRq (C04.agreeP D s t) s' t' := by
  have hd : (C04.agreeP D s t).σ.d = 0 := rfl
  obtain ⟨s', h1, h2, _, h4, h5⟩ := C04.quiet_call_deterministic (C04.agreeP D s t) fuel f args s t
    (C04.agree_stRq hag) hargs v t' hrun hquiet
  rw [renFn_id hd, renL_id hd, ren_id hd] at h1
  exact ⟨s', h1, h4, h5, h2⟩


/-! ### non-vacuity: `fib(6)` from two states that differ in a global `x` -/

/-- the state after `func fib(n){…}; x = v`, cache off -/
def detState (v : Int64) : St :=
  { cfg := { cacheOn := false }, frames := #[{ store := [("fib", .func fibVal), ("x", .int v)] }] }

def detD : Nat → String → Prop := fun i n => i = 0 ∧ n = "x"

theorem det_agree : C04.AgreeExcept detD (detState 7) (detState 5) := by
  have hframe : ∀ i ft, (detState 5).frames[i]? = some ft → i = 0 ∧ ft = { store := [("fib", .func fibVal), ("x", .int 5)] } := by
    intro i ft h
    cases i with
    | zero => exact ⟨rfl, by simpa [detState] using h.symm⟩
    | succ i => simp [detState] at h
  refine ⟨rfl, rfl, rfl, rfl, rfl, rfl, rfl, rfl, rfl, by decide, ?_, ?_, ?_, ?_, ?_⟩
  · intro i ft h
    obtain ⟨rfl, rfl⟩ := hframe i ft h
    refine ⟨{ store := [("fib", .func fibVal), ("x", .int 7)] }, rfl, rfl, rfl, rfl, rfl, rfl, ?_⟩
    intro n hn
    have hx : ¬ n = "x" := fun hh => hn ⟨rfl, hh⟩
    have hx' : ("x" == n) = false := by simpa using fun hh : "x" = n => hx hh.symm
    simp only [lookupStore, hx', Bool.false_eq_true, if_false]
  · rintro i n ⟨rfl, rfl⟩
    exact ⟨by decide, _, .int 5, rfl, rfl, rfl, Or.inl rfl⟩
  · rintro i n ⟨rfl, rfl⟩ fs ft w hfs _ hw
    have hfs' : fs = { store := [("fib", .func fibVal), ("x", .int 7)] } := by simpa [detState] using hfs.symm
    subst hfs'
    have : w = .int 7 := by simpa [lookupStore] using hw.symm
    subst this
    exact Or.inl rfl
  · intro i ft n v h hn hl
    obtain ⟨rfl, rfl⟩ := hframe i ft h
    have hx : ¬ n = "x" := fun hh => hn ⟨rfl, hh⟩
    have hx' : ("x" == n) = false := by simpa using fun hh : "x" = n => hx hh.symm
    simp only [lookupStore, hx', Bool.false_eq_true, if_false] at hl
    split at hl
    · cases hl; trivial
    · cases hl
  · intro i ft h
    obtain ⟨rfl, rfl⟩ := hframe i ft h
    refine ⟨fun o ho => (by cases ho), ?_⟩
    intro k e n hm
    simp at hm

/-- the hypotheses hold for `fib(6)` from the state with `x = 5`: it returns 8 without moving the caller's counter … -/
theorem det_run : (match runM (applyFunction 100 (.func fibVal) [.int 6]) (detState 5) with
    | (.ok (.int v), st) => v == 8 && missOf st (detState 5).cur == missOf (detState 5) (detState 5).cur
    | _ => false) = true := by decide +kernel

/-- … so it returns 8 from the state with `x = 7` too, with the same output, quietly -/
example : ∃ s', runM (applyFunction 100 (.func fibVal) [.int 6]) (detState 7) = (.ok (.int 8), s') ∧
    missOf s' (detState 7).cur = missOf (detState 7) (detState 7).cur := by
  have h := det_run
  cases hr : runM (applyFunction 100 (.func fibVal) [.int 6]) (detState 5) with
  | mk r t' =>
    rw [hr] at h
    cases r with
    | error e => simp at h
    | ok o =>
      cases o with
      | int v =>
        simp only [Bool.and_eq_true, beq_iff_eq] at h
        obtain ⟨hv, hq⟩ := h
        subst hv
        obtain ⟨s', h1, _, h3, _⟩ := C04.quiet_call_depends_only_on_trusted detD 100 fibVal [.int 6] (detState 7)
          (detState 5) det_agree ⟨trivial, trivial⟩ (.int 8) t' hr hq
        exact ⟨s', h1, h3⟩
      | _ => all_goals simp at h


/-! ### parameters with an all-caps name -/

/-- Binding a parameter with an all-caps name moves the callee frame's counter (`TriggerNoCache`: whether `CreateOrSet`
accepts it depends on the outer constants of that name, now or later), and `applyFunction` compares the counter
after the body with 0, not with its value after the binding (`applyFunction_quiet_full`): such a call is never
stored.  (Before grol 577ed27 `f = func(N){N+1}; f(6); N = 5; f(6)` served the stale 7 from the cache instead of
refusing to change the constant `N`.) -/
theorem C04.constant_param_is_miss (nenv : Nat) : ∀ (l : List (String × Obj)) (t t' : St),
    runM (bindParams nenv l) t = (.ok none, t') → (∃ pa ∈ l, isConstant pa.1 = true) → missOf t nenv < missOf t' nenv
  | [], _, _, _, h => by obtain ⟨_, hm, _⟩ := h; cases hm
  | (p, a) :: rest, t, t', hrun, hex => by
    unfold bindParams at hrun
    rw [runM_bind] at hrun
    cases hv : runM (valueOf a) t with
    | mk rv t1 =>
      rw [hv] at hrun
      have h1 : missOf t nenv ≤ missOf t1 nenv := by
        have := missOf_mono (tr_valueOf (o := a)) t nenv; rw [hv] at this; exact this
      cases rv with
      | error e => cases hrun
      | ok pval =>
        dsimp only at hrun
        -- the rest of the loop, from any state
        have hrest : ∀ u u', runM (do
              let oerr ← createOrSet nenv p pval true
              if oerr.isError = true then pure (some oerr) else bindParams nenv rest) u = (.ok none, u') →
            missOf u nenv ≤ missOf u' nenv ∧ ((∃ pa ∈ rest, isConstant pa.1 = true) → missOf u nenv < missOf u' nenv) := by
          intro u u' hr
          rw [runM_bind] at hr
          cases hc : runM (createOrSet nenv p pval true) u with
          | mk rc u1 =>
            rw [hc] at hr
            have h2 : missOf u nenv ≤ missOf u1 nenv := by
              have := missOf_mono (tr_createOrSet (e := nenv) (n := p) (v := pval) (c := true)) u nenv
              rw [hc] at this; exact this
            cases rc with
            | error e => cases hr
            | ok oerr =>
              dsimp only at hr
              split at hr
              · rw [runM_pure] at hr; cases hr
              · have h3 : missOf u1 nenv ≤ missOf u' nenv := by
                  have := missOf_mono (tr_bindParams (nenv := nenv) (l := rest)) u1 nenv; rw [hr] at this; exact this
                refine ⟨by omega, fun hex' => ?_⟩
                have := C04.constant_param_is_miss nenv rest u1 u' hr hex'
                omega
        by_cases hp : isConstant p = true
        · simp only [hp, if_true] at hrun
          rw [runM_bind] at hrun
          cases ht : runM (triggerNoCache nenv) t1 with
          | mk rt t2 =>
            rw [ht] at hrun
            cases rt with
            | error e => cases hrun
            | ok u0 =>
              have h2 := Loud.triggerNoCache (e := nenv) t1 u0 t2 ht
              have h3 := (hrest t2 t' hrun).1
              omega
        · simp only [hp, Bool.false_eq_true, if_false] at hrun
          obtain ⟨pa, hm, hpa⟩ := hex
          rcases List.mem_cons.1 hm with h | h
          · subst h; exact absurd hpa hp
          · have := (hrest t1 t' hrun).2 ⟨pa, h, hpa⟩
            omega

/-! ### what is still open -/

/-- the state `st` with the memoization switched off and the cache emptied -/
def C04.cacheOff (st : St) : St := { st with cfg := { st.cfg with cacheOn := false }, cache := [] }

/-- a state reached by a session: the inputs `progs` run one after the other from the initial state -/
def C04.Reached (cfg : Cfg) (st : St) : Prop :=
  ∃ progs : List Node, st = progs.foldl (fun acc p => (runInput acc p).1) (initState cfg)

/-- (B), full strength, NOT proved: in every state a session reaches, a cache hit returns the value and the output
that evaluating the call there with the cache off returns.  Missing: the invariant "every entry was stored by a
quiet call and the trusted bindings it read are unchanged since" through `functionChanged` and `del`, and a
non-lockstep simulation (general renaming of frame indices) relating the stored run to the run evaluated now;
`C04.quiet_call_deterministic` is the step from "trusted bindings unchanged" to "same result".  The statement is
false for the recorded classes (closure results, float keys: known_findings.json) and has to exclude them; it is also
FALSE of the code as it is for a recursive function that shadows a root function locally (open finding
`recursive-call-hit-ignores-callers-local-function`: a same-function call is parented to its caller's frame).  The
invariant, the proved parts ((a) initially, (c0) frame-free steps, (d) hit = evaluation for a valid cache) and the missing
statements are in Props/C04Hit.lean. -/
def C04.HitIsEvaluation : Prop :=
  ∀ (cfg : Cfg) (st : St), C04.Reached cfg st → ∀ (f : FuncVal) (args : List Obj) (v : Obj) (out : Grol.Wire.Bytes),
    outcome (cacheGet f.key args) st = .ok (some (v, out)) →
    ∀ (fuel : Nat) (r : Obj) (st' : St),
      runM (applyFunction fuel (.func f) args) { C04.cacheOff st with outs := [[]] } = (.ok r, st') →
      r = v ∧ (match st'.outs with | o :: _ => chunksBytes o | [] => []) = out

/-- (C), full strength, NOT proved: `C04.Statement` (Props/C04.lean): every session gives the same observations
with the cache on and off.  Needs `C04.HitIsEvaluation` and the same non-lockstep simulation for the rest of the
session after a hit. -/
def C04.SessionEquivalence : Prop := C04.Statement

end Grol.E

import Grol.Parser
import Grol.Printer
import Grol.Classes
import GrolProofs.StreamWF
import GrolProofs.PrintParseProg
/-
C02 — print then parse gives the same tree.

There is no lexer model in this component, so the statement is relative to a lexer
`lex : Bytes → TokStream` (to be instantiated with the lexer model); `C02.Statement` is the full
property.  It is FALSE of the code as it stands (after the `fix:` commits): the witnesses below are
kernel-evaluated facts about the parser model on the token streams the REAL lexer produces for
the witness source and for the text the real printer (= the model printer, compared byte for byte by the suite)
produces for it; the printer model is defined by well-founded recursion and is not evaluated by `decide` (these streams are re-derived from the real code on
every run by the known-finding replay of the `format` suite, which also checks that the model's printed
text equals the real one).  `C02.Safe` is the complement of the recorded classes (Grol/Classes.lean).
Proved (second half of this file): `roundtrip_partial`, the positive round-trip theorem for the fragment
`PrintTokens.fragProg` at the TOKEN level (the printer's output is described by `PrintTokens.progToks`, tied to
the real printer and lexer by the `printtokens` suite), in all four print modes.
Not proved: `Statement` restricted to `Safe` beyond that fragment; the byte-level composition through the lexer
model (`roundtrip_partial_lex` takes it as the hypothesis `PrintLex`).
-/
namespace Grol.C02
open Grol Grol.Wire Grol.Parser Grol.Printer Grol.Generated

/-- tree equality up to token pointers; the layout flags of comments are ignored; in compact mode
statement-level comments (which compact printing omits by design) are ignored -/
def sameTree (compact : Bool) (a b : NList) : Prop := dumpProgram compact true a = dumpProgram compact true b

def valid (r : Res ParseResult) : Option NList :=
  match r with
  | .ok r => if r.errors = 0 ∧ r.cont = false then some r.program else none
  | _ => none

/-- C02 at one source text, for a lexer `lex`, the rune table `tbl` and fuel bound `fuel` -/
def StatementAt (lex : Bytes → TokStream) (tbl : Nat → Bool) (fuel : Nat) (src : Bytes) : Prop :=
  ∀ prog, valid (parseProgram (lex src) fuel) = some prog →
    ∀ compact, ∃ out prog', printProgram tbl prog compact false = .ok out ∧
      valid (parseProgram (lex out) fuel) = some prog' ∧ sameTree compact prog' prog

def Statement (lex : Bytes → TokStream) (tbl : Nat → Bool) : Prop :=
  ∀ src, ∃ fuel, StatementAt lex tbl fuel src

/-- outside every recorded class (decidable; `Classes.normalClasses`/`compactClasses` are what the
driver uses to classify failing cases) -/
def Safe (prog : NList) : Bool := (Classes.normalClasses prog).isEmpty && (Classes.compactClasses prog).isEmpty

/-! ### witnesses (token streams of the real lexer) -/

/-- real lexer, file mode, on `a; -b` -/
def stmtPrefix.src : TokStream :=
  { toks := [
    { type := .IDENT, lit := [97], posBefore := 0, posAfter := 1, hadWs := false, hadNl := false, lastNl := 0, num := .na },
    { type := .SEMICOLON, lit := [59], posBefore := 1, posAfter := 2, hadWs := false, hadNl := false, lastNl := 0, num := .na },
    { type := .MINUS, lit := [45], posBefore := 2, posAfter := 4, hadWs := true, hadNl := false, lastNl := 0, num := .na },
    { type := .IDENT, lit := [98], posBefore := 4, posAfter := 5, hadWs := false, hadNl := false, lastNl := 0, num := .na },
    { type := .EOF, lit := [], posBefore := 5, posAfter := 6, hadWs := false, hadNl := false, lastNl := 0, num := .na } ],
    eof := { type := .EOF, lit := [], posBefore := 6, posAfter := 7, hadWs := false, hadNl := false, lastNl := 0, num := .na }, inputLen := 5 }

/-- real lexer on the normal-mode text printed for it (hex 610a2d620a) -/
def stmtPrefix.normal : TokStream :=
  { toks := [
    { type := .IDENT, lit := [97], posBefore := 0, posAfter := 1, hadWs := false, hadNl := false, lastNl := 0, num := .na },
    { type := .MINUS, lit := [45], posBefore := 1, posAfter := 3, hadWs := true, hadNl := true, lastNl := 2, num := .na },
    { type := .IDENT, lit := [98], posBefore := 3, posAfter := 4, hadWs := false, hadNl := false, lastNl := 2, num := .na },
    { type := .EOF, lit := [], posBefore := 4, posAfter := 6, hadWs := true, hadNl := true, lastNl := 5, num := .na } ],
    eof := { type := .EOF, lit := [], posBefore := 6, posAfter := 7, hadWs := false, hadNl := false, lastNl := 5, num := .na }, inputLen := 5 }

/-- real lexer on the compact-mode text printed for it (hex 612d62) -/
def stmtPrefix.compact : TokStream :=
  { toks := [
    { type := .IDENT, lit := [97], posBefore := 0, posAfter := 1, hadWs := false, hadNl := false, lastNl := 0, num := .na },
    { type := .MINUS, lit := [45], posBefore := 1, posAfter := 2, hadWs := false, hadNl := false, lastNl := 0, num := .na },
    { type := .IDENT, lit := [98], posBefore := 2, posAfter := 3, hadWs := false, hadNl := false, lastNl := 0, num := .na },
    { type := .EOF, lit := [], posBefore := 3, posAfter := 4, hadWs := false, hadNl := false, lastNl := 0, num := .na } ],
    eof := { type := .EOF, lit := [], posBefore := 4, posAfter := 5, hadWs := false, hadNl := false, lastNl := 0, num := .na }, inputLen := 3 }

def stmtPrefix.normalText : Bytes := [97, 10, 45, 98, 10]
def stmtPrefix.compactText : Bytes := [97, 45, 98]

/-- real lexer, file mode, on `a + (b + c)` -/
def assocRight.src : TokStream :=
  { toks := [
    { type := .IDENT, lit := [97], posBefore := 0, posAfter := 1, hadWs := false, hadNl := false, lastNl := 0, num := .na },
    { type := .PLUS, lit := [43], posBefore := 1, posAfter := 3, hadWs := true, hadNl := false, lastNl := 0, num := .na },
    { type := .LPAREN, lit := [40], posBefore := 3, posAfter := 5, hadWs := true, hadNl := false, lastNl := 0, num := .na },
    { type := .IDENT, lit := [98], posBefore := 5, posAfter := 6, hadWs := false, hadNl := false, lastNl := 0, num := .na },
    { type := .PLUS, lit := [43], posBefore := 6, posAfter := 8, hadWs := true, hadNl := false, lastNl := 0, num := .na },
    { type := .IDENT, lit := [99], posBefore := 8, posAfter := 10, hadWs := true, hadNl := false, lastNl := 0, num := .na },
    { type := .RPAREN, lit := [41], posBefore := 10, posAfter := 11, hadWs := false, hadNl := false, lastNl := 0, num := .na },
    { type := .EOF, lit := [], posBefore := 11, posAfter := 12, hadWs := false, hadNl := false, lastNl := 0, num := .na } ],
    eof := { type := .EOF, lit := [], posBefore := 12, posAfter := 13, hadWs := false, hadNl := false, lastNl := 0, num := .na }, inputLen := 11 }

/-- real lexer on the normal-mode text printed for it (hex 61202b2062202b20630a) -/
def assocRight.normal : TokStream :=
  { toks := [
    { type := .IDENT, lit := [97], posBefore := 0, posAfter := 1, hadWs := false, hadNl := false, lastNl := 0, num := .na },
    { type := .PLUS, lit := [43], posBefore := 1, posAfter := 3, hadWs := true, hadNl := false, lastNl := 0, num := .na },
    { type := .IDENT, lit := [98], posBefore := 3, posAfter := 5, hadWs := true, hadNl := false, lastNl := 0, num := .na },
    { type := .PLUS, lit := [43], posBefore := 5, posAfter := 7, hadWs := true, hadNl := false, lastNl := 0, num := .na },
    { type := .IDENT, lit := [99], posBefore := 7, posAfter := 9, hadWs := true, hadNl := false, lastNl := 0, num := .na },
    { type := .EOF, lit := [], posBefore := 9, posAfter := 11, hadWs := true, hadNl := true, lastNl := 10, num := .na } ],
    eof := { type := .EOF, lit := [], posBefore := 11, posAfter := 12, hadWs := false, hadNl := false, lastNl := 10, num := .na }, inputLen := 10 }

/-- real lexer on the compact-mode text printed for it (hex 612b622b63) -/
def assocRight.compact : TokStream :=
  { toks := [
    { type := .IDENT, lit := [97], posBefore := 0, posAfter := 1, hadWs := false, hadNl := false, lastNl := 0, num := .na },
    { type := .PLUS, lit := [43], posBefore := 1, posAfter := 2, hadWs := false, hadNl := false, lastNl := 0, num := .na },
    { type := .IDENT, lit := [98], posBefore := 2, posAfter := 3, hadWs := false, hadNl := false, lastNl := 0, num := .na },
    { type := .PLUS, lit := [43], posBefore := 3, posAfter := 4, hadWs := false, hadNl := false, lastNl := 0, num := .na },
    { type := .IDENT, lit := [99], posBefore := 4, posAfter := 5, hadWs := false, hadNl := false, lastNl := 0, num := .na },
    { type := .EOF, lit := [], posBefore := 5, posAfter := 6, hadWs := false, hadNl := false, lastNl := 0, num := .na } ],
    eof := { type := .EOF, lit := [], posBefore := 6, posAfter := 7, hadWs := false, hadNl := false, lastNl := 0, num := .na }, inputLen := 5 }

def assocRight.normalText : Bytes := [97, 32, 43, 32, 98, 32, 43, 32, 99, 10]
def assocRight.compactText : Bytes := [97, 43, 98, 43, 99]

def progOf (s : TokStream) : NList := (valid (parseProgram s 40)).getD []

/-- `a; -b` (two statements) is printed `a⏎-b⏎`, which parses to ONE statement `a - b`:
class "statement-starts-with-prefix-operator" -/
theorem witness_statement_starts_with_prefix_operator :
    (valid (parseProgram stmtPrefix.src 40)).isSome = true
    ∧ (valid (parseProgram stmtPrefix.normal 40)).isSome = true
    ∧ (progOf stmtPrefix.src).length = 2 ∧ (progOf stmtPrefix.normal).length = 1 := by
  decide

def rightIsInfix : NList → Bool
  | [some (.infix _ _ (some (.infix ..)))] => true
  | _ => false

/-- `a + (b + c)` is printed `a + b + c`, which parses to `(a + b) + c`:
class "repeated-associative-operator-on-the-right" (pinned by the repo's own test) -/
theorem witness_repeated_associative_operator :
    (valid (parseProgram assocRight.src 40)).isSome = true
    ∧ (valid (parseProgram assocRight.normal 40)).isSome = true
    ∧ rightIsInfix (progOf assocRight.src) = true ∧ rightIsInfix (progOf assocRight.normal) = false := by
  decide

/-- the witness streams satisfy the lexer facts the parser theorem assumes -/
example : StreamWF stmtPrefix.src := streamWF_of_b (by decide)


/-! ## the positive half: print then parse gives the same tree, for a fragment -/

open Grol.PrintTokens Grol.RT

/-- **C02, partial, token level, kernel-checked.**  For every program `prog` of the fragment
`fragProg compact allParens prog` and every token stream `s` whose tokens are — up to `key` (type, literal,
number class, and "whitespace in front" for `(` and `[`: everything an error-free parse reads) — the rendering
`progToks compact allParens prog` of the printer's output followed by the end marker, `ParseProgram` on `s`
returns exactly `prog`, with no error and no continuation request, for every sufficiently large fuel.
Both print modes of the property (`compact` = false/true with `allParens = false`) and the two all-parentheses modes.

The heart is `RT.gpx_node`: Pratt parsing inverts the printer's minimal-parenthesis rule (an operand is put in
parentheses iff its operator's precedence is below the context's `ExpressionPrecedence`; right operands are printed
one level up), proved by induction on the tree over the generated precedence and registration tables.

INSIDE the fragment (`PrintTokens.fragN` / `fragS`, decidable, per print mode) — every node kind of the language except comments:
  * expressions: identifiers and `..`; integer, float, string and boolean literals; `break` / `continue`; the seven prefix operators
    `! - + ++ -- ~ ^`; postfix `x++` / `x--`; all 21 binary operators registered with parseInfixExpression
    (`= := || && : == != < <= > >= + - | ^ * % & << >> /`, hence slices `a[i:j]`); the open-ended slice `a[n:]`; calls `f(a, b)`;
    the builtins `len first rest print println log error catch quote unquote del` with their argument lists; index `a[i]` and
    `a.b` / `a.(e)` / `(1).b` (with the printer's parentheses around non-single-token and number operands of a dot); array
    literals; map literals `{k: v, …}`; function literals `func name(a, b, ..) { … }` (named or not, variadic or not); lambdas
    `x => { … }`, `(a, b, ..) => { … }`, `() => { … }` (with the printer's parentheses in operand position); macros
    `macro(a, b) { … }`; `for cond { … }`; `if cond { … }`, `… else { … }` and `… else if …` chains;
  * statement lists (a program, and every block): expression statements and `return e`; a bare `return` only as the last
    statement; in NORMAL mode without all-parens no statement but the first of its list starts with `-`, `+`, `^`, `++`, `--`;
  * trees need NOT come from the parser (any nesting, e.g. `(a + b) * c`, `-(a * b)`, `(a = b)[c]`, `if (if a {b}) {c}`, `(x => {x})(1)`).

OUTSIDE (not covered): comments (any position); an open-ended `n:` that is not directly the index of `a[…]`
(`a[b || c:]` parses as `b || (c:)`); line mode (EOL end marker).
Recorded OPEN finding classes that show the FULL statement (`Statement`) is false of the code, all outside the fragment:
  * repeated-associative-operator-on-the-right (`a + (b + c)` printed `a + b + c`): excluded by `fragN` on `.infix`
    (`!sameAssociativeOperator`), see `outside_fragment_assoc`;
  * statement-starts-with-prefix-operator (normal mode): excluded by `fragS`, see `outside_fragment_stmt`
    (compact mode prints such a statement in parentheses and IS covered);
  * comment-inside-expression: comments are not in the fragment.
Found by the `printtokens` suite while tying `progToks` to the code and since repaired in the code (e5e6eb7): `a.(..)` was printed
`a...`, which the lexer reads `a`, `..`, `.`; the index `..` (and `..++`) now keeps its parentheses, `Printer.isSingleToken` and hence
`progToks` follow, and these trees are INSIDE the fragment.
The link "lexing the printed bytes gives `progToks`" is not a theorem: it is checked on every case of the `printtokens`
suite (real printer, real lexer; ~2.4·10^4 in-fragment programs per quick run, 4 modes each; ~3·10^5 thorough). -/
theorem roundtrip_partial (compact allParens : Bool) (prog : NList) (hfrag : fragProg compact allParens prog = true)
    (s : TokStream) (hs : s.toks.map key = progKeys compact allParens prog) :
    ∃ F, ∀ fuel, F ≤ fuel → parseProgram s fuel = .ok { program := prog, errors := 0, cont := false } :=
  parse_rendered compact allParens prog hfrag s hs

/-- the stream with all positions zero is one such stream -/
theorem roundtrip_streamOf (compact allParens : Bool) (prog : NList) (hfrag : fragProg compact allParens prog = true) :
    ∃ F, ∀ fuel, F ≤ fuel →
      parseProgram (streamOf (progToks compact allParens prog)) fuel = .ok { program := prog, errors := 0, cont := false } :=
  roundtrip_partial compact allParens prog hfrag _ (by simp [streamOf, progKeys])

/-- "lexing the printed text of a program of the fragment gives its token rendering": what the `printtokens` suite
checks case by case for the real lexer and the real printer (whose bytes the `format` suite compares with the model's) -/
def PrintLex (lex : Bytes → TokStream) (tbl : Nat → Bool) : Prop :=
  ∀ compact prog, fragProg compact false prog = true →
    ∃ out, printProgram tbl prog compact false = .ok out ∧ (lex out).toks.map key = progKeys compact false prog

/-- `Statement` restricted to the programs of the fragment, relative to `PrintLex`: the shape of `StatementAt`, with the
fuel of the second parse chosen large enough (the re-parsed program is EQUAL to the original, which is stronger than `sameTree`) -/
theorem roundtrip_partial_lex (lex : Bytes → TokStream) (tbl : Nat → Bool) (hlex : PrintLex lex tbl)
    (src : Bytes) (fuel : Nat) (prog : NList) (_hp : valid (parseProgram (lex src) fuel) = some prog)
    (compact : Bool) (hfrag : fragProg compact false prog = true) :
    ∃ out prog', printProgram tbl prog compact false = .ok out ∧
      (∃ F, ∀ fuel', F ≤ fuel' → valid (parseProgram (lex out) fuel') = some prog') ∧ sameTree compact prog' prog := by
  obtain ⟨out, hout, hk⟩ := hlex compact prog hfrag
  obtain ⟨F, hF⟩ := roundtrip_partial compact false prog hfrag (lex out) hk
  exact ⟨out, prog, hout, ⟨F, fun fuel' h => by rw [hF fuel' h]; rfl⟩, rfl⟩

/-! ### non-vacuity and the boundary of the fragment -/

/-- `a + b * (c - d) < -e` -/
def exTree : Node :=
  .infix ⟨.LT, [60]⟩ (some (.infix ⟨.PLUS, [43]⟩ (some (.ident ⟨.IDENT, [97]⟩))
      (some (.infix ⟨.ASTERISK, [42]⟩ (some (.ident ⟨.IDENT, [98]⟩))
         (some (.infix ⟨.MINUS, [45]⟩ (some (.ident ⟨.IDENT, [99]⟩)) (some (.ident ⟨.IDENT, [100]⟩))))))))
    (some (.pre ⟨.MINUS, [45]⟩ (some (.ident ⟨.IDENT, [101]⟩))))

/-- `f(a, [1, "s"])[i].x = !b` then `(a + b) * c` -/
def exProg : NList :=
  [some (.infix ⟨.ASSIGN, [61]⟩
     (some (.index ⟨.DOT, [46]⟩
        (some (.index ⟨.LBRACKET, [91]⟩
          (some (.call ⟨.LPAREN, [40]⟩ (some (.ident ⟨.IDENT, [102]⟩))
            [some (.ident ⟨.IDENT, [97]⟩), some (.array ⟨.LBRACKET, [91]⟩ [some (.intLit ⟨.INT, [49]⟩), some (.strLit ⟨.STRING, [115]⟩)])]))
          (some (.ident ⟨.IDENT, [105]⟩))))
        (some (.ident ⟨.IDENT, [120]⟩))))
     (some (.pre ⟨.BANG, [33]⟩ (some (.ident ⟨.IDENT, [98]⟩))))),
   some (.infix ⟨.ASTERISK, [42]⟩
     (some (.infix ⟨.PLUS, [43]⟩ (some (.ident ⟨.IDENT, [97]⟩)) (some (.ident ⟨.IDENT, [98]⟩))))
     (some (.ident ⟨.IDENT, [99]⟩)))]

/-- `func f(a, ..) { if a < 1 { return a } else if !a { x++ } else { break }; for a { print(a) }; return }` -/
def exFunc : NList :=
  [some (.func ⟨.FUNC, [102, 117, 110, 99]⟩ (some ⟨.IDENT, [102]⟩)
    [some (.ident ⟨.IDENT, [97]⟩), some (.ident ⟨.DOTDOT, [46, 46]⟩)]
    (some [
      some (.ifE ⟨.IF, [105, 102]⟩ (some (.infix ⟨.LT, [60]⟩ (some (.ident ⟨.IDENT, [97]⟩)) (some (.intLit ⟨.INT, [49]⟩))))
        (some [some (.ret ⟨.RETURN, [114, 101, 116, 117, 114, 110]⟩ (some (.ident ⟨.IDENT, [97]⟩)))])
        (some [some (.ifE ⟨.IF, [105, 102]⟩ (some (.pre ⟨.BANG, [33]⟩ (some (.ident ⟨.IDENT, [97]⟩))))
          (some [some (.post ⟨.INCR, [43, 43]⟩ ⟨.IDENT, [120]⟩)])
          (some [some (.control ⟨.BREAK, [98, 114, 101, 97, 107]⟩)]))])),
      some (.forE ⟨.FOR, [102, 111, 114]⟩ (some (.ident ⟨.IDENT, [97]⟩))
        (some [some (.builtin ⟨.PRINT, [112, 114, 105, 110, 116]⟩ [some (.ident ⟨.IDENT, [97]⟩)])])),
      some (.ret ⟨.RETURN, [114, 101, 116, 117, 114, 110]⟩ none)])
    true false)]

/-- `m = {"k": x => {x + 1}, 2: (a, b) => {a[b:]}}` then `m.k(3)` -/
def exMap : NList :=
  [some (.infix ⟨.ASSIGN, [61]⟩ (some (.ident ⟨.IDENT, [109]⟩))
     (some (.mapLit ⟨.LBRACE, [123]⟩
       [some (.strLit ⟨.STRING, [107]⟩),
        some (.func ⟨.LAMBDA, [61, 62]⟩ none [some (.ident ⟨.IDENT, [120]⟩)]
          (some [some (.infix ⟨.PLUS, [43]⟩ (some (.ident ⟨.IDENT, [120]⟩)) (some (.intLit ⟨.INT, [49]⟩)))]) false true),
        some (.intLit ⟨.INT, [50]⟩),
        some (.func ⟨.LAMBDA, [61, 62]⟩ none [some (.ident ⟨.IDENT, [97]⟩), some (.ident ⟨.IDENT, [98]⟩)]
          (some [some (.index ⟨.LBRACKET, [91]⟩ (some (.ident ⟨.IDENT, [97]⟩))
            (some (.infix ⟨.COLON, [58]⟩ (some (.ident ⟨.IDENT, [98]⟩)) none)))]) false true)]))),
   some (.call ⟨.LPAREN, [40]⟩ (some (.index ⟨.DOT, [46]⟩ (some (.ident ⟨.IDENT, [109]⟩)) (some (.ident ⟨.IDENT, [107]⟩))))
     [some (.intLit ⟨.INT, [51]⟩)])]

/-- maps, lambdas and the open-ended slice are in the fragment, rendered `m = { "k" : x => { x + 1 } , 2 : ( a , b ) => { a [ b : ] } } m . k ( 3 )` -/
example : fragProg false false exMap = true ∧ fragProg true false exMap = true ∧
    (progToks false false exMap).map (·.type) =
    [.IDENT, .ASSIGN, .LBRACE, .STRING, .COLON, .IDENT, .LAMBDA, .LBRACE, .IDENT, .PLUS, .INT, .RBRACE, .COMMA,
     .INT, .COLON, .LPAREN, .IDENT, .COMMA, .IDENT, .RPAREN, .LAMBDA, .LBRACE, .IDENT, .LBRACKET, .IDENT, .COLON, .RBRACKET, .RBRACE, .RBRACE,
     .IDENT, .DOT, .IDENT, .LPAREN, .INT, .RPAREN] := by decide

example : ∃ F, ∀ fuel, F ≤ fuel →
    parseProgram (streamOf (progToks false false exMap)) fuel = .ok { program := exMap, errors := 0, cont := false } :=
  roundtrip_streamOf false false exMap (by decide)

/-- the hypotheses are met by non-trivial programs: the expression is in the fragment in every mode … -/
example : fragProg false false [some exTree] = true ∧ fragProg true false [some exTree] = true
    ∧ fragProg false false exProg = true ∧ fragProg true true exProg = true
    ∧ fragProg false false exFunc = true ∧ fragProg true false exFunc = true := by decide

/-- … so is a function with a variadic parameter, an `if` / `else if` / `else` chain, a loop and `return`s, rendered
`func f ( a , .. ) { if a < 1 { return a } else if ! a { x ++ } else { break } for a { print ( a ) } return }` … -/
example : (progToks false false exFunc).map (·.type) =
    [.FUNC, .IDENT, .LPAREN, .IDENT, .COMMA, .DOTDOT, .RPAREN, .LBRACE,
     .IF, .IDENT, .LT, .INT, .LBRACE, .RETURN, .IDENT, .RBRACE, .ELSE, .IF, .BANG, .IDENT, .LBRACE, .IDENT, .INCR, .RBRACE,
     .ELSE, .LBRACE, .BREAK, .RBRACE, .FOR, .IDENT, .LBRACE, .PRINT, .LPAREN, .IDENT, .RPAREN, .RBRACE, .RETURN, .RBRACE] := by decide

example : ∃ F, ∀ fuel, F ≤ fuel →
    parseProgram (streamOf (progToks true false exFunc)) fuel = .ok { program := exFunc, errors := 0, cont := false } :=
  roundtrip_streamOf true false exFunc (by decide)

/-- … its rendering has the parentheses where the printer puts them: `a + b * (c - d) < -e` … -/
example : (progToks false false [some exTree]).map (·.type) =
    [.IDENT, .PLUS, .IDENT, .ASTERISK, .LPAREN, .IDENT, .MINUS, .IDENT, .RPAREN, .LT, .MINUS, .IDENT] := by decide

/-- … and the theorem applies -/
example : ∃ F, ∀ fuel, F ≤ fuel →
    parseProgram (streamOf (progToks false false exProg)) fuel = .ok { program := exProg, errors := 0, cont := false } :=
  roundtrip_streamOf false false exProg (by decide)

/-- `a + (b + c)` -/
def exAssoc : Node :=
  .infix ⟨.PLUS, [43]⟩ (some (.ident ⟨.IDENT, [97]⟩))
    (some (.infix ⟨.PLUS, [43]⟩ (some (.ident ⟨.IDENT, [98]⟩)) (some (.ident ⟨.IDENT, [99]⟩))))

/-- NOT in the fragment, and the known class "repeated-associative-operator-on-the-right" breaks it: the rendering
`a + b + c` (no parentheses: the printer's `sameAssociativeOperator` exception) parses back to `(a + b) + c` -/
theorem outside_fragment_assoc :
    fragProg false false [some exAssoc] = false
    ∧ (progToks false false [some exAssoc]).map (·.type) = [.IDENT, .PLUS, .IDENT, .PLUS, .IDENT]
    ∧ rightIsInfix [some exAssoc] = true
    ∧ rightIsInfix (progOf (streamOf (progToks false false [some exAssoc]))) = false
    ∧ (progOf (streamOf (progToks false false [some exAssoc]))).length = 1 := by decide

/-- `a` ; `-b` -/
def exStmts : NList := [some (.ident ⟨.IDENT, [97]⟩), some (.pre ⟨.MINUS, [45]⟩ (some (.ident ⟨.IDENT, [98]⟩)))]

/-- NOT in the NORMAL-mode fragment, and the known class "statement-starts-with-prefix-operator" breaks it: the
two statements come back as the one expression `a - b`; in COMPACT mode the second statement is printed `(-b)` and
the program is in the fragment -/
theorem outside_fragment_stmt :
    fragProg false false exStmts = false
    ∧ (progOf (streamOf (progToks false false exStmts))).length = 1
    ∧ fragProg true false exStmts = true
    ∧ (progToks true false exStmts).map (·.type) = [.IDENT, .LPAREN, .MINUS, .IDENT, .RPAREN]
    ∧ (progOf (streamOf (progToks true false exStmts))).length = 2 := by decide

end Grol.C02

import Grol.Parser
import Grol.Printer
import Grol.Classes
import GrolProofs.StreamWF
/-
C02 — print then parse gives the same tree.

There is no lexer model in this component, so the statement is relative to a lexer
`lex : Bytes → TokStream` (to be instantiated with the lexer model); `C02.Statement` is the full
property.  It is FALSE of the code as it stands (after the `fix:` commits): the witnesses below are
kernel-evaluated facts about the parser model on the token streams the REAL lexer produces for
the witness source and for the text the real printer (= the model printer, compared byte for byte by the suite)
produces for it; the printer model is defined by well-founded recursion and is not evaluated by `decide` (these streams are re-derived from the real code on
every run by the known-finding replay of the `format` suite, which also checks that the model's printed
text equals the real one).  `C02.Safe` is the complement of the recorded classes (Grol/Classes.lean).
Not proved: `Statement` restricted to `Safe` (a Pratt-parser/printer round-trip theorem; it also needs
the lexer model).
-/
namespace Grol.C02
open Grol Grol.Wire Grol.Parser Grol.Printer Grol.Generated

/-- tree equality up to token pointers; the layout flags of comments are ignored; in compact mode
statement-level comments (which compact printing omits by design) are ignored -/
def sameTree (compact : Bool) (a b : NList) : Prop := dumpProgram compact true a = dumpProgram compact true b

def valid (r : Res ParseResult) : Option NList :=
  match r with
  | .ok r => if r.errors = 0 ∧ r.cont = false then some r.program else none
  | _ => none

/-- C02 at one source text, for a lexer `lex`, the rune table `tbl` and fuel bound `fuel` -/
def StatementAt (lex : Bytes → TokStream) (tbl : Nat → Bool) (fuel : Nat) (src : Bytes) : Prop :=
  ∀ prog, valid (parseProgram (lex src) fuel) = some prog →
    ∀ compact, ∃ out prog', printProgram tbl prog compact false = .ok out ∧
      valid (parseProgram (lex out) fuel) = some prog' ∧ sameTree compact prog' prog

def Statement (lex : Bytes → TokStream) (tbl : Nat → Bool) : Prop :=
  ∀ src, ∃ fuel, StatementAt lex tbl fuel src

/-- outside every recorded class (decidable; `Classes.normalClasses`/`compactClasses` are what the
driver uses to classify failing cases) -/
def Safe (prog : NList) : Bool := (Classes.normalClasses prog).isEmpty && (Classes.compactClasses prog).isEmpty

/-! ### witnesses (token streams of the real lexer) -/

/-- real lexer, file mode, on `a; -b` -/
def stmtPrefix.src : TokStream :=
  { toks := [
    { type := .IDENT, lit := [97], posBefore := 0, posAfter := 1, hadWs := false, hadNl := false, lastNl := 0, num := .na },
    { type := .SEMICOLON, lit := [59], posBefore := 1, posAfter := 2, hadWs := false, hadNl := false, lastNl := 0, num := .na },
    { type := .MINUS, lit := [45], posBefore := 2, posAfter := 4, hadWs := true, hadNl := false, lastNl := 0, num := .na },
    { type := .IDENT, lit := [98], posBefore := 4, posAfter := 5, hadWs := false, hadNl := false, lastNl := 0, num := .na },
    { type := .EOF, lit := [], posBefore := 5, posAfter := 6, hadWs := false, hadNl := false, lastNl := 0, num := .na } ],
    eof := { type := .EOF, lit := [], posBefore := 6, posAfter := 7, hadWs := false, hadNl := false, lastNl := 0, num := .na }, inputLen := 5 }

/-- real lexer on the normal-mode text printed for it (hex 610a2d620a) -/
def stmtPrefix.normal : TokStream :=
  { toks := [
    { type := .IDENT, lit := [97], posBefore := 0, posAfter := 1, hadWs := false, hadNl := false, lastNl := 0, num := .na },
    { type := .MINUS, lit := [45], posBefore := 1, posAfter := 3, hadWs := true, hadNl := true, lastNl := 2, num := .na },
    { type := .IDENT, lit := [98], posBefore := 3, posAfter := 4, hadWs := false, hadNl := false, lastNl := 2, num := .na },
    { type := .EOF, lit := [], posBefore := 4, posAfter := 6, hadWs := true, hadNl := true, lastNl := 5, num := .na } ],
    eof := { type := .EOF, lit := [], posBefore := 6, posAfter := 7, hadWs := false, hadNl := false, lastNl := 5, num := .na }, inputLen := 5 }

/-- real lexer on the compact-mode text printed for it (hex 612d62) -/
def stmtPrefix.compact : TokStream :=
  { toks := [
    { type := .IDENT, lit := [97], posBefore := 0, posAfter := 1, hadWs := false, hadNl := false, lastNl := 0, num := .na },
    { type := .MINUS, lit := [45], posBefore := 1, posAfter := 2, hadWs := false, hadNl := false, lastNl := 0, num := .na },
    { type := .IDENT, lit := [98], posBefore := 2, posAfter := 3, hadWs := false, hadNl := false, lastNl := 0, num := .na },
    { type := .EOF, lit := [], posBefore := 3, posAfter := 4, hadWs := false, hadNl := false, lastNl := 0, num := .na } ],
    eof := { type := .EOF, lit := [], posBefore := 4, posAfter := 5, hadWs := false, hadNl := false, lastNl := 0, num := .na }, inputLen := 3 }

def stmtPrefix.normalText : Bytes := [97, 10, 45, 98, 10]
def stmtPrefix.compactText : Bytes := [97, 45, 98]

/-- real lexer, file mode, on `a + (b + c)` -/
def assocRight.src : TokStream :=
  { toks := [
    { type := .IDENT, lit := [97], posBefore := 0, posAfter := 1, hadWs := false, hadNl := false, lastNl := 0, num := .na },
    { type := .PLUS, lit := [43], posBefore := 1, posAfter := 3, hadWs := true, hadNl := false, lastNl := 0, num := .na },
    { type := .LPAREN, lit := [40], posBefore := 3, posAfter := 5, hadWs := true, hadNl := false, lastNl := 0, num := .na },
    { type := .IDENT, lit := [98], posBefore := 5, posAfter := 6, hadWs := false, hadNl := false, lastNl := 0, num := .na },
    { type := .PLUS, lit := [43], posBefore := 6, posAfter := 8, hadWs := true, hadNl := false, lastNl := 0, num := .na },
    { type := .IDENT, lit := [99], posBefore := 8, posAfter := 10, hadWs := true, hadNl := false, lastNl := 0, num := .na },
    { type := .RPAREN, lit := [41], posBefore := 10, posAfter := 11, hadWs := false, hadNl := false, lastNl := 0, num := .na },
    { type := .EOF, lit := [], posBefore := 11, posAfter := 12, hadWs := false, hadNl := false, lastNl := 0, num := .na } ],
    eof := { type := .EOF, lit := [], posBefore := 12, posAfter := 13, hadWs := false, hadNl := false, lastNl := 0, num := .na }, inputLen := 11 }

/-- real lexer on the normal-mode text printed for it (hex 61202b2062202b20630a) -/
def assocRight.normal : TokStream :=
  { toks := [
    { type := .IDENT, lit := [97], posBefore := 0, posAfter := 1, hadWs := false, hadNl := false, lastNl := 0, num := .na },
    { type := .PLUS, lit := [43], posBefore := 1, posAfter := 3, hadWs := true, hadNl := false, lastNl := 0, num := .na },
    { type := .IDENT, lit := [98], posBefore := 3, posAfter := 5, hadWs := true, hadNl := false, lastNl := 0, num := .na },
    { type := .PLUS, lit := [43], posBefore := 5, posAfter := 7, hadWs := true, hadNl := false, lastNl := 0, num := .na },
    { type := .IDENT, lit := [99], posBefore := 7, posAfter := 9, hadWs := true, hadNl := false, lastNl := 0, num := .na },
    { type := .EOF, lit := [], posBefore := 9, posAfter := 11, hadWs := true, hadNl := true, lastNl := 10, num := .na } ],
    eof := { type := .EOF, lit := [], posBefore := 11, posAfter := 12, hadWs := false, hadNl := false, lastNl := 10, num := .na }, inputLen := 10 }

/-- real lexer on the compact-mode text printed for it (hex 612b622b63) -/
def assocRight.compact : TokStream :=
  { toks := [
    { type := .IDENT, lit := [97], posBefore := 0, posAfter := 1, hadWs := false, hadNl := false, lastNl := 0, num := .na },
    { type := .PLUS, lit := [43], posBefore := 1, posAfter := 2, hadWs := false, hadNl := false, lastNl := 0, num := .na },
    { type := .IDENT, lit := [98], posBefore := 2, posAfter := 3, hadWs := false, hadNl := false, lastNl := 0, num := .na },
    { type := .PLUS, lit := [43], posBefore := 3, posAfter := 4, hadWs := false, hadNl := false, lastNl := 0, num := .na },
    { type := .IDENT, lit := [99], posBefore := 4, posAfter := 5, hadWs := false, hadNl := false, lastNl := 0, num := .na },
    { type := .EOF, lit := [], posBefore := 5, posAfter := 6, hadWs := false, hadNl := false, lastNl := 0, num := .na } ],
    eof := { type := .EOF, lit := [], posBefore := 6, posAfter := 7, hadWs := false, hadNl := false, lastNl := 0, num := .na }, inputLen := 5 }

def assocRight.normalText : Bytes := [97, 32, 43, 32, 98, 32, 43, 32, 99, 10]
def assocRight.compactText : Bytes := [97, 43, 98, 43, 99]

def progOf (s : TokStream) : NList := (valid (parseProgram s 40)).getD []

/-- `a; -b` (two statements) is printed `a⏎-b⏎`, which parses to ONE statement `a - b`:
class "statement-starts-with-prefix-operator" -/
theorem witness_statement_starts_with_prefix_operator :
    (valid (parseProgram stmtPrefix.src 40)).isSome = true
    ∧ (valid (parseProgram stmtPrefix.normal 40)).isSome = true
    ∧ (progOf stmtPrefix.src).length = 2 ∧ (progOf stmtPrefix.normal).length = 1 := by
  decide

def rightIsInfix : NList → Bool
  | [some (.infix _ _ (some (.infix ..)))] => true
  | _ => false

/-- `a + (b + c)` is printed `a + b + c`, which parses to `(a + b) + c`:
class "repeated-associative-operator-on-the-right" (pinned by the repo's own test) -/
theorem witness_repeated_associative_operator :
    (valid (parseProgram assocRight.src 40)).isSome = true
    ∧ (valid (parseProgram assocRight.normal 40)).isSome = true
    ∧ rightIsInfix (progOf assocRight.src) = true ∧ rightIsInfix (progOf assocRight.normal) = false := by
  decide

/-- the witness streams satisfy the lexer facts the parser theorem assumes -/
example : StreamWF stmtPrefix.src := streamWF_of_b (by decide)

end Grol.C02

import Grol.AutoSave
/- C18: theorems (in progress) -/

import Grol.AutoSave
import Grol.Generated.IOFacts
/-
C18 — auto-save is crash-atomic.

Theorems about the protocol model `Grol.AutoSave` (tied to repl.AutoSave / Environment.SaveGlobals
by the `autosave` suite, which kills a real child process at every crash point and injects write
failures, and by the generated call order below).  Quantifiers: every old content of `.gr`
including "no file" (`fs .gr : Option Bytes`), every file system around it, every new state (any
list of lines), every fault: death after any number of completed steps with any fragment of the
in-flight write, or an error return of any step with any kept prefix.

Trusted assumptions (in the model's `applyStep`/`inFlight`): rename(2) replaces the target
atomically with respect to process death, completed writes and renames survive it, and
os.CreateTemp returns a name other than ".gr".  Power loss / fsync are outside the property.
-/
namespace Grol.AutoSave
open Grol.Wire

@[simp] theorem FS.set_same (fs : FS) (n : Name) (v : Option Bytes) : (fs.set n v) n = v := by simp [FS.set]
@[simp] theorem FS.set_gr_temp (fs : FS) (t : Nat) (v : Option Bytes) : (fs.set (.temp t) v) .gr = fs .gr := by simp [FS.set]
theorem FS.set_other (fs : FS) (n m : Name) (v : Option Bytes) (h : m ≠ n) : (fs.set n v) m = fs m := by simp [FS.set, h]

/-- the outcome is "old and not a success" or "new and not an error" -/
def Good (old : Option Bytes) (new : Bytes) (r : FS × Ret) : Prop :=
  (r.1 .gr = old ∧ r.2 ≠ .ok) ∨ (r.1 .gr = some new ∧ r.2 ≠ .err)

/-- the writes and the rename, from a state where the temp file holds `acc` -/
theorem run_writes (t : Nat) (fault : Fault) (ws : List Bytes) :
    ∀ (acc : Bytes) (fs : FS) (idx : Nat), fs (.temp t) = some acc →
      Good (fs .gr) (acc ++ ws.flatten) (run t fault fs idx (ws.map Step.write ++ [Step.rename])) := by
  induction ws with
  | nil =>
    intro acc fs idx hacc
    simp only [List.map_nil, List.nil_append, List.flatten_nil, List.append_nil]
    cases fault with
    | none => right; simp [run, applyStep, hacc]
    | crash k frag =>
      by_cases hk : k = idx
      · left; simp [run, hk, inFlight]
      · right
        by_cases hk2 : k = idx + 1 <;> simp [run, hk, hk2, applyStep, hacc]
    | fail i keep =>
      by_cases hi : i = idx
      · left; simp [run, hi, failed]
      · right; simp [run, hi, applyStep, hacc]
  | cons w ws ih =>
    intro acc fs idx hacc
    have step : ∀ r, Good ((applyStep t fs (.write w)) .gr) ((acc ++ w) ++ ws.flatten) r →
        Good (fs .gr) (acc ++ (w :: ws).flatten) r := by
      intro r h
      simpa [applyStep, List.append_assoc] using h
    have hnext : (applyStep t fs (.write w)) (.temp t) = some (acc ++ w) := by simp [applyStep, hacc]
    simp only [List.map_cons, List.cons_append]
    cases fault with
    | none =>
      simp only [run]
      exact step _ (ih (acc ++ w) _ (idx + 1) hnext)
    | crash k frag =>
      by_cases hk : k = idx
      · left; simp [run, hk, inFlight]
      · simp only [run, hk, if_false]
        exact step _ (ih (acc ++ w) _ (idx + 1) hnext)
    | fail i keep =>
      by_cases hi : i = idx
      · left; simp [run, hi, failed]
      · simp only [run, hi, if_false]
        exact step _ (ih (acc ++ w) _ (idx + 1) hnext)

theorem autoSave_good (t : Nat) (fault : Fault) (fs : FS) (lines : List Bytes) :
    Good (fs .gr) (newContent lines) (autoSave t fault fs true lines) := by
  have hw := run_writes t fault lines [] (applyStep t fs .createTemp) 1 (by simp [applyStep])
  have hgr : (applyStep t fs .createTemp) .gr = fs .gr := by simp [applyStep]
  rw [hgr, List.nil_append] at hw
  simp only [autoSave, Bool.not_true, Bool.false_eq_true, if_false, steps, newContent]
  cases fault with
  | none => simpa [run] using hw
  | crash k frag =>
    by_cases hk : k = 0
    · left; simp [run, hk, inFlight]
    · simpa [run, hk] using hw
  | fail i keep =>
    by_cases hi : i = 0
    · left; simp [run, hi, failed]
    · simpa [run, hi] using hw

/-- **C18, atomicity**: whatever the old content (or no file), the new state, the crash index, the
in-flight fragment and the failing step, afterwards `.gr` holds the complete old version or the
complete new version. -/
theorem C18.atomic (t : Nat) (fault : Fault) (fs : FS) (changed : Bool) (lines : List Bytes) :
    (autoSave t fault fs changed lines).1 .gr = fs .gr ∨
    (autoSave t fault fs changed lines).1 .gr = some (newContent lines) := by
  cases changed with
  | false => left; simp [autoSave]
  | true =>
    rcases autoSave_good t fault fs lines with h | h
    · exact Or.inl h.1
    · exact Or.inr h.1

/-- **C18, a failed save leaves the old version** (AutoSave returned an error) -/
theorem C18.failure_keeps_old (t : Nat) (fault : Fault) (fs : FS) (changed : Bool) (lines : List Bytes)
    (h : (autoSave t fault fs changed lines).2 = .err) :
    (autoSave t fault fs changed lines).1 .gr = fs .gr := by
  cases changed with
  | false => simp [autoSave]
  | true =>
    rcases autoSave_good t fault fs lines with h' | h'
    · exact h'.1
    · exact absurd h h'.2

/-- a save that returns normally has installed the new version — or was skipped because nothing changed,
and then it touched nothing at all -/
theorem C18.success_installs_new (t : Nat) (fault : Fault) (fs : FS) (changed : Bool) (lines : List Bytes)
    (h : (autoSave t fault fs changed lines).2 = .ok) :
    if changed then (autoSave t fault fs changed lines).1 .gr = some (newContent lines)
    else (autoSave t fault fs changed lines).1 = fs := by
  cases changed with
  | false => simp [autoSave]
  | true =>
    simp only [if_true]
    rcases autoSave_good t fault fs lines with h' | h'
    · exact absurd h h'.2
    · exact h'.1

theorem run_frame (t : Nat) (fault : Fault) (n : Name) (hg : n ≠ .gr) (ht : n ≠ .temp t) (ss : List Step) :
    ∀ (fs : FS) (idx : Nat), (run t fault fs idx ss).1 n = fs n := by
  have hstep : ∀ (fs : FS) s, (applyStep t fs s) n = fs n := by
    intro fs s; cases s <;> simp [applyStep, FS.set, hg, ht]
  have hfl : ∀ (fs : FS) frag s, (inFlight t fs frag s) n = fs n := by
    intro fs frag s; cases s <;> simp [inFlight, FS.set, ht]
  have hfa : ∀ (fs : FS) keep s, (failed t fs keep s) n = fs n := by
    intro fs keep s; cases s <;> simp [failed, FS.set, ht]
  induction ss with
  | nil => intro fs idx; simp [run]
  | cons s rest ih =>
    intro fs idx
    cases fault with
    | none => simp only [run]; rw [ih, hstep]
    | crash k frag =>
      by_cases hk : k = idx
      · simp [run, hk, hfl]
      · simp only [run, hk, if_false]; rw [ih, hstep]
    | fail i keep =>
      by_cases hi : i = idx
      · simp [run, hi, hfa]
      · simp only [run, hi, if_false]; rw [ih, hstep]

/-- no file other than `.gr` and the temp file is ever touched -/
theorem C18.frame (t : Nat) (fault : Fault) (fs : FS) (changed : Bool) (lines : List Bytes) (n : Name)
    (hg : n ≠ .gr) (ht : n ≠ .temp t) : (autoSave t fault fs changed lines).1 n = fs n := by
  cases changed with
  | false => simp [autoSave]
  | true => simp only [autoSave, Bool.not_true, Bool.false_eq_true, if_false]; exact run_frame t fault n hg ht _ fs 0

/-! non-vacuity: a crash after the 2nd of 3 writes keeps the old file and leaves a partial temp file;
a crash after the rename has the new one; a failing write keeps the old one -/
def fs0 : FS := fun n => match n with | .gr => some [1] | .temp _ => none
example : (autoSave 7 (.crash 3 [9]) fs0 true [[2], [3], [4]]).1 .gr = some [1] := by decide
example : (autoSave 7 (.crash 3 [9]) fs0 true [[2], [3], [4]]).1 (.temp 7) = some [2, 3, 9] := by decide
example : (autoSave 7 (.crash 5 []) fs0 true [[2], [3], [4]]).1 .gr = some [2, 3, 4] := by decide
example : (autoSave 7 (.fail 2 1) fs0 true [[2], [3, 3], [4]]).1 .gr = some [1] ∧
    (autoSave 7 (.fail 2 1) fs0 true [[2], [3, 3], [4]]).2 = .err ∧
    (autoSave 7 (.fail 2 1) fs0 true [[2], [3, 3], [4]]).1 (.temp 7) = some [2, 3] := by decide
example : (autoSave 7 .none fs0 true [[2], [3], [4]]).1 .gr = some [2, 3, 4] := by decide

end Grol.AutoSave

namespace Grol.Generated.IOFacts

/-- **C18, order of the calls in repl.AutoSave** as extracted from the source: skip test, create the temp
file, write everything to it, rename it over `.gr` — the step list of the model.  A variant that
writes to `.gr` directly or renames first changes this list (or the file sites below). -/
theorem C18.autosave_call_order :
    autoSaveCalls = ["s.UpdateNumSet()", "os.CreateTemp(\".\", \".grol*.tmp\")", "s.SaveGlobals(f)",
                     "os.Rename(f.Name(), AutoSaveFile)", "f.Name()"] := by decide

/-- the only file-system calls of AutoSave are the temp file creation and the rename -/
theorem C18.autosave_file_sites :
    (fileSites.filter (·.fn == "AutoSave")).map (fun s => (s.callee, s.args)) =
      [("os.CreateTemp", "\".\", \".grol*.tmp\""), ("os.Rename", "f.Name(), AutoSaveFile")] := by decide

/-- SaveGlobals writes to its output in exactly two places, each once per binding of the sorted key loop -/
theorem C18.saveglobals_writes :
    saveGlobalsWrites = ["fmt.Fprintf(to, \"%s\\n\", f.Inspect())", "fmt.Fprintf(to, \"%s=%s\\n\", k, val)"] := by decide

end Grol.Generated.IOFacts

import GrolProofs.RenMain
import GrolProofs.Props.C10
import GrolProofs.Props.C07
/-
C10 — a failed input leaves no trace in the session: the heap-extension simulation.

`Grol.C10.renaming_invariance` is the general two-state theorem: if the state `s` of one run is the
state `t` of another up to a shift `σ` of the frame indices (`Grol.R.StR σ s t`: `s` may hold extra,
unreachable frames at the indices `[σ.n0, σ.n0 + σ.d)`; the miss counters, can't-cache flags and set
counters of the frames below `σ.n0` and the instrumentation log may differ; the caches are equal up
to the renaming), then evaluating ANY syntax tree with ANY fuel from `s` and from `t` ends the same
way — both normally with results equal up to the renaming, or both with the same stop — in states
that are related again.  It is proved by a simulation over the whole evaluator model
(lean/GrolProofs/Ren{Base,Val,Env,Ops,Helpers,Main}.lean, one lemma per function, induction on the
fuel for the 19 mutually recursive functions).

From it: one REPL input (`runInput_sim`), a continuation of inputs (`runInputs_sim`), and the
statement of C10 from its own hypotheses (`statement_core`): after a failed input that only left
unreachable frames, counters and log entries behind, every continuation produces the same output,
error flag and panic kind for every input, and results equal up to the renaming.

`C10.Statement` itself also compares the RENDERED result (`InputObs.val = renderValue st v`);
`renderValue` (lean/Grol/Eval/Sexp.lean) is a total function — structural over the value, with a bound
of 1000 on the references followed in a row — and `renderValue_ren` shows it invariant under the
renaming (functions render by their cache key, references as their target).  Hence
`statement_full : C10.Statement`, without any hypothesis.
-/
namespace Grol.C10
open Grol.E Grol.R

/-- **Renaming invariance** (the two-run theorem, also what C04's determinism argument needs) -/
theorem renaming_invariance (σ : Sh) (fuel : Nat) (prog : Node) (s t : St) (hR : StR σ s t) :
    match outcome (eval fuel prog) s, outcome (eval fuel prog) t with
    | .ok a, .ok b => a = ren σ b ∧ StR σ (stateAfter (eval fuel prog) s) (stateAfter (eval fuel prog) t)
    | .error e, .error e' => e = e' ∧ StR σ (stateAfter (eval fuel prog) s) (stateAfter (eval fuel prog) t)
    | _, _ => False := by
  have h := (simSpec_all σ fuel).eval prog s t hR
  unfold SimAt at h
  rw [outcome_eq, outcome_eq, stateAfter_eq, stateAfter_eq]
  generalize runM (eval fuel prog) s = rs at h
  generalize runM (eval fuel prog) t = rt at h
  obtain ⟨ra, s'⟩ := rs
  obtain ⟨rb, t'⟩ := rt
  cases ra <;> cases rb <;> first | exact h.elim | exact ⟨h.1, h.2⟩ | exact ⟨h.2, h.1⟩

/-! ### one input, a continuation of inputs -/

/-- the one fact about the (kernel-opaque, `partial def`) renderer that C10 needs: rendering a renamed
value in the state of run S gives what rendering the value in the state of run T gives -/
def RenderInv : Prop := ∀ (σ : Sh) (s t : St) (v : Obj), StR σ s t → renderValue s (ren σ v) = renderValue t v

/-- the observations of one input in the two runs: same decline reason, or same output, error flag
and panic kind — and the same rendered value if the renderer is invariant -/
def ObsR : Except String InputObs → Except String InputObs → Prop
  | .ok a, .ok b => a.out = b.out ∧ a.isErr = b.isErr ∧ a.panic = b.panic ∧ (RenderInv → a.val = b.val)
  | .error a, .error b => a = b
  | _, _ => False

theorem runInput_sim (σ : Sh) (s t : St) (p : Node) (hR : StR σ s t) :
    StR σ (runInput s p).1 (runInput t p).1 ∧ ObsR (runInput s p).2 (runInput t p).2 := by
  rw [runInput_eq, runInput_eq]
  by_cases hm : mentions unmodelledRootNames p = true
  · rw [if_pos hm, if_pos hm]; exact ⟨hR, rfl⟩
  · rw [if_neg hm, if_neg hm]
    have hR0 : StR σ (startInput s) (startInput t) :=
      ⟨hR.cfg, hR.extNames, hR.depth, rfl, rfl, hR.cache, hR.cur, hR.root, hR.size, hR.n0, hR.pos, hR.frames, hR.dec⟩
    have h := renaming_invariance σ defaultFuel p _ _ hR0
    generalize outcome (eval defaultFuel p) (startInput s) = rs at h
    generalize outcome (eval defaultFuel p) (startInput t) = rt at h
    generalize stateAfter (eval defaultFuel p) (startInput s) = s1 at h
    generalize stateAfter (eval defaultFuel p) (startInput t) = t1 at h
    cases rs with
    | ok a =>
      cases rt with
      | ok b =>
        obtain ⟨rfl, h1⟩ := h
        exact ⟨h1, by simp only [finishInput, ObsR, h1.outs, ren_isError, true_and]; exact fun hren => hren σ s1 t1 b h1⟩
      | error e' => exact h.elim
    | error e =>
      cases rt with
      | ok b => exact h.elim
      | error e' =>
        obtain ⟨rfl, h1⟩ := h
        have hreset : StR σ { s1 with cur := s1.root, depth := 0 } { t1 with cur := t1.root, depth := 0 } :=
          ⟨h1.cfg, h1.extNames, rfl, h1.steps, h1.outs, h1.cache, h1.root, h1.root, h1.size, h1.n0, h1.pos, h1.frames,
            h1.dec⟩
        cases e with
        | goPanic site => exact ⟨hreset, by simp only [finishInput, ObsR, h1.outs, true_and, implies_true, and_self]⟩
        | depthGuard => exact ⟨hreset, by simp only [finishInput, ObsR, h1.outs, true_and, implies_true, and_self]⟩
        | fuel => exact ⟨h1, rfl⟩
        | unmodelled w => exact ⟨h1, rfl⟩

/-- pointwise related lists -/
inductive AllR (r : α → β → Prop) : List α → List β → Prop
  | nil : AllR r [] []
  | cons {a b l l'} : r a b → AllR r l l' → AllR r (a :: l) (b :: l')

theorem runInputs_sim (σ : Sh) : ∀ (ps : List Node) (s t : St), StR σ s t →
    AllR ObsR (runInputs s ps) (runInputs t ps)
  | [], _, _, _ => .nil
  | p :: ps, s, t, hR => by
    obtain ⟨h1, h2⟩ := runInput_sim σ s t p hR
    exact .cons h2 (runInputs_sim σ ps _ _ h1)

/-- what the user sees of an input, without the rendered value -/
def visible0 (r : Except String InputObs) : Except String (Grol.Wire.Bytes × Bool × String) :=
  r.map fun o => (o.out, o.isErr, o.panic)

theorem visible0_of_obsR {a b : Except String InputObs} (h : ObsR a b) : visible0 a = visible0 b := by
  cases a <;> cases b <;> simp only [ObsR] at h
  · subst h; rfl
  · simp only [visible0, Except.map, h.1, h.2.1, h.2.2.1]

theorem map_visible0_of_allR : ∀ {l l' : List (Except String InputObs)}, AllR ObsR l l' →
    l.map visible0 = l'.map visible0
  | _, _, .nil => rfl
  | _, _, .cons h hs => by simp only [List.map_cons, visible0_of_obsR h, map_visible0_of_allR hs]

/-! ### the relation at the point where the runs diverge -/

mutual
theorem ren_of_ok (σ : Sh) : ∀ (o : Obj), okObj σ.n0 o = true → ren σ o = o
  | .array els, h => by
    simp only [okObj] at h; simp only [ren]; rw [renL_of_ok σ els h]
  | .map _ kvs, h => by
    simp only [okObj] at h; simp only [ren]; rw [renP_of_ok σ kvs h]
  | .func f, h => by
    simp only [okObj, decide_eq_true_eq] at h
    simp only [ren, renFn, sh_of_lt σ h]
  | .ret v _, h => by
    simp only [okObj] at h; simp only [ren]; rw [ren_of_ok σ v h]
  | .ref e _, h => by
    simp only [okObj, decide_eq_true_eq] at h
    simp only [ren, sh_of_lt σ h]
  | .null, _ | .bool _, _ | .int _, _ | .float _, _ | .str _, _ | .ext _, _ | .error _, _ | .quote _, _ => rfl
theorem renL_of_ok (σ : Sh) : ∀ (l : List Obj), okList σ.n0 l = true → renL σ l = l
  | [], _ => rfl
  | x :: xs, h => by
    simp only [okList, Bool.and_eq_true] at h
    simp only [renL]; rw [ren_of_ok σ x h.1, renL_of_ok σ xs h.2]
theorem renP_of_ok (σ : Sh) : ∀ (l : List (Obj × Obj)), okPairs σ.n0 l = true → renP σ l = l
  | [], _ => rfl
  | (k, v) :: xs, h => by
    simp only [okPairs, Bool.and_eq_true] at h
    simp only [renP]; rw [ren_of_ok σ k h.1.1, ren_of_ok σ v h.1.2, renP_of_ok σ xs h.2]
end

theorem renStore_of_ok (σ : Sh) : ∀ (store : List (String × Obj)),
    (∀ k v, (k, v) ∈ store → okObj σ.n0 v = true) → renStore σ store = store
  | [], _ => rfl
  | (k, v) :: rest, h => by
    simp only [renStore, List.map_cons]
    rw [ren_of_ok σ v (h k v List.mem_cons_self)]
    congr 1
    exact renStore_of_ok σ rest (fun k' v' hm => h k' v' (List.mem_cons_of_mem _ hm))

theorem cacheR_refl (σ : Sh) : ∀ (l : List CacheEntry), (∀ c, c ∈ l → okObj σ.n0 c.result = true) → CacheR σ l l
  | [], _ => .nil
  | c :: rest, h =>
    .cons ⟨rfl, rfl, (ren_of_ok σ _ (h c List.mem_cons_self)).symm, fun _ => rfl⟩
      (cacheR_refl σ rest (fun c' hc => h c' (List.mem_cons_of_mem _ hc)))

/-- the shift between a state and a heap extension of it -/
def shiftOf (st st' : St) : Sh := ⟨st.frames.size, st'.frames.size - st.frames.size⟩

/-- a top-level state and a heap extension of it (same configuration, same cache) are related, once
the writer stack and the step counter are reset as every input does -/
theorem stR_of_heapExtends (st st' : St) (hI : Inv st) (htop : AtTop st) (htop' : AtTop st')
    (hk : Keeps st st') (hext : C10.HeapExtends st st') (hc : st'.cache = st.cache) :
    StR (shiftOf st st') (startInput st') (startInput st) := by
  obtain ⟨hsz, hfr⟩ := hext
  have hroot := hI.root
  refine ⟨hk.cfg, hk.extNames, by show st'.depth = st.depth; rw [htop.2, htop'.2], rfl, rfl, ?_, ?_, ?_, ?_, Nat.le_refl _, ?_, ?_, ?_⟩
  · show CacheR _ st'.cache st.cache
    rw [hc]
    exact cacheR_refl _ _ hI.cache
  · show st'.cur = sh _ st.cur
    rw [htop'.1, htop.1, hk.root, sh_of_lt _ (show st.root < (shiftOf st st').n0 from hroot)]
  · show st'.root = sh _ st.root
    rw [hk.root, sh_of_lt _ (show st.root < (shiftOf st st').n0 from hroot)]
  · show st'.frames.size = st.frames.size + (st'.frames.size - st.frames.size)
    omega
  · show 0 < st.frames.size
    omega
  · intro i ft hi
    have hi : st.frames[i]? = some ft := hi
    have hlt : i < st.frames.size := lt_of_frame hi
    have hlt' : i < st'.frames.size := by omega
    have hft : st.frames[i] = ft := by
      rw [Array.getElem?_eq_getElem hlt] at hi; exact Option.some.inj hi
    obtain ⟨h1, h2, h3, h4, h5, h6⟩ := hfr i hlt hlt'
    rw [hft] at h1 h2 h3 h4 h5 h6
    have hok := hI.frames i ft hi
    refine ⟨st'.frames[i], ?_, ?_⟩
    · show (startInput st').frames[sh _ i]? = _
      rw [sh_of_lt _ (show i < (shiftOf st st').n0 from hlt)]
      exact Array.getElem?_eq_getElem hlt'
    · refine ⟨?_, ?_, h3, h4, ?_, fun h => absurd h (by show ¬ st.frames.size ≤ i; omega), h6⟩
      · rw [h1, renStore_of_ok]
        intro k v hm
        exact (hok.store k v hm).1
      · rw [h2]
        cases ho : ft.outer with
        | none => rfl
        | some o =>
          have := (hok.outer o ho).1
          simp only [Option.map]
          rw [sh_of_lt _ (show o < (shiftOf st st').n0 by show o < st.frames.size; omega)]
      · rw [h5]
        cases hf : ft.function with
        | none => rfl
        | some fn =>
          have := hok.func fn hf
          simp only [Option.map, renFn]
          rw [sh_of_lt _ (show fn.env < (shiftOf st st').n0 from this)]
  · intro i f hi
    have hi : st.frames[i]? = some f := hi
    have hok := hI.frames i f hi
    refine ⟨fun o ho => (hok.outer o ho).1, ?_⟩
    intro k e n hm
    exact ((hok.store k _ hm).2 e n rfl).1

theorem visible_of_obsR (hren : RenderInv) {a b : Except String InputObs} (h : ObsR a b) :
    C10.visible a = C10.visible b := by
  cases a <;> cases b <;> simp only [ObsR] at h
  · subst h; rfl
  · simp only [C10.visible, Except.map, h.1, h.2.1, h.2.2.1, h.2.2.2 hren]

theorem map_visible_of_allR (hren : RenderInv) : ∀ {l l' : List (Except String InputObs)}, AllR ObsR l l' →
    l.map C10.visible = l'.map C10.visible
  | _, _, .nil => rfl
  | _, _, .cons h hs => by simp only [List.map_cons, visible_of_obsR hren h, map_visible_of_allR hren hs]

/-! ### the renderer of results is invariant under the renaming -/

mutual
theorem renderObjW_ren (σ : Sh) (kS kT : Nat → String → String) (hk : ∀ e n, kS (sh σ e) n = kT e n) :
    ∀ (v : Obj), renderObjW kS (ren σ v) = renderObjW kT v
  | .ret v _ => by simp only [ren, renderObjW]; rw [renderObjW_ren σ kS kT hk v]
  | .array els => by simp only [ren, renderObjW]; rw [renderListW_ren σ kS kT hk els]
  | .map _ kvs => by simp only [ren, renderObjW]; rw [renderPairsW_ren σ kS kT hk kvs]
  | .ref e n => by simp only [ren, renderObjW]; exact hk e n
  | .func f => by simp only [ren, renderObjW, renFn]
  | .null | .bool _ | .int _ | .float _ | .str _ | .ext _ | .error _ | .quote _ => by simp only [ren, renderObjW]
theorem renderListW_ren (σ : Sh) (kS kT : Nat → String → String) (hk : ∀ e n, kS (sh σ e) n = kT e n) :
    ∀ (l : List Obj), renderListW kS (renL σ l) = renderListW kT l
  | [] => rfl
  | x :: xs => by
    simp only [renL, renderListW]; rw [renderObjW_ren σ kS kT hk x, renderListW_ren σ kS kT hk xs]
theorem renderPairsW_ren (σ : Sh) (kS kT : Nat → String → String) (hk : ∀ e n, kS (sh σ e) n = kT e n) :
    ∀ (l : List (Obj × Obj)), renderPairsW kS (renP σ l) = renderPairsW kT l
  | [] => rfl
  | (a, b) :: xs => by
    simp only [renP, renderPairsW]
    rw [renderObjW_ren σ kS kT hk a, renderObjW_ren σ kS kT hk b, renderPairsW_ren σ kS kT hk xs]
end

theorem renderFuel_ren (σ : Sh) {s t : St} (hR : StR σ s t) :
    ∀ (fuel : Nat) (v : Obj), renderFuel s fuel (ren σ v) = renderFuel t fuel v
  | 0, v => by
    unfold renderFuel
    exact renderObjW_ren σ _ _ (fun _ _ => rfl) v
  | fuel + 1, v => by
    unfold renderFuel
    refine renderObjW_ren σ _ _ ?_ v
    intro e n
    cases hte : t.frames[e]? with
    | none => rw [hR.none hte]
    | some ft =>
      obtain ⟨fs, hfs, hfr⟩ := hR.frames e ft hte
      rw [hfs]
      dsimp only
      rw [hfr.store, lookupStore_ren]
      cases lookupStore ft.store n with
      | none => rfl
      | some w => exact renderFuel_ren σ hR fuel w

/-- **the renderer is invariant**: rendering a renamed value in the state of run S gives what rendering
the value in the state of run T gives (functions render by their cache key, references as their target) -/
theorem renderValue_ren (σ : Sh) {s t : St} (hR : StR σ s t) (v : Obj) :
    renderValue s (ren σ v) = renderValue t v :=
  renderFuel_ren σ hR 1000 v

theorem renderInv : RenderInv := fun σ _ _ v hR => renderValue_ren σ hR v

/-! ### C10 -/

/-- the pointwise form: from the hypotheses of `C10.Statement`, every input of every continuation is
observed the same way with and without the failed input -/
theorem statement_pointwise (st : St) (f : Node) (o : InputObs) (ps : List Node)
    (hreach : C10.Reachable st) (htop : AtTop st) (hf : (runInput st f).2 = .ok o)
    (hext : C10.HeapExtends st (runInput st f).1) (hcache : (runInput st f).1.cache = st.cache) :
    AllR ObsR (runInputs (runInput st f).1 ps) (runInputs st ps) := by
  have hI : Inv st := C07.reachable_inv st hreach
  have htop' := C10.reset st f o htop hf
  have hk := C10.runInput_keeps st f
  have hR := stR_of_heapExtends st (runInput st f).1 hI htop htop' hk hext hcache
  rw [C10.runInputs_congr (sameSession_startInput (runInput st f).1) ps,
    C10.runInputs_congr (sameSession_startInput st) ps]
  exact runInputs_sim _ ps _ _ hR

/-- **C10 without the rendered value**: from any reachable top-level state, an input that left only
unreachable frames, counters and log entries behind (every existing frame keeps its bindings, the
cache keeps its entries) is invisible to every continuation of inputs: same output, same error
flag, same panic kind, same decline reason for every later input.  (The hypotheses "the input
failed" and "it wrote nothing" of `C10.Statement` are not needed.) -/
theorem statement_core (st : St) (f : Node) (o : InputObs) (ps : List Node)
    (hreach : C10.Reachable st) (htop : AtTop st) (hf : (runInput st f).2 = .ok o)
    (hext : C10.HeapExtends st (runInput st f).1) (hcache : (runInput st f).1.cache = st.cache) :
    (runInputs (runInput st f).1 ps).map visible0 = (runInputs st ps).map visible0 :=
  map_visible0_of_allR (statement_pointwise st f o ps hreach htop hf hext hcache)

/-- `C10.Statement` from the invariance of the renderer (kept for reference; `renderInv` proves the hypothesis) -/
theorem statement (hren : RenderInv) : C10.Statement := by
  intro st f o ps hreach htop hf _ _ hext hcache
  exact map_visible_of_allR hren (statement_pointwise st f o ps hreach htop hf hext hcache)

/-- **C10, full strength, about the model** — no hypothesis -/
theorem statement_full : C10.Statement := statement renderInv

/-! ### non-vacuity: a failing input that allocates a frame -/

/-- `f = func(x) { x + "a" }` -/
def defProg : Node :=
  .stmts [.inf "ASSIGN" (.ident "f") (.fn none ["x"] false true "k" (.stmts [.inf "PLUS" (.ident "x") (.str [97])]))]
/-- `f(1)`: the error arises inside the call, after the callee's frame was allocated -/
def failProg : Node := .stmts [.call (.ident "f") [.int 1]]

/-- after `defProg`, the input `failProg` fails with an error result and leaves one extra frame behind
(so it is NOT covered by `C10.no_trace`, whose hypothesis is an unchanged heap); the existing frame
keeps its parent and the names it binds, the cache stays empty (checked by kernel evaluation; the
bound VALUES are not compared here because `Obj` has no decidable equality) -/
example :
    let st := stateAfter (eval 12 defProg) (startInput (initState {}))
    let r := finishInput (outcome (eval 16 failProg) (startInput st)) (stateAfter (eval 16 failProg) (startInput st))
    r.2.toOption.map (·.isErr) = some true ∧ st.frames.size = 1 ∧ r.1.frames.size = 2 ∧
      (r.1.frames[0]?).map (fun f => f.store.map (·.1)) = (st.frames[0]?).map (fun f => f.store.map (·.1)) ∧
      (r.1.frames[0]?).map Frame.outer = (st.frames[0]?).map Frame.outer ∧
      r.1.cache.length = 0 ∧ st.cache.length = 0 := by
  refine ⟨by decide +kernel, by decide +kernel, by decide +kernel, by decide +kernel, by decide +kernel,
    by decide +kernel, by decide +kernel⟩

end Grol.C10

import GrolProofs.TrieWF
/-
C20 — the completion index behaves as a set of words.

Statements about the model `Grol.Trie` (tied to /repo/trie/trie.go and repl/completion.go by
the `trie` correspondence suite).  Quantifiers: every insertion sequence `ws` (any words, any
order, duplicates and the empty word included), every query `w`/`p`.
-/
namespace Grol.Trie
open Grol.TrieSuite (bytesLt)

/-- membership holds exactly for the inserted non-empty words -/
theorem C20.contains_iff (ws : List (List UInt8)) (w : List UInt8) :
    contains (build ws) w = true ↔ (w ∈ ws ∧ w ≠ []) := by
  unfold build empty
  rw [contains_foldl_insert]
  cases w <;> simp [contains]

/-- a prefix query returns exactly the inserted non-empty words that start with the prefix,
each once and in byte order (strictly increasing), and the reported length is that of their
longest common prefix -/
theorem C20.prefixAll_spec (ws : List (List UInt8)) (p : List UInt8) :
    (∀ x, x ∈ (prefixAll (build ws) p).2 ↔ (x ∈ ws ∧ x ≠ [] ∧ p <+: x))
    ∧ (prefixAll (build ws) p).2.Pairwise (fun a b => bytesLt a b = true)
    ∧ ((prefixAll (build ws) p).2 ≠ [] → IsLCPLen (prefixAll (build ws) p).1 (prefixAll (build ws) p).2) := by
  have hs := allBytes_spec (pfx (build ws) p) p (wf_pfx _ _ (wf_build ws))
  refine ⟨fun x => ?_, hs.sorted, hs.lcp⟩
  unfold prefixAll
  rw [hs.mem]
  constructor
  · rintro ⟨w, rfl, hw⟩
    rw [← pfx_append] at hw
    have := (C20.contains_iff ws (p ++ w)).1 hw
    exact ⟨this.1, this.2, List.prefix_append p w⟩
  · rintro ⟨h1, h2, ⟨w, rfl⟩⟩
    refine ⟨w, rfl, ?_⟩
    rw [← pfx_append]
    exact (C20.contains_iff ws (p ++ w)).2 ⟨h1, h2⟩

/-- tab completion only ever extends what the user typed before the cursor to a prefix of something
inserted, puts the cursor right after it and keeps what was after the cursor: the new line is
`c ++ line.drop pos` with `line.take pos <+: c`, `c` a prefix of an inserted word and the new cursor `c.length` -/
theorem C20.complete_sound (ws : List (List UInt8)) (line s : List UInt8) (pos n : Nat)
    (h : complete (build ws) line pos = some (s, n)) :
    ∃ c, s = c ++ line.drop pos ∧ n = c.length ∧ line.take pos <+: c ∧ ∃ w ∈ ws, c <+: w := by
  generalize htyped : line.take pos = typed at h
  have hs := allBytes_spec (pfx (build ws) typed) typed (wf_pfx _ _ (wf_build ws))
  have hp := C20.prefixAll_spec ws typed
  unfold complete at h
  rw [htyped] at h
  unfold prefixAll at h hp
  generalize hr : allBytes (pfx (build ws) typed) typed = r at h hs hp
  obtain ⟨l, cs⟩ := r
  cases cs with
  | nil => simp at h
  | cons c rest =>
    simp at h
    obtain ⟨rfl, rfl⟩ := h
    have hc : c ∈ c :: rest := by simp
    obtain ⟨hcws, _, ⟨w, rfl⟩⟩ := (hp.1 c).1 hc
    have hnn : (pfx (build ws) typed).isNil = false := by
      cases hn : (pfx (build ws) typed).isNil
      · rfl
      · have : allBytes (pfx (build ws) typed) typed = (0, []) := by
          cases ht : pfx (build ws) typed <;> simp_all [T.isNil, allBytes]
        rw [this] at hr; cases hr
    have hge : typed.length ≤ l := hs.ge hnn
    have hle : l ≤ (typed ++ w).length := ((hs.lcp (by simp)).1 _ hc _ hc).1
    refine ⟨(typed ++ w).take l, rfl, ?_, ?_, typed ++ w, hcws, List.take_prefix _ _⟩
    · rw [List.length_take]; omega
    · rw [List.take_append, List.take_of_length_le hge]
      exact List.prefix_append _ _

/-- with the cursor at the end of the line (the usual case): the new line extends the whole line -/
theorem C20.complete_sound_at_end (ws : List (List UInt8)) (typed s : List UInt8) (n : Nat)
    (h : complete (build ws) typed typed.length = some (s, n)) :
    typed <+: s ∧ n = s.length ∧ ∃ w ∈ ws, s <+: w := by
  obtain ⟨c, rfl, rfl, hpre, hw⟩ := C20.complete_sound ws typed _ _ _ h
  simp at hpre ⊢
  exact ⟨hpre, hw⟩

/-! ### non-vacuity: a concrete history where a word ends on an inner node, and a mixed one -/

example : contains (build [[97, 98], [97]]) [97] = true := by decide
example : (prefixAll (build [[97, 98], [97], [98]]) [97]) = (1, [[97], [97, 98]]) := by decide
example : complete (build [[112, 114, 40], [112, 114, 105]]) [112] 1 = some ([112, 114], 2) := by decide
-- the cursor inside the line: `p|xy` becomes `pr|xy`
example : complete (build [[112, 114, 40], [112, 114, 105]]) [112, 120, 121] 1 = some ([112, 114, 120, 121], 2) := by decide

end Grol.Trie

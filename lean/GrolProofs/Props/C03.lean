import GrolProofs.Props.C02
import GrolProofs.PrintFrame
import GrolProofs.PrintNewline
import GrolProofs.ParseEnd
/-
C03 — formatting is a deterministic fixpoint.

(1) idempotence is stated relative to a lexer, like C02; it is FALSE of the code as it stands for the
    same recorded classes (the C03 entries of known_findings.json; their witnesses are replayed by the
    `format03` suite on every run) and is not proved on their complement here.
(2) history independence: the model of the front end has NO interning table — tokens are compared
    by value (type, literal) everywhere (`Tk`), the parse result is a function of the token stream
    (`Parser.parseProgram`), and the printed bytes are a function of the tree and the two mode flags
    (`Printer.printProgram`); that the Go code behaves like this model whatever was parsed before is
    what the suite checks (every 40th case is formatted again after `token.Init()`).
(3) normal-mode output ends with a newline: PROVED for every tree (`ends_with_newline`, from the frame
    lemma `printNode_frame`: every PrettyPrint method preserves indentation level and compact flag).
    "Exactly one" is PROVED too (`exactly_one_newline`) under the lexer fact, stated as a decidable
    hypothesis on the tree (`Printer.endOKL`): the literal of every token a node prints last (identifier,
    number, keyword, comment, operator of a postfix / open-ended `n:` node, `return`) is non-empty and
    does not end in a newline.  `exactly_one_newline_parsed` discharges that hypothesis for every tree the PARSER
    returns, from a fact about the token stream only (`Parser.LitFact`: identifiers, numbers, keywords, line
    comments and operators have a non-empty literal that does not end in a newline; a block comment needs no
    fact, the parser checks that it ends in `*/`).  `LitFact` itself is evaluated on every stream of the real
    lexer (`litFactB`, sound by `litFact_of_b`); deriving it from the lexer model is not done here.
-/
namespace Grol.C03
open Grol Grol.Wire Grol.Parser Grol.Printer Grol.Generated

/-- idempotence at one source text: formatting the formatted text gives the same bytes -/
def IdempotentAt (lex : Bytes → TokStream) (tbl : Nat → Bool) (fuel : Nat) (src : Bytes) (compact : Bool) : Prop :=
  ∀ prog, C02.valid (parseProgram (lex src) fuel) = some prog →
    ∃ out prog', printProgram tbl prog compact false = .ok out ∧
      C02.valid (parseProgram (lex out) fuel) = some prog' ∧ printProgram tbl prog' compact false = .ok out

def oneNewline (out : Bytes) : Bool :=
  match out.reverse with
  | 10 :: 10 :: _ => false
  | 10 :: _ => true
  | _ => false

def Statement (lex : Bytes → TokStream) (tbl : Nat → Bool) : Prop :=
  ∀ src, ∃ fuel, (∀ compact, IdempotentAt lex tbl fuel src compact) ∧
    ∀ prog, C02.valid (parseProgram (lex src) fuel) = some prog →
      ∀ out, printProgram tbl prog false false = .ok out → oneNewline out = true

/-- (3), first half: for EVERY tree and both all-parens settings, successful normal-mode printing of a
program ends with a newline -/
theorem ends_with_newline (tbl : Nat → Bool) (prog : NList) (allParens : Bool) (out : Bytes)
    (h : printProgram tbl prog false allParens = .ok out) : out.getLast? = some 10 :=
  printProgram_ends_with_newline tbl prog allParens out h

/-- (3), second half: given the lexer fact that the token literals a node prints last are non-empty and do not
end in a newline (`Printer.endOKL prog`, a decidable predicate on the tree), the normal-mode text is
`body ++ "\n"` with `body` not ending in a newline: exactly one trailing newline -/
theorem exactly_one_newline (tbl : Nat → Bool) (prog : NList) (allParens : Bool) (out : Bytes)
    (h : printProgram tbl prog false allParens = .ok out) (he : endOKL prog = true) :
    ∃ body, out = body ++ [10] ∧ body.getLast? ≠ some 10 :=
  printProgram_exactly_one_newline tbl prog allParens out h he

/-- (3) for PARSED programs: whatever the parser returns for a token stream satisfying the lexer fact `LitFact`
(tokens of the kinds a node can print last — identifiers, numbers, keywords, line comments, operators — have a
non-empty literal not ending in a newline; decided by `Parser.litFactB`, which the driver evaluates on every
stream of the real lexer) prints, in normal mode, as `body ++ "\n"` with `body` not ending in a newline.
No hypothesis on the tree is left. -/
theorem exactly_one_newline_parsed (tbl : Nat → Bool) (s : TokStream) (hl : LitFact s) (fuel : Nat) (r : ParseResult)
    (hp : parseProgram s fuel = .ok r) (allParens : Bool) (out : Bytes)
    (h : printProgram tbl r.program false allParens = .ok out) :
    ∃ body, out = body ++ [10] ∧ body.getLast? ≠ some 10 :=
  exactly_one_newline tbl r.program allParens out h (parseProgram_endOK s hl fuel r hp)

/-- history independence of the model, in the only form it can take there: parsing and printing
are functions (no state survives between two calls) -/
theorem model_is_stateless (tbl : Nat → Bool) (s₁ s₂ : TokStream) (fuel : Nat) (compact allParens : Bool)
    (h : s₁ = s₂) :
    (match parseProgram s₁ fuel with | .ok r => some (printProgram tbl r.program compact allParens) | _ => none) =
    (match parseProgram s₂ fuel with | .ok r => some (printProgram tbl r.program compact allParens) | _ => none) := by
  subst h; rfl

/-- (1) on the fragment of `C02.roundtrip_partial` (every node kind except comments, outside the recorded classes),
relative to `C02.PrintLex` (lexing the printed bytes of a fragment program gives its token rendering — the link the
`printtokens` suite checks on the real printer and lexer): the formatted text of a fragment program is a FIXPOINT of
formatting — it parses (for every sufficiently large fuel) to a program whose formatted text is the same bytes.  The
shape of `IdempotentAt` with the fuel of the second parse chosen large enough; corollary of the round trip (the re-parsed
program is the original). -/
theorem idempotent_partial_lex (lex : Bytes → TokStream) (tbl : Nat → Bool) (hlex : C02.PrintLex lex tbl)
    (prog : NList) (compact : Bool) (hfrag : PrintTokens.fragProg compact false prog = true) :
    ∃ out, printProgram tbl prog compact false = .ok out ∧
      ∃ F, ∀ fuel', F ≤ fuel' → ∃ prog', C02.valid (parseProgram (lex out) fuel') = some prog' ∧
        printProgram tbl prog' compact false = .ok out := by
  obtain ⟨out, hout, hk⟩ := hlex compact prog hfrag
  obtain ⟨F, hF⟩ := C02.roundtrip_partial compact false prog hfrag (lex out) hk
  exact ⟨out, hout, F, fun fuel' h => ⟨prog, by rw [hF fuel' h]; rfl, hout⟩⟩

/-- the same at the token level, with no lexer: formatting, rendering as tokens and parsing any number of times stays
at the same program and the same bytes (`n` passes) -/
theorem idempotent_tokens (tbl : Nat → Bool) (prog : NList) (compact : Bool)
    (hfrag : PrintTokens.fragProg compact false prog = true) (out : Bytes) (hout : printProgram tbl prog compact false = .ok out) :
    ∃ F, ∀ fuel, F ≤ fuel → ∀ r, parseProgram (PrintTokens.streamOf (PrintTokens.progToks compact false prog)) fuel = .ok r →
      printProgram tbl r.program compact false = .ok out := by
  obtain ⟨F, hF⟩ := C02.roundtrip_streamOf compact false prog hfrag
  refine ⟨F, fun fuel h r hr => ?_⟩
  rw [hF fuel h] at hr
  cases hr
  exact hout

/-- `a; -b`: the formatted text `a⏎-b⏎` parses to ONE statement, whose formatting is `a - b⏎` (replayed on
the real code by the `format03` known-finding witness) -/
theorem witness_not_idempotent :
    (C02.progOf C02.stmtPrefix.src).length = 2 ∧ (C02.progOf C02.stmtPrefix.normal).length = 1 := by
  decide

end Grol.C03

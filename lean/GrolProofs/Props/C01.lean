import GrolProofs.EvalOps
/-
C01 — evaluation agrees with the language's reference semantics.

The evaluator model `Grol.E` run with `cacheOn := false` (no memoization, no registers, value
semantics for containers) IS the reference evaluator: the implementation is compared with it on
every generated program by the `eval` correspondence suite, in the default configuration and in
the three others.  The theorems here pin down the documented operator semantics of that
reference (64-bit wrap-around, truncating division, shifts, error cases); agreement for whole
programs rests on the correspondence run, not on a theorem.
-/
namespace Grol.E

/-- `+ - *` are 64-bit wrap-around operations -/
theorem C01.int_arith (l r : Int64) (st : St) :
    outcome (evalIntegerInfix "PLUS" l r) st = .ok (.int (l + r))
    ∧ outcome (evalIntegerInfix "MINUS" l r) st = .ok (.int (l - r))
    ∧ outcome (evalIntegerInfix "ASTERISK" l r) st = .ok (.int (l * r)) :=
  ⟨rfl, rfl, rfl⟩

theorem C01.int_arith_wraps (l r : Int64) :
    (l + r).toBitVec = l.toBitVec + r.toBitVec ∧ (l * r).toBitVec = l.toBitVec * r.toBitVec :=
  ⟨Int64.toBitVec_add, Int64.toBitVec_mul⟩

/-- division and modulo: error on a zero divisor, otherwise Go's truncating `/` and `%` -/
theorem C01.int_div (l r : Int64) (st : St) :
    outcome (evalIntegerInfix "SLASH" l r) st = .ok (if r = 0 then err "division by zero" else .int (l / r))
    ∧ outcome (evalIntegerInfix "PERCENT" l r) st = .ok (if r = 0 then err "division by zero" else .int (l % r)) := by
  constructor <;> (unfold evalIntegerInfix; simp only []; split <;> simp_all [outcome_pure])

theorem C01.int_div_truncates (l r : Int64) :
    (l / r).toBitVec = l.toBitVec.sdiv r.toBitVec ∧ (l % r).toBitVec = l.toBitVec.srem r.toBitVec :=
  ⟨Int64.toBitVec_div, Int64.toBitVec_mod⟩

/-- shifts: negative count is an error, a count of 64 or more gives 0 -/
theorem C01.shifts (l r : Int64) (st : St) :
    outcome (evalIntegerInfix "LEFTSHIFT" l r) st =
      .ok (if r < 0 then err "negative shift count" else if r ≥ 64 then .int 0 else .int (l <<< r)) := by
  unfold evalIntegerInfix
  simp only []
  split
  · rfl
  · split <;> rfl

/-- unary operators -/
theorem C01.prefix_ops (v : Int64) :
    evalPrefixOp "MINUS" (.int v) = .int (-v) ∧ evalPrefixOp "BITNOT" (.int v) = .int (~~~v)
    ∧ evalPrefixOp "PLUS" (.int v) = .int v ∧ evalPrefixOp "BANG" (.bool true) = .bool false
    ∧ evalPrefixOp "BANG" .null = .bool true :=
  ⟨rfl, rfl, rfl, rfl, rfl⟩

/-- negative indices count from the end; out of range is nil -/
theorem C01.array_index (els : List Obj) (i : Nat) (h : i < els.length) (hl : els.length < 2 ^ 62) :
    arrayIndex els (Int64.ofNat i) = els.getD i .null := by
  unfold arrayIndex
  have h1 : ¬ (Int64.ofNat i < 0) := by
    rw [Int64.lt_iff_toInt_lt]
    have : (Int64.ofNat i).toInt = i := by
      rw [Int64.toInt_ofNat_of_lt] ; omega
    simp [this]
  have h2 : (Int64.ofNat i).toInt = i := by
    rw [Int64.toInt_ofNat_of_lt]; omega
  simp only [h1, if_false, h2]
  have : ¬ ((i : Int) < 0 ∨ (i : Int) > (els.length : Int) - 1) := by omega
  simp [this]

end Grol.E

import GrolProofs.Props.C03
import GrolProofs.LexStream
/-
C03, composed with the lexer model: "normal-mode output ends with exactly one newline" with no
hypothesis left — the token stream is the one the lexer MODEL produces from the source bytes
(`LexStream.tokStream`, both modes, any classification `nc` of number literals), and the lexer fact
`Parser.LitFact` is the theorem `LexStream.lexer_litFact`.
-/
namespace Grol.C03
open Grol Grol.Wire Grol.Parser Grol.Printer Grol.Generated

/-- every program the parser returns on the token stream of ANY source bytes (either lexer mode)
prints, in normal mode, as `body ++ "\n"` with `body` not ending in a newline -/
theorem exactly_one_newline_lexed (tbl : Nat → Bool) (nc : Grol.Token.Tok → NumClass) (input : Array UInt8)
    (lineMode : Bool) (fuel : Nat) (r : ParseResult)
    (hp : parseProgram (LexStream.tokStream nc input lineMode) fuel = .ok r) (allParens : Bool) (out : Bytes)
    (h : printProgram tbl r.program false allParens = .ok out) :
    ∃ body, out = body ++ [10] ∧ body.getLast? ≠ some 10 :=
  exactly_one_newline_parsed tbl (LexStream.tokStream nc input lineMode)
    (LexStream.lexer_litFact nc input lineMode) fuel r hp allParens out h

end Grol.C03

import GrolProofs.EnvConst
/-
C19 — constants cannot be changed by any path.

`C19.Statement` is the whole-evaluator invariant.  Proved here, for ALL states of the model:
 (1) `createOrSet_constant_refused` (GrolProofs/EnvConst.lean): the checking setter on a bound constant
     with a non-equal value returns an error and changes no value in any frame; `envGet_sameValues`
     states exactly what `Get` may change (reference entries and miss counters, never a value).
 (2) frame lemmas: writes to another name leave the entries of `N` untouched (store level and
     `create`); see also GrolProofs/Props/C06.lean.
 (3) writer lemmas (`ViaSet`): `evalPrefixIncrDecr`, `evalPostfix`, `evalIndexAssignment`,
     `deleteMapEntry` on the identifier `N` change the state only through `Get` (no value change) and
     through ONE final `envSet cur N nv` (= `createOrSet … false`), to which (1) applies.
NOT proved: the same lemma for the loop variable of `evalForInteger`/`evalForList` and for
`extendFunctionEnv` (they live in / use the mutual fuel-recursive block and `for` loops), the
`Keeps` property of `setNoChecks` on the success path, and therefore the induction over the
evaluator (`C19.Statement`), which stays a statement.
-/
namespace Grol.E

/-- `N` reads (through `Get` + dereference) as `v` or as an error/stop in state `st` from frame `e` -/
def ReadsAs (st : St) (e : Nat) (N : String) (v : Obj) : Prop :=
  match (run (do let r ← envGet e N; match r with | some o => valueOf o | none => pure (Obj.error "identifier not found")) st).1 with
  | .ok o => o.isError = true ∨ equals o v = .ok true
  | .error _ => True

/-- the program contains no `del(…)` at all -/
inductive DelFree : Node → Prop
  | ident (n) : DelFree (.ident n)
  | int (v) : DelFree (.int v)
  | float (b) : DelFree (.float b)
  | str (s) : DelFree (.str s)
  | bool (b) : DelFree (.bool b)
  | none : DelFree .none
  | ctl (k) : DelFree (.ctl k)
  | comment : DelFree .comment
  | post (op n) : DelFree (.post op n)
  | pre (op) {r} : DelFree r → DelFree (.pre op r)
  | inf (op) {l r} : DelFree l → DelFree r → DelFree (.inf op l r)
  | stmts {l} : (∀ x ∈ l, DelFree x) → DelFree (.stmts l)
  | ifE {c a b} : DelFree c → DelFree a → DelFree b → DelFree (.ifE c a b)
  | forE {c b} : DelFree c → DelFree b → DelFree (.forE c b)
  | ret {v} : DelFree v → DelFree (.ret v)
  | builtin (name) {ps} : name ≠ "DEL" → (∀ x ∈ ps, DelFree x) → DelFree (.builtin name ps)
  | fn (name params variadic lambda key) {body} : DelFree body → DelFree (.fn name params variadic lambda key body)
  | call {f args} : DelFree f → (∀ x ∈ args, DelFree x) → DelFree (.call f args)
  | arr {els} : (∀ x ∈ els, DelFree x) → DelFree (.arr els)
  | mapLit {ks vs} : (∀ x ∈ ks, DelFree x) → (∀ x ∈ vs, DelFree x) → DelFree (.mapLit ks vs)
  | idx (tok) {l i} : DelFree l → DelFree i → DelFree (.idx tok l i)

/-- the whole-evaluator invariant (NOT proved, see the header): for every `del`-free program, every
constant name `N` and every state (in which no stored function body contains a `del` either — the
hypothesis `hst`), if `N` reads as `v` from the current scope before the evaluation, it reads as `v`
(or as an error) from the same scope after it -/
def C19.Statement : Prop :=
  ∀ (fuel : Nat) (prog : Node) (N : String) (v : Obj) (st : St),
    isConstant N = true → DelFree prog →
    (∀ (e : Nat) (f : Frame) (name : String) (fn : FuncVal), st.frames[e]? = some f → lookupStore f.store name = some (.func fn) → DelFree fn.body) →
    ReadsAs st st.cur N v → ReadsAs (run (eval fuel prog) st).2 st.cur N v

/-! ### writers go through the checking setter -/

/-- the state effect of `x` is: value-preserving steps, optionally followed by one `envSet e N nv`
issued from a value-equivalent state -/
def ViaSet (e : Nat) (N : String) (x : M α) : Prop :=
  ∀ st, SameValues st (run x st).2 ∨
    ∃ st1 nv, SameValues st st1 ∧ (run x st).2 = (run (envSet e N nv) st1).2

def SvOnly (x : M α) : Prop := ∀ st, SameValues st (run x st).2

theorem SvOnly.of_readOnly {x : M α} (h : ReadOnly x) : SvOnly x := by
  intro st; rw [h st]; exact SameValues.refl _

theorem ViaSet.of_sv {e : Nat} {N : String} {x : M α} (h : SvOnly x) : ViaSet e N x := fun st => .inl (h st)

theorem ViaSet.pure (e : Nat) (N : String) (a : α) : ViaSet e N (pure a : M α) := fun st => .inl (SameValues.refl _)

theorem ViaSet.bind_sv {e : Nat} {N : String} {x : M α} {f : α → M β} (hx : SvOnly x) (hf : ∀ a, ViaSet e N (f a)) :
    ViaSet e N (x >>= f) := by
  intro st
  rw [run_bind]
  have h1 := hx st
  split
  next a st' heq =>
    rw [heq] at h1
    rcases hf a st' with h | ⟨st1, nv, hs, hr⟩
    · exact .inl (h1.trans h)
    · exact .inr ⟨st1, nv, h1.trans hs, hr⟩
  next err st' heq => rw [heq] at h1; exact .inl h1

/-- a final `envSet e N nv`, whose result is then only inspected -/
theorem ViaSet.set_then {e : Nat} {N : String} (nv : Obj) {f : Obj → M β} (hf : ∀ a, ReadOnly (f a)) :
    ViaSet e N (envSet e N nv >>= f) := by
  intro st
  refine .inr ⟨st, nv, SameValues.refl _, ?_⟩
  rw [run_bind]
  split
  next a st' heq => rw [hf a st', heq]
  next err st' heq => rw [heq]

/-- `ViaSet` at one state; a read-only prefix (dereferencing the operands) does not matter -/
theorem via_bind_ro {e : Nat} {N : String} {x : M α} {f : α → M β} {st : St} (hx : ReadOnly x)
    (hf : ∀ a, SameValues st (run (f a) st).2 ∨
      ∃ st1 nv, SameValues st st1 ∧ (run (f a) st).2 = (run (envSet e N nv) st1).2) :
    SameValues st (run (x >>= f) st).2 ∨
      ∃ st1 nv, SameValues st st1 ∧ (run (x >>= f) st).2 = (run (envSet e N nv) st1).2 := by
  rw [run_bind]
  have h := hx st
  split
  next a st' heq => rw [heq] at h; simp only at h; subst h; exact hf a
  next err st' heq => rw [heq] at h; simp only at h; subst h; exact .inl (SameValues.refl _)

theorem svOnly_envGet (e : Nat) (N : String) : SvOnly (envGet e N) := envGet_sameValues e N

theorem svOnly_noteHazard (c : Bool) (k n : String) : SvOnly (noteHazard c k n) := by
  intro st
  unfold noteHazard
  split
  · exact ⟨rfl, fun _ _ => rfl, fun _ => rfl, rfl, rfl, rfl, rfl⟩
  · exact SameValues.refl _

theorem readOnly_isErrorSelect (a b : Obj) (oerr : Obj) :
    ReadOnly (if oerr.isError = true then (Pure.pure a : M Obj) else Pure.pure b) := by
  split <;> exact ReadOnly.pure _

/-- **C19 (3a)** `++N` / `--N` -/
theorem evalPrefixIncrDecr_via (op N : String) (e : Nat) :
    ViaSet e N (do
      match ← envGet e N with
      | none => Pure.pure (err ("identifier not found: " ++ N))
      | some val =>
        let val ← valueOf val
        match incrValue val (if op == "DECR" then -1 else 1) with
        | some nv => envSet e N nv
        | none => Pure.pure (err "can't prefix increment/decrement")) := by
  refine ViaSet.bind_sv (svOnly_envGet _ _) fun r => ?_
  split
  · exact ViaSet.pure _ _ _
  · refine ViaSet.bind_sv (SvOnly.of_readOnly (readOnly_valueOf _)) fun v => ?_
    split
    · next nv _ =>
      intro st
      exact .inr ⟨st, nv, SameValues.refl _, rfl⟩
    · exact ViaSet.pure _ _ _

theorem evalPrefixIncrDecr_eq (op N : String) (st : St) :
    run (evalPrefixIncrDecr op (.ident N)) st = run (do
      match ← envGet st.cur N with
      | none => Pure.pure (err ("identifier not found: " ++ N))
      | some val =>
        let val ← valueOf val
        match incrValue val (if op == "DECR" then -1 else 1) with
        | some nv => envSet st.cur N nv
        | none => Pure.pure (err "can't prefix increment/decrement")) st := by
  unfold evalPrefixIncrDecr curEnv
  simp only [bind_assoc, pure_bind]
  rw [run_bind, run_get]
  rfl

/-- **C19 (3a)** as a statement about the evaluator's function: whatever the state, `++N`/`--N` changes it
only through `Get` and one `envSet cur N nv` -/
theorem evalPrefixIncrDecr_writes_via_set (op N : String) (st : St) :
    SameValues st (run (evalPrefixIncrDecr op (.ident N)) st).2 ∨
    ∃ st1 nv, SameValues st st1 ∧
      (run (evalPrefixIncrDecr op (.ident N)) st).2 = (run (envSet st.cur N nv) st1).2 := by
  rw [evalPrefixIncrDecr_eq]
  exact evalPrefixIncrDecr_via op N st.cur st

theorem run_curEnv_bind (f : Nat → M β) (st : St) : run (curEnv >>= f) st = run (f st.cur) st := by
  unfold curEnv
  simp only [bind_assoc, pure_bind]
  rw [run_bind, run_get]

/-- **C19 (3b)** `N++` / `N--` -/
theorem evalPostfix_writes_via_set (op N : String) (st : St) :
    SameValues st (run (evalPostfix op N) st).2 ∨
    ∃ st1 nv, SameValues st st1 ∧ (run (evalPostfix op N) st).2 = (run (envSet st.cur N nv) st1).2 := by
  unfold evalPostfix
  rw [run_curEnv_bind]
  refine (?_ : ViaSet st.cur N _) st
  refine ViaSet.bind_sv (svOnly_envGet _ _) fun r => ?_
  split
  · exact ViaSet.pure _ _ _
  · refine ViaSet.bind_sv (SvOnly.of_readOnly (readOnly_valueOf _)) fun v => ?_
    dsimp only
    split
    · exact ViaSet.pure _ _ _
    · split
      · exact ViaSet.pure _ _ _
      · exact ViaSet.set_then _ fun oerr => by split <;> exact ReadOnly.pure _

/-- **C19 (3c)** `N[i] = v`, `N.k = v` -/
theorem evalIndexAssignment_writes_via_set (N : String) (index value : Obj) (st : St) :
    SameValues st (run (evalIndexAssignment (.ident N) index value) st).2 ∨
    ∃ st1 nv, SameValues st st1 ∧
      (run (evalIndexAssignment (.ident N) index value) st).2 = (run (envSet st.cur N nv) st1).2 := by
  unfold evalIndexAssignment
  refine via_bind_ro (readOnly_valueOf _) fun index => ?_
  refine via_bind_ro (readOnly_valueOf _) fun value => ?_
  dsimp only
  rw [run_curEnv_bind]
  refine (?_ : ViaSet st.cur N _) st
  refine ViaSet.bind_sv (svOnly_envGet _ _) fun r => ?_
  split
  · exact ViaSet.pure _ _ _
  · refine ViaSet.bind_sv (SvOnly.of_readOnly (readOnly_valueOf _)) fun v => ?_
    split
    · try dsimp only
      repeat' split
      all_goals first
        | exact ViaSet.pure _ _ _
        | (refine ViaSet.bind_sv (SvOnly.of_readOnly (fun _ => rfl)) fun _ => ?_
           refine ViaSet.bind_sv (svOnly_noteHazard _ _ _) fun _ => ?_
           exact ViaSet.set_then _ fun oerr => by split <;> exact ReadOnly.pure _)
    · refine ViaSet.bind_sv (SvOnly.of_readOnly (fun _ => rfl)) fun s => ?_
      refine ViaSet.bind_sv (SvOnly.of_readOnly (ReadOnly.liftR _)) fun x => ?_
      obtain ⟨big', kvs'⟩ := x
      dsimp only
      refine ViaSet.bind_sv (svOnly_noteHazard _ _ _) fun _ => ?_
      exact ViaSet.set_then _ fun oerr => by split <;> exact ReadOnly.pure _
    · exact ViaSet.pure _ _ _

/-- **C19 (3d)** `del(N[i])`, `del(N.k)` -/
theorem deleteMapEntry_writes_via_set (N : String) (index : Obj) (st : St) :
    SameValues st (run (deleteMapEntry (.ident N) index) st).2 ∨
    ∃ st1 nv, SameValues st st1 ∧
      (run (deleteMapEntry (.ident N) index) st).2 = (run (envSet st.cur N nv) st1).2 := by
  unfold deleteMapEntry
  rw [run_curEnv_bind]
  refine (?_ : ViaSet st.cur N _) st
  refine ViaSet.bind_sv (svOnly_envGet _ _) fun r => ?_
  split
  · exact ViaSet.pure _ _ _
  · split
    · refine ViaSet.bind_sv (SvOnly.of_readOnly (ReadOnly.liftR _)) fun x => ?_
      split
      · exact ViaSet.pure _ _ _
      · refine ViaSet.bind_sv (svOnly_noteHazard _ _ _) fun _ => ?_
        exact ViaSet.set_then _ fun oerr => by split <;> exact ReadOnly.pure _
    · exact ViaSet.pure _ _ _

/-- **C19 (1)+(3)** combined for the index writers: if the setter they end in finds the constant bound to a
non-equal value, the write is refused and no value changed since `st1` -/
theorem C19.final_set_refused (e : Nat) (N : String) (nv old : Obj) (st1 st2 : St)
    (hc : isConstant N = true) (hget : run (envGet e N) st1 = (.ok (some old), st2)) (hne : NotEqualsIn st2 old nv) :
    SameValues st1 (run (envSet e N nv) st1).2 :=
  (createOrSet_constant_refused e N nv false st1 st2 old hc hget hne).2

/-- non-vacuity of (1): in the state after `FOO = 3` at top level, `FOO = 4` is refused -/
example :
    let st0 : St := { frames := #[{ store := [("FOO", .int 3)] }] }
    (run (createOrSet 0 "FOO" (.int 4) false) st0).1 = .ok (.error "attempt to change constant FOO") := by
  rfl

end Grol.E
